/-
  Line-protocol driver: one command per input line, one answer line per command.
    sel SIGHEX SELHEX            register a method selector (SHA-512/256 is uninterpreted)
    teal ID HEX                  parse TEAL text (hex of utf-8)          → ok N | perr …
    prog ID SEXP                 parse a source recipe                   → ok | perr
    ctx ID SEXP                  parse a context                         → ok | perr
    exec TID CID FUEL [slots]    run TEAL on context                     → outcome
    eval PID CID FUEL [slots]    evaluate recipe on context              → outcome
    cmp PID TID CID FUEL         both, compared                          → agree CLS | differ SRC ## AVM | skip WHY
    cmpt TID1 TID2 CID FUEL      two TEAL programs compared (with slots) → agree CLS | differ … | skip
-/
import PyTealV
import PyTealV.Cmd
import PyTealV.Avm.Trace
import PyTealV.Check.Validate
import PyTealV.Check.ValidateProg
open PyTealV PyTealV.Avm

structure DState where
  sels : List (Bytes × Bytes) := []
  teals : List (String × Program) := []
  progs : List (String × Src.Prog) := []
  ctxs : List (String × (Ctx × World)) := []

def lookup {α} (l : List (String × α)) (k : String) : Option α := (l.find? (·.1 == k)).map (·.2)

def restAfter (line : String) (n : Nat) : String :=
  -- the text after the first n space-separated words
  let rec go : List Char → Nat → List Char
    | cs, 0 => cs
    | [], _ => []
    | c :: cs, k+1 => if c = ' ' then go cs k else go cs (k+1)
  String.ofList (go line.toList n)

def handle (st : DState) (line : String) : DState × String :=
  match line.splitOn " " with
  | ["sel", sig, sel] =>
    match Util.unhex sig, Util.unhex sel with
    | some a, some b => ({ st with sels := (a, b) :: st.sels }, "ok")
    | _, _ => (st, "perr bad hex")
  | ["teal", id, h] =>
    match Util.unhex h with
    | some bs =>
      match String.fromUTF8? (ByteArray.mk bs.toArray) with
      | some text =>
        let r := parse st.sels text
        if r.errors.isEmpty then
          ({ st with teals := (id, r.prog) :: st.teals.filter (·.1 != id) }, s!"ok {r.prog.size}")
        else (st, "perr " ++ " | ".intercalate r.errors)
      | none => (st, "perr not utf-8")
    | none => (st, "perr bad hex")
  | "prog" :: id :: _ =>
    match (Sexp.parse (restAfter line 2)).bind Recipe.prog? with
    | some p => ({ st with progs := (id, p) :: st.progs.filter (·.1 != id) }, "ok")
    | none => (st, "perr bad recipe")
  | "ctx" :: id :: _ =>
    match (Sexp.parse (restAfter line 2)).bind Recipe.ctx? with
    | some c => ({ st with ctxs := (id, c) :: st.ctxs.filter (·.1 != id) }, "ok")
    | none => (st, "perr bad ctx")
  | "exec" :: tid :: cid :: fuel :: opt =>
    match lookup st.teals tid, lookup st.ctxs cid, Util.parseNat fuel with
    | some p, some (cx, w), some f => (st, Compare.showOutcome (opt == ["slots"]) (run cx p f w))
    | _, _, _ => (st, "perr unknown id")
  | "eval" :: pid :: cid :: fuel :: opt =>
    match lookup st.progs pid, lookup st.ctxs cid, Util.parseNat fuel with
    | some p, some (cx, w), some f => (st, Compare.showOutcome (opt == ["slots"]) (Src.runProg cx p f w))
    | _, _, _ => (st, "perr unknown id")
  | ["cmp", pid, tid, cid, fuel] =>
    match lookup st.progs pid, lookup st.teals tid, lookup st.ctxs cid, Util.parseNat fuel with
    | some sp, some tp, some (cx, w), some f =>
      let a := Src.runProg cx sp f w
      let b := run cx tp (f * 8) w
      match Compare.agree a b with
      | some true => (st, "agree " ++ Compare.clsName (Compare.cls a))
      | some false => (st, "differ " ++ Compare.showOutcome false a ++ " ## " ++ Compare.showOutcome false b)
      | none => (st, "skip " ++ Compare.clsName (Compare.cls a) ++ "/" ++ Compare.clsName (Compare.cls b)
                      ++ " " ++ Compare.showOutcome false a ++ " ## " ++ Compare.showOutcome false b)
    | _, _, _, _ => (st, "perr unknown id")
  | ["cmpt", t1, t2, cid, fuel] =>
    match lookup st.teals t1, lookup st.teals t2, lookup st.ctxs cid, Util.parseNat fuel with
    | some p1, some p2, some (cx, w), some f =>
      let a := run cx p1 f w
      let b := run cx p2 f w
      let same : Option Bool := match a, b with
        | .done v w1, .done v' w2 =>
          some (v == v' && w1.effects == w2.effects && Compare.userSlots w1 == Compare.userSlots w2)
        | .outOfFuel, _ | _, .outOfFuel => none
        | .fail (.unmodelled _), _ | _, .fail (.unmodelled _) => none
        | .fail _, .fail _ => some (Compare.cls a == Compare.cls b ||
            ((Compare.cls a == .failLogic || Compare.cls a == .failType) && (Compare.cls b == .failLogic || Compare.cls b == .failType)))
        | _, _ => some false
      match same with
      | some true => (st, "agree " ++ Compare.clsName (Compare.cls a))
      | some false => (st, "differ " ++ Compare.showOutcome true a ++ " ## " ++ Compare.showOutcome true b)
      | none => (st, "skip " ++ Compare.clsName (Compare.cls a) ++ "/" ++ Compare.clsName (Compare.cls b))
    | _, _, _, _ => (st, "perr unknown id")
  | ["cmpx", t1, t2, cid, fuel, slots, stacks] =>
    -- two TEAL programs: outcome, effects, user-numbered slots AND the stack at every routine exit
    match lookup st.teals t1, lookup st.teals t2, lookup st.ctxs cid, Util.parseNat fuel with
    | some p1, some p2, some (cx, w), some f =>
      let (a, ta) := runTraced cx p1 f { ms := { world := w } } {}
      let (b, tb) := runTraced cx p2 f { ms := { world := w } } {}
      let showStack (l : List Val) : String := "[" ++ " ".intercalate (l.map Compare.showVal) ++ "]"
      let ids : List Nat := if slots == "-" then [] else (slots.splitOn ",").filterMap Util.parseNat
      let pick (w : World) : List (Nat × Val) := ids.map (fun i => (i, getSlot w.scratch i))
      let same : Option Bool := match a, b with
        | .done v w1, .done v' w2 =>
          some (v == v' && w1.effects == w2.effects && pick w1 == pick w2)
        | .outOfFuel, _ | _, .outOfFuel => none
        | .fail (.unmodelled _), _ | _, .fail (.unmodelled _) => none
        | .fail _, .fail _ => some (Compare.cls a == Compare.cls b ||
            ((Compare.cls a == .failLogic || Compare.cls a == .failType) && (Compare.cls b == .failLogic || Compare.cls b == .failType)))
        | _, _ => some false
      match same with
      | some true =>
        (match a with
         | .done _ _ =>
           if stacks != "1" || (ta.final == tb.final && exitsAgree ta.exits tb.exits) then (st, "agree " ++ Compare.clsName (Compare.cls a))
           else (st, "stackdiffer final " ++ showStack ta.final ++ " ## " ++ showStack tb.final ++
                     s!" exits {ta.exits.length}/{tb.exits.length}")
         | _ => (st, "agree " ++ Compare.clsName (Compare.cls a)))
      | some false => (st, "differ " ++ Compare.showOutcome true a ++ " ## " ++ Compare.showOutcome true b)
      | none => (st, "skip " ++ Compare.clsName (Compare.cls a) ++ "/" ++ Compare.clsName (Compare.cls b))
    | _, _, _, _ => (st, "perr unknown id")
  | ["validateprog", pid, tid, ver, fp] =>
    match lookup st.progs pid, lookup st.teals tid, Util.parseNat ver with
    | some sp, some tp, some v =>
      (match Check.validateProg v (fp == "1") sp tp with
       | .ok r => (st, s!"valid routines={r.routines} rel={r.relSize} slots={r.bindings} spilled={r.spilledCalls}")
       | .error e => (st, "invalid " ++ (e.replace "\n" " ")))
    | _, _, _ => (st, "perr unknown id")
  | ["fragmentr", pid, ver, fp] =>
    match lookup st.progs pid, Util.parseNat ver with
    | some sp, some v => (st, Cmd.C02Gen.answer sp v (fp == "1"))
    | _, _ => (st, "perr unknown id")
  | ["composed", pid, tid, ver, fp] =>
    match lookup st.progs pid, lookup st.teals tid, Util.parseNat ver with
    | some sp, some tp, some v => (st, Cmd.C02Gen.composedAnswer sp tp v (fp == "1"))
    | _, _, _ => (st, "perr unknown id")
  | ["genclass", pid, ver] =>
    match lookup st.progs pid, Util.parseNat ver with
    | some sp, some v =>
      (match Comp.genMain { version := v } sp.main with
       | .ok (g, _) => (st, s!"ok blocks={g.size}")
       | .error e => (st, "err " ++ e))
    | _, _ => (st, "perr unknown id")
  | ["validate", pid, tid, ver] =>
    match lookup st.progs pid, lookup st.teals tid, Util.parseNat ver with
    | some sp, some tp, some v =>
      (match Check.validateMain v sp.main tp with
       | .ok r => (st, s!"valid rel={r.relSize} blocks={r.blocks} slots={r.bindings.length} fragment={r.inFragment}")
       | .error e => (st, "invalid " ++ (e.replace "\n" " ")))
    | _, _, _ => (st, "perr unknown id")
  | cmd :: args =>
    match Cmd.dispatch cmd args with
    | some ans => (st, ans)
    | none => (st, "perr unknown command")
  | _ => (st, "perr unknown command")

partial def loop (h : IO.FS.Stream) (out : IO.FS.Stream) (st : DState) : IO Unit := do
  let line ← h.getLine
  if line.isEmpty then return ()
  let line := (line.dropEndWhile (fun c => c = '\n' || c = '\r')).toString
  if line.isEmpty then
    out.putStrLn ""
    loop h out st
  else
    let (st', ans) := handle st line
    out.putStrLn ans
    out.flush
    loop h out st'

def main : IO Unit := do
  loop (← IO.getStdin) (← IO.getStdout) {}
