/-
  ARC-4 codec — a *specification*, written from the ARC-4 standard ("Algorand Application
  Binary Interface", section "Encoding"), **not** from PyTeal.  It is validated on every run
  of the C19/C06/C07 checks against the reference codec `algosdk.abi`.

  Import-free (core Lean only): the native driver links this file and C06/C07/C19 share it.

  Universe (the part of ARC-4 that PyTeal supports plus all uint widths; `ufixedNxM` is not
  modelled):

      bool | byte | uintN (8 ≤ N ≤ 512, 8 ∣ N) | address | string
      | T[N] (static array) | T[] (dynamic array) | (T1,...,Tk) (tuple)

  The standard defines
    * `byte`    as an alias of `uint8`,
    * `address` as equivalent to `byte[32]`,
    * `string`  as a `byte[]` holding UTF-8,
    * `T[N]`    as the tuple of N copies of T,
    * `T[]`     as a uint16 element count followed by the encoding of `T[count]`,
  and the tuple encoding as `head(x1) … head(xk) tail(x1) … tail(xk)` where a static
  component sits in the head, a dynamic component sits in the tail and leaves its 2-byte
  big-endian offset (measured from the start of the tuple) in the head, and up to 8
  *consecutive* `bool` components share one head byte (most significant bit first).

  Values are untyped trees `V` (bool / natural number / sequence).  An address is the
  sequence of its 32 bytes, a string the sequence of its UTF-8 bytes – exactly the standard's
  "equivalent to byte[32] / byte[]".  `Ty.norm` rewrites the three aliases away; the theorem
  `encode_norm` (Proofs/Arc4.lean) shows that it does not change any encoding.
-/
namespace PyTealV.Arc4

abbrev Bytes := List UInt8

/-! ## Types and values -/

inductive Ty where
  | bool
  | byte
  | uint (bits : Nat)
  | address
  | string
  | sarray (elem : Ty) (len : Nat)
  | darray (elem : Ty)
  | tuple (fields : List Ty)
  deriving Repr, Inhabited

inductive V where
  | bool (b : Bool)
  | uint (n : Nat)
  | seq (vs : List V)
  deriving Repr, Inhabited

mutual
  def Ty.decEq : (a b : Ty) → Decidable (a = b)
    | .bool, .bool => isTrue rfl
    | .byte, .byte => isTrue rfl
    | .uint m, .uint n => if h : m = n then isTrue (by rw [h]) else isFalse (by intro e; cases e; exact h rfl)
    | .address, .address => isTrue rfl
    | .string, .string => isTrue rfl
    | .sarray e m, .sarray f n =>
      match Ty.decEq e f with
      | isTrue h₁ => if h₂ : m = n then isTrue (by rw [h₁, h₂]) else isFalse (by intro e; cases e; exact h₂ rfl)
      | isFalse h₁ => isFalse (by intro e; cases e; exact h₁ rfl)
    | .darray e, .darray f =>
      match Ty.decEq e f with
      | isTrue h => isTrue (by rw [h])
      | isFalse h => isFalse (by intro e; cases e; exact h rfl)
    | .tuple ts, .tuple us =>
      match Ty.decEqList ts us with
      | isTrue h => isTrue (by rw [h])
      | isFalse h => isFalse (by intro e; cases e; exact h rfl)
    | .bool, .byte | .bool, .uint _ | .bool, .address | .bool, .string | .bool, .sarray _ _
    | .bool, .darray _ | .bool, .tuple _
    | .byte, .bool | .byte, .uint _ | .byte, .address | .byte, .string | .byte, .sarray _ _
    | .byte, .darray _ | .byte, .tuple _
    | .uint _, .bool | .uint _, .byte | .uint _, .address | .uint _, .string | .uint _, .sarray _ _
    | .uint _, .darray _ | .uint _, .tuple _
    | .address, .bool | .address, .byte | .address, .uint _ | .address, .string
    | .address, .sarray _ _ | .address, .darray _ | .address, .tuple _
    | .string, .bool | .string, .byte | .string, .uint _ | .string, .address
    | .string, .sarray _ _ | .string, .darray _ | .string, .tuple _
    | .sarray _ _, .bool | .sarray _ _, .byte | .sarray _ _, .uint _ | .sarray _ _, .address
    | .sarray _ _, .string | .sarray _ _, .darray _ | .sarray _ _, .tuple _
    | .darray _, .bool | .darray _, .byte | .darray _, .uint _ | .darray _, .address
    | .darray _, .string | .darray _, .sarray _ _ | .darray _, .tuple _
    | .tuple _, .bool | .tuple _, .byte | .tuple _, .uint _ | .tuple _, .address
    | .tuple _, .string | .tuple _, .sarray _ _ | .tuple _, .darray _ => isFalse (by intro e; cases e)
  def Ty.decEqList : (as bs : List Ty) → Decidable (as = bs)
    | [], [] => isTrue rfl
    | [], _ :: _ => isFalse (by intro e; cases e)
    | _ :: _, [] => isFalse (by intro e; cases e)
    | a :: as, b :: bs =>
      match Ty.decEq a b, Ty.decEqList as bs with
      | isTrue h₁, isTrue h₂ => isTrue (by rw [h₁, h₂])
      | isFalse h₁, _ => isFalse (by intro e; cases e; exact h₁ rfl)
      | _, isFalse h₂ => isFalse (by intro e; cases e; exact h₂ rfl)
end
instance : DecidableEq Ty := Ty.decEq

mutual
  def V.decEq : (a b : V) → Decidable (a = b)
    | .bool a, .bool b => if h : a = b then isTrue (by rw [h]) else isFalse (by intro e; cases e; exact h rfl)
    | .uint a, .uint b => if h : a = b then isTrue (by rw [h]) else isFalse (by intro e; cases e; exact h rfl)
    | .seq as, .seq bs =>
      match V.decEqList as bs with
      | isTrue h => isTrue (by rw [h])
      | isFalse h => isFalse (by intro e; cases e; exact h rfl)
    | .bool _, .uint _ | .bool _, .seq _ | .uint _, .bool _ | .uint _, .seq _
    | .seq _, .bool _ | .seq _, .uint _ => isFalse (by intro e; cases e)
  def V.decEqList : (as bs : List V) → Decidable (as = bs)
    | [], [] => isTrue rfl
    | [], _ :: _ => isFalse (by intro e; cases e)
    | _ :: _, [] => isFalse (by intro e; cases e)
    | a :: as, b :: bs =>
      match V.decEq a b, V.decEqList as bs with
      | isTrue h₁, isTrue h₂ => isTrue (by rw [h₁, h₂])
      | isFalse h₁, _ => isFalse (by intro e; cases e; exact h₁ rfl)
      | _, isFalse h₂ => isFalse (by intro e; cases e; exact h₂ rfl)
end
instance : DecidableEq V := V.decEq

/-- a byte string as a value (used for `address`, `string`, `byte[]`, `byte[N]`) -/
def V.ofBytes (bs : Bytes) : V := .seq (bs.map (fun b => .uint b.toNat))

/-- legal widths of `uintN` -/
def uintOk (bits : Nat) : Bool := 8 ≤ bits && bits ≤ 512 && bits % 8 == 0

/-- every offset, element count and length prefix is a uint16 -/
def lim16 : Nat := 65536

/-! ## Small helpers -/

/-- `Option`-valued map (all elements must succeed) -/
def optMap {α β} (f : α → Option β) : List α → Option (List β)
  | [] => some []
  | a :: as =>
    match f a, optMap f as with
    | some b, some bs => some (b :: bs)
    | _, _ => none

/-- big-endian, exactly `w` bytes (high part truncated; callers check the range) -/
def beBytes : Nat → Nat → Bytes
  | 0, _ => []
  | w+1, v => beBytes w (v / 256) ++ [UInt8.ofNat (v % 256)]

def beNat (bs : Bytes) : Nat := bs.foldl (fun acc b => acc * 256 + b.toNat) 0

def u16 (n : Nat) : Bytes := beBytes 2 n

/-- value of a bit list, most significant first -/
def bitsNat : List Bool → Nat
  | [] => 0
  | b :: bs => (if b then 2 ^ bs.length else 0) + bitsNat bs

/-- the `w` low bits of `n`, most significant first -/
def natBits : Nat → Nat → List Bool
  | 0, _ => []
  | w+1, n => (n / 2 ^ w % 2 == 1) :: natBits w n

/-- one byte from at most 8 bits, msb first, zero padded on the right -/
def packByte (bits : List Bool) : UInt8 :=
  UInt8.ofNat (bitsNat (bits ++ List.replicate (8 - bits.length) false))

/-- a run of bools, 8 per byte -/
def packBits : Nat → List Bool → Bytes
  | 0, _ => []
  | fuel+1, bits => if bits.isEmpty then [] else packByte (bits.take 8) :: packBits fuel (bits.drop 8)

def pack (bits : List Bool) : Bytes := packBits bits.length bits

def unpack (bs : Bytes) : List Bool := bs.flatMap (fun b => natBits 8 b.toNat)

def ceil8 (n : Nat) : Nat := (n + 7) / 8

/-! ## Tuple layout (shared by tuples and both array kinds) -/

/-- how a component takes part in its parent's head -/
inductive Kind where
  | bit                 -- a `bool`: one bit of a shared byte
  | stat (len : Nat)    -- any other static type: `len` bytes in the head
  | dyn                 -- dynamic: 2-byte offset in the head, body in the tail
  deriving Repr, BEq, DecidableEq

/-- an encoded component, before assembly -/
inductive Part where
  | bit (b : Bool)
  | stat (bs : Bytes)
  | dyn (bs : Bytes)
  deriving Repr, BEq, DecidableEq

/-- components after merging each maximal run of consecutive bools -/
inductive Seg where
  | bits (run : List Bool)
  | stat (bs : Bytes)
  | dyn (bs : Bytes)
  deriving Repr, BEq, DecidableEq

/-- merge maximal runs of consecutive bits -/
def group : List Part → List Seg
  | [] => []
  | .bit b :: ps =>
    match group ps with
    | .bits run :: ss => .bits (b :: run) :: ss
    | ss => .bits [b] :: ss
  | .stat bs :: ps => .stat bs :: group ps
  | .dyn bs :: ps => .dyn bs :: group ps

def segHeadLen : List Seg → Nat
  | [] => 0
  | .bits run :: ss => ceil8 run.length + segHeadLen ss
  | .stat bs :: ss => bs.length + segHeadLen ss
  | .dyn _ :: ss => 2 + segHeadLen ss

/-- the head block; `off` is the offset of the next tail body -/
def heads : Nat → List Seg → Option Bytes
  | _, [] => some []
  | off, .bits run :: ss => (heads off ss).map (pack run ++ ·)
  | off, .stat bs :: ss => (heads off ss).map (bs ++ ·)
  | off, .dyn bs :: ss =>
    if off < lim16 then (heads (off + bs.length) ss).map (u16 off ++ ·) else none

def tails : List Seg → Bytes
  | [] => []
  | .bits _ :: ss => tails ss
  | .stat _ :: ss => tails ss
  | .dyn bs :: ss => bs ++ tails ss

/-- `enc((x1,…,xk)) = head(x1) … head(xk) tail(x1) … tail(xk)` -/
def assemble (ps : List Part) : Option Bytes :=
  let segs := group ps
  (heads (segHeadLen segs) segs).map (· ++ tails segs)

/-- kinds after merging bool runs (`bits k` = a run of k bools) -/
inductive GKind where
  | bits (k : Nat)
  | stat (n : Nat)
  | dyn
  deriving Repr, BEq, DecidableEq

def groupKinds : List Kind → List GKind
  | [] => []
  | .bit :: ks =>
    match groupKinds ks with
    | .bits k :: gs => .bits (k + 1) :: gs
    | gs => .bits 1 :: gs
  | .stat n :: ks => .stat n :: groupKinds ks
  | .dyn :: ks => .dyn :: groupKinds ks

def gkindsLen : List GKind → Nat
  | [] => 0
  | .bits k :: gs => ceil8 k + gkindsLen gs
  | .stat n :: gs => n + gkindsLen gs
  | .dyn :: gs => 2 + gkindsLen gs

/-- size of the head block of a tuple whose components have the given kinds -/
def kindsHeadLen (ks : List Kind) : Nat := gkindsLen (groupKinds ks)

/-! ## Descriptors -/

mutual
  def isDynamic : Ty → Bool
    | .string => true
    | .darray _ => true
    | .sarray e _ => isDynamic e
    | .tuple ts => anyDynamic ts
    | _ => false
  def anyDynamic : List Ty → Bool
    | [] => false
    | t :: ts => isDynamic t || anyDynamic ts
end

/-- kind of a component of type `t` whose own static length is `sl` -/
def mkKind (t : Ty) (sl : Nat) : Kind :=
  match t with
  | .bool => .bit
  | _ => if isDynamic t then .dyn else .stat sl

mutual
  /-- Byte length of the encoding of a static type.  For a dynamic `T[N]` / tuple it is the
      size of the *head block* of the encoding; for `string` / `T[]` it is 0 (meaningless). -/
  def staticLen : Ty → Nat
    | .bool => 1
    | .byte => 1
    | .uint bits => bits / 8
    | .address => 32
    | .string => 0
    | .darray _ => 0
    | .sarray e n => kindsHeadLen (List.replicate n (mkKind e (staticLen e)))
    | .tuple ts => kindsHeadLen (kinds ts)
  def kinds : List Ty → List Kind
    | [] => []
    | t :: ts => mkKind t (staticLen t) :: kinds ts
end

def kind (t : Ty) : Kind := mkKind t (staticLen t)

/-- bytes a component of type `t` occupies in its parent's head (bool: see `kindsHeadLen`) -/
def headLen (t : Ty) : Nat := if isDynamic t then 2 else staticLen t

mutual
  /-- types that are legal ARC-4 (uint widths; array lengths and arities are uint16) -/
  def Ty.wf : Ty → Bool
    | .uint bits => uintOk bits
    | .sarray e n => decide (n < lim16) && e.wf
    | .darray e => e.wf
    | .tuple ts => decide (ts.length < lim16) && wfList ts
    | _ => true
  def wfList : List Ty → Bool
    | [] => true
    | t :: ts => t.wf && wfList ts
end

/-! ## Signatures -/

mutual
  def sigChars : Ty → List Char
    | .bool => "bool".toList
    | .byte => "byte".toList
    | .uint bits => "uint".toList ++ (Nat.repr bits).toList
    | .address => "address".toList
    | .string => "string".toList
    | .sarray e n => sigChars e ++ '[' :: (Nat.repr n).toList ++ [']']
    | .darray e => sigChars e ++ ['[', ']']
    | .tuple ts => '(' :: sigFields ts ++ [')']
  def sigFields : List Ty → List Char
    | [] => []
    | [t] => sigChars t
    | t :: ts => sigChars t ++ ',' :: sigFields ts
end

def signature (t : Ty) : String := String.ofList (sigChars t)

/-! ## Typing -/

def isByteVal : V → Bool
  | .uint n => decide (n < 256)
  | _ => false

mutual
  def hasType : Ty → V → Bool
    | .bool, .bool _ => true
    | .byte, .uint n => decide (n < 256)
    | .uint bits, .uint n => uintOk bits && decide (n < 2 ^ bits)
    | .address, .seq vs => vs.length == 32 && vs.all isByteVal
    | .string, .seq vs => vs.all isByteVal
    | .sarray e n, .seq vs => vs.length == n && vs.all (fun v => hasType e v)
    | .darray e, .seq vs => vs.all (fun v => hasType e v)
    | .tuple ts, .seq vs => hasTypes ts vs
    | _, _ => false
  def hasTypes : List Ty → List V → Bool
    | [], [] => true
    | t :: ts, v :: vs => hasType t v && hasTypes ts vs
    | _, _ => false
end

/-! ## Encoding -/

/-- wrap the encoding `bs` of a component (type `t`, value `v`) for assembly -/
def toPart (t : Ty) (v : V) (bs : Bytes) : Part :=
  match t, v with
  | .bool, .bool b => .bit b
  | _, _ => if isDynamic t then .dyn bs else .stat bs

def encByte : V → Option UInt8
  | .uint n => if n < 256 then some (UInt8.ofNat n) else none
  | _ => none

mutual
  /-- `none`: the value is ill-typed, or an offset / count / length does not fit a uint16 -/
  def encode : Ty → V → Option Bytes
    | .bool, .bool b => some [if b then 0x80 else 0x00]
    | .byte, .uint n => if n < 256 then some [UInt8.ofNat n] else none
    | .uint bits, .uint n =>
      if uintOk bits && decide (n < 2 ^ bits) then some (beBytes (bits / 8) n) else none
    | .address, .seq vs => if vs.length = 32 then optMap encByte vs else none
    | .string, .seq vs =>
      if vs.length < lim16 then (optMap encByte vs).map (u16 vs.length ++ ·) else none
    | .sarray e n, .seq vs =>
      if vs.length = n ∧ n < lim16 then
        (optMap (fun v => (encode e v).map (toPart e v)) vs).bind assemble
      else none
    | .darray e, .seq vs =>
      if vs.length < lim16 then
        ((optMap (fun v => (encode e v).map (toPart e v)) vs).bind assemble).map (u16 vs.length ++ ·)
      else none
    | .tuple ts, .seq vs =>
      if ts.length < lim16 then (encodeFields ts vs).bind assemble else none
    | _, _ => none
  def encodeFields : List Ty → List V → Option (List Part)
    | [], [] => some []
    | t :: ts, v :: vs =>
      match encode t v, encodeFields ts vs with
      | some bs, some ps => some (toPart t v bs :: ps)
      | _, _ => none
    | _, _ => none
end

/-! ## Decoding -/

/-- what a component is decoded from -/
inductive Piece where
  | bit (b : Bool)
  | bytes (bs : Bytes)
  deriving Repr, BEq, DecidableEq

/-- a head item: already-cut pieces, or the offset of a tail body -/
inductive HItem where
  | pieces (ps : List Piece)
  | off (o : Nat)
  deriving Repr, BEq, DecidableEq

/-- read the head block; returns the items and the unread rest -/
def readHeads : List GKind → Bytes → Option (List HItem × Bytes)
  | [], rest => some ([], rest)
  | .bits k :: gs, rest =>
    if rest.length < ceil8 k then none else
    match readHeads gs (rest.drop (ceil8 k)) with
    | some (is, r) => some (.pieces (((unpack (rest.take (ceil8 k))).take k).map .bit) :: is, r)
    | none => none
  | .stat n :: gs, rest =>
    if rest.length < n then none else
    match readHeads gs (rest.drop n) with
    | some (is, r) => some (.pieces [.bytes (rest.take n)] :: is, r)
    | none => none
  | .dyn :: gs, rest =>
    match rest with
    | a :: b :: rest' =>
      match readHeads gs rest' with
      | some (is, r) => some (.off (a.toNat * 256 + b.toNat) :: is, r)
      | none => none
    | _ => none

/-- offset of the next tail body, or the end of the encoding -/
def nextOff (total : Nat) : List HItem → Nat
  | [] => total
  | .off o :: _ => o
  | .pieces _ :: is => nextOff total is

/-- cut the tail bodies: body i runs from its offset to the next body's offset (or the end) -/
def resolve (bs : Bytes) : List HItem → Option (List Piece)
  | [] => some []
  | .pieces ps :: is => (resolve bs is).map (ps ++ ·)
  | .off o :: is =>
    let e := nextOff bs.length is
    if o ≤ e ∧ e ≤ bs.length then (resolve bs is).map (.bytes ((bs.drop o).take (e - o)) :: ·)
    else none

def hasOff : List HItem → Bool
  | [] => false
  | .off _ :: _ => true
  | .pieces _ :: is => hasOff is

/-- split the encoding of a tuple whose components have kinds `ks` into one piece per
    component.  A fully static tuple must be consumed exactly. -/
def split (ks : List Kind) (bs : Bytes) : Option (List Piece) :=
  match readHeads (groupKinds ks) bs with
  | some (items, rest) => if hasOff items || rest.isEmpty then resolve bs items else none
  | none => none

def decBytes (bs : Bytes) : V := V.ofBytes bs

mutual
  def decode : Ty → Bytes → Option V
    | .bool, bs =>
      match bs with
      | [b] => if b = 0x80 then some (.bool true) else if b = 0x00 then some (.bool false) else none
      | _ => none
    | .byte, bs =>
      match bs with
      | [b] => some (.uint b.toNat)
      | _ => none
    | .uint bits, bs => if uintOk bits && bs.length == bits / 8 then some (.uint (beNat bs)) else none
    | .address, bs => if bs.length = 32 then some (decBytes bs) else none
    | .string, bs =>
      match bs with
      | a :: b :: rest => if rest.length = a.toNat * 256 + b.toNat then some (decBytes rest) else none
      | _ => none
    | .sarray e n, bs =>
      ((split (List.replicate n (kind e)) bs).bind
        (optMap (fun p => match p with
          | .bit b => some (.bool b)
          | .bytes s => decode e s))).map .seq
    | .darray e, bs =>
      match bs with
      | a :: b :: rest =>
        ((split (List.replicate (a.toNat * 256 + b.toNat) (kind e)) rest).bind
          (optMap (fun p => match p with
            | .bit b => some (.bool b)
            | .bytes s => decode e s))).map .seq
      | _ => none
    | .tuple ts, bs => ((split (kinds ts) bs).bind (decodeFields ts)).map .seq
  def decodeFields : List Ty → List Piece → Option (List V)
    | [], [] => some []
    | t :: ts, p :: ps =>
      match (match p with
             | .bit b => some (V.bool b)
             | .bytes s => decode t s), decodeFields ts ps with
      | some v, some vs => some (v :: vs)
      | _, _ => none
    | _, _ => none
end

/-! ## Alias elimination -/

mutual
  /-- `byte ↦ uint8`, `address ↦ uint8[32]`, `string ↦ uint8[]`, everywhere -/
  def Ty.norm : Ty → Ty
    | .byte => .uint 8
    | .address => .sarray (.uint 8) 32
    | .string => .darray (.uint 8)
    | .sarray e n => .sarray e.norm n
    | .darray e => .darray e.norm
    | .tuple ts => .tuple (normList ts)
    | t => t
  def normList : List Ty → List Ty
    | [] => []
    | t :: ts => t.norm :: normList ts
end

/-! ## Signature parser (convenience for the driver; no theorem mentions it) -/

def parseDigits : List Char → List Char × List Char
  | c :: cs => if c.isDigit then let (d, r) := parseDigits cs; (c :: d, r) else ([], c :: cs)
  | [] => ([], [])

def digitsNat (ds : List Char) : Nat := ds.foldl (fun a c => a * 10 + (c.toNat - '0'.toNat)) 0

/-- `[N]` / `[]` suffixes -/
def parseSuffixes : Nat → Ty → List Char → Option (Ty × List Char)
  | 0, _, _ => none
  | fuel+1, t, '[' :: ']' :: cs => parseSuffixes fuel (.darray t) cs
  | fuel+1, t, '[' :: cs =>
    match parseDigits cs with
    | (d :: ds, ']' :: rest) =>
      if d = '0' ∧ !ds.isEmpty then none else parseSuffixes fuel (.sarray t (digitsNat (d :: ds))) rest
    | _ => none
  | _, t, cs => some (t, cs)

def stripPrefix (p : List Char) (cs : List Char) : Option (List Char) :=
  if p.isPrefixOf cs then some (cs.drop p.length) else none

mutual
  def parseTy : Nat → List Char → Option (Ty × List Char)
    | 0, _ => none
    | fuel+1, cs =>
      let base : Option (Ty × List Char) :=
        match cs with
        | '(' :: ')' :: rest => some (.tuple [], rest)
        | '(' :: rest =>
          match parseFields fuel rest with
          | some (ts, rest') => some (.tuple ts, rest')
          | none => none
        | _ =>
          match stripPrefix "bool".toList cs with
          | some r => some (.bool, r)
          | none =>
          match stripPrefix "byte".toList cs with
          | some r => some (.byte, r)
          | none =>
          match stripPrefix "address".toList cs with
          | some r => some (.address, r)
          | none =>
          match stripPrefix "string".toList cs with
          | some r => some (.string, r)
          | none =>
          match stripPrefix "uint".toList cs with
          | some r =>
            match parseDigits r with
            | (d :: ds, rest) => if d = '0' then none else some (.uint (digitsNat (d :: ds)), rest)
            | _ => none
          | none => none
      match base with
      | some (t, rest) => parseSuffixes (fuel + 1) t rest
      | none => none
  /-- `T,T,…,T)` -/
  def parseFields : Nat → List Char → Option (List Ty × List Char)
    | 0, _ => none
    | fuel+1, cs =>
      match parseTy fuel cs with
      | some (t, ',' :: rest) =>
        match parseFields fuel rest with
        | some (ts, rest') => some (t :: ts, rest')
        | none => none
      | some (t, ')' :: rest) => some ([t], rest)
      | _ => none
end

def Ty.parse (s : String) : Option Ty :=
  let cs := s.toList
  match parseTy (cs.length + 1) cs with
  | some (t, []) => if t.wf then some t else none
  | _ => none

end PyTealV.Arc4
