/-
  Registry of per-property driver commands.  Each entry: command word ↦ handler on the
  remaining space-separated words of the line, returning the one-line answer.
  (Stateless commands only; stateful ones live in Driver.lean.)
-/
import PyTealV.Util
import PyTealV.Cmd.C17
import PyTealV.Cmd.C10
import PyTealV.Cmd.C13
namespace PyTealV.Cmd

def extraCommands : List (String × (List String → String)) := [
  ("c17-validate", C17.validate),
  ("c17-initcheck", C17.initcheck),
  ("c10-assign", C10.assign),
  ("c10-collect", C10.collect),
  ("c10-alloc", C10.alloc),
  ("c13-escape", C13.escape), ("c13-bytes", C13.bytes), ("c13-denote", C13.denote),
  ("c13-int", C13.int), ("c13-addr", C13.addr), ("c13-method", C13.method),
  ("c13-valid", C13.valid), ("c13-pad32", C13.pad32), ("c13-rfc", C13.rfc),
  ("c13-parseline", C13.parseline)
]

def dispatch (cmd : String) (args : List String) : Option String :=
  (extraCommands.find? (·.1 == cmd)).map (fun p => p.2 args)

end PyTealV.Cmd
