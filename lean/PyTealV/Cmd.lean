/-
  Registry of per-property driver commands.  Each entry: command word ↦ handler on the
  remaining space-separated words of the line, returning the one-line answer.
  (Stateless commands only; stateful ones live in Driver.lean.)
-/
import PyTealV.Util
namespace PyTealV.Cmd

def extraCommands : List (String × (List String → String)) := [
]

def dispatch (cmd : String) (args : List String) : Option String :=
  (extraCommands.find? (·.1 == cmd)).map (fun p => p.2 args)

end PyTealV.Cmd
