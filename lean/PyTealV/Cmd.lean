/-
  Registry of per-property driver commands.  Each entry: command word ↦ handler on the
  remaining space-separated words of the line, returning the one-line answer.
  (Stateless commands only; stateful ones live in Driver.lean.)
-/
import PyTealV.Util
import PyTealV.Cmd.C17
import PyTealV.Cmd.C10
import PyTealV.Cmd.C13
import PyTealV.Cmd.C12
import PyTealV.Cmd.C15
import PyTealV.Cmd.C02Spill
import PyTealV.Cmd.C16
import PyTealV.Cmd.C04
import PyTealV.Cmd.C08
import PyTealV.Cmd.C14
import PyTealV.Cmd.C18
import PyTealV.Cmd.Arc4
import PyTealV.Cmd.C19
import PyTealV.Cmd.C11
import PyTealV.Cmd.C09
import PyTealV.Cmd.C05
import PyTealV.Cmd.C07
import PyTealV.Cmd.C06
import PyTealV.Cmd.C03Opt
import PyTealV.Cmd.C02Gen
namespace PyTealV.Cmd

def extraCommands : List (String × (List String → String)) := [
  ("c17-validate", C17.validate),
  ("c17-initcheck", C17.initcheck),
  ("c10-assign", C10.assign),
  ("c10-collect", C10.collect),
  ("c10-alloc", C10.alloc),
  ("c13-escape", C13.escape), ("c13-bytes", C13.bytes), ("c13-denote", C13.denote),
  ("c13-int", C13.int), ("c13-addr", C13.addr), ("c13-method", C13.method),
  ("c13-valid", C13.valid), ("c13-pad32", C13.pad32), ("c13-rfc", C13.rfc),
  ("c13-parseline", C13.parseline),
  ("c12-ccb", C12.ccb),
  ("c12-text", C12.text),
  ("c12-value", C12.value),
  ("c12-sites", C12.sites),
  ("c12-tv", C12.tv),
  ("c15-vlq-enc", C15.vlqEnc), ("c15-vlq-dec", C15.vlqDec),
  ("c15-r3-enc", C15.r3Enc), ("c15-r3-dec", C15.r3Dec), ("c15-r3-wf", C15.r3Wf),
  ("c15-strip", C15.strip), ("c15-tokens", C15.tokens), ("c15-annotate", C15.annotateCmd),
  ("c15-line", C15.lineCmd), ("c15-internal", C15.internalCmd), ("c15-keep", C15.keepCmd),
  ("c02-spill", C02Spill.spill),
  ("c02-recpoints", C02Spill.recpoints),
  ("c02-gsearch", C02Spill.gsearch),
  ("c16-ops", C16.ops),
  ("c16-run", C16.runCmd),
  ("c16-spec", C16.specCmd),
  ("c04-wf", C04.wfCmd),
  ("c04-label", C04.labelCmd),
  ("c08-dispatch", C08.dispatchCmd),
  ("c14-model", C14.model), ("c14-spec", C14.spec), ("c14-submitted", C14.submittedCmd),
  ("c14-view", C14.view), ("c14-pack", C14.pack), ("c14-fields", C14.fields),
  ("c18-strip", C18.strip), ("c18-splitlines", C18.splitlinesCmd), ("c18-commentop", C18.commentop), ("c18-commentexpr", C18.commentexpr),
  ("c18-comment", C18.commentCmd), ("c18-assert", C18.assertCmd), ("c18-header", C18.headerCmd),
  ("c18-instr", C18.instr), ("c18-recorded", C18.recorded),
  ("arc4-descr", Arc4.descr),
  ("arc4-encode", Arc4.encodeCmd),
  ("arc4-decode", Arc4.decodeCmd),
  ("arc4-norm", Arc4.normCmd),
  ("c19-assignable", C19.assignableCmd),
  ("c19-classes", C19.classesCmd),
  ("c11-run", C11.runCmd),
  ("c09-const", C09.const), ("c09-glue", C09.glueCmd), ("c09-binding", C09.bindingCmd),
  ("c09-run", C09.runCmd), ("c09-wrap", C09.wrapCmd), ("c09-contract", C09.contractCmd),
  ("c05-check", C05.check),
  ("c07-descr", C07.descr), ("c07-plan", C07.planCmd), ("c07-path", C07.pathCmd),
  ("c06-descr", C06.descrCmd), ("c06-set", C06.setCmd), ("c06-tuple", C06.tupleCmd), ("c06-uint", C06.uintCmd),
  ("c03-opt", C03Opt.opt), ("c03-iterate", C03Opt.iter), ("c03-run", C03Opt.run),
  ("c03-pairs", C03Opt.pairs), ("c03-unopt", C03Opt.unopt),
  ("fragmentr-sexp", C02Gen.fragmentrSexp), ("composed-sexp", C02Gen.composedSexp), ("c01-original", C02Gen.originalMainSexp)
]

def dispatch (cmd : String) (args : List String) : Option String :=
  (extraCommands.find? (·.1 == cmd)).map (fun p => p.2 args)

end PyTealV.Cmd
