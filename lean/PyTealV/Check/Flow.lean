/-
  FlowCheck: a decidable well-formedness check of a parsed TEAL program for a target
  (version, mode).  `wf p v mode = true` means

    (a) the first line is `#pragma version v` (and no other pragma follows);
    (b) every line's opcode exists in `OpSpec` at version `v` and in mode `mode`, has exactly the
        immediates the opcode takes, every immediate is in its encodable range and every named
        immediate is a field of the right group available at `v`; the decoded instruction
        (`Line.instr`) is consistent with the raw tokens (`Line.raw`);
    (c) every label is defined exactly once and every `b/bz/bnz/callsub` target is defined;
    (d) template placeholders (`TMPL_…`) are reported separately (`hasTemplates`); any other
        placeholder text fails to parse or fails (b)/(c);
    (e) control flow: with routine entries pc 0 and every reachable `callsub` target, every
        instruction reachable inside a routine has all its successors inside the program text and
        inside the same routine: no running off the end, no falling or branching into another
        routine, no `retsub` in the main routine.

    (f) if the program loads from the constant blocks (`intc`, `bytec`, `intc_N`, `bytec_N`): the
        blocks sit in a prefix of pragma/block lines, no block line follows, and every load index is
        inside the block the prefix installs.

  (e) is checked certificate-style: `colors` paints every reachable instruction with the entry
  of its routine (an unverified worklist), `closed` then verifies the painting with one local
  condition per instruction.  Soundness (`Proofs/C04.lean`) depends on `closed` only.

  Core Lean only (linked into the native driver).
-/
import PyTealV.Avm.Sem
import PyTealV.OpSpec
namespace PyTealV.Check.Flow
open PyTealV PyTealV.Avm PyTealV.Util

/-! ## (b) legality of one line -/

def immOK (v : Nat) : OpSpec.Imm → String → Bool
  | .u8, s => match parseNat s with
    | some n => decide (n ≤ 255)
    | none => false
  | .i8, s => match parseInt s with
    | some i => decide (-128 ≤ i) && decide (i ≤ 127)
    | none => false
  | .label, s => !s.isEmpty
  | .field g, s => OpSpec.fieldOK g v s

def immsOK (v : Nat) : List OpSpec.Imm → List String → Bool
  | [], [] => true
  | k :: ks, s :: ss => immOK v k s && immsOK v ks ss
  | _, _ => false

def modeOK (o : OpSpec.Op) : Mode → Bool
  | .sig => o.sig
  | .app => o.app

/-- `op imms` is an instruction the assembler accepts at version `v` in mode `m` -/
def primLegal (v : Nat) (m : Mode) (op : String) (imms : List String) : Bool :=
  match OpSpec.find op with
  | some o => decide (o.minV ≤ v) && modeOK o m && (o.lit || immsOK v o.imms imms)
  | none => false

/-- the decoded instruction agrees with the raw tokens, and decoded numbers are encodable -/
def instrOK (ln : Line) : Bool :=
  let lit := match OpSpec.find ln.raw.op with
    | some o => o.lit
    | none => false
  match ln.instr with
  | .prim op imms => !lit && ln.raw.op == op && ln.raw.imms == imms
  | .pushInt n => lit && decide (n < 2 ^ 64)
  | .pushBytes _ | .intcblock _ | .bytecblock _ | .tmpl _ _ => lit
  | .load n | .store n | .intc n | .bytec n => !lit && decide (n < 256)
  | .frameDig i | .frameBury i => !lit && decide (-128 ≤ i) && decide (i ≤ 127)
  | .proto a r => !lit && decide (a < 256) && decide (r < 256)
  | .b l | .bz l | .bnz l | .callsub l => !lit && ln.raw.imms == [l]
  | .retsub | .ret | .err => !lit
  | .label _ | .pragma _ _ => false

def lineLegal (v : Nat) (m : Mode) (ln : Line) : Bool :=
  match ln.instr with
  | .label l => !l.isEmpty
  | .pragma _ _ => false                    -- a pragma is legal only as the first line
  | _ => primLegal v m ln.raw.op ln.raw.imms && instrOK ln

def pragmaOK (p : Program) (v : Nat) : Bool :=
  match p[0]? with
  | some ln => decide (ln.instr = .pragma "version" (toString v))
  | none => false

def allLegal (v : Nat) (m : Mode) (p : Program) : Bool :=
  (List.range p.size).all (fun pc => match p[pc]? with
    | some ln => pc == 0 || lineLegal v m ln
    | none => true)

def isTmplLine (ln : Line) : Bool :=
  match ln.instr with
  | .tmpl _ _ => true
  | _ => false

def hasTemplates (p : Program) : Bool := p.toList.any isTmplLine

/-- constant-block loads (`intc`, `bytec`, `intc_N`, `bytec_N`): their legality also depends on
    the constant block installed at run time -/
def isConstLoad (ln : Line) : Bool :=
  match ln.instr with
  | .intc _ | .bytec _ => true
  | _ => false

def hasConstLoads (p : Program) : Bool := p.toList.any isConstLoad

/-! ### Constant blocks

PyTeal (`assembleConstants=True`) puts `intcblock` / `bytecblock` directly after the pragma.  When a
program loads from the constant blocks, `wf` insists on that shape — a prefix of pragma and block
lines, no block line later — and on every `intc i` / `bytec i` being inside the block installed by
the prefix, so that a load can never miss (`Avm` fails such a load with `.illegal`). -/

def updConsts (c : List Nat × List Bytes) (i : Instr) : List Nat × List Bytes :=
  match i with
  | .intcblock vs => (vs, c.2)
  | .bytecblock vs => (c.1, vs)
  | _ => c

/-- the constant blocks installed after running lines `0 … n-1` one after the other -/
def constsUpto (p : Program) : Nat → List Nat × List Bytes
  | 0 => ([], [])
  | n + 1 => match p[n]? with
    | some ln => updConsts (constsUpto p n) ln.instr
    | none => constsUpto p n

def isPrefixLine (ln : Line) : Bool :=
  match ln.instr with
  | .pragma _ _ | .intcblock _ | .bytecblock _ => true
  | _ => false

def isBlockLine (ln : Line) : Bool :=
  match ln.instr with
  | .intcblock _ | .bytecblock _ => true
  | _ => false

/-- length of the leading run of pragma / constant-block lines -/
def prefixLen (p : Program) : Nat := (p.toList.takeWhile isPrefixLine).length

def constLoadOK (c : List Nat × List Bytes) (ln : Line) : Bool :=
  match ln.instr with
  | .intc i => decide (i < c.1.length)
  | .bytec i => decide (i < c.2.length)
  | _ => true

/-- certificate-style: `k0` is any split point such that lines before it are pragma/block lines
    and lines from it on are no block lines and load inside the blocks installed by the prefix -/
def constsOKAt (p : Program) (k0 : Nat) : Bool :=
  (List.range p.size).all (fun pc => match p[pc]? with
    | some ln => if pc < k0 then isPrefixLine ln else (!isBlockLine ln && constLoadOK (constsUpto p k0) ln)
    | none => true)

def constsOK (p : Program) : Bool := !hasConstLoads p || constsOKAt p (prefixLen p)

/-! ## (c) labels -/

def labelOf (ln : Line) : Option String :=
  match ln.instr with
  | .label l => some l
  | _ => none

def targetOf (ln : Line) : Option String :=
  match ln.instr with
  | .b l | .bz l | .bnz l | .callsub l => some l
  | _ => none

def labelsOf (p : Program) : List String := p.toList.filterMap labelOf
def targetsOf (p : Program) : List String := p.toList.filterMap targetOf

def dupFree : List String → Bool
  | [] => true
  | x :: xs => !xs.contains x && dupFree xs

def labelsOK (p : Program) : Bool :=
  dupFree (labelsOf p) && (targetsOf p).all (fun l => (labelsOf p).contains l)

/-! ## (e) control flow -/

abbrev Colors := Array (Option Nat)

/-- intra-routine successors of the instruction at `pc` painted `c`, and callee entries -/
def succs (p : Program) (pc c : Nat) (i : Instr) : List (Nat × Nat) :=
  let tgt (l : String) (own : Bool) : List (Nat × Nat) := match findLabel p l with
    | some t => [(t, if own then t else c)]
    | none => []
  match i with
  | .b l => tgt l false
  | .bz l | .bnz l => (pc + 1, c) :: tgt l false
  | .callsub l => (pc + 1, c) :: tgt l true
  | .retsub | .ret | .err => []
  | _ => [(pc + 1, c)]

/-- worklist painting; the first colour an instruction receives stays (conflicts are found by `closed`) -/
def paint (p : Program) : Nat → List (Nat × Nat) → Colors → Colors
  | 0, _, col => col
  | _, [], col => col
  | fuel + 1, (pc, c) :: rest, col =>
    match p[pc]?, col[pc]? with
    | some ln, some none => paint p fuel (succs p pc c ln.instr ++ rest) (col.setIfInBounds pc (some c))
    | _, _ => paint p fuel rest col

def colors (p : Program) : Colors :=
  paint p (4 * p.size + 4) [(0, 0)] (Array.replicate p.size none)

/-- instruction `t` exists and is painted `c` -/
def same (col : Colors) (c t : Nat) : Bool := col[t]? == some (some c)

def jumpOK (p : Program) (col : Colors) (c : Nat) (l : String) : Bool :=
  match findLabel p l with
  | some t => same col c t
  | none => false

def callOK (p : Program) (col : Colors) (l : String) : Bool :=
  match findLabel p l with
  | some t => same col t t
  | none => false

/-- the local condition on a painted instruction -/
def okAt (p : Program) (col : Colors) (pc : Nat) (ln : Line) : Bool :=
  match col[pc]? with
  | some (some c) =>
    (match ln.instr with
     | .b l => jumpOK p col c l
     | .bz l => jumpOK p col c l && same col c (pc + 1)
     | .bnz l => jumpOK p col c l && same col c (pc + 1)
     | .callsub l => callOK p col l && same col c (pc + 1)
     | .retsub => c != 0
     | .ret | .err => true
     | _ => same col c (pc + 1))
  | _ => true

def closed (p : Program) (col : Colors) : Bool :=
  col.size == p.size && same col 0 0 &&
  (List.range p.size).all (fun pc => match p[pc]? with
    | some ln => okAt p col pc ln
    | none => true)

/-! ## The check -/

def wf (p : Program) (v : Nat) (m : Mode) : Bool :=
  pragmaOK p v && allLegal v m p && labelsOK p && constsOK p && closed p (colors p)

/-! ## Diagnostics: the first violated rule -/

inductive Report
  | ok (templates : Bool) (constLoads : Bool) (routines : Nat) (reachable : Nat)
  | bad (rule : String) (pc : Nat) (detail : String)
  deriving Repr, Inhabited

def Report.isOk : Report → Bool
  | .ok .. => true
  | .bad .. => false

def showLine (ln : Line) : String := " ".intercalate (ln.raw.op :: ln.raw.imms)

/-- why a line is not legal (free text for the report; not used by any theorem) -/
def explain (v : Nat) (m : Mode) (ln : Line) : String :=
  match ln.instr with
  | .label _ => "empty label"
  | .pragma _ _ => "pragma after the first line"
  | _ =>
    match OpSpec.find ln.raw.op with
    | none => s!"unknown opcode: {showLine ln}"
    | some o =>
      if o.minV > v then s!"opcode needs version {o.minV}: {showLine ln}"
      else if !modeOK o m then s!"opcode not available in this mode: {showLine ln}"
      else if !(o.lit || immsOK v o.imms ln.raw.imms) then
        (if o.imms.length != ln.raw.imms.length then s!"wrong number of immediates: {showLine ln}"
         else
          let bad := (o.imms.zip ln.raw.imms).filter (fun ks => !immOK v ks.1 ks.2)
          match bad.head? with
          | some (.field g, s) => (match OpSpec.fieldMinV g s with
              | some mv => s!"field {s} needs version {mv}: {showLine ln}"
              | none => s!"field {s} not accepted here: {showLine ln}")
          | some (_, s) => s!"immediate {s} out of range: {showLine ln}"
          | none => s!"bad immediates: {showLine ln}")
      else s!"decoded instruction inconsistent with tokens: {showLine ln}"

def firstIdx (n : Nat) (f : Nat → Bool) : Option Nat := (List.range n).find? f

def firstDup : List String → Option String
  | [] => none
  | x :: xs => if xs.contains x then some x else firstDup xs

def wfReport (p : Program) (v : Nat) (m : Mode) : Report :=
  if !pragmaOK p v then
    .bad "pragma" 0 (match p[0]? with
      | some ln => s!"first line is `{showLine ln}`, expected `#pragma version {v}`"
      | none => "empty program")
  else if !allLegal v m p then
    (match firstIdx p.size (fun pc => match p[pc]? with
        | some ln => !(pc == 0 || lineLegal v m ln)
        | none => false) with
     | some pc => .bad "illegal" pc (match p[pc]? with
        | some ln => explain v m ln
        | none => "")
     | none => .bad "illegal" 0 "")
  else if !labelsOK p then
    (match firstDup (labelsOf p) with
     | some l => .bad "duplicate-label" ((findLabel p l).getD 0) l
     | none =>
       match (targetsOf p).find? (fun l => !(labelsOf p).contains l) with
       | some l => .bad "undefined-label" ((p.findIdx? (fun ln => targetOf ln == some l)).getD 0) l
       | none => .bad "labels" 0 "")
  else if !constsOK p then
    let k0 := prefixLen p
    (match firstIdx p.size (fun pc => match p[pc]? with
        | some ln => !(if pc < k0 then isPrefixLine ln else (!isBlockLine ln && constLoadOK (constsUpto p k0) ln))
        | none => false) with
     | some pc =>
       let ln := p[pc]?.getD default
       .bad "constants" pc ((if isBlockLine ln then "constant block after the program prefix: "
                             else "load beyond the constant block installed by the prefix: ") ++ showLine ln)
     | none => .bad "constants" 0 "")
  else if !closed p (colors p) then
    let col := colors p
    (match firstIdx p.size (fun pc => match p[pc]? with
        | some ln => !okAt p col pc ln
        | none => false) with
     | some pc =>
       let ln := p[pc]?.getD default
       let what :=
         if pc + 1 ≥ p.size && !(targetOf ln).isSome then "run-off: execution can pass the last instruction"
         else match ln.instr with
           | .retsub => "retsub reachable in the main routine"
           | .callsub l => s!"callsub {l}: the callee entry is also reached by fall-through or branch, or the return point leaves the routine"
           | _ => "fall-through or branch into another routine"
       .bad "flow" pc (what ++ ": " ++ showLine ln)
     | none => .bad "flow" 0 "painting incomplete")
  else
    let col := colors p
    let entries := (List.range p.size).filter (fun pc => col[pc]? == some (some pc))
    let reach := (col.toList.filter Option.isSome).length
    .ok (hasTemplates p) (hasConstLoads p) entries.length reach

end PyTealV.Check.Flow
