/-
  Decidable link between a whole-program certificate (`Check.ProgCert`, what `validateProg`
  builds and `checkCert` accepts) and the whole-program code-generation theorem
  (`Proofs.C02Gen.genProg_correct`); the composition theorem is `Proofs.C02Compile`.

  `composedOk version p P c` checks, for the *renamed* program `p` (source variables identified with
  the slots the real compiler chose):
    * the main routine and every routine *that has a graph in the certificate* satisfy the
      conditions of `inFragmentR` (`fragmentOnCert`; routines that are never called are not explored
      by `validateProg`, so their variables stay unrenamed — they are not constrained);
    * the main graph of the certificate is what `genMainR version false p` generates;
    * every routine graph of the certificate, looked up under the model label of a declared
      routine, is what `genSub version false false p sd (spillSlots sd)` generates;
    * every `callsub` of a graph of the certificate targets a routine of the certificate (the
      certificate holds the routines reachable from the main routine only);
    * `checkCert P c`.
  `renamedProg` repeats the (untrusted) discovery pass of `buildCert` to obtain the renamed program.
-/
import PyTealV.Check.ValidateProg
import PyTealV.Models.FragmentR
namespace PyTealV.Check
open PyTealV PyTealV.Avm PyTealV.Comp PyTealV.Src PyTealV.Models.FragmentR

deriving instance DecidableEq for Block

def certMainOk (version : Nat) (p : Prog) (c : ProgCert) : Bool :=
  match genMainR version false p with
  | .ok r => decide (r.G = c.Gm) && r.start == c.sm
  | .error _ => false

def certSubsOk (version : Nat) (fp : Bool) (p : Prog) (c : ProgCert) : Bool :=
  p.subs.all (fun sd =>
    match c.prog.subs.lookup (subLabel sd.id) with
    | none => true
    | some (G, s) =>
      match genSub version fp false p sd (spillSlotsC fp sd) with
      | .ok r => decide (r.G = G) && r.start == s
      | .error _ => false)

def graphCallsOk (subs : List (String × Graph × Nat)) (G : Graph) : Bool :=
  G.toList.all (fun blk => blk.ops.all (fun i => match i with
    | .callsub l => (subs.lookup l).isSome
    | _ => true))

def certClosed (c : ProgCert) : Bool :=
  graphCallsOk c.prog.subs c.Gm && c.prog.subs.all (fun e => graphCallsOk c.prog.subs e.2.1)

/-- routine `f` has a graph in the certificate -/
def certHas (c : ProgCert) (f : Nat) : Bool := (c.prog.subs.lookup (subLabel f)).isSome

/-- the conditions of `inFragmentC fp` for the main routine and the routines of the certificate;
    under the frame-pointer convention also: the parameter slots are pairwise distinct, and the
    routines a certified routine may call without being re-entered (`okCallsOf`) reach certified
    routines only -/
def fragmentOnCert (fp : Bool) (p : Prog) (c : ProgCert) (dyn : Bool := false) (strict : Bool := false) : Bool :=
  mainOkC fp p dyn strict && p.subs.all (fun sd => !certHas c sd.id || subOkC fp p sd dyn strict) &&
  (!fp || (nodupB (allParamSlots p) &&
    p.subs.all (fun sd => !certHas c sd.id ||
      (okCallsOf p sd).all (fun g => sd.reenters.contains g || (reachSet p g).all (certHas c))))) &&
  -- by-reference discipline: the declared routines that the main routine / a certified routine calls are certified
  (!strict ||
    ((callsOf p.main).all (fun g => certHas c g || (findSub p g).isNone) &&
     p.subs.all (fun sd => !certHas c sd.id || (callsOf sd.body).all (fun g => certHas c g || (findSub p g).isNone))))

/-- everything `Proofs.C02Compile.compile_correct_validated_prog` assumes, as one decidable check -/
def composedOk (version : Nat) (fp : Bool) (p : Prog) (P : Program) (c : ProgCert) (dyn : Bool := false)
    (strict : Bool := false) : Bool :=
  fragmentOnCert fp p c dyn strict && certMainOk version p c && certSubsOk version fp p c && certClosed c && checkCert P c

/-- the renamed program of `buildCert` (its discovery pass, repeated) -/
def renamedProg (version : Nat) (fp : Bool) (p : Prog) (P : Program) : Except String Prog := do
  let placeholder (sd : SubDef) : List Nat := (List.range (spillKeys fp sd).length).map (· + 100000)
  let main0 ← genMainR version true p
  let mk0 (k : Nat) : Except String Routine :=
    match findSub p k with
    | some sd => genSub version fp true p sd (placeholder sd)
    | none => .error "unknown subroutine"
  let (rs0, _) ← (explore P looseEqR main0 mk0 (P.size + 64)).mapError ("loose: " ++ ·)
  let bs := ((rs0.flatMap (fun (r, _, V) => harvest r.G P V)).filter (fun (k, _) => k < 100000)).eraseDups
  if !bindingsOk bs then throw "bindings are not a bijection"
  pure (renameProg (applyBindings bs) p)

/-- certificate check + link check: `.ok true` iff the composed
    theorem applies to (the renamed form of) this program and this TEAL text -/
def validateComposed (version : Nat) (fp : Bool) (p : Prog) (P : Program) (dyn : Bool := false)
    (strict : Bool := false) : Except String Bool := do
  let p' ← renamedProg version fp p P
  let (c, _) ← validateProgCert version fp p P
  pure (composedOk version fp p' P c dyn strict)

/-- `validateComposed` as a Boolean (errors count as `false`) -/
def composedB (version : Nat) (fp : Bool) (p : Prog) (P : Program) (dyn : Bool := false) (strict : Bool := false) : Bool :=
  match validateComposed version fp p P dyn strict with
  | .ok b => b
  | .error _ => false

end PyTealV.Check
