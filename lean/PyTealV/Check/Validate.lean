/- Per-program translation validation of the main routine: recipe + real TEAL → verdict. -/
import PyTealV.Check.Sim
import PyTealV.Comp.Rename
import PyTealV.Models.Fragment
namespace PyTealV.Check
open PyTealV PyTealV.Avm PyTealV.Comp PyTealV.Src

structure Validated where
  bindings : List (Nat × Nat)
  relSize : Nat
  blocks : Nat
  inFragment : Bool      -- hypotheses of `gen_correct` hold for the renamed tree

/-- untrusted discovery of the variable ↦ slot map, then the trusted certificate check `closed`
    on the renamed source.  `.ok` means: `closed G s P V = true` for the graph of the renamed tree. -/
def validateMain (version : Nat) (e : Expr) (P : Program) : Except String Validated := do
  let (G0, s0) ← genMain { version := version, markIndex := true } e
  let V0 ← (findSim looseEq G0 s0 P).mapError ("loose: " ++ ·)
  let bs := (harvest G0 P V0).eraseDups
  if !bindingsOk bs then throw ("variable/slot bindings are not a bijection: " ++ toString bs)
  let e' := renameVars (applyBindings bs) e
  let (G, s) ← genMain { version := version } e'
  let V ← (findSim (· == ·) G s P).mapError ("strict: " ++ ·)
  if closed G s P V then pure ⟨bs, V.length, G.size, Models.Fragment.inFragment e'⟩
  else throw "certificate rejected by closed"

end PyTealV.Check
