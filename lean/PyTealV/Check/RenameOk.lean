/-
  Decidable side conditions under which `Src.runProg` is invariant under the renaming of source
  variables that the translation validators perform (`Check.validateMain`, `Check.renamedProg`:
  variable ↦ the scratch slot discovered in the real TEAL).  The invariance theorem is
  `Proofs.Rename.runProg_rename`; the compositions with the validated-compilation theorems are in
  `Proofs/CompileOriginal.lean`.

  What the validators establish (`bindingsOk bs`): the binding LIST is a function and injective.
  The renaming that is applied, `applyBindings bs`, leaves every variable without a binding as it
  is, so `bindingsOk` does not exclude that a renamed variable lands on an unrenamed one
  (`bindingsOk_not_enough` in `Proofs/Rename.lean`).  `renameOk f p` checks, for the ORIGINAL
  program `p` and the renaming `f` that is applied:

    * `injOnB f (varsP p)`: `f` is injective on the variables the program mentions (trees,
      parameters, `locals`, `mainLocals` of the main routine and of the routines it can reach,
      `liveSet p`; a declared call target outside `liveSet p` is rejected by `dOk`, so the set is
      closed under calls wherever it matters);
    * `fixesRequested f (varsP p)`: variables with a key `< 256` (requested slots) are not renamed
      (needed only for the statements about user-numbered slots);
    * the discipline `dOk`: the program reaches scratch space only through variables —
        - every opcode of a `prim` / `multi` node is in `Optimizer.framedOps` (it neither reads
          nor writes scratch space), except `vloads` / `vstores`, whose address operand must be a
          reference (below); the generic `loads` / `stores` (slot NUMBERS computed at run time)
          are excluded: a program cannot know the number of an automatically assigned slot, its
          meaning would depend on the allocation (see DESIGN C03, "dynamic_access_diffs");
        - `index v` (the NUMBER of a variable — its value changes under renaming) occurs only as a
          reference: as the argument for a by-reference parameter of a call, or as the address
          operand of `vloads` / `vstores`; a reference is `index s` with `s` not a by-reference
          parameter cell, or `load v` of a by-reference parameter of the routine itself;
        - nobody stores into a by-reference parameter cell or reads one as a plain value;
          by-value parameter cells are no by-reference parameter cells;
        - where references occur in an operand list, every operand of that list yields exactly
          one value (arity typing `wtRArgs` of the RENAMED operands in the most permissive typing
          context `K0`; otherwise a reference could slip into a by-value position).
-/
import PyTealV.Check.ComposeProg
import PyTealV.Check.Validate
namespace PyTealV.Check
open PyTealV PyTealV.Avm PyTealV.Comp PyTealV.Src PyTealV.Models.FragmentR

mutual
  /-- the variables a tree mentions -/
  def varsE : Expr → List Nat
    | .load v => [v]
    | .index v => [v]
    | .store v e => v :: varsE e
    | .prim _ _ args => varsL args
    | .multi _ _ args outs => outs ++ varsL args
    | .seq es => varsL es
    | .ite c t none => varsE c ++ varsE t
    | .ite c t (some e) => varsE c ++ varsE t ++ varsE e
    | .cond arms => varsA arms
    | .while_ c b => varsE c ++ varsE b
    | .for_ i c s b => varsE i ++ varsE c ++ varsE s ++ varsE b
    | .assert_ c => varsE c
    | .ret (some e) => varsE e
    | .exit e => varsE e
    | .call _ args => varsL args
    | .wideRatio ns ds => varsL ns ++ varsL ds
    | .substring s a b => varsE s ++ varsE a ++ varsE b
    | .extract s a l => varsE s ++ varsE a ++ varsE l
    | .suffix s a => varsE s ++ varsE a
    | .note (some e) => varsE e
    | .nonce _ e => varsE e
    | _ => []
  def varsL : List Expr → List Nat
    | [] => []
    | e :: es => varsE e ++ varsL es
  def varsA : List (Expr × Expr) → List Nat
    | [] => []
    | (c, b) :: rest => varsE c ++ varsE b ++ varsA rest
end

def varsSub (sd : SubDef) : List Nat := varsE sd.body ++ sd.locals ++ sd.params.map (·.2)

/-- the routines the main routine can reach (candidate; what is used is that the main routine and
    the listed routines only call listed or undeclared routines — checked by `dOk` at every call) -/
def liveSet (p : Prog) : List Nat := iter (closeStep p) (p.subs.length + 1) (callsOf p.main).eraseDups

/-- every variable that the main routine and the routines it can reach mention (never-called
    routines are not compiled: their variables get no slot and are not renamed) -/
def varsP (p : Prog) : List Nat :=
  varsE p.main ++ p.mainLocals ++ (p.subs.filter (fun sd => (liveSet p).contains sd.id)).flatMap varsSub

def injOnB (f : Nat → Nat) (D : List Nat) : Bool :=
  D.all (fun a => D.all (fun b => f a != f b || a == b))

def fixesRequested (f : Nat → Nat) (D : List Nat) : Bool :=
  D.all (fun v => decide (256 ≤ v) || f v == v)

/-- what the discipline needs to know about the routine a tree belongs to -/
structure DK where
  rp : List Nat                     -- by-reference parameter cells of this routine
  R : List Nat                      -- by-reference parameter cells of all routines
  kinds : List (Nat × List Bool)    -- routine id ↦ which parameters are by reference
  live : List Nat                   -- the routines that are checked (`liveSet`)
  K0 : RK                           -- arity typing context of the renamed program
  f : Nat → Nat                     -- the renaming

/-- a reference: the number of a variable that is no reference cell, or the routine's own
    by-reference parameter -/
def refArg (K : DK) : Expr → Bool
  | .index s => !K.R.contains s
  | .load v => K.rp.contains v
  | _ => false

/-- single-valuedness of every operand of a list in which references occur -/
def arOk (K : DK) (args : List Expr) : Bool := wtRArgs K.K0 (renameList K.f args)

mutual
  def dOk (K : DK) : Expr → Bool
    | .int _ => true
    | .bytes _ => true
    | .index _ => false
    | .load v => !K.R.contains v
    | .store v e => !K.R.contains v && dOk K e
    | .prim op _ args =>
      if Models.Optimizer.framedOps.contains op then dOkL K args
      else if op == "vloads" then dOkK K [true] args && arOk K args && args.length == 1
      else if op == "vstores" then dOkK K [true, false] args && arOk K args && args.length == 2
      else false
    | .multi op _ args outs =>
      Models.Optimizer.framedOps.contains op && outs.all (fun v => !K.R.contains v) && dOkL K args
    | .seq es => dOkL K es
    | .ite c t none => dOk K c && dOk K t
    | .ite c t (some e) => dOk K c && dOk K t && dOk K e
    | .cond arms => dOkA K arms
    | .while_ c b => dOk K c && dOk K b
    | .for_ i c s b => dOk K i && dOk K c && dOk K s && dOk K b
    | .brk => true
    | .cont => true
    | .assert_ c => dOk K c
    | .ret none => true
    | .ret (some e) => dOk K e
    | .exit e => dOk K e
    | .err => true
    | .call f args =>
      (match K.kinds.lookup f with
       | none => dOkL K args
       | some ks => K.live.contains f && (if ks.any id then dOkK K ks args && arOk K args else dOkL K args))
    | .wideRatio ns ds => dOkL K ns && dOkL K ds
    | .substring s a b => dOk K s && dOk K a && dOk K b
    | .extract s a l => dOk K s && dOk K a && dOk K l
    | .suffix s a => dOk K s && dOk K a
    | .note none => true
    | .note (some e) => dOk K e
    | .nonce _ e => dOk K e
  def dOkL (K : DK) : List Expr → Bool
    | [] => true
    | e :: es => dOk K e && dOkL K es
  /-- operands by kind: `true` = a reference is expected -/
  def dOkK (K : DK) : List Bool → List Expr → Bool
    | _, [] => true
    | [], e :: es => dOk K e && dOkK K [] es
    | true :: ks, e :: es => refArg K e && dOkK K ks es
    | false :: ks, e :: es => dOk K e && dOkK K ks es
  def dOkA (K : DK) : List (Expr × Expr) → Bool
    | [] => true
    | (c, b) :: rest => dOk K c && dOk K b && dOkA K rest
end

/-- an arity typing context of the renamed program, chosen to accept as much as possible (only
    `callees` matters for the arity theorem `C02Gen.arity_all`): by-value parameters that kept a key
    `≥ 256` (frame-pointer convention: they live in the frame and get no slot) are readable
    everywhere; `vloads` / `vstores` through a by-reference parameter of any routine are admitted -/
def k0Of (f : Nat → Nat) (p : Prog) : RK :=
  let p' := renameProg f p
  let L := (allValSlots p').filter (fun v => decide (256 ≤ v))
  { callees := calleesOf p', rv := true, ign := L, own := L, dyn := true, strict := true,
    ref := allRefSlots p', kinds := kindsOf p' }

def dkOf (f : Nat → Nat) (p : Prog) (rp : List Nat) : DK :=
  { rp := rp, R := allRefSlots p, kinds := kindsOf p, live := liveSet p, K0 := k0Of f p, f := f }

/-- **The decidable hypothesis of renaming invariance** (see the header) -/
def renameOk (f : Nat → Nat) (p : Prog) : Bool :=
  injOnB f (varsP p) && fixesRequested f (varsP p) &&
  dOk (dkOf f p []) p.main &&
  p.subs.all (fun sd => !(liveSet p).contains sd.id || dOk (dkOf f p (refSlots sd)) sd.body) &&
  p.subs.all (fun sd => !(liveSet p).contains sd.id || (valSlots sd).all (fun v => !(allRefSlots p).contains v))

/-! ### the renaming the validators apply -/

/-- the bindings `renamedProg` discovers (its discovery pass, repeated) -/
def bindingsProg (version : Nat) (fp : Bool) (p : Prog) (P : Program) : Except String (List (Nat × Nat)) := do
  let placeholder (sd : SubDef) : List Nat := (List.range (spillKeys fp sd).length).map (· + 100000)
  let main0 ← genMainR version true p
  let mk0 (k : Nat) : Except String Routine :=
    match findSub p k with
    | some sd => genSub version fp true p sd (placeholder sd)
    | none => .error "unknown subroutine"
  let (rs0, _) ← (explore P looseEqR main0 mk0 (P.size + 64)).mapError ("loose: " ++ ·)
  let bs := ((rs0.flatMap (fun (r, _, V) => harvest r.G P V)).filter (fun (k, _) => k < 100000)).eraseDups
  if !bindingsOk bs then throw "bindings are not a bijection"
  pure bs

/-- everything `Proofs.CompileOriginal.compile_correct_original_prog` assumes, as one decidable
    check on the ORIGINAL program and the real TEAL: the composed theorem applies to the renamed
    program, and the renaming satisfies `renameOk` -/
def originalB (version : Nat) (fp : Bool) (p : Prog) (P : Program) (dyn : Bool := false) (strict : Bool := false) : Bool :=
  match bindingsProg version fp p P with
  | .ok bs => renameOk (applyBindings bs) p && composedB version fp p P dyn strict
  | .error _ => false

/-- `renameOk` for the bindings discovered in the real TEAL (errors count as `false`) -/
def renameOkB (version : Nat) (fp : Bool) (p : Prog) (P : Program) : Bool :=
  match bindingsProg version fp p P with
  | .ok bs => renameOk (applyBindings bs) p
  | .error _ => false

/-- what the driver evaluates for a call-free program (`c01-original`): `validateMain` accepts, the
    renamed tree is in the fragment of `gen_correct`, and `renameOk` holds for the discovered bindings
    — the hypotheses of `Proofs.CompileOriginal.compile_correct_originalMainB` -/
def originalMainB (version : Nat) (e : Expr) (P : Program) : Bool :=
  match validateMain version e P with
  | .ok r => r.inFragment && renameOk (applyBindings r.bindings) { subs := [], main := e }
  | .error _ => false

end PyTealV.Check
