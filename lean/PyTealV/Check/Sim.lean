/-
  Translation validator: a routine graph `G` (from the code-generation model) against flat TEAL
  `P` (the real compiler's output).  `closed G s P V` checks that the finite relation `V` between
  graph program points and pcs contains the entry pair and is closed under one visible step.
  Soundness (Proofs/Sim.lean): then `G` and `P` have the same outcome on every context.
  The search for `V` (`findSim`) is untrusted.
-/
import PyTealV.Comp.Gen
namespace PyTealV.Check
open PyTealV PyTealV.Avm PyTealV.Comp

/-- normalised graph positions: at an op, at a conditional exit, at an exit without successor -/
inductive GPos
  | op (b i : Nat)
  | br (b : Nat)
  | fell (b : Nat)
  deriving Repr, BEq, DecidableEq, Inhabited

/-- follow `next` edges through exhausted blocks (bounded) -/
def gskip (G : Graph) : Nat → Nat → Nat → Option GPos
  | 0, _, _ => none
  | fuel+1, b, i =>
    match G[b]? with
    | none => none
    | some blk =>
      if i < blk.ops.length then some (.op b i) else
      match blk.succ with
      | .next c => gskip G fuel c 0
      | .cond _ _ => some (.br b)
      | .none => some (.fell b)

/-- follow labels, pragmas and unconditional branches (bounded); result: pc of the next real
    instruction, or `P.size` at the end of the program -/
def pskip (P : Program) : Nat → Nat → Option Nat
  | 0, _ => none
  | fuel+1, pc =>
    match P[pc]? with
    | none => if pc = P.size then some pc else none
    | some ln =>
      match ln.instr with
      | .label _ => pskip P fuel (pc + 1)
      | .pragma _ _ => pskip P fuel (pc + 1)
      | .b l => (match findLabel P l with
        | some t => pskip P fuel t
        | none => none)
      | _ => some pc

def isSimple (i : Instr) : Bool :=
  match i with
  | .pushInt _ | .pushBytes _ | .load _ | .store _ | .prim _ _ | .ret | .err => true
  | _ => false

def isTerminalOp (i : Instr) : Bool :=
  match i with
  | .ret | .err => true
  | _ => false

abbrev Rel := List (GPos × Nat)

def skipFuel (G : Graph) (P : Program) : Nat := G.size + P.size + 2

def relHas (V : Rel) (g : Option GPos) (p : Option Nat) : Bool :=
  match g, p with
  | some g, some p => V.contains (g, p)
  | _, _ => false

/-- one pair of the relation is consistent: the visible step from it stays inside `V` -/
def localOk (G : Graph) (P : Program) (V : Rel) (gp : GPos) (pc : Nat) : Bool :=
  let F := skipFuel G P
  match gp with
  | .op b i =>
    (match G[b]?, P[pc]? with
     | some blk, some ln =>
       (match blk.ops[i]? with
        | some x =>
          x == ln.instr && isSimple x &&
          (isTerminalOp x || relHas V (gskip G F b (i + 1)) (pskip P F (pc + 1)))
        | none => false)
     | _, _ => false)
  | .br b =>
    (match G[b]?, P[pc]? with
     | some blk, some ln =>
       (match blk.succ, ln.instr with
        | .cond t f, .bnz l =>
          (match findLabel P l with
           | some tgt => relHas V (gskip G F t 0) (pskip P F tgt) && relHas V (gskip G F f 0) (pskip P F (pc + 1))
           | none => false)
        | .cond t f, .bz l =>
          (match findLabel P l with
           | some tgt => relHas V (gskip G F f 0) (pskip P F tgt) && relHas V (gskip G F t 0) (pskip P F (pc + 1))
           | none => false)
        | _, _ => false)
     | _, _ => false)
  | .fell _ => pc == P.size

/-- the certificate check -/
def closed (G : Graph) (s : Nat) (P : Program) (V : Rel) : Bool :=
  relHas V (gskip G (skipFuel G P) s 0) (pskip P (skipFuel G P) 0) &&
  V.all (fun (gp, pc) => localOk G P V gp pc)

/-! ### untrusted search for the relation -/

/-- explanation of the first mismatch, for reports -/
def explain (G : Graph) (P : Program) (gp : GPos) (pc : Nat) : String :=
  let pi := match P[pc]? with
    | some ln => ln.raw.op ++ " " ++ " ".intercalate ln.raw.imms
    | none => "<end>"
  match gp with
  | .op b i => match G[b]? with
    | some blk => s!"graph op {repr (blk.ops[i]?)} at block {b}.{i} vs TEAL pc {pc}: {pi}"
    | none => s!"missing block {b}"
  | .br b => s!"graph conditional exit of block {b} vs TEAL pc {pc}: {pi}"
  | .fell b => s!"graph routine end (block {b}) vs TEAL pc {pc}: {pi}"

/-- successors demanded by `localOk` (none = the pair itself is inconsistent) -/
def demands (eqv : Instr → Instr → Bool) (G : Graph) (P : Program) (gp : GPos) (pc : Nat) : Option (List (GPos × Nat)) :=
  let F := skipFuel G P
  let pair (g : Option GPos) (p : Option Nat) : Option (GPos × Nat) :=
    match g, p with
    | some g, some p => some (g, p)
    | _, _ => none
  match gp with
  | .op b i =>
    (match G[b]?, P[pc]? with
     | some blk, some ln =>
       (match blk.ops[i]? with
        | some x =>
          if eqv x ln.instr && isSimple ln.instr then
            if isTerminalOp ln.instr then some [] else (pair (gskip G F b (i + 1)) (pskip P F (pc + 1))).map ([·])
          else none
        | none => none)
     | _, _ => none)
  | .br b =>
    (match G[b]?, P[pc]? with
     | some blk, some ln =>
       (match blk.succ, ln.instr with
        | .cond t f, .bnz l =>
          (match findLabel P l with
           | some tgt => do
             let a ← pair (gskip G F t 0) (pskip P F tgt)
             let c ← pair (gskip G F f 0) (pskip P F (pc + 1))
             pure [a, c]
           | none => none)
        | .cond t f, .bz l =>
          (match findLabel P l with
           | some tgt => do
             let a ← pair (gskip G F f 0) (pskip P F tgt)
             let c ← pair (gskip G F t 0) (pskip P F (pc + 1))
             pure [a, c]
           | none => none)
        | _, _ => none)
     | _, _ => none)
  | .fell _ => if pc == P.size then some [] else none

def graphPoints (G : Graph) : Nat := G.foldl (fun a b => a + b.ops.length + 2) 0

def findSim (eqv : Instr → Instr → Bool) (G : Graph) (s : Nat) (P : Program) : Except String Rel :=
  let F := skipFuel G P
  match gskip G F s 0, pskip P F 0 with
  | some g0, some p0 =>
    let rec go : Nat → List (GPos × Nat) → Rel → Except String Rel
      | 0, _, _ => .error "search budget exhausted"
      | _, [], V => .ok V
      | n+1, (gp, pc) :: rest, V =>
        if V.contains (gp, pc) then go n rest V else
        match demands eqv G P gp pc with
        | some ds => go n (ds ++ rest) ((gp, pc) :: V)
        | none => .error (explain G P gp pc)
    go (3 * (graphPoints G + 1) * (P.size + 2) + 64) [(g0, p0)] []
  | _, _ => .error "cannot normalise the entry points"

/-- loose instruction match used only to discover which slot each source variable got:
    variable accesses match whatever the slot number; `__index v` matches any `int` -/
def looseEq (x y : Instr) : Bool :=
  match x, y with
  | .load _, .load _ => true
  | .store _, .store _ => true
  | .prim "__index" _, .pushInt _ => true
  | a, b => a == b

/-- bindings (source variable ↦ slot) read off a loose relation -/
def harvest (G : Graph) (P : Program) (V : Rel) : List (Nat × Nat) :=
  V.filterMap (fun (gp, pc) => match gp with
    | .op b i => (match G[b]?, P[pc]? with
      | some blk, some ln => (match blk.ops[i]?, ln.instr with
        | some (.load k), .load s => some (k, s)
        | some (.store k), .store s => some (k, s)
        | some (.prim "__index" [k]), .pushInt s => (Util.parseNat k).map (·, s)
        | _, _ => none)
      | _, _ => none)
    | _ => none)

/-- the binding list is a function and injective -/
def bindingsOk (bs : List (Nat × Nat)) : Bool :=
  bs.all (fun (k, s) => bs.all (fun (k', s') => (k == k') == (s == s')))

end PyTealV.Check
