/-
  C05 — stack / type discipline checker for emitted TEAL (core Lean only).

  Abstract interpretation over the flat program: one abstract state per pc
    (routine, proto-executed?, type stack of the values the routine owns — head = top);
  the height relative to the routine base is the length of that type stack.
  Abstract values `uint64 | bytes | any`; scratch slots carry a flow-insensitive type each
  (join of everything stored and of the initial `uint64 0`); routines carry a summary
  (argument types, result types, does it return).

  The checker is a *certificate check*: `ok c p` tests that the candidate `c : Cert`
  (abstract state per pc + routine summaries + scratch-slot types) is closed under the transfer
  function `transfer`.  How the certificate is found (`infer`: heights first, then a round-robin
  type fixpoint, both with fuel) is untrusted; only `ok`/`transfer`/`primT`/`sig`/`covered`/`anyAt`/
  `anyFree` are mentioned by `Proofs/C05*.lean` (`stackcheck_sound`, `run_sound`,
  `no_any_no_type_error`, `base_preserved`).

  Proved fragment (`coveredOps`, decidable side condition `covered p`): the 15 structural opcodes
  (`structOps`), the 96 fixed-signature opcodes of `coveredTable`, and the field-dependent
  `txn/txna/txnas/gtxn/gtxna/gtxnas/gtxns/gtxnsa/gtxnsas/global/itxn_field` plus
  `asset_params_get/app_params_get/acct_params_get` on uint64-valued fields.  Everything else PyTeal
  can emit has a documented signature in `sigUncovered` (used by the checker, not by the theorem):
  ledger look-ups returning bytes and `itxn*` reads (the reference semantics uses an untyped
  stand-in for them), `divmodw` (modelled, lemma not proved), group loads, crypto, v11 opcodes.

  Lints outside the soundness statement (reported, decided by the harness): `exitExtra` (a
  scratch-convention routine reaches `return` with more than one value of its own) and
  `frameRetype` (`frame_bury` changes the concrete type of a frame slot).
-/
import PyTealV.Avm.Sem
import PyTealV.Gen.FieldTypes
namespace PyTealV.Check.StackCheck
open PyTealV PyTealV.Avm

/-! ### Abstract values -/

inductive ATy | uint64 | bytes | any
  deriving Repr, DecidableEq, Inhabited

namespace ATy
/-- `a ⊑ b` -/
def le : ATy → ATy → Bool
  | _, .any => true
  | .uint64, .uint64 => true
  | .bytes, .bytes => true
  | _, _ => false

/-- not definitely different -/
def compat : ATy → ATy → Bool
  | .uint64, .bytes => false
  | .bytes, .uint64 => false
  | _, _ => true

def join : ATy → ATy → ATy
  | .uint64, .uint64 => .uint64
  | .bytes, .bytes => .bytes
  | _, _ => .any

def isAny : ATy → Bool
  | .any => true
  | _ => false

def str : ATy → String
  | .uint64 => "u" | .bytes => "b" | .any => "a"
end ATy

def showTys (ts : List ATy) : String := String.join (ts.map ATy.str)

def tysLe : List ATy → List ATy → Bool
  | [], [] => true
  | a :: as, b :: bs => a.le b && tysLe as bs
  | _, _ => false

/-- `popCompat tys want`: the top `want.length` types must be compatible with `want`
    (both head = top); returns what stays. -/
def popCompat : List ATy → List ATy → Except String (List ATy)
  | tys, [] => .ok tys
  | t :: ts, w :: ws =>
    if t.compat w then popCompat ts ws
    else .error s!"operand of type {t.str} where {w.str} is required"
  | [], _ :: _ => .error "pops below the routine's base"

/-- like `popCompat` but with `⊑` (used for call arguments) -/
def popLe : List ATy → List ATy → Except String (List ATy)
  | tys, [] => .ok tys
  | t :: ts, w :: ws =>
    if t.le w then popLe ts ws
    else .error s!"argument of type {t.str} not within summary type {w.str}"
  | [], _ :: _ => .error "call with fewer values than the callee's arguments"

/-! ### Field types and opcode signatures -/

def lookupS {α} : List (String × α) → String → Option α
  | [], _ => none
  | (k, v) :: r, s => if k = s then some v else lookupS r s

def fieldTy (tbl : List (String × Bool)) (f : String) : ATy :=
  match lookupS tbl f with
  | some true => .bytes
  | some false => .uint64
  | none => .any

open Gen.FieldTypes in
def txnTy (f : String) : ATy := fieldTy txnFields f
open Gen.FieldTypes in
def globalTy (f : String) : ATy := fieldTy globalFields f

section
open ATy
local notation "u" => ATy.uint64
local notation "b" => ATy.bytes
local notation "a" => ATy.any

/-- Fixed signatures (documentation order: first = deepest operand; last = top) of the opcodes
    modelled by `Avm.execPrim`, each proved sound in `Proofs/C05.lean`. -/
def coveredTable : List (String × List ATy × List ATy) := [
  ("+", [u,u], [u]), ("-", [u,u], [u]), ("*", [u,u], [u]), ("/", [u,u], [u]), ("%", [u,u], [u]),
  ("<", [u,u], [u]), (">", [u,u], [u]), ("<=", [u,u], [u]), (">=", [u,u], [u]),
  ("&&", [u,u], [u]), ("||", [u,u], [u]), ("&", [u,u], [u]), ("|", [u,u], [u]), ("^", [u,u], [u]),
  ("shl", [u,u], [u]), ("shr", [u,u], [u]), ("exp", [u,u], [u]),
  ("!", [u], [u]), ("~", [u], [u]), ("sqrt", [u], [u]), ("bitlen", [a], [u]),
  ("mulw", [u,u], [u,u]), ("addw", [u,u], [u,u]), ("expw", [u,u], [u,u]),
  ("divw", [u,u,u], [u]),
  ("len", [b], [u]), ("itob", [u], [b]), ("btoi", [b], [u]), ("concat", [b,b], [b]),
  ("substring", [b], [b]), ("substring3", [b,u,u], [b]), ("extract", [b], [b]), ("extract3", [b,u,u], [b]),
  ("extract_uint16", [b,u], [u]), ("extract_uint32", [b,u], [u]), ("extract_uint64", [b,u], [u]),
  ("getbit", [a,u], [u]), ("getbyte", [b,u], [u]), ("setbyte", [b,u,u], [b]), ("bzero", [u], [b]),
  ("replace2", [b,b], [b]), ("replace3", [b,u,b], [b]), ("base64_decode", [b], [b]),
  ("b+", [b,b], [b]), ("b-", [b,b], [b]), ("b*", [b,b], [b]), ("b/", [b,b], [b]), ("b%", [b,b], [b]),
  ("b|", [b,b], [b]), ("b&", [b,b], [b]), ("b^", [b,b], [b]),
  ("b<", [b,b], [u]), ("b>", [b,b], [u]), ("b<=", [b,b], [u]), ("b>=", [b,b], [u]),
  ("b==", [b,b], [u]), ("b!=", [b,b], [u]), ("b~", [b], [b]), ("bsqrt", [b], [b]),
  ("sha256", [b], [b]), ("keccak256", [b], [b]), ("sha512_256", [b], [b]), ("sha3_256", [b], [b]),
  ("ed25519verify", [b,b,b], [u]), ("ed25519verify_bare", [b,b,b], [u]),
  ("assert", [u], []), ("loads", [u], [a]),
  ("arg", [], [b]), ("arg_0", [], [b]), ("arg_1", [], [b]), ("arg_2", [], [b]), ("arg_3", [], [b]),
  ("args", [u], [b]),
  ("app_global_get", [b], [a]), ("app_global_get_ex", [u,b], [a,u]), ("app_global_put", [b,a], []),
  ("app_global_del", [b], []), ("app_local_get", [a,b], [a]), ("app_local_get_ex", [a,u,b], [a,u]),
  ("app_local_put", [a,b,a], []), ("app_local_del", [a,b], []), ("app_opted_in", [a,u], [u]),
  ("balance", [a], [u]), ("min_balance", [a], [u]), ("asset_holding_get", [a,u], [u,u]),
  ("log", [b], []),
  ("box_create", [b,u], [u]), ("box_put", [b,b], []), ("box_get", [b], [b,u]), ("box_len", [b], [u,u]),
  ("box_del", [b], [u]), ("box_extract", [b,u,u], [b]), ("box_replace", [b,u,b], []),
  ("itxn_begin", [], []), ("itxn_next", [], []), ("itxn_submit", [], [])]

/-- Signatures that depend on an immediate (field name), for opcodes modelled by `execPrim`
    with a result type that `execPrim` really produces (under `CtxOK`). -/
def sigImm (op : String) (imms : List String) : Option (List ATy × List ATy) :=
  let fld (i : Nat) (pops : List ATy) (ty : String → ATy) : Option (List ATy × List ATy) :=
    match imms[i]? with
    | some f => some (pops, [ty f])
    | none => none
  let params (tbl : List (String × Bool)) (acct : ATy) : Option (List ATy × List ATy) :=
    match imms[0]? with
    | some f => match lookupS tbl f with
      | some false => some ([acct], [u, u])
      | _ => none
    | none => none
  match op with
  | "txn" => fld 0 [] txnTy
  | "txna" => fld 0 [] txnTy
  | "txnas" => fld 0 [u] txnTy
  | "gtxn" => fld 1 [] txnTy
  | "gtxna" => fld 1 [] txnTy
  | "gtxnas" => fld 1 [u] txnTy
  | "gtxns" => fld 0 [u] txnTy
  | "gtxnsa" => fld 0 [u] txnTy
  | "gtxnsas" => fld 0 [u, u] txnTy
  | "global" => fld 0 [] globalTy
  | "itxn_field" => match imms[0]? with
    | some f => some ([txnTy f], [])
    | none => none
  | "asset_params_get" => params Gen.FieldTypes.assetParamFields u
  | "app_params_get" => params Gen.FieldTypes.appParamFields u
  | "acct_params_get" => params Gen.FieldTypes.acctFields a
  | _ => none

/-- Signatures of opcodes PyTeal can emit that `execPrim` does not model, or models with an
    untyped stand-in (ledger look-ups returning bytes, `itxn` reads).  Written from the AVM
    opcode documentation; used by the checker, **not** covered by the soundness theorem. -/
def sigUncovered (op : String) (imms : List String) : Option (List ATy × List ATy) :=
  let fld (i : Nat) (pops : List ATy) (tbl : List (String × Bool)) (extra : List ATy) : Option (List ATy × List ATy) :=
    match imms[i]? with
    | some f => some (pops, fieldTy tbl f :: extra)
    | none => none
  open Gen.FieldTypes in
  match op with
  | "asset_params_get" => fld 0 [u] assetParamFields [u]
  | "app_params_get" => fld 0 [u] appParamFields [u]
  | "acct_params_get" => fld 0 [a] acctFields [u]
  | "voter_params_get" => fld 0 [a] voterFields [u]
  | "divmodw" => some ([u, u, u, u], [u, u, u, u])   -- modelled by `execPrim`; its lemma is not proved (see Proofs/C05Prim)
  | "online_stake" => some ([], [u])
  | "itxn" => fld 0 [] txnFields []
  | "itxna" => fld 0 [] txnFields []
  | "itxnas" => fld 0 [u] txnFields []
  | "gitxn" => fld 1 [] txnFields []
  | "gitxna" => fld 1 [] txnFields []
  | "gitxnas" => fld 1 [u] txnFields []
  | "gload" => some ([], [a])
  | "gloads" => some ([u], [a])
  | "gloadss" => some ([u, u], [a])
  | "gaid" => some ([], [u])
  | "gaids" => some ([u], [u])
  | "block" => fld 0 [u] blockFields []
  | "json_ref" => match imms[0]? with
    | some "JSONUint64" => some ([b, b], [u])
    | some _ => some ([b, b], [b])
    | none => none
  | "vrf_verify" => some ([b, b, b], [b, u])
  | "ecdsa_verify" => some ([b, b, b, b, b], [u])
  | "ecdsa_pk_decompress" => some ([b], [b, b])
  | "ecdsa_pk_recover" => some ([b, u, b, b], [b, b])
  | "box_splice" => some ([b, u, u, b], [])
  | "box_resize" => some ([b, u], [])
  | "mimc" => some ([b], [b])
  | "ec_add" => some ([b, b], [b])
  | "ec_scalar_mul" => some ([b, b], [b])
  | "ec_multi_scalar_mul" => some ([b, b], [b])
  | "ec_pairing_check" => some ([b, b], [u])
  | "ec_subgroup_check" => some ([b], [u])
  | "ec_map_to" => some ([b], [b])
  | _ => none
end

/-- documentation-order signature (pops, pushes) -/
def sigDoc (op : String) (imms : List String) : Option (List ATy × List ATy) :=
  match lookupS coveredTable op with
  | some s => some s
  | none => match sigImm op imms with
    | some s => some s
    | none => sigUncovered op imms

/-- `sig op imms = some (pops, pushes)`, both in **stack order (head = top)**. -/
def sig (op : String) (imms : List String) : Option (List ATy × List ATy) :=
  (sigDoc op imms).map (fun s => (s.1.reverse, s.2.reverse))

/-- opcodes handled structurally by `primT` (polymorphic / stack shuffling) -/
def structOps : List String :=
  ["pop", "dup", "dup2", "swap", "select", "dig", "bury", "cover", "uncover", "popn", "dupn",
   "==", "!=", "setbit", "stores"]

/-- the opcodes whose abstract transfer is proved sound against `execPrim` -/
def coveredOps : List String :=
  structOps ++ coveredTable.map (·.1) ++
    ["txn", "txna", "txnas", "gtxn", "gtxna", "gtxnas", "gtxns", "gtxnsa", "gtxnsas", "global",
     "itxn_field", "asset_params_get", "app_params_get", "acct_params_get"]

/-- is this `prim` instruction inside the proved fragment? (decidable side condition) -/
def coveredPrim (op : String) (imms : List String) : Bool :=
  structOps.contains op || (lookupS coveredTable op).isSome || (sigImm op imms).isSome

/-! ### Certificates -/

structure RSig where
  entry : Nat
  args : List ATy          -- head = top of stack at entry (= last argument)
  rets : List ATy          -- head = top
  returns : Bool           -- a `retsub` of this routine is reachable
  deriving Repr, Inhabited

structure AState where
  rt : Nat                 -- index into `Cert.routines`; 0 = main
  proto : Bool             -- `proto` already executed in this activation
  tys : List ATy           -- values owned by the routine, head = top; height = length
  deriving Repr, Inhabited

structure Cert where
  routines : List RSig
  slots : List ATy
  states : Array (Option AState)
  deriving Inhabited

def Cert.slotTy (c : Cert) (n : Nat) : ATy := (c.slots[n]?).getD .any
def Cert.stateAt (c : Cert) (pc : Nat) : Option AState := (c.states[pc]?).join

def AState.le (x y : AState) : Bool := x.rt == y.rt && x.proto == y.proto && tysLe x.tys y.tys

/-- the certificate has a state at `pc` that subsumes `x` -/
def Cert.need (c : Cert) (pc : Nat) (x : AState) : Bool :=
  match c.stateAt pc with
  | some y => x.le y
  | none => false

def allSlotsAccept (c : Cert) (t : ATy) : Bool := (List.range 256).all (fun n => t.le (c.slotTy n))

/-! ### Transfer functions -/

def immN (imms : List String) (i : Nat) : Except String Nat :=
  match imms[i]? with
  | some s => match Util.parseNat s with
    | some n => .ok n
    | none => .error s!"bad immediate {s}"
  | none => .error s!"missing immediate {i}"

def underMsg : String := "pops below the routine's base"

/-- abstract transfer of the structurally handled opcodes (`structOps`) -/
def structT (c : Cert) (op : String) (imms : List String) (tys : List ATy) : Except String (List ATy) :=
  match op with
  | "pop" => match tys with
    | _ :: r => .ok r
    | _ => .error underMsg
  | "dup" => match tys with
    | x :: r => .ok (x :: x :: r)
    | _ => .error underMsg
  | "dup2" => match tys with
    | y :: x :: r => .ok (y :: x :: y :: x :: r)
    | _ => .error underMsg
  | "swap" => match tys with
    | y :: x :: r => .ok (x :: y :: r)
    | _ => .error underMsg
  | "select" => match tys with
    | z :: y :: x :: r => if z.compat .uint64 then .ok (x.join y :: r) else .error "select on bytes"
    | _ => .error underMsg
  | "dig" => do
    let n ← immN imms 0
    match tys[n]? with
    | some t => .ok (t :: tys)
    | none => .error underMsg
  | "bury" => do
    let n ← immN imms 0
    if n = 0 then .error "bury 0" else
    match tys with
    | x :: r => if n - 1 < r.length then .ok (r.set (n - 1) x) else .error underMsg
    | _ => .error underMsg
  | "cover" => do
    let n ← immN imms 0
    match tys with
    | x :: r => if n ≤ r.length then .ok (r.take n ++ x :: r.drop n) else .error underMsg
    | _ => .error underMsg
  | "uncover" => do
    let n ← immN imms 0
    match tys[n]? with
    | some t => .ok (t :: (tys.take n ++ tys.drop (n + 1)))
    | none => .error underMsg
  | "popn" => do
    let n ← immN imms 0
    if n ≤ tys.length then .ok (tys.drop n) else .error underMsg
  | "dupn" => do
    let n ← immN imms 0
    match tys with
    | x :: r => .ok (List.replicate (n + 1) x ++ r)
    | _ => .error underMsg
  | "==" | "!=" => match tys with
    | y :: x :: r => if x.compat y then .ok (.uint64 :: r) else .error s!"{op} on {x.str} and {y.str}"
    | _ => .error underMsg
  | "setbit" => match tys with
    | z :: y :: x :: r =>
      if z.compat .uint64 && y.compat .uint64 then .ok (x :: r) else .error "setbit index/value of type bytes"
    | _ => .error underMsg
  | "stores" => match tys with
    | y :: x :: r =>
      if x.compat .uint64 then
        if allSlotsAccept c y then .ok r else .error s!"stores of {y.str} not within every slot type"
      else .error "stores slot of type bytes"
    | _ => .error underMsg
  | _ => .error s!"opcode {op} is not structural"

/-- abstract transfer of a table opcode: pop operands compatible with the signature, push results -/
def tableT (op : String) (imms : List String) (tys : List ATy) : Except String (List ATy) :=
  match sig op imms with
  | some (pops, pushes) => do
    let r ← popCompat tys pops
    .ok (pushes ++ r)
  | none => .error s!"opcode {op} has no signature"

/-- abstract `execPrim` on the type stack (head = top) -/
def primT (c : Cert) (op : String) (imms : List String) (tys : List ATy) : Except String (List ATy) :=
  if structOps.contains op then structT c op imms tys else tableT op imms tys

/-- first routine (index ≥ 1) whose entry is `t` -/
def findRt : List RSig → Nat → Nat → Option (Nat × RSig)
  | [], _, _ => none
  | s :: rest, i, t => if s.entry = t ∧ i ≠ 0 then some (i, s) else findRt rest (i + 1) t

/-- types returned by a `proto A R` routine: the `R` values just above the `A` arguments -/
def protoRets (tys : List ATy) (A R : Nat) : List ATy := ((tys.reverse.drop A).take R).reverse

def AState.push (x : AState) (t : ATy) : AState := { x with tys := t :: x.tys }

/-- Abstract successors of the instruction at `pc` in state `x`: every pair `(pc', x')` returned
    must be subsumed by the certificate.  `.error` = the instruction violates the discipline. -/
def transfer (c : Cert) (p : Program) (pc : Nat) (x : AState) : Instr → Except String (List (Nat × AState))
  | .label _ | .pragma _ _ | .intcblock _ | .bytecblock _ => .ok [(pc + 1, x)]
  | .intc _ | .pushInt _ => .ok [(pc + 1, x.push .uint64)]
  | .bytec _ | .pushBytes _ => .ok [(pc + 1, x.push .bytes)]
  | .tmpl _ _ => .ok []
  | .err => .ok []
  | .ret => match x.tys with
    | t :: _ => if t.compat .uint64 then .ok [] else .error "return of bytes"
    | [] => .error underMsg
  | .load n => .ok [(pc + 1, x.push (c.slotTy n))]
  | .store n => match x.tys with
    | t :: r =>
      if t.le (c.slotTy n) then .ok [(pc + 1, { x with tys := r })]
      else .error s!"store {n} of {t.str} into slot of type {(c.slotTy n).str}"
    | [] => .error underMsg
  | .b l => match findLabel p l with
    | some t => .ok [(t, x)]
    | none => .error s!"undefined label {l}"
  | .bz l | .bnz l => match x.tys with
    | t :: r =>
      if t.compat .uint64 then
        match findLabel p l with
        | some tg => .ok [(tg, { x with tys := r }), (pc + 1, { x with tys := r })]
        | none => .error s!"undefined label {l}"
      else .error "branch on bytes"
    | [] => .error underMsg
  | .callsub l => match findLabel p l with
    | some tg => match findRt c.routines 0 tg with
      | some (j, sg) => do
        let rest ← popLe x.tys sg.args
        .ok ((tg, ⟨j, false, sg.args⟩) ::
             (if sg.returns then [(pc + 1, { x with tys := sg.rets ++ rest })] else []))
      | none => .error s!"no routine summary for {l}"
    | none => .error s!"undefined label {l}"
  | .retsub =>
    if x.rt = 0 then .error "retsub in the main routine" else
    match c.routines[x.rt]? with
    | some sg =>
      if !sg.returns then .error "retsub in a routine summarised as non-returning" else
      if x.proto then
        if sg.args.length + sg.rets.length ≤ x.tys.length then
          if tysLe (protoRets x.tys sg.args.length sg.rets.length) sg.rets then .ok []
          else .error s!"retsub: result types {showTys (protoRets x.tys sg.args.length sg.rets.length)} not within {showTys sg.rets}"
        else .error s!"retsub with height {x.tys.length}, proto needs {sg.args.length}+{sg.rets.length}"
      else if tysLe x.tys sg.rets then .ok []
      else .error s!"retsub with {showTys x.tys} above the caller's values, summary {showTys sg.rets}"
    | none => .error "no routine summary"
  | .proto A R =>
    if x.rt = 0 then .error "proto in the main routine" else
    if x.proto then .error "proto twice" else
    match c.routines[x.rt]? with
    | some sg =>
      if A = sg.args.length ∧ R = sg.rets.length ∧ A ≤ x.tys.length then .ok [(pc + 1, { x with proto := true })]
      else .error s!"proto {A} {R} against summary {sg.args.length} {sg.rets.length}"
    | none => .error "no routine summary"
  | .frameDig i =>
    if x.rt = 0 then .error "frame_dig in the main routine" else
    match c.routines[x.rt]? with
    | some sg =>
      let k : Int := (sg.args.length : Int) + i
      if 0 ≤ k ∧ k.toNat < x.tys.length then
        match x.tys[x.tys.length - 1 - k.toNat]? with
        | some t => .ok [(pc + 1, x.push t)]
        | none => .error "frame_dig outside the frame"
      else .error s!"frame_dig {i} outside [-{sg.args.length}, {x.tys.length - sg.args.length})"
    | none => .error "no routine summary"
  | .frameBury i =>
    if x.rt = 0 then .error "frame_bury in the main routine" else
    match c.routines[x.rt]? with
    | some sg => match x.tys with
      | t :: r =>
        let k : Int := (sg.args.length : Int) + i
        if 0 ≤ k ∧ k.toNat < r.length then
          .ok [(pc + 1, { x with tys := r.set (r.length - 1 - k.toNat) t })]
        else .error s!"frame_bury {i} outside [-{sg.args.length}, {r.length - sg.args.length})"
      | [] => .error underMsg
    | none => .error "no routine summary"
  | .prim op imms => do
    let tys' ← primT c op imms x.tys
    .ok [(pc + 1, { x with tys := tys' })]

/-- operands of a structural opcode whose concrete type is inspected -/
def structOperands (op : String) (tys : List ATy) : List ATy :=
  match op with
  | "select" => tys.take 1
  | "==" | "!=" | "setbit" | "stores" => tys.take 2
  | _ => []

/-- the abstract types of the operands whose concrete type the instruction inspects -/
def operandTys : Instr → List ATy → List ATy
  | .ret, tys | .bz _, tys | .bnz _, tys => tys.take 1
  | .prim op imms, tys =>
    if structOps.contains op then structOperands op tys else
    match sig op imms with
    | some (pops, _) => tys.take pops.length
    | none => []
  | _, _ => []

/-! ### The certificate check -/

def endOK : List ATy → Bool
  | [t] => t.compat .uint64
  | _ => false

def checkPc (c : Cert) (p : Program) (pc : Nat) : Bool :=
  match c.stateAt pc with
  | none => true
  | some x => match p[pc]? with
    | some ln => match transfer c p pc x ln.instr with
      | .ok ss => ss.all (fun q => c.need q.1 q.2)
      | .error _ => false
    | none => x.rt == 0 && endOK x.tys

/-- slot types must admit the initial value `uint64 0` of every scratch slot -/
def slotsInit (c : Cert) : Bool := c.slots.all (fun t => ATy.le .uint64 t)

/-- **the trusted check**: `c` is a closed certificate for `p` -/
def ok (c : Cert) (p : Program) : Bool :=
  c.states.size == p.size + 1 && slotsInit c && c.need 0 ⟨0, false, []⟩ &&
  (List.range (p.size + 1)).all (checkPc c p)

/-- every `prim` instruction of the program is inside the proved fragment -/
def covered (p : Program) : Bool :=
  p.all (fun ln => match ln.instr with
    | .prim op imms => coveredPrim op imms
    | _ => true)

/-- does the instruction at `pc` inspect an operand of abstract type `any`? -/
def anyAt (c : Cert) (p : Program) (pc : Nat) : Bool :=
  match c.stateAt pc, p[pc]? with
  | some x, some ln => (operandTys ln.instr x.tys).any ATy.isAny
  | some x, none => x.tys.any ATy.isAny
  | none, _ => false

/-- no abstract state mentions `any` -/
def anyFree (c : Cert) : Bool :=
  c.states.all (fun s => match s with
    | some x => !(x.tys.any ATy.isAny)
    | none => true)

/-- first failing pc with the reason (diagnostic) -/
def explain (c : Cert) (p : Program) : Option (Nat × String) :=
  if c.states.size != p.size + 1 then some (0, "certificate has the wrong number of states") else
  if !slotsInit c then some (0, "slot types do not admit the initial zero") else
  if !c.need 0 ⟨0, false, []⟩ then some (0, "entry state missing or not the empty main state") else
  (List.range (p.size + 1)).findSome? (fun pc =>
    match c.stateAt pc with
    | none => none
    | some x => match p[pc]? with
      | some ln => match transfer c p pc x ln.instr with
        | .ok ss => match ss.find? (fun q => !c.need q.1 q.2) with
          | some q =>
            let got := match c.stateAt q.1 with
              | some y => s!"rt={y.rt} proto={y.proto} [{showTys y.tys}]"
              | none => "none"
            some (pc, s!"{ln.raw.op}: successor {q.1} needs rt={q.2.rt} proto={q.2.proto} [{showTys q.2.tys}] but certificate has {got}")
          | none => none
        | .error e => some (pc, s!"{ln.raw.op}: {e} (height {x.tys.length}, types [{showTys x.tys}])")
      | none =>
        if x.rt == 0 && endOK x.tys then none
        else some (pc, s!"program end reached with [{showTys x.tys}] in routine {x.rt}"))

/-! ### Untrusted certificate inference -/

structure Hint where
  label : String
  nArgs : Nat
  nRets : Nat
  deriving Repr

/-- height effect (pops, pushes) of a straight-line instruction; `none` = unknown opcode -/
def arity (op : String) (imms : List String) : Option (Nat × Nat) :=
  let n := (immN imms 0).toOption.getD 0
  match op with
  | "pop" => some (1, 0) | "dup" => some (1, 2) | "dup2" => some (2, 4) | "swap" => some (2, 2)
  | "select" => some (3, 1) | "dig" => some (n + 1, n + 2) | "bury" => some (n + 1, n)
  | "cover" => some (n + 1, n + 1) | "uncover" => some (n + 1, n + 1) | "popn" => some (n, 0)
  | "dupn" => some (1, n + 1) | "==" | "!=" => some (2, 1) | "setbit" => some (3, 1)
  | "stores" => some (2, 0)
  | _ => (sig op imms).map (fun s => (s.1.length, s.2.length))

/-- phase-1 state: routine, proto flag, height relative to the routine's entry height -/
structure HState where
  rt : Nat
  proto : Bool
  h : Int
  deriving BEq, Repr, Inhabited

structure HSum where
  entry : Nat
  label : String
  hint : Option (Nat × Nat) := none
  protoAR : Option (Nat × Nat) := none
  minH : Int := 0            -- lowest relative height touched (≤ 0)
  delta : Option Int := none -- relative height at a (non-proto) retsub
  returns : Bool := false
  deriving Repr, Inhabited

structure P1 where
  states : Array (Option HState)
  sums : Array HSum
  err : Option (Nat × String) := none
  changed : Bool := false

def HSum.nArgs (s : HSum) : Nat :=
  match s.protoAR with
  | some (a, _) => a
  | none => match s.hint with
    | some (a, _) => a
    | none => (-s.minH).toNat

def HSum.nRets (s : HSum) : Nat :=
  match s.protoAR with
  | some (_, r) => r
  | none => match s.delta with
    | some d => (d + (s.nArgs : Int)).toNat
    | none => 0

def P1.fail (s : P1) (pc : Nat) (msg : String) : P1 :=
  match s.err with
  | some _ => s
  | none => { s with err := some (pc, msg) }

def P1.put (s : P1) (from_ pc : Nat) (x : HState) : P1 :=
  match s.states[pc]? with
  | some (some y) =>
    if y == x then s
    else s.fail from_ s!"height/routine disagreement at pc {pc}: rt {y.rt} height {y.h} proto {y.proto} vs rt {x.rt} height {x.h} proto {x.proto}"
  | some none => { s with states := s.states.set! pc (some x), changed := true }
  | none => s.fail from_ "successor beyond the program"

def P1.touch (s : P1) (rt : Nat) (low : Int) : P1 :=
  match s.sums[rt]? with
  | some sm => if low < sm.minH then { s with sums := s.sums.set! rt { sm with minH := low }, changed := true } else s
  | none => s

def routineOf (sums : Array HSum) (tg : Nat) : Option Nat :=
  (List.range sums.size).find? (fun i => i != 0 && (sums[i]?.map (·.entry)) == some tg)

def p1Step (p : Program) (s : P1) (pc : Nat) : P1 :=
  match s.states[pc]? with
  | some (some x) =>
    match p[pc]? with
    | none => s
    | some ln =>
      let next (s : P1) (pops pushes : Nat) : P1 :=
        let s := s.touch x.rt (x.h - pops)
        s.put pc (pc + 1) { x with h := x.h - pops + pushes }
      match ln.instr with
      | .label _ | .pragma _ _ | .intcblock _ | .bytecblock _ => next s 0 0
      | .intc _ | .pushInt _ | .bytec _ | .pushBytes _ | .load _ => next s 0 1
      | .tmpl _ _ | .err => s
      | .ret => s.touch x.rt (x.h - 1)
      | .store _ => next s 1 0
      | .b l => match findLabel p l with
        | some t => s.put pc t x
        | none => s.fail pc s!"undefined label {l}"
      | .bz l | .bnz l => match findLabel p l with
        | some t =>
          let s := s.touch x.rt (x.h - 1)
          let x' := { x with h := x.h - 1 }
          (s.put pc t x').put pc (pc + 1) x'
        | none => s.fail pc s!"undefined label {l}"
      | .callsub l => match findLabel p l with
        | some t => match routineOf s.sums t with
          | some j => match s.sums[j]? with
            | some sm =>
              let s := s.put pc t ⟨j, false, 0⟩
              let s := s.touch x.rt (x.h - sm.nArgs)
              if sm.returns then s.put pc (pc + 1) { x with h := x.h - sm.nArgs + sm.nRets } else s
            | none => s
          | none => s.fail pc s!"callsub target {l} is not a routine"
        | none => s.fail pc s!"undefined label {l}"
      | .retsub => match s.sums[x.rt]? with
        | some sm =>
          if x.rt == 0 then s.fail pc "retsub in the main routine" else
          if x.proto then
            if sm.returns then s else { s with sums := s.sums.set! x.rt { sm with returns := true }, changed := true }
          else match sm.delta with
            | some d =>
              if d == x.h then s
              else s.fail pc s!"retsub heights disagree within routine {sm.label}: {d} vs {x.h} (relative to entry)"
            | none => { s with sums := s.sums.set! x.rt { sm with delta := some x.h, returns := true }, changed := true }
        | none => s
      | .proto A R => match s.sums[x.rt]? with
        | some sm =>
          if x.rt == 0 then s.fail pc "proto in the main routine" else
          let s := match sm.protoAR with
            | some ar => if ar == (A, R) then s else s.fail pc "two different proto in one routine"
            | none => { s with sums := s.sums.set! x.rt { sm with protoAR := some (A, R) }, changed := true }
          s.put pc (pc + 1) { x with proto := true }
        | none => s
      | .frameDig _ => next s 0 1
      | .frameBury _ => next s 1 0
      | .prim op imms => match arity op imms with
        | some (a, b) => next s a b
        | none => s.fail pc s!"opcode {op} has no signature"
  | _ => s

def p1Loop (p : Program) : Nat → P1 → P1
  | 0, s => s.fail 0 "phase 1: out of fuel"
  | fuel + 1, s =>
    let s := (List.range p.size).foldl (p1Step p) { s with changed := false }
    if s.err.isSome || !s.changed then s else p1Loop p fuel s

/-- callsub targets in program order (routine 0 = main) -/
def routineEntries (p : Program) : List (Nat × String) :=
  p.foldl (fun acc ln => match ln.instr with
    | .callsub l => match findLabel p l with
      | some t => if acc.any (·.1 == t) then acc else acc ++ [(t, l)]
      | none => acc
    | _ => acc) []

/-- phase-2 state -/
structure P2 where
  c : Cert
  args : Array (Option (List ATy))   -- per routine, joined over the call sites
  rets : Array (Option (List ATy))
  changed : Bool := false

def joinTys (x y : List ATy) : List ATy := List.zipWith ATy.join x y

def P2.putState (s : P2) (pc : Nat) (x : AState) : P2 :=
  match s.c.states[pc]? with
  | some (some y) =>
    if y.rt == x.rt && y.proto == x.proto && y.tys.length == x.tys.length then
      let j := joinTys y.tys x.tys
      if j == y.tys then s
      else { s with c := { s.c with states := s.c.states.set! pc (some { y with tys := j }) }, changed := true }
    else s   -- disagreement: left to the final check
  | some none => { s with c := { s.c with states := s.c.states.set! pc (some x) }, changed := true }
  | none => s

def P2.setRoutine (s : P2) (j : Nat) (f : RSig → RSig) : P2 :=
  { s with c := { s.c with routines := s.c.routines.modify j f }, changed := true }

def widenSlots (slots : List ATy) (n : Nat) (t : ATy) : List ATy :=
  slots.modify n (fun o => o.join t)

def p2Step (p : Program) (s : P2) (pc : Nat) : P2 :=
  match s.c.stateAt pc with
  | none => s
  | some x =>
    match p[pc]? with
    | none => s
    | some ln =>
      -- widen the summaries this instruction feeds
      let s : P2 := match ln.instr with
        | .store n => match x.tys with
          | t :: _ =>
            if t.le (s.c.slotTy n) then s
            else { s with c := { s.c with slots := widenSlots s.c.slots n t }, changed := true }
          | [] => s
        | .prim "stores" _ => match x.tys with
          | t :: _ =>
            if allSlotsAccept s.c t then s
            else { s with c := { s.c with slots := s.c.slots.map (·.join t) }, changed := true }
          | [] => s
        | .callsub l => match findLabel p l with
          | some tg => match findRt s.c.routines 0 tg with
            | some (j, sg) =>
              let given := x.tys.take sg.args.length
              if given.length == sg.args.length then
                match s.args[j]? with
                | some (some old) =>
                  let nw := joinTys old given
                  if nw == old then s
                  else ({ s with args := s.args.set! j (some nw) }).setRoutine j (fun r => { r with args := nw })
                | some none => ({ s with args := s.args.set! j (some given) }).setRoutine j (fun r => { r with args := given })
                | none => s
              else s
            | none => s
          | none => s
        | .retsub => match s.c.routines[x.rt]? with
          | some sg =>
            let got := if x.proto then protoRets x.tys sg.args.length sg.rets.length else x.tys
            if got.length == sg.rets.length then
              match s.rets[x.rt]? with
              | some (some old) =>
                let nw := joinTys old got
                if nw == old then s
                else ({ s with rets := s.rets.set! x.rt (some nw) }).setRoutine x.rt (fun r => { r with rets := nw })
              | some none => ({ s with rets := s.rets.set! x.rt (some got) }).setRoutine x.rt (fun r => { r with rets := got, returns := true })
              | none => s
            else s
          | none => s
        | _ => s
      match transfer s.c p pc x ln.instr with
      | .ok ss => ss.foldl (fun s q => s.putState q.1 q.2) s
      | .error _ => s

def p2Loop (p : Program) : Nat → P2 → P2
  | 0, s => s
  | fuel + 1, s =>
    let s := (List.range (p.size + 1)).foldl (p2Step p) { s with changed := false }
    if !s.changed then s else p2Loop p fuel s

/-- Untrusted: find a candidate certificate (or an early diagnostic). -/
def infer (p : Program) (hints : List Hint := []) : Except (Nat × String) Cert := do
  let entries := routineEntries p
  let mk (pc : Nat) (l : String) : HSum :=
    { entry := pc, label := l, hint := (hints.find? (fun h => h.label == l)).map (fun h => (h.nArgs, h.nRets)) }
  let sums0 : Array HSum := #[mk 0 "main"] ++ (entries.map (fun e => mk e.1 e.2)).toArray
  let st0 : Array (Option HState) := (Array.replicate (p.size + 1) none).set! 0 (some ⟨0, false, 0⟩)
  let r1 := p1Loop p (4 * p.size + 64) { states := st0, sums := sums0 }
  match r1.err with
  | some e => throw e
  | none => pure ()
  -- hinted result counts must be what the code does
  for sm in r1.sums.toList do
    match sm.hint, sm.protoAR with
    | some (a, r), some (a', r') =>
      if a != a' || r != r' then throw (sm.entry, s!"routine {sm.label}: declared ({a},{r}) but proto {a'} {r'}")
    | some (_, r), none =>
      if sm.returns && sm.nRets != r then
        throw (sm.entry, s!"routine {sm.label}: declared {r} result(s) but retsub leaves {sm.nRets} above the caller's values")
    | _, _ => pure ()
  let routines : List RSig := r1.sums.toList.map (fun sm =>
    { entry := sm.entry, args := List.replicate sm.nArgs .uint64, rets := List.replicate sm.nRets .uint64,
      returns := false })
  -- `returns` and the argument / result types are learnt in phase 2 (placeholders until then)
  let c0 : Cert := { routines := routines, slots := List.replicate 256 .uint64,
                     states := (Array.replicate (p.size + 1) none).set! 0 (some ⟨0, false, []⟩) }
  let n := r1.sums.size
  let r2 := p2Loop p (8 * p.size + 4 * 256 + 64)
    { c := c0, args := Array.replicate n none, rets := Array.replicate n none }
  pure r2.c

/-- lint (not needed for soundness): `return` executed by a scratch-convention routine with
    more than the one result value on its part of the stack — an expression left a value behind -/
def exitExtra (c : Cert) (p : Program) : List Nat :=
  (List.range p.size).filter (fun pc =>
    match c.stateAt pc, p[pc]? with
    | some x, some ln => (match ln.instr with
      | .ret => !x.proto && x.tys.length != 1
      | _ => false)
    | _, _ => false)

/-- lint (not needed for soundness): `frame_bury` that overwrites a frame slot of one concrete type
    with a value of the other concrete type — PyTeal allocates frame locals as typed zero values
    (`int 0` / `byte ""` segments) and every frame variable keeps its declared type -/
def frameRetype (c : Cert) (p : Program) : List Nat :=
  (List.range p.size).filter (fun pc =>
    match c.stateAt pc, p[pc]? with
    | some x, some ln => (match ln.instr, x.tys, c.routines[x.rt]? with
      | .frameBury i, t :: r, some sg =>
        let k : Int := (sg.args.length : Int) + i
        if 0 ≤ k ∧ k.toNat < r.length then
          match r[r.length - 1 - k.toNat]? with
          | some old => !(old.compat t)
          | none => false
        else false
      | _, _, _ => false)
    | _, _ => false)

structure Verdict where
  cert : Cert
  maxHeight : Nat
  states : Nat
  anyStates : Nat
  exitExtra : List Nat
  frameRetype : List Nat

/-- `StackCheck.run`: infer, then decide with the trusted check. -/
def run (p : Program) (hints : List Hint := []) : Except (Nat × String) Verdict := do
  let c ← infer p hints
  if ok c p then
    let sts := c.states.toList.filterMap id
    pure { cert := c, maxHeight := sts.foldl (fun m x => max m x.tys.length) 0, states := sts.length,
           anyStates := (sts.filter (fun x => x.tys.any ATy.isAny)).length,
           exitExtra := exitExtra c p, frameRetype := frameRetype c p }
  else match explain c p with
    | some e => throw e
    | none => throw (0, "certificate rejected")

/-- the decision procedure of the property: some inferred certificate is accepted by `ok` -/
def check (p : Program) : Bool :=
  match infer p with
  | .ok c => ok c p
  | .error _ => false

end PyTealV.Check.StackCheck
