/- Whole-program certificate validation (main + subroutines, both calling conventions). -/
import PyTealV.Check.SimR
import PyTealV.Comp.Rename
namespace PyTealV.Check
open PyTealV PyTealV.Avm PyTealV.Comp PyTealV.Src

def renameSub (f : Nat → Nat) (sd : SubDef) : SubDef :=
  { sd with params := sd.params.map (fun (k, v) => (k, f v)), body := renameVars f sd.body, locals := sd.locals.map f }

def renameProg (f : Nat → Nat) (p : Prog) : Prog :=
  { p with subs := p.subs.map (renameSub f), main := renameVars f p.main, mainLocals := p.mainLocals.map f }

/-- keys of the slots PyTeal will treat as local to the routine (by-value parameters live on the
    stack under the frame-pointer convention) -/
def spillKeys (fp : Bool) (sd : SubDef) : List Nat :=
  let frameVals := if fp then sd.params.filterMap (fun (k, v) => if k == .val then some v else none) else []
  (sd.locals.filter (fun v => !frameVals.contains v)).eraseDups

def insertSorted (x : Nat) : List Nat → List Nat
  | [] => [x]
  | y :: ys => if x ≤ y then x :: y :: ys else y :: insertSorted x ys

def sortNat (l : List Nat) : List Nat := l.foldr insertSorted []

structure ValidatedProg where
  routines : Nat
  relSize : Nat
  bindings : Nat
  spilledCalls : Nat

/-- explore all routines reachable from main; `mk` builds a routine model, `eqv` matches instrs.
    Returns per routine (graph, entry pc, relation) and the discovered (model label, real label) pairs. -/
def explore (P : Program) (eqv : Instr → Instr → Bool) (mainR : Routine)
    (mk : Nat → Except String Routine) (fuel : Nat) :
    Except String (List (Routine × Nat × Rel) × List (String × String)) := do
  let V0 ← (findSimAt eqv mainR.G mainR.start P 0).mapError ("main: " ++ ·)
  let rec go : Nat → List (String × String) → List (String × String) → List (Routine × Nat × Rel) →
      Except String (List (Routine × Nat × Rel) × List (String × String))
    | 0, _, _, _ => .error "routine exploration budget exhausted"
    | _, [], seen, acc => .ok (acc, seen)
    | n+1, (ml, rl) :: todo, seen, acc =>
      if seen.contains (ml, rl) then go n todo seen acc else
      match Util.parseNat (ml.drop 1).toString, findLabel P rl with
      | some k, some pc0 => do
        let r ← (mk k).mapError (s!"routine {k}: " ++ ·)
        let V ← (findSimAt eqv r.G r.start P pc0).mapError (s!"routine {k} ({rl}): " ++ ·)
        go n (harvestCalls r.G P V ++ todo) ((ml, rl) :: seen) ((r, pc0, V) :: acc)
      | _, _ => .error s!"callsub target {rl} not found"
  go fuel (harvestCalls mainR.G P V0) [] [(mainR, 0, V0)]

/-- untrusted part: discover slots and labels, regenerate the routine models, search the
    relations; returns the certificate to be checked and the statistics -/
def buildCert (version : Nat) (fp : Bool) (p : Prog) (P : Program) : Except String (ProgCert × ValidatedProg) := do
  -- pass 1 (untrusted discovery): loose matching, placeholder spill slots
  let placeholder (sd : SubDef) : List Nat := (List.range (spillKeys fp sd).length).map (· + 100000)
  let main0 ← genMainR version true p
  let mk0 (k : Nat) : Except String Routine :=
    match findSub p k with
    | some sd => genSub version fp true p sd (placeholder sd)
    | none => .error "unknown subroutine"
  let (rs0, labels) ← (explore P looseEqR main0 mk0 (P.size + 64)).mapError ("loose: " ++ ·)
  let bs := ((rs0.flatMap (fun (r, _, V) => harvest r.G P V)).filter (fun (k, _) => k < 100000)).eraseDups
  if !bindingsOk bs then throw ("variable/slot bindings are not a bijection: " ++ toString bs)
  let labelsOk := labels.all (fun (a, b) => labels.all (fun (a', b') => (a == a') == (b == b')))
  if !labelsOk then throw ("routine/label map is not a bijection: " ++ toString labels)
  -- pass 2: rename, regenerate with the real spill sets, strict certificate
  let p' := renameProg (applyBindings bs) p
  let main1 ← genMainR version false p'
  let mk1 (k : Nat) : Except String Routine :=
    match findSub p' k with
    | some sd => genSub version fp false p' sd (sortNat (spillKeys fp sd))
    | none => .error "unknown subroutine"
  let eqv := strictEqR labels
  -- `rs1` = explored routines, newest first, main last; `seen1` = their (model, real) labels, same order
  let (rs1, seen1) ← (explore P eqv main1 mk1 (P.size + 64)).mapError ("strict: " ++ ·)
  let Vm ← match rs1.getLast? with
    | some (_, _, V) => pure V
    | none => throw "no main routine"
  let subs : List RoutineCert := (seen1.zip rs1).map (fun ((ml, rl), (r, pc0, V)) =>
    { ml := ml, rl := rl, G := r.G, start := r.start, p0 := pc0, V := V })
  let cert : ProgCert := { Gm := main1.G, sm := main1.start, Vm := Vm, labels := seen1, subs := subs }
  let spilled := rs1.foldl (fun n (r, _, _) => n + (r.G.foldl (fun m b =>
    m + (if b.ops.any (fun i => match i with | .callsub _ => true | _ => false) && b.ops.length > 1 then 1 else 0)) 0)) 0
  pure (cert, { routines := rs1.length, relSize := rs1.foldl (fun n (_, _, V) => n + V.length) 0, bindings := bs.length, spilledCalls := spilled })

/-- build the certificate (untrusted) and accept it iff `checkCert` does; by
    `simR_sound_forward/backward` (Proofs/SimR.lean) an accepted certificate means that the
    multi-routine graph machine on `cert.prog` and the AVM on `P` have the same terminating
    outcomes -/
def validateProgCert (version : Nat) (fp : Bool) (p : Prog) (P : Program) : Except String (ProgCert × ValidatedProg) :=
  match buildCert version fp p P with
  | .error e => .error e
  | .ok (c, v) => if checkCert P c then .ok (c, v) else .error "certificate rejected by checkCert"

def validateProg (version : Nat) (fp : Bool) (p : Prog) (P : Program) : Except String ValidatedProg :=
  match validateProgCert version fp p P with
  | .ok (_, v) => .ok v
  | .error e => .error e

end PyTealV.Check
