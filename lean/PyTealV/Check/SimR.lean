/-
  Routine-level certificate check for programs with subroutines: like `Check.closed`, but the
  entry pc is a parameter and calls / frame instructions are matched syntactically
  (`callsub` against `callsub` with a consistent routine ↦ label map, `retsub` terminal).
  `checkCert` is the whole-program certificate check: one `closedAt` relation per routine plus
  the side conditions on the routine ↦ label map.  It is sound with respect to the multi-routine
  graph machine of Comp/ProgGraph.lean: `simR_sound_forward/backward` (Proofs/SimR.lean).
-/
import PyTealV.Check.Sim
import PyTealV.Comp.GenProg
import PyTealV.Comp.ProgGraph
namespace PyTealV.Check
open PyTealV PyTealV.Avm PyTealV.Comp

def isMatchable (i : Instr) : Bool :=
  isSimple i || (match i with
    | .callsub _ | .retsub | .proto _ _ | .frameDig _ | .frameBury _ => true
    | _ => false)

def isTerminalR (i : Instr) : Bool :=
  match i with
  | .ret | .err | .retsub => true
  | _ => false

def demandsR (eqv : Instr → Instr → Bool) (G : Graph) (P : Program) (gp : GPos) (pc : Nat) : Option (List (GPos × Nat)) :=
  let F := skipFuel G P
  let pair (g : Option GPos) (p : Option Nat) : Option (GPos × Nat) :=
    match g, p with
    | some g, some p => some (g, p)
    | _, _ => none
  match gp with
  | .op b i =>
    (match G[b]?, P[pc]? with
     | some blk, some ln =>
       (match blk.ops[i]? with
        | some x =>
          if eqv x ln.instr && isMatchable ln.instr then
            if isTerminalR ln.instr then some [] else (pair (gskip G F b (i + 1)) (pskip P F (pc + 1))).map ([·])
          else none
        | none => none)
     | _, _ => none)
  | .br b =>
    (match G[b]?, P[pc]? with
     | some blk, some ln =>
       (match blk.succ, ln.instr with
        | .cond t f, .bnz l =>
          (match findLabel P l with
           | some tgt => do
             let a ← pair (gskip G F t 0) (pskip P F tgt)
             let c ← pair (gskip G F f 0) (pskip P F (pc + 1))
             pure [a, c]
           | none => none)
        | .cond t f, .bz l =>
          (match findLabel P l with
           | some tgt => do
             let a ← pair (gskip G F f 0) (pskip P F tgt)
             let c ← pair (gskip G F t 0) (pskip P F (pc + 1))
             pure [a, c]
           | none => none)
        | _, _ => none)
     | _, _ => none)
  | .fell _ => if pc == P.size then some [] else none

/-- all pairs of `V` are locally consistent and the entry pair is in `V` -/
def closedAt (eqv : Instr → Instr → Bool) (G : Graph) (s : Nat) (P : Program) (p0 : Nat) (V : Rel) : Bool :=
  relHas V (gskip G (skipFuel G P) s 0) (pskip P (skipFuel G P) p0) &&
  V.all (fun (gp, pc) => match demandsR eqv G P gp pc with
    | some ds => ds.all (fun d => V.contains d)
    | none => false)

def findSimAt (eqv : Instr → Instr → Bool) (G : Graph) (s : Nat) (P : Program) (p0 : Nat) : Except String Rel :=
  let F := skipFuel G P
  match gskip G F s 0, pskip P F p0 with
  | some g0, some q0 =>
    let rec go : Nat → List (GPos × Nat) → Rel → Except String Rel
      | 0, _, _ => .error "search budget exhausted"
      | _, [], V => .ok V
      | n+1, (gp, pc) :: rest, V =>
        if V.contains (gp, pc) then go n rest V else
        match demandsR eqv G P gp pc with
        | some ds => go n (ds ++ rest) ((gp, pc) :: V)
        | none => .error (explain G P gp pc)
    go (3 * (graphPoints G + 1) * (P.size + 2) + 64) [(g0, q0)] []
  | _, _ => .error "cannot normalise the entry points"

/-- loose match for slot / label discovery -/
def looseEqR (x y : Instr) : Bool :=
  match x, y with
  | .callsub _, .callsub _ => true
  | a, b => looseEq a b

/-- strict match given the routine ↦ label map -/
def strictEqR (labels : List (String × String)) (x y : Instr) : Bool :=
  match x, y with
  | .callsub a, .callsub b => labels.contains (a, b)
  | a, b => a == b

def harvestCalls (G : Graph) (P : Program) (V : Rel) : List (String × String) :=
  V.filterMap (fun (gp, pc) => match gp with
    | .op b i => (match G[b]?, P[pc]? with
      | some blk, some ln => (match blk.ops[i]?, ln.instr with
        | some (.callsub a), .callsub l => some (a, l)
        | _, _ => none)
      | _, _ => none)
    | _ => none)

/-! ### whole-program certificate -/

/-- certificate of one subroutine: model label, real label, graph + entry block, pc of the real
    label, relation -/
structure RoutineCert where
  ml : String
  rl : String
  G : Graph
  start : Nat
  p0 : Nat
  V : Rel

structure ProgCert where
  Gm : Graph
  sm : Nat
  Vm : Rel
  labels : List (String × String)       -- (model label, real label)
  subs : List RoutineCert

/-- the program of the multi-routine graph machine that the certificate is about -/
def ProgCert.prog (c : ProgCert) : PProg :=
  { main := c.Gm, start := c.sm, subs := c.subs.map (fun r => (r.ml, r.G, r.start)) }

/-- no pair of the relation puts the end of the routine graph against a pc (for subroutines:
    a subroutine is left through `retsub` only) -/
def noFell (V : Rel) : Bool :=
  V.all (fun (gp, _) => match gp with
    | .fell _ => false
    | _ => true)

/-- everything the soundness theorem assumes, as one decidable check:
    * the main relation is closed from pc 0;
    * for every subroutine: the real label is at `p0`, the relation is closed from `p0` and never
      reaches the end of the subroutine graph;
    * every pair `(a, b)` of the label map (the only `callsub a` / `callsub b` matches that
      `strictEqR` accepts) names a certified subroutine `a` whose real label is `b`
      (so the map is functional on the model labels). -/
def checkCert (P : Program) (c : ProgCert) : Bool :=
  closedAt (strictEqR c.labels) c.Gm c.sm P 0 c.Vm &&
  c.subs.all (fun r => findLabel P r.rl == some r.p0 &&
    closedAt (strictEqR c.labels) r.G r.start P r.p0 r.V && noFell r.V) &&
  c.labels.all (fun (a, b) => match c.subs.find? (fun r => r.ml == a) with
    | some r => r.rl == b
    | none => false)

end PyTealV.Check
