/-
  C05 driver command (stateless):
    c05-check HEX [SIGHEX=SELHEX …] [@LABELHEX=A:R …]
      HEX            TEAL text (utf-8, hex)
      SIGHEX=SELHEX  method selectors for `method "sig"` lines (SHA-512/256 is uninterpreted)
      @LABELHEX=A:R  declared argument / result counts of the routine at that label (optional hint;
                     untrusted for soundness — the certificate is checked — but it pins the
                     *declared* calling convention, which plain TEAL does not carry)
    → ok heights=MAX pcs=N states=S any=K anyFree=B covered=B routines=R exitExtra=E [exitPc=PC] frameRetype=F [retypePc=PC] [uncovered=op,op…]
        (exitExtra: number of `return` instructions reached by a scratch-convention routine with
         more than one value of its own on the stack — lint for values left behind;
         frameRetype: number of `frame_bury` that change the concrete type of a frame slot — lint)
    | bad PC REASON
    | perr …
-/
import PyTealV.Util
import PyTealV.Check.Stack
namespace PyTealV.Cmd.C05
open PyTealV PyTealV.Avm PyTealV.Check.StackCheck

def splitEq (s : String) : Option (String × String) :=
  match s.splitOn "=" with
  | [a, b] => some (a, b)
  | _ => none

def parseHint (w : String) : Option Hint := do
  let (l, ar) ← splitEq (w.drop 1).toString
  let lb ← Util.unhex l
  let ls ← String.fromUTF8? (ByteArray.mk lb.toArray)
  match ar.splitOn ":" with
  | [a, r] => do
    let a ← Util.parseNat a
    let r ← Util.parseNat r
    pure { label := ls, nArgs := a, nRets := r }
  | _ => none

def parseSel (w : String) : Option (Bytes × Bytes) := do
  let (a, b) ← splitEq w
  let a ← Util.unhex a
  let b ← Util.unhex b
  pure (a, b)

def uncoveredOps (p : Program) : List String :=
  (p.foldl (fun acc ln => match ln.instr with
    | .prim op imms => if coveredPrim op imms || acc.contains op then acc else op :: acc
    | _ => acc) []).reverse

def check (args : List String) : String :=
  match args with
  | [] => "perr usage: c05-check HEX [SIG=SEL…] [@LABEL=A:R…]"
  | h :: rest =>
    let hintWords := rest.filter (·.startsWith "@")
    let selWords := rest.filter (fun w => !w.startsWith "@")
    match selWords.mapM parseSel, hintWords.mapM parseHint with
    | some sels, some hints =>
      match Util.unhex h with
      | some bs => match String.fromUTF8? (ByteArray.mk bs.toArray) with
        | some text =>
          let r := parse sels text
          if !r.errors.isEmpty then "perr " ++ " | ".intercalate r.errors else
          let p := r.prog
          match run p hints with
          | .ok v =>
            let unc := uncoveredOps p
            s!"ok heights={v.maxHeight} pcs={p.size} states={v.states} any={v.anyStates} anyFree={anyFree v.cert} covered={covered p} routines={v.cert.routines.length} exitExtra={v.exitExtra.length}"
              ++ (match v.exitExtra with | pc :: _ => s!" exitPc={pc}" | [] => "")
              ++ s!" frameRetype={v.frameRetype.length}"
              ++ (match v.frameRetype with | pc :: _ => s!" retypePc={pc}" | [] => "")
              ++ (if unc.isEmpty then "" else " uncovered=" ++ ",".intercalate unc)
          | .error (pc, why) => s!"bad {pc} {why.replace "\n" " "}"
        | none => "perr not utf-8"
      | none => "perr bad hex"
    | _, _ => "perr bad selector or hint word"

end PyTealV.Cmd.C05
