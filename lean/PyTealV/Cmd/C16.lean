/-
  Driver commands of property C16 (WideRatio).
    c16-ops VERSION N M          → ok ITEM;ITEM;…   (ITEM = opcode and immediates separated by one space;
                                    factor codes are `push N<i>` / `push D<i>`)  |  err CLASS HEXMSG
    c16-run VERSION N M V1 … V(N+M)
                                 → done STACK | fail FAILURE | err CLASS HEXMSG | perr …
       runs the model's op list on the initial stack [u77, b"\x01"] (bottom … top is printed
       top first) with the given factor values; STACK is the final stack, space separated.
    c16-spec N M V1 … V(N+M)     → ok Q | fail FAILURE     (the specification function `spec`, which the
                                    theorems of Proofs/C16.lean equate with the run of the model)
-/
import PyTealV.Models.WideRatio
import PyTealV.Compare
namespace PyTealV.Cmd.C16
open PyTealV PyTealV.Avm PyTealV.Models.WideRatio

def renderItem (it : Item) : String :=
  let (o, is) := it.render
  " ".intercalate (o :: is)

def renderErr (msg : String) : String :=
  match msg.splitOn ": " with
  | cls :: _ => s!"err {cls} {Util.hex (Util.strBytes msg)}"
  | [] => s!"err ? {Util.hex (Util.strBytes msg)}"

def ops (args : List String) : String :=
  match args.mapM Util.parseNat with
  | some [v, n, m] =>
    match wideRatio? v n m with
    | .ok items => "ok " ++ ";".intercalate (items.map renderItem)
    | .error e => renderErr e
  | _ => "perr usage: c16-ops VERSION N M"

/-- sentinel initial stack (head = top): the run must leave it untouched below the result -/
def sentinel : List Val := [.u 77, .b [1]]

def runCmd (args : List String) : String :=
  match args.mapM Util.parseNat with
  | some (v :: n :: m :: vals) =>
    if vals.length ≠ n + m then "perr wrong number of factor values" else
    match run {} v (vals.take n) (vals.drop n) {} sentinel with
    | .error e => renderErr e
    | .ok (.error f) => "fail " ++ Compare.showFail f
    | .ok (.ok (st, _)) => "done " ++ " ".intercalate (st.map Compare.showVal)
  | _ => "perr usage: c16-run VERSION N M V…"

def specCmd (args : List String) : String :=
  match args.mapM Util.parseNat with
  | some (n :: m :: vals) =>
    if vals.length ≠ n + m then "perr wrong number of factor values" else
    match spec (vals.take n) (vals.drop n) with
    | .ok q => s!"ok {q}"
    | .error f => "fail " ++ Compare.showFail f
  | _ => "perr usage: c16-spec N M V…"

end PyTealV.Cmd.C16
