/-
  C15 driver commands (all free text hex-encoded utf-8, empty = `-`).

    c15-vlq-enc INTS                 → HEX                      INTS = `-` | i,i,…
    c15-vlq-dec HEX                  → ok INTS | err Exc
    c15-r3-enc INDEX ENTRIES         → ok STRS STRS HEX | err Exc          (sources, names, mappings)
    c15-r3-dec STRS STRS HEX         → ok INDEX ENTRIES | err Exc
    c15-r3-wf INDEX ENTRIES          → 1 | 0                    (`R3Map.wf`)
    c15-strip HEX                    → HEX                      (`stripComment`)
    c15-tokens HEX                   → T tok,tok,…              (`Avm.tokenise`, hex per token)
    c15-annotate HEX PAD HEX         → HEX
    c15-line HEX                     → closed plain             (two 0/1 flags)
    c15-internal HEX                 → 1 | 0                    (`frameIsPyteal` of a file name)
    c15-keep HEX,HEX,…               → IDX | none               (`keepIdx` of the frames' file names)

  INDEX   = `-` (no row) | `I` row;row;…         row = col,col,… (may be empty)
  ENTRIES = `-` | e,e,…   e = kline:kcol:line:col:src:sline:scol:name   (`_` = None, src/name hex)
  STRS    = `-` (empty list) | `L` hex,hex,…
-/
import PyTealV.Util
import PyTealV.Avm.Syntax
import PyTealV.Models.SourceMap
namespace PyTealV.Cmd.C15
open PyTealV PyTealV.Util PyTealV.Models.SourceMap

def textOfHex (h : String) : Option String :=
  if h = "-" then some "" else
  match unhex h with
  | some bs => String.fromUTF8? (ByteArray.mk bs.toArray)
  | none => none

def hexOfText (s : String) : String := if s.isEmpty then "-" else hex s.toUTF8.toList

def showInts (vs : List Int) : String :=
  if vs.isEmpty then "-" else ",".intercalate (vs.map toString)

def readInts (w : String) : Option (List Int) :=
  if w = "-" then some [] else (w.splitOn ",").mapM parseInt

def showStrs (l : List String) : String :=
  if l.isEmpty then "-" else "L" ++ ",".intercalate (l.map hexOfText)

def readStrs (w : String) : Option (List String) :=
  if w = "-" then some [] else
  if w.startsWith "L" then ((w.drop 1).toString.splitOn ",").mapM textOfHex else none

def showIndex (ix : List (List Int)) : String :=
  if ix.isEmpty then "-" else
  "I" ++ ";".intercalate (ix.map (fun r => ",".intercalate (r.map toString)))

def readIndex (w : String) : Option (List (List Int)) :=
  if w = "-" then some [] else
  if w.startsWith "I" then
    ((w.drop 1).toString.splitOn ";").mapM (fun r => if r.isEmpty then some [] else (r.splitOn ",").mapM parseInt)
  else none

def showOptInt : Option Int → String
  | none => "_" | some i => toString i
def showOptStr : Option String → String
  | none => "_" | some s => hexOfText s
def readOptInt (w : String) : Option (Option Int) :=
  if w = "_" then some none else (parseInt w).map some
def readOptStr (w : String) : Option (Option String) :=
  if w = "_" then some none else (textOfHex w).map some

def showEntry (p : Key × Entry) : String :=
  ":".intercalate [toString p.1.1, toString p.1.2, toString p.2.line, toString p.2.seg.column,
    showOptStr p.2.seg.source, showOptInt p.2.seg.sourceLine, showOptInt p.2.seg.sourceColumn,
    showOptStr p.2.seg.name]

def readEntry (w : String) : Option (Key × Entry) :=
  match w.splitOn ":" with
  | [kl, kc, l, c, src, sl, sc, nm] =>
    match parseNat kl, parseInt kc, parseInt l, parseInt c, readOptStr src, readOptInt sl, readOptInt sc,
          readOptStr nm with
    | some kl, some kc, some l, some c, some src, some sl, some sc, some nm =>
      some ((kl, kc), { line := l, seg := { column := c, source := src, sourceLine := sl,
                                             sourceColumn := sc, name := nm } })
    | _, _, _, _, _, _, _, _ => none
  | _ => none

def showEntries (es : List (Key × Entry)) : String :=
  if es.isEmpty then "-" else ",".intercalate (es.map showEntry)

def readEntries (w : String) : Option (List (Key × Entry)) :=
  if w = "-" then some [] else (w.splitOn ",").mapM readEntry

def readMap (ix es : String) : Option R3Map :=
  match readIndex ix, readEntries es with
  | some i, some e => some { index := i, entries := e }
  | _, _ => none

def vlqEnc : List String → String
  | [w] => match readInts w with
    | some vs => hexOfText (vlqEncodeS vs)
    | none => "perr bad ints"
  | _ => "perr usage"

def vlqDec : List String → String
  | [h] => match textOfHex h with
    | some s => match vlqDecodeS s with
      | .ok vs => "ok " ++ showInts vs
      | .error e => "err " ++ e
    | none => "perr bad text"
  | _ => "perr usage"

def r3Enc : List String → String
  | [ix, es] => match readMap ix es with
    | some m => match m.toJson with
      | .ok j => s!"ok {showStrs j.sources} {showStrs j.names} {hexOfText (String.ofList j.mappings)}"
      | .error e => "err " ++ e
    | none => "perr bad map"
  | _ => "perr usage"

def r3Dec : List String → String
  | [srcs, nms, h] => match readStrs srcs, readStrs nms, textOfHex h with
    | some s, some n, some m =>
      match R3Map.fromJson { sources := s, names := n, mappings := m.toList } with
      | .ok r => s!"ok {showIndex r.index} {showEntries r.entries}"
      | .error e => "err " ++ e
    | _, _, _ => "perr bad json"
  | _ => "perr usage"

def r3Wf : List String → String
  | [ix, es] => match readMap ix es with
    | some m => if m.wf then "1" else "0"
    | none => "perr bad map"
  | _ => "perr usage"

def strip : List String → String
  | [h] => match textOfHex h with
    | some s => hexOfText (stripCommentS s)
    | none => "perr bad text"
  | _ => "perr usage"

def tokens : List String → String
  | [h] => match textOfHex h with
    | some s => "T " ++ ",".intercalate ((Avm.tokenise s).map hexOfText)
    | none => "perr bad text"
  | _ => "perr usage"

def annotateCmd : List String → String
  | [l, p, n] => match textOfHex l, parseNat p, textOfHex n with
    | some l, some p, some n => hexOfText (annotateS l p n)
    | _, _, _ => "perr bad args"
  | _ => "perr usage"

def lineCmd : List String → String
  | [h] => match textOfHex h with
    | some s => (if closed s.toList then "1" else "0") ++ " " ++ (if plainTeal s.toList then "1" else "0")
    | none => "perr bad text"
  | _ => "perr usage"

def internalCmd : List String → String
  | [h] => match textOfHex h with
    | some s => if frameIsPyteal s then "1" else "0"
    | none => "perr bad text"
  | _ => "perr usage"

def keepCmd : List String → String
  | [w] => match (w.splitOn ",").mapM textOfHex with
    | some fs => match keepIdx fs with
      | some i => toString i
      | none => "none"
    | none => "perr bad text"
  | _ => "perr usage"

end PyTealV.Cmd.C15
