/-
  Driver commands of C06 (ABI values assembled with `set(...)`), model `Models/AbiEncode.lean`.

    c06-descr TYPE        → ok STR DYN(0|1) LEN|raise STRIDE|raise|- ARC4SIG ARC4DYN ARC4LEN
        STR/DYN/LEN/STRIDE = model of str(spec), is_dynamic(), byte_length_static(), _stride();
        ARC4… = the specification (`Arc4.signature/isDynamic/staticLen`) on `toTy spec`
    c06-set (TYPE INPUT)  → RES ## REF wt=0|1 wf=0|1
        RES = build:EXC | fail | ok HEX      model of `x.set(INPUT)` then `x.encode()`
        REF = none | ok HEX                  `Arc4.encode (toTy TYPE) (denote INPUT)`
    c06-tuple (M …)       → build:EXC | fail | ok HEX     `_encode_tuple` on members with given slots
        M = (TYPE u N) | (TYPE b HEX)
    c06-uint K N          → int:(ok N|build) expr:(ok N|fail) enc:(HEX|none)

  TYPE:  bool byte u8 u16 u32 u64 address string dynbytes (stbytes N) (sa N T) (da T) (tup T…) (nt T…)
  INPUT: T F (Python bool) | (be N) bool from an expression | N Python int | (ie N) int from an
         expression | xHEX Python bytes/str | (xe HEX|-) bytes from an expression | (s I…) sequence
-/
import PyTealV.Util
import PyTealV.Sexp
import PyTealV.Arc4
import PyTealV.Models.AbiEncode
namespace PyTealV.Cmd.C06
open PyTealV PyTealV.Models.AbiEncode

def atomPT (s : String) : Option PT :=
  match s with
  | "bool" => some .bool
  | "byte" => some (.uint .byte)
  | "u8" => some (.uint .u8)
  | "u16" => some (.uint .u16)
  | "u32" => some (.uint .u32)
  | "u64" => some (.uint .u64)
  | "address" => some .address
  | "string" => some .string
  | "dynbytes" => some .dynBytes
  | _ => none

def pt? : Nat → Sexp → Option PT
  | 0, _ => none
  | _+1, .atom s => atomPT s
  | fuel+1, .list xs =>
    match xs with
    | [.atom "stbytes", n] => (Sexp.nat? n).map .staticBytes
    | [.atom "sa", n, t] =>
      match Sexp.nat? n, pt? fuel t with
      | some n, some t => some (.sarray t n)
      | _, _ => none
    | [.atom "da", t] => (pt? fuel t).map .darray
    | .atom "tup" :: ts => (Arc4.optMap (pt? fuel) ts).map .tuple
    | .atom "nt" :: ts => (Arc4.optMap (pt? fuel) ts).map .named
    | _ => none

def in? : Nat → Sexp → Option In
  | 0, _ => none
  | _+1, .atom s =>
    if s = "T" then some (.boolC true)
    else if s = "F" then some (.boolC false)
    else match s.toList with
      | 'x' :: rest => (Util.unhexChars rest).map .bytesC
      | _ => (Util.parseNat s).map .intC
  | fuel+1, .list xs =>
    match xs with
    | [.atom "be", n] => (Sexp.nat? n).map .boolE
    | [.atom "ie", n] => (Sexp.nat? n).map .intE
    | [.atom "xe", h] => (Sexp.hex? h).map .bytesE
    | .atom "s" :: is => (Arc4.optMap (in? fuel) is).map .seq
    | _ => none

def excName (msg : String) : String := (msg.splitOn ":").headD "Exception"

def showRes (r : Res Bytes) : String :=
  match r with
  | .buildError e => "build:" ++ excName e
  | .runFail => "fail"
  | .ok bs => "ok " ++ (if bs.isEmpty then "-" else Util.hex bs)

def showExc (r : Except String Nat) : String :=
  match r with
  | .ok n => toString n
  | .error _ => "raise"

def b01 (b : Bool) : String := if b then "1" else "0"

def descrCmd (args : List String) : String :=
  let text := " ".intercalate args
  match (Sexp.parse text).bind (pt? (text.length + 2)) with
  | some t =>
    let stride := match elemSpec t with
      | some e => showExc (pyStride e)
      | none => "-"
    let ty := toTy t
    s!"ok {pyStr t} {b01 (pyIsDynamic t)} {showExc (pyByteLengthStatic t)} {stride} {Arc4.signature ty} {b01 (Arc4.isDynamic ty)} {Arc4.staticLen ty}"
  | none => "perr bad type"

def setCmd (args : List String) : String :=
  let text := " ".intercalate args
  match Sexp.parse text with
  | some (.list [ts, is]) =>
    match pt? (text.length + 2) ts, in? (text.length + 2) is with
    | some t, some i =>
      let ref := match Arc4.encode (toTy t) (denote i) with
        | some bs => "ok " ++ (if bs.isEmpty then "-" else Util.hex bs)
        | none => "none"
      s!"{showRes (pySet t i)} ## {ref} wt={b01 (WT t i)} wf={b01 (toTy t).wf}"
    | none, _ => "perr bad type"
    | _, none => "perr bad input"
  | _ => "perr usage: c06-set (TYPE INPUT)"

def member? (fuel : Nat) : Sexp → Option Member
  | .list [t, .atom "u", n] =>
    match pt? fuel t, Sexp.nat? n with
    | some t, some n => some ⟨t, .u n⟩
    | _, _ => none
  | .list [t, .atom "b", h] =>
    match pt? fuel t, Sexp.hex? h with
    | some t, some bs => some ⟨t, .b bs⟩
    | _, _ => none
  | _ => none

def tupleCmd (args : List String) : String :=
  let text := " ".intercalate args
  match Sexp.parse text with
  | some (.list ms) =>
    match Arc4.optMap (member? (text.length + 2)) ms with
    | some ms => showRes (encodeTuple ms)
    | none => "perr bad member"
  | _ => "perr usage: c06-tuple (M …)"

def ukOf (s : String) : Option UK :=
  match s with
  | "byte" => some .byte | "u8" => some .u8 | "u16" => some .u16 | "u32" => some .u32 | "u64" => some .u64
  | _ => none

def uintCmd (args : List String) : String :=
  match args with
  | [k, n] =>
    match ukOf k, Util.parseNat n with
    | some k, some n =>
      let a := match uintSetInt k n with
        | .ok v => s!"ok {v}"
        | .error e => "build:" ++ excName e
      let b := match uintSetExpr k n with
        | some v => s!"ok {v}"
        | none => "fail"
      let c := match uintEncode k n with
        | some bs => Util.hex bs
        | none => "none"
      s!"int:{a} expr:{b} enc:{c}"
    | _, _ => "perr bad arguments"
  | _ => "perr usage: c06-uint K N"

end PyTealV.Cmd.C06
