/-
  Driver commands for the whole-program code-generation theorem (C02, `Proofs/C02Gen.lean`).

    fragmentr-sexp VERSION FP SEXP…
        VERSION  program version, FP `1` iff the frame-pointer convention is used,
        SEXP…    the program recipe (`(prog (subs …) (mainlocals …) MAIN)`, as for the `prog` command)
      → `fragmentR=true|false stage=N reentersOk=true|false gen=ok|err renamed=true|false`
        fragmentR  the program is inside `Models.FragmentR.inFragmentR` AND the configuration is the
                   one `genProg_correct` covers (scratch-slot convention),
        renamed    the same after a canonical injective renaming of the automatically numbered
                   variables (ids ≥ 256) into unused scratch slots (what `Check.validateProg` does with
                   the slots the real compiler chose; the fragment does not depend on which slots),
        stage      1 acyclic / 2 recursion / 3 by-reference parameters / 4 frame pointers,
        reentersOk the `reenters` fields are what `findRecursionPoints` computes from the bodies,
        gen        the model generator `genProg VERSION FP` succeeds.

  `answer` is the same on an already parsed program: `Driver.lean` can expose it for stored
  programs as `fragmentr PID VERSION FP` (the stored-program table lives there).
-/
import PyTealV.Util
import PyTealV.Sexp
import PyTealV.Recipe
import PyTealV.Models.FragmentR
namespace PyTealV.Cmd.C02Gen
open PyTealV PyTealV.Models.FragmentR

def showB (b : Bool) : String := if b then "true" else "false"

mutual
  /-- the variables a tree mentions -/
  def varsOf : Src.Expr → List Nat
    | .load v => [v]
    | .index v => [v]
    | .store v e => v :: varsOf e
    | .prim _ _ args => varsOfL args
    | .multi _ _ args outs => outs ++ varsOfL args
    | .seq es => varsOfL es
    | .ite c t none => varsOf c ++ varsOf t
    | .ite c t (some e) => varsOf c ++ varsOf t ++ varsOf e
    | .cond arms => varsOfA arms
    | .while_ c b => varsOf c ++ varsOf b
    | .for_ i c s b => varsOf i ++ varsOf c ++ varsOf s ++ varsOf b
    | .assert_ c => varsOf c
    | .ret (some e) => varsOf e
    | .exit e => varsOf e
    | .call _ args => varsOfL args
    | .wideRatio ns ds => varsOfL ns ++ varsOfL ds
    | .substring s a b => varsOf s ++ varsOf a ++ varsOf b
    | .extract s a l => varsOf s ++ varsOf a ++ varsOf l
    | .suffix s a => varsOf s ++ varsOf a
    | .note (some e) => varsOf e
    | .nonce _ e => varsOf e
    | _ => []
  def varsOfL : List Src.Expr → List Nat
    | [] => []
    | e :: es => varsOf e ++ varsOfL es
  def varsOfA : List (Src.Expr × Src.Expr) → List Nat
    | [] => []
    | (c, b) :: rest => varsOf c ++ varsOf b ++ varsOfA rest
end

/-- canonical renaming: automatically numbered variables (≥ 256), in increasing order, go to the
    unused slots < 256, in increasing order; `none` when there is not enough room -/
def canonicalRename (p : Src.Prog) : Option Src.Prog :=
  let all := (varsOf p.main ++ p.mainLocals ++
    p.subs.flatMap (fun sd => varsOf sd.body ++ sd.locals ++ sd.params.map (·.2))).eraseDups
  let auto := Check.sortNat (all.filter (· ≥ 256))
  let free := (List.range 256).filter (fun s => !all.contains s)
  if auto.length ≤ free.length then
    some (Check.renameProg (Comp.applyBindings (auto.zip free)) p)
  else none

def answer (p : Src.Prog) (version : Nat) (fp : Bool) : String :=
  let inF := inFragmentR p && !fp
  let gen := match genProg version fp p with
    | .ok _ => "ok"
    | .error _ => "err"
  let ren := match canonicalRename p with
    | some p' => inFragmentR p' && !fp
    | none => false
  s!"fragmentR={showB inF} stage={stageOf p fp} reentersOk={showB (reentersOk p)} gen={gen} renamed={showB ren}"

def fragmentrSexp : List String → String
  | ver :: fp :: rest =>
    match Util.parseNat ver, (Sexp.parse (" ".intercalate rest)).bind Recipe.prog? with
    | some v, some p => answer p v (fp == "1")
    | none, _ => "perr bad version"
    | _, none => "perr bad recipe"
  | _ => "perr usage: fragmentr-sexp VERSION FP SEXP"

end PyTealV.Cmd.C02Gen
