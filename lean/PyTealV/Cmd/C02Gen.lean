/-
  Driver commands for the whole-program code-generation theorem (C02, `Proofs/C02Gen.lean`).

    fragmentr-sexp VERSION FP SEXP…
        VERSION  program version, FP `1` iff the frame-pointer convention is used,
        SEXP…    the program recipe (`(prog (subs …) (mainlocals …) MAIN)`, as for the `prog` command)
      → `fragmentR=true|false stage=N reentersOk=true|false gen=ok|err renamed=true|false dynPartial=… refStrict=…`
        fragmentR  the program is inside `Models.FragmentR.inFragmentR` AND the configuration is the
                   one `genProg_correct` covers (scratch-slot convention),
        renamed    the same after a canonical injective renaming of the automatically numbered
                   variables (ids ≥ 256) into unused scratch slots (what `Check.validateProg` does with
                   the slots the real compiler chose; the fragment does not depend on which slots),
        stage      1 acyclic / 2 recursion / 3 by-reference parameters / 4 frame pointers,
        reentersOk the `reenters` fields are what `findRecursionPoints` computes from the bodies,
        gen        the model generator `genProg VERSION FP` succeeds,
        refStrict  the renamed program is in the fragment of `genProg_correct_ref` (scratch convention) /
                   `genProg_correct_fp_ref` (frame pointers): by-reference parameters under the
                   by-reference discipline R9,
        dynPartial (scratch convention) … in the fragment of `genProg_correct_dyn_partial`.

    composed-sexp VERSION FP TEALHEX SEXP…
        TEALHEX  the real TEAL text (hex of utf-8), SEXP… the program recipe
      → `composed=true|false|partial [thm=ref] original=true|false [WHY]`
        composed  `Check.validateComposed` answers `true`: the certificate check accepts, the
                  certificate's graphs are the generator's for the renamed program, the renamed
                  program is in the fragment — the hypotheses of
                  `Proofs.C02Compile.compile_correct_validated_prog` (scratch-slot convention only).
        original  additionally `Check.renameOk` holds for the renaming that was applied
                  (`Check.originalB … = true`, see `Proofs.CompileOriginal.originalB_eq`): the hypotheses of
                  `Proofs.CompileOriginal.compile_correct_originalB[_ref]` — the theorem then speaks about
                  the ORIGINAL program (this recipe), not about its renamed form.

    c01-original VERSION TEALHEX SEXP…
      → `original=true|false valid=true|false fragment=true|false renameOk=true|false`
        original  `Check.originalMainB` (call-free programs): `validateMain` accepts, the renamed tree is in
                  the fragment of `gen_correct`, `renameOk` holds for the discovered bindings — the
                  hypotheses of `Proofs.CompileOriginal.compile_correct_originalMainB`.

  `answer` / `composedAnswer` are the same on already parsed inputs: `Driver.lean` can expose it for stored
  programs as `fragmentr PID VERSION FP` (the stored-program table lives there).
-/
import PyTealV.Util
import PyTealV.Sexp
import PyTealV.Recipe
import PyTealV.Models.FragmentR
import PyTealV.Check.ComposeProg
import PyTealV.Check.RenameOk
namespace PyTealV.Cmd.C02Gen
open PyTealV PyTealV.Models.FragmentR

def showB (b : Bool) : String := if b then "true" else "false"

mutual
  /-- the variables a tree mentions -/
  def varsOf : Src.Expr → List Nat
    | .load v => [v]
    | .index v => [v]
    | .store v e => v :: varsOf e
    | .prim _ _ args => varsOfL args
    | .multi _ _ args outs => outs ++ varsOfL args
    | .seq es => varsOfL es
    | .ite c t none => varsOf c ++ varsOf t
    | .ite c t (some e) => varsOf c ++ varsOf t ++ varsOf e
    | .cond arms => varsOfA arms
    | .while_ c b => varsOf c ++ varsOf b
    | .for_ i c s b => varsOf i ++ varsOf c ++ varsOf s ++ varsOf b
    | .assert_ c => varsOf c
    | .ret (some e) => varsOf e
    | .exit e => varsOf e
    | .call _ args => varsOfL args
    | .wideRatio ns ds => varsOfL ns ++ varsOfL ds
    | .substring s a b => varsOf s ++ varsOf a ++ varsOf b
    | .extract s a l => varsOf s ++ varsOf a ++ varsOf l
    | .suffix s a => varsOf s ++ varsOf a
    | .note (some e) => varsOf e
    | .nonce _ e => varsOf e
    | _ => []
  def varsOfL : List Src.Expr → List Nat
    | [] => []
    | e :: es => varsOf e ++ varsOfL es
  def varsOfA : List (Src.Expr × Src.Expr) → List Nat
    | [] => []
    | (c, b) :: rest => varsOf c ++ varsOf b ++ varsOfA rest
end

/-- canonical renaming: automatically numbered variables (≥ 256), in increasing order, go to the
    unused slots < 256, in increasing order; `none` when there is not enough room -/
def canonicalRename (p : Src.Prog) : Option Src.Prog :=
  let all := (varsOf p.main ++ p.mainLocals ++
    p.subs.flatMap (fun sd => varsOf sd.body ++ sd.locals ++ sd.params.map (·.2))).eraseDups
  let auto := Check.sortNat (all.filter (· ≥ 256))
  let free := (List.range 256).filter (fun s => !all.contains s)
  if auto.length ≤ free.length then
    some (Check.renameProg (Comp.applyBindings (auto.zip free)) p)
  else none

def answer (p : Src.Prog) (version : Nat) (fp : Bool) : String :=
  let inF := inFragmentC fp p
  let gen := match genProg version fp p with
    | .ok _ => "ok"
    | .error _ => "err"
  let ren := match canonicalRename p with
    | some p' => inFragmentC fp p'
    | none => false
  -- stage 3 (partial: the range check of loads/stores is a permitted deviation), scratch convention
  let dynp := match canonicalRename p with
    | some p' => !fp && inFragmentC false p' true
    | none => false
  -- stage 3 under the by-reference discipline (`genProg_correct_ref` / `genProg_correct_fp_ref`)
  let refs := match canonicalRename p with
    | some p' => inFragmentC fp p' true true
    | none => false
  s!"fragmentR={showB inF} stage={stageOf p fp} reentersOk={showB (reentersOk p)} gen={gen} renamed={showB ren} dynPartial={showB dynp} refStrict={showB refs}"

def fragmentrSexp : List String → String
  | ver :: fp :: rest =>
    match Util.parseNat ver, (Sexp.parse (" ".intercalate rest)).bind Recipe.prog? with
    | some v, some p => answer p v (fp == "1")
    | none, _ => "perr bad version"
    | _, none => "perr bad recipe"
  | _ => "perr usage: fragmentr-sexp VERSION FP SEXP"

/-- diagnostics: which of the link checks fails -/
def composedWhy (p : Src.Prog) (P : Avm.Program) (version : Nat) (fp : Bool) : String :=
  match Check.renamedProg version fp p P, Check.validateProgCert version fp p P with
  | .ok p', .ok (c, _) =>
    let why := if Check.fragmentOnCert fp p' c then "" else
      s!" mainOk={showB (mainOkC fp p')} pnodup={showB (nodupB (allParamSlots p'))} subs=" ++
        " ".intercalate (p'.subs.map (fun sd =>
          s!"[{sd.id}:has={showB (Check.certHas c sd.id)},ok={showB (subOkC fp p' sd)},wt={showB (wtR (subK fp p' sd) false true (if sd.hasRet then 1 else 0) sd.body)}]"))
    s!"{why} fragment={showB (Check.fragmentOnCert fp p' c)} main={showB (Check.certMainOk version p' c)} subs={showB (Check.certSubsOk version fp p' c)} closed={showB (Check.certClosed c)}"
  | _, _ => ""

/-- diagnostics: which part of `Check.renameOk` fails for the discovered bindings -/
def renameWhy (p : Src.Prog) (P : Avm.Program) (version : Nat) (fp : Bool) : String :=
  match Check.bindingsProg version fp p P with
  | .ok bs =>
    let f := Comp.applyBindings bs
    let D := Check.varsP p
    s!" renameOk[inj={showB (Check.injOnB f D)} fixes={showB (Check.fixesRequested f D)} main={showB (Check.dOk (Check.dkOf f p []) p.main)} subs=" ++
      ",".intercalate (p.subs.map (fun sd => s!"{sd.id}:{showB (Check.dOk (Check.dkOf f p (refSlots sd)) sd.body)}")) ++
      s!" vals={showB (p.subs.all (fun sd => (valSlots sd).all (fun v => !(allRefSlots p).contains v)))}]"
  | .error e => " renameOk[bindings: " ++ e ++ "]"

/-- `composed=true`: hypotheses of `compile_correct_validated_prog`; `composed=true thm=ref`: those of
    `compile_correct_validated_prog_ref` (by-reference discipline, both conventions);
    `composed=partial`: those of `compile_correct_validated_prog_dyn_partial` (run-time addressed
    slots outside the discipline, scratch convention) -/
def composedAnswer (p : Src.Prog) (P : Avm.Program) (version : Nat) (fp : Bool) : String :=
  -- `original`: `Check.originalB` = `renameOkB && composedB` (`Proofs.CompileOriginal.originalB_eq`)
  let orig (composed : Bool) : String :=
    let ro := Check.renameOkB version fp p P
    " original=" ++ showB (composed && ro) ++ (if composed && !ro then renameWhy p P version fp else "")
  match Check.validateComposed version fp p P with
  | .ok true => "composed=true" ++ orig true
  | .ok false =>
    (match Check.validateComposed version fp p P true true with
     | .ok true => "composed=true thm=ref" ++ orig true
     | _ =>
       (match (if fp then (.ok false : Except String Bool) else Check.validateComposed version false p P true) with
        | .ok true => "composed=partial" ++ orig true
        | _ => "composed=false" ++ orig false ++ composedWhy p P version fp))
  | .error e => "composed=false" ++ orig false ++ " " ++ (e.replace "\n" " ")

/-- C01 (call-free programs): the hypotheses of `compile_correct_originalMainB` -/
def originalMainAnswer (p : Src.Prog) (P : Avm.Program) (version : Nat) : String :=
  match Check.validateMain version p.main P with
  | .ok r =>
    let ro := Check.renameOk (Comp.applyBindings r.bindings) { subs := [], main := p.main }
    s!"original={showB (Check.originalMainB version p.main P)} valid=true fragment={showB r.inFragment} renameOk={showB ro}"
  | .error _ => "original=false valid=false fragment=false renameOk=false"

def composedSexp : List String → String
  | ver :: fp :: h :: rest =>
    match Util.parseNat ver, Util.unhex h, (Sexp.parse (" ".intercalate rest)).bind Recipe.prog? with
    | some v, some bs, some p =>
      (match String.fromUTF8? (ByteArray.mk bs.toArray) with
       | some text =>
         let r := Avm.parse [] text
         if r.errors.isEmpty then composedAnswer p r.prog v (fp == "1")
         else "perr " ++ " | ".intercalate r.errors
       | none => "perr not utf-8")
    | none, _, _ => "perr bad version"
    | _, none, _ => "perr bad hex"
    | _, _, none => "perr bad recipe"
  | _ => "perr usage: composed-sexp VERSION FP TEALHEX SEXP"

def originalMainSexp : List String → String
  | ver :: h :: rest =>
    match Util.parseNat ver, Util.unhex h, (Sexp.parse (" ".intercalate rest)).bind Recipe.prog? with
    | some v, some bs, some p =>
      (match String.fromUTF8? (ByteArray.mk bs.toArray) with
       | some text =>
         let r := Avm.parse [] text
         if r.errors.isEmpty then originalMainAnswer p r.prog v
         else "perr " ++ " | ".intercalate r.errors
       | none => "perr not utf-8")
    | none, _, _ => "perr bad version"
    | _, none, _ => "perr bad hex"
    | _, _, none => "perr bad recipe"
  | _ => "perr usage: c01-original VERSION TEALHEX SEXP"

end PyTealV.Cmd.C02Gen
