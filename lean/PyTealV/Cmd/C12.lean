/-
  Driver commands of property C12.

    c12-ccb   SHA COMP*      model `createConstantBlocks`     → ok COMP* | err EXC
    c12-text  SHA COMP*      the same, `assemble()`d          → ok LINEHEX* | err EXC
    c12-value SHA COMP*      per input component: valueOf/valueAt of the model's output
                                                                → ok (V|W)* | err EXC
    c12-tv    SELS PLAINHEX ASMHEX   `ConstantsTV.checkAssembled` on the two parsed texts
                                                                → ok M N | no | perr …
    c12-sites SELS TEALHEX   constant-load sites of a TEAL text, decoded with the independent
                             grammar (`Avm.parse`)            → ok N SITE* | perr …

  SHA   = `-` or `INHEX:OUTHEX,INHEX:OUTHEX…`   (finite table for SHA-512/256; `-` = empty bytes)
  COMP  = `o.NAMEHEX(.ARG)*` | `r.TEXTHEX`       ARG = `nDECIMAL` | `sHEX`
  SELS  = `-` or `SIGHEX:SELHEX,…`
  SITE  = `iN` | `bHEX` | `tNAMEHEX` | `!oob`, followed by `@K` when the instruction carries an
          explicit block index (`intc K` / `bytec K`)
-/
import PyTealV.Util
import PyTealV.Avm.Syntax
import PyTealV.Models.Constants
import PyTealV.Models.ConstantsTV
namespace PyTealV.Cmd.C12
open PyTealV PyTealV.Util PyTealV.Models.Constants

def unhexW (w : String) : Option Bytes := if w = "-" then some [] else unhex w
def hexW (b : Bytes) : String := if b.isEmpty then "-" else hex b

def bytesToString (b : Bytes) : Option String := String.fromUTF8? (ByteArray.mk b.toArray)

def parseTable (w : String) : Option (List (Bytes × Bytes)) :=
  if w = "-" then some [] else
  (w.splitOn ",").mapM (fun e => match e.splitOn ":" with
    | [a, b] => match unhexW a, unhexW b with
      | some x, some y => some (x, y)
      | _, _ => none
    | _ => none)

def tableFn (t : List (Bytes × Bytes)) (x : Bytes) : Bytes :=
  match t.find? (·.1 == x) with
  | some (_, y) => y
  | none => []

def parseArg (w : String) : Option Arg :=
  match w.toList with
  | 'n' :: d => (parseInt (String.ofList d)).map Arg.num
  | 's' :: h => (unhexW (String.ofList h)).bind bytesToString |>.map Arg.str
  | _ => none

def parseComp (w : String) : Option Comp :=
  match w.splitOn "." with
  | "o" :: name :: args =>
    match (unhexW name).bind bytesToString, args.mapM parseArg with
    | some n, some as => some (.op n as)
    | _, _ => none
  | ["r", t] => ((unhexW t).bind bytesToString).map Comp.raw
  | _ => none

def showArg : Arg → String
  | .num n => "n" ++ toString n
  | .str s => "s" ++ hexW (strBytes s)

def showComp : Comp → String
  | .op name args => ".".intercalate ("o" :: hexW (strBytes name) :: args.map showArg)
  | .raw t => "r." ++ hexW (strBytes t)

def withInput (ws : List String) (k : (Bytes → Bytes) → List Comp → String) : String :=
  match ws with
  | [] => "perr missing table"
  | t :: cs =>
    match parseTable t, cs.mapM parseComp with
    | some tb, some ops => k (tableFn tb) ops
    | none, _ => "perr bad table"
    | _, none => "perr bad component"

def ccb (ws : List String) : String :=
  withInput ws fun sha ops =>
    match createConstantBlocks sha ops with
    | .ok r => " ".intercalate ("ok" :: r.assembled.map showComp)
    | .error e => "err " ++ e

def text (ws : List String) : String :=
  withInput ws fun sha ops =>
    match createConstantBlocks sha ops with
    | .ok r => " ".intercalate ("ok" :: r.assembled.map (fun c => hexW (strBytes c.render)))
    | .error e => "err " ++ e

def showSite : Site → String
  | .none => "."
  | .int (.num n) => "i" ++ toString n
  | .int (.tmpl s) => "t" ++ hexW (strBytes s)
  | .byt (.bytes b) => "b" ++ hexW b
  | .byt (.str s) => "t" ++ hexW (strBytes s)

def value (ws : List String) : String :=
  withInput ws fun sha ops =>
    match createConstantBlocks sha ops with
    | .error e => "err " ++ e
    | .ok r =>
      let one (c d : Comp) : String :=
        (match valueOf sha c with | .ok s => showSite s | .error e => "E" ++ e) ++ "|" ++
        (match valueAt r.intBlock r.byteBlock d with | some s => showSite s | none => ".")
      " ".intercalate ("ok" :: List.zipWith one ops r.body)

/-! ### Independent decoding of a TEAL text -/

open PyTealV.Avm in
def sitesOf (p : Avm.Program) : List String :=
  let lines := p.toList
  let ib : Option (List Nat) := lines.findSome? (fun ln => match ln.instr with | .intcblock vs => some vs | _ => none)
  let bb : Option (List Bytes) := lines.findSome? (fun ln => match ln.instr with | .bytecblock vs => some vs | _ => none)
  lines.filterMap fun ln =>
    let explicit := ln.raw.op == "intc" || ln.raw.op == "bytec"
    let sfx (i : Nat) := if explicit then s!"@{i}" else ""
    match ln.instr with
    | .pushInt n => some s!"i{n}"
    | .pushBytes b => some ("b" ++ hexW b)
    | .tmpl _ n => some ("t" ++ hexW (strBytes n))
    | .intc i => some ((match ib.bind (·[i]?) with | some n => s!"i{n}" | none => "!oob") ++ sfx i)
    | .bytec i => some ((match bb.bind (·[i]?) with | some b => "b" ++ hexW b | none => "!oob") ++ sfx i)
    | _ => none

def sites (ws : List String) : String :=
  match ws with
  | [sels, h] =>
    match parseTable sels, (unhexW h).bind bytesToString with
    | some tb, some txt =>
      let r := Avm.parse tb txt
      if r.errors.isEmpty then " ".intercalate ("ok" :: toString r.prog.size :: sitesOf r.prog)
      else "perr " ++ " | ".intercalate r.errors
    | _, _ => "perr bad input"
  | _ => "perr usage: c12-sites SELS TEALHEX"

/-- translation validation: is the second text the first one assembled (relation proved to preserve `Avm.run`)? -/
def tv (ws : List String) : String :=
  match ws with
  | [sels, h1, h2] =>
    match parseTable sels, (unhexW h1).bind bytesToString, (unhexW h2).bind bytesToString with
    | some tb, some t1, some t2 =>
      let r1 := Avm.parse tb t1
      let r2 := Avm.parse tb t2
      if !r1.errors.isEmpty then "perr plain: " ++ " | ".intercalate r1.errors
      else if !r2.errors.isEmpty then "perr assembled: " ++ " | ".intercalate r2.errors
      else match Models.ConstantsTV.checkAssembled r1.prog r2.prog with
        | some (m, n) => s!"ok {m} {n}"
        | none => "no"
    | _, _, _ => "perr bad input"
  | _ => "perr usage: c12-tv SELS PLAINHEX ASMHEX"

end PyTealV.Cmd.C12
