/-
  Driver commands of the ARC-4 specification (`PyTealV.Arc4`), shared by C06/C07/C19.

    arc4-descr   SIG            → ok SIGNATURE DYN(0|1) STATICLEN HEADLEN | perr …
    arc4-encode  SIG VALUE      → ok HEX | none | perr …
    arc4-decode  SIG HEX        → ok VALUE | none | perr …
    arc4-norm    SIG            → ok SIGNATURE-of-norm

  SIG is an ARC-4 type string (no spaces).  VALUE is an S-expression:
    T | F                bool
    123                  natural number (uintN / byte)
    x68656c6c6f | x      a byte string = the sequence of its bytes (address, string, byte[..])
    (v v …)              sequence (tuple / array)
-/
import PyTealV.Util
import PyTealV.Sexp
import PyTealV.Arc4
namespace PyTealV.Cmd.Arc4
open PyTealV PyTealV.Arc4

def value? : Nat → Sexp → Option V
  | 0, _ => none
  | _+1, .atom s =>
    if s = "T" then some (.bool true)
    else if s = "F" then some (.bool false)
    else match s.toList with
      | 'x' :: rest => (Util.unhexChars rest).map V.ofBytes
      | _ => (Util.parseNat s).map .uint
  | fuel+1, .list xs => (optMap (value? fuel) xs).map .seq

def parseValue (s : String) : Option V :=
  (Sexp.parse s).bind (value? (s.length + 2))

def showV : Nat → V → String
  | 0, _ => "?"
  | _, .bool b => if b then "T" else "F"
  | _, .uint n => toString n
  | fuel+1, .seq vs => "(" ++ " ".intercalate (vs.map (showV fuel)) ++ ")"

def vDepth : V → Nat
  | .bool _ => 1
  | .uint _ => 1
  | .seq vs => 1 + (vs.attach.foldl (fun a ⟨x, _⟩ => max a (vDepth x)) 0)

def descr (args : List String) : String :=
  match args with
  | [sig] =>
    match Ty.parse sig with
    | some t => s!"ok {signature t} {if isDynamic t then 1 else 0} {staticLen t} {headLen t}"
    | none => "perr bad type"
  | _ => "perr usage"

def encodeCmd (args : List String) : String :=
  match args with
  | sig :: rest =>
    match Ty.parse sig, parseValue (" ".intercalate rest) with
    | some t, some v =>
      match encode t v with
      | some bs => "ok " ++ (if bs.isEmpty then "-" else Util.hex bs) ++ (if hasType t v then "" else " ILL-TYPED")
      | none => "none" ++ (if hasType t v then " typed" else " untyped")
    | none, _ => "perr bad type"
    | _, none => "perr bad value"
  | _ => "perr usage"

def decodeCmd (args : List String) : String :=
  match args with
  | [sig, h] =>
    match Ty.parse sig, (if h = "-" then some [] else Util.unhex h) with
    | some t, some bs =>
      match decode t bs with
      | some v => "ok " ++ showV (vDepth v + 1) v
      | none => "none"
    | none, _ => "perr bad type"
    | _, none => "perr bad hex"
  | _ => "perr usage"

def normCmd (args : List String) : String :=
  match args with
  | [sig] =>
    match Ty.parse sig with
    | some t => "ok " ++ signature t.norm
    | none => "perr bad type"
  | _ => "perr usage"

end PyTealV.Cmd.Arc4
