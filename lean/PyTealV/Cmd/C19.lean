/-
  Driver commands of C19 (ABI assignability).

    c19-assignable (A B)   → ok ASSIGNABLE EQ STR_A STR_B ERASE_A ERASE_B CLS_A CLS_B
        ASSIGNABLE = model of type_spec_is_assignable_to(A, B)   (0/1)
        EQ         = model of Python `A == B`                     (0/1)
        STR_x      = model of str(x)
        ERASE_x    = signature of the normalised ARC-4 layout, `-` for non-codec specs
        CLS_x      = model of type(x).__name__
    c19-classes            → ok NAME:PARENT NAME:PARENT …   (the modelled class hierarchy)

  Type-spec syntax (S-expression; produced by harness/props/c19.py from real TypeSpec objects):
    bool byte u8 u16 u32 u64 address string dynbytes (stbytes N) (sa N T) (da T)
    (tup T…) (nt CLASSID T…) txn pay keyreg acfg axfer afrz appl account asset application
-/
import PyTealV.Util
import PyTealV.Sexp
import PyTealV.Arc4
import PyTealV.Models.Assignable
namespace PyTealV.Cmd.C19
open PyTealV PyTealV.Models.Assignable

def atomTS (s : String) : Option TS :=
  match s with
  | "bool" => some .bool
  | "byte" => some (.uint .byte)
  | "u8" => some (.uint .u8)
  | "u16" => some (.uint .u16)
  | "u32" => some (.uint .u32)
  | "u64" => some (.uint .u64)
  | "address" => some .address
  | "string" => some .string
  | "dynbytes" => some .dynBytes
  | "txn" => some (.txn .any)
  | "pay" => some (.txn .pay)
  | "keyreg" => some (.txn .keyreg)
  | "acfg" => some (.txn .acfg)
  | "axfer" => some (.txn .axfer)
  | "afrz" => some (.txn .afrz)
  | "appl" => some (.txn .appl)
  | "account" => some (.ref .account)
  | "asset" => some (.ref .asset)
  | "application" => some (.ref .application)
  | _ => none

def ts? : Nat → Sexp → Option TS
  | 0, _ => none
  | _+1, .atom s => atomTS s
  | fuel+1, .list xs =>
    match xs with
    | [.atom "stbytes", n] => (Sexp.nat? n).map .staticBytes
    | [.atom "sa", n, t] =>
      match Sexp.nat? n, ts? fuel t with
      | some n, some t => some (.sarray t n)
      | _, _ => none
    | [.atom "da", t] => (ts? fuel t).map .darray
    | .atom "tup" :: ts => (Arc4.optMap (ts? fuel) ts).map .tuple
    | .atom "nt" :: c :: ts =>
      match Sexp.nat? c, Arc4.optMap (ts? fuel) ts with
      | some c, some ts => some (.named c ts)
      | _, _ => none
    | _ => none

def b01 (b : Bool) : String := if b then "1" else "0"

def assignableCmd (args : List String) : String :=
  let text := " ".intercalate args
  match Sexp.parse text with
  | some (.list [a, b]) =>
    match ts? (text.length + 2) a, ts? (text.length + 2) b with
    | some a, some b =>
      let er (x : TS) : String := match erase x with
        | some t => Arc4.signature t
        | none => "-"
      s!"ok {b01 (assignable a b)} {b01 (pyEq a b)} {String.ofList (str a)} {String.ofList (str b)} {er a} {er b} {(clsOf a).name} {(clsOf b).name}"
    | _, _ => "perr bad type spec"
  | _ => "perr usage: c19-assignable (A B)"

def classesCmd (_ : List String) : String :=
  "ok " ++ " ".intercalate (Cls.all.map (fun c =>
    c.name ++ ":" ++ (match c.parent with
      | some p => p.name
      | none => "-")))

end PyTealV.Cmd.C19
