/-
  C11 driver command: run a session (a sequence of API operations) through the model
  `Models/Session.lean`.

    c11-run OP…   → one word per operation `OBS@next,subid,proto`, then `|` and one word per
                    definition bound at the end `name:subid:S:F:K` (S/F = scratch / frame-pointer
                    declaration cached 0|1, K = has_return/type_of memo 0|1)

  OP (fields separated by ":", lists by ","; an empty list is "-")
    slot:X            X = ScratchSlot()
    req:X:N           X = ScratchSlot(N)
    sub:D:P:V:A:O:RS:RF   definition D: P params, V ScratchVars, A ABI values in the body, O has
                      output, RS/RF body raises under scratch / frame pointers (0|1)
    eval:D:s|f        D.get_declaration_by_option(False|True)
    probe:D           D.type_of()
    into:D            D(...).store_into(out)
    abi:X             X = abi.Uint64() outside any subroutine
    tmpl:N
    compile:V:FP:ST:SLOTS:ABIS:SUBS    V version, FP = n|t|f (OptimizeOptions.frame_pointers),
                      ST = -|m|l (failure injected in the main routine's __teal__ / late)
    router:R:M        M = list of D.K (method D, K ABI instances created by its wrapper)
    rbuild:R:V        R._build_program(version=V)
    rcompile:R:V      R.compile_program(version=V)
  OBS
    u | r.body | r.input | r.stage.m | r.stage.l | r.slots.<err> | r.unbound
    c;MAINSLOTS;MAINABIS;LABELS;SUBSLOTS;SUBABIS;TIE   (lists by ",", per-subroutine lists by "/",
      a number n, "?" when the assignment has no entry, ABI value `fI` frame index / `sN` slot)
-/
import PyTealV.Util
import PyTealV.Models.Session
namespace PyTealV.Cmd.C11
open PyTealV.Models.Session PyTealV.Util

def parseList (w : String) : Option (List Nat) :=
  if w == "-" || w.isEmpty then some [] else (w.splitOn ",").mapM parseNat

def parseBool (w : String) : Option Bool :=
  match w with
  | "0" => some false
  | "1" => some true
  | _ => none

def parseMethod (w : String) : Option (Name × Nat) :=
  match w.splitOn "." with
  | [d, k] => match parseNat d, parseNat k with
    | some d, some k => some (d, k)
    | _, _ => none
  | _ => none

def parseOp (w : String) : Option Op :=
  match w.splitOn ":" with
  | ["slot", x] => (parseNat x).map Op.newSlot
  | ["req", x, n] => match parseNat x, parseNat n with
    | some x, some n => some (.newSlotReq x n)
    | _, _ => none
  | ["sub", d, p, v, a, o, rs, rf] =>
    match parseNat d, parseNat p, parseNat v, parseNat a, parseBool o, parseBool rs, parseBool rf with
    | some d, some p, some v, some a, some o, some rs, some rf => some (.newSubroutine d ⟨p, v, a, o, rs, rf⟩)
    | _, _, _, _, _, _, _ => none
  | ["eval", d, f] =>
    match parseNat d, f with
    | some d, "s" => some (.evalDeclaration d .scratch)
    | some d, "f" => some (.evalDeclaration d .fp)
    | _, _ => none
  | ["probe", d] => (parseNat d).map Op.probeInfo
  | ["into", d] => (parseNat d).map Op.storeInto
  | ["abi", x] => (parseNat x).map Op.newAbiValue
  | ["tmpl", n] => (parseNat n).map Op.tmpl
  | ["compile", v, fp, st, slots, abis, subs] =>
    let fpOpt : Option (Option Bool) := match fp with
      | "n" => some none | "t" => some (some true) | "f" => some (some false) | _ => none
    let stage : Option (Option Stage) := match st with
      | "-" => some none | "m" => some (some .mainTeal) | "l" => some (some .late) | _ => none
    match parseNat v, fpOpt, stage, parseList slots, parseList abis, parseList subs with
    | some v, some fpOpt, some stage, some slots, some abis, some subs =>
      some (.compile ⟨slots, abis, subs⟩ v fpOpt stage)
    | _, _, _, _, _, _ => none
  | ["router", r, ms] =>
    let methods : Option (List (Name × Nat)) :=
      if ms == "-" then some [] else (ms.splitOn ",").mapM parseMethod
    match parseNat r, methods with
    | some r, some methods => some (.newRouter r methods)
    | _, _ => none
  | ["rbuild", r, v] => match parseNat r, parseNat v with
    | some r, some v => some (.routerBuild r v)
    | _, _ => none
  | ["rcompile", r, v] => match parseNat r, parseNat v with
    | some r, some v => some (.routerCompile r v)
    | _, _ => none
  | _ => none

def showOptNat : Option Nat → String
  | some n => toString n
  | none => "?"

def showLoc : Loc → String
  | .frame i => s!"f{i}"
  | .slot n => "s" ++ showOptNat n

def showL (l : List String) : String := if l.isEmpty then "-" else ",".intercalate l
def showLL (l : List (List String)) : String := if l.isEmpty then "-" else "/".intercalate (l.map showL)

def showSlotErr : PyTealV.Models.Slots.Err → String
  | .dupRequested => "dup"
  | .tooMany n => s!"toomany{n}"
  | .loadBeforeStore => "validate"
  | .keyError => "keyerror"

def showObs : Obs → String
  | .unit => "u"
  | .raised .body => "r.body"
  | .raised .input => "r.input"
  | .raised (.stage .mainTeal) => "r.stage.m"
  | .raised (.stage .late) => "r.stage.l"
  | .raised (.slots e) => "r.slots." ++ showSlotErr e
  | .raised .unbound => "r.unbound"
  | .compiled r =>
    ";".intercalate ["c", showL (r.mainSlots.map showOptNat), showL (r.mainAbis.map showLoc),
      showL (r.subLabels.map toString), showLL (r.subSlots.map (·.map showOptNat)),
      showLL (r.subAbis.map (·.map showLoc)), if r.tie then "1" else "0"]

def showProto : Option Proto → String
  | none => "-"
  | some p => s!"{p.owner}.{p.locals}"

def showState (s : State) : String := s!"{s.nextSlotId},{s.nextSubroutineId},{showProto s.currentProto}"

def runShow : List Op → State → List String
  | [], _ => []
  | op :: rest, s =>
    let r := step s op
    (showObs r.2 ++ "@" ++ showState r.1) :: runShow rest r.1

/-- the definitions bound at the end (innermost binding of every name) -/
def showDefs (s : State) : List String :=
  let names := PyTealV.Models.Slots.dedup (s.env.map (·.1))
  names.filterMap (fun n => match s.lookup n with
    | some (.sub d) =>
      let b := fun (x : Bool) => if x then "1" else "0"
      some s!"{n}:{d.subId}:{b d.scratchDecl.isSome}:{b d.fpDecl.isSome}:{b d.infoKnown}"
    | _ => none)

def runCmd (ws : List String) : String :=
  match ws.mapM parseOp with
  | none => "perr bad operation"
  | some ops =>
    " ".intercalate (runShow ops init) ++ " | " ++ " ".intercalate (showDefs (run ops init))

end PyTealV.Cmd.C11
