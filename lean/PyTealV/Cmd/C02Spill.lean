/-
  Driver commands for the recursion spill model (part of C02).

    c02-spill SLOTS NUMARGS RET COVER
        SLOTS   comma separated slot numbers in the order the Python code iterates them
                (`sorted(localSlots[caller])`), `-` for none
        RET     1 iff the callee leaves a value on the stack, COVER 1 iff version >= 5
      → `ok BEFORE AFTER`, each a comma separated op list (`load:3`, `cover:2`, `swap`, …; `-` empty)

    c02-recpoints GRAPH
        GRAPH   `;`-separated `node:callee,callee,…` entries (`node:` for no callee), `-` for empty
      → `ok node:callee,…;…` (same layout, callees that may re-enter the node) | `err`

    c02-gsearch GRAPH START END   → `ok 1` | `ok 0` | `err` (KeyError)   (`graph_search`)
-/
import PyTealV.Util
import PyTealV.Models.Spill
namespace PyTealV.Cmd.C02Spill
open PyTealV PyTealV.Avm PyTealV.Models.Spill

def showOp : Instr → String
  | .load s => s!"load:{s}"
  | .store s => s!"store:{s}"
  | .prim name imms => String.intercalate ":" (name :: imms)
  | _ => "?"

def showOps (ops : List Instr) : String :=
  if ops.isEmpty then "-" else String.intercalate "," (ops.map showOp)

def parseNats (sep : String) (s : String) : Option (List Nat) :=
  if s == "-" || s == "" then some [] else (s.splitOn sep).mapM Util.parseNat

def parseBool (s : String) : Option Bool :=
  if s == "1" then some true else if s == "0" then some false else none

def spill : List String → String
  | [slots, numArgs, ret, cover] =>
    match parseNats "," slots, Util.parseNat numArgs, parseBool ret, parseBool cover with
    | some sl, some n, some r, some c =>
      s!"ok {showOps (spillBefore sl n c)} {showOps (spillAfter sl n r c)}"
    | _, _, _, _ => "perr bad argument"
  | _ => "perr usage: c02-spill SLOTS NUMARGS RET COVER"

def parseGraph (s : String) : Option CallGraph :=
  if s == "-" then some [] else
  (s.splitOn ";").mapM (fun e => match e.splitOn ":" with
    | [n, cs] => do
      let n ← Util.parseNat n
      let cs ← parseNats "," cs
      pure (n, cs)
    | _ => none)

def showGraph (g : List (Nat × List Nat)) : String :=
  if g.isEmpty then "-" else
  String.intercalate ";" (g.map (fun p => s!"{p.1}:" ++ String.intercalate "," (p.2.map toString)))

def recpoints : List String → String
  | [g] => match parseGraph g with
    | some g => (match recursionPoints g with
      | some r => s!"ok {showGraph r}"
      | none => "err")
    | none => "perr bad graph"
  | _ => "perr usage: c02-recpoints GRAPH"

def gsearch : List String → String
  | [g, a, b] => match parseGraph g, Util.parseNat a, Util.parseNat b with
    | some g, some a, some b => (match graphSearch g a b with
      | some true => "ok 1"
      | some false => "ok 0"
      | none => "err")
    | _, _, _ => "perr bad argument"
  | _ => "perr usage: c02-gsearch GRAPH START END"

end PyTealV.Cmd.C02Spill
