/-
  C03 (optimiser) driver commands.

  Graph encoding (one word, numbers only):
      GRAPH := BLOCK {"/" BLOCK}            block i of the array is the i-th BLOCK
      BLOCK := [OP {"," OP}] ":" SUCC
      SUCC  := "-" | "n" b | "c" t "." f    (no successor | TealSimpleBlock.nextBlock | true.false)
      OP    := KIND num                     KIND := l | s | o
               l<slot> / s<slot>: load / store of the slot object `slot`
               o<k>: `int k` (stands for any other op; `int <slot>` of ScratchSlot.index() is
                     written `o<slot>`)
      OP    := … | "x" hex                  any other TEAL op, hex of its text (`pop`, `+`, `return`, `loads` …)
    c03-opt SKIP START GRAPH   SKIP := "-" | slot {"," slot}
        → ok GRAPH' removed=slot.slot…   (apply_global_optimizations)
    c03-iterate START GRAPH    → b.b.b   (TealBlock.Iterate order)
    c03-pairs SKIP START GRAPH → pairsOnly=0|1 framed=0|1 (hypotheses of slot_to_stack_sound_partial
                                 for the slots the pass removes)
    c03-run START FUEL GRAPH   `Comp.grun` from the empty machine state (default context)
        → halt OUTCOME(with slots) | fell [stack top first] slots[…] | fuel
    c03-unopt R…               collect_unoptimized_slots on routine graphs, in dict order
      R     := KEY "=" start "=" SBLOCK {"/" SBLOCK}     KEY := "m" | <subroutine number>
      SBLOCK:= [SOP {";" SOP}] ":" SUCC                  SOP as in Cmd/C10 (`l,S<obj>.<id>.<0|1>`)
        → unopt=obj.obj…
-/
import PyTealV.Util
import PyTealV.Models.Optimizer
import PyTealV.Cmd.C10
import PyTealV.Compare
namespace PyTealV.Cmd.C03Opt
open PyTealV PyTealV.Avm PyTealV.Comp PyTealV.Util PyTealV.Models PyTealV.Models.Optimizer

def parseSucc (w : String) : Option Succ :=
  match w.toList with
  | ['-'] => some .none
  | 'n' :: cs => (parseNat (String.ofList cs)).map Succ.next
  | 'c' :: cs =>
    match (String.ofList cs).splitOn "." with
    | [t, f] =>
      match parseNat t, parseNat f with
      | some t, some f => some (.cond t f)
      | _, _ => none
    | _ => none
  | _ => none

def showSucc : Succ → String
  | .none => "-"
  | .next b => s!"n{b}"
  | .cond t f => s!"c{t}.{f}"

def parseOp (w : String) : Option Instr :=
  match w.toList with
  | 'l' :: cs => (parseNat (String.ofList cs)).map Instr.load
  | 's' :: cs => (parseNat (String.ofList cs)).map Instr.store
  | 'o' :: cs => (parseNat (String.ofList cs)).map Instr.pushInt
  | 'x' :: cs =>
    match unhex (String.ofList cs) with
    | some bs =>
      match String.fromUTF8? (ByteArray.mk bs.toArray) with
      | some text =>
        (match parseInstr [] (tokenise text) with
         | .ok (.load _) | .ok (.store _) => none      -- must be written l / s
         | .ok i => some i
         | .error _ => none)
      | none => none
    | none => none
  | _ => none

def showOp (x : Instr) : String :=
  match x with
  | .load n => s!"l{n}"
  | .store n => s!"s{n}"
  | .pushInt n => s!"o{n}"
  | .prim n imms => "x" ++ hex (" ".intercalate (n :: imms)).toUTF8.toList
  | .ret => "x" ++ hex "return".toUTF8.toList
  | .err => "x" ++ hex "err".toUTF8.toList
  | _ => "?"

def parseBlock (w : String) : Option Block :=
  match w.splitOn ":" with
  | [ops, s] =>
    let os : Option (List Instr) := if ops.isEmpty then some [] else (ops.splitOn ",").mapM parseOp
    match os, parseSucc s with
    | some os, some s => some { ops := os, succ := s }
    | _, _ => none
  | _ => none

def parseGraph (w : String) : Option Graph := ((w.splitOn "/").mapM parseBlock).map List.toArray

def showBlock (b : Block) : String := ",".intercalate (b.ops.map showOp) ++ ":" ++ showSucc b.succ
def showGraph (G : Graph) : String := "/".intercalate (G.toList.map showBlock)

def parseSkip (w : String) : Option (List Nat) :=
  if w == "-" then some [] else (w.splitOn ",").mapM parseNat

def opt (ws : List String) : String :=
  match ws with
  | [skip, start, g] =>
    match parseSkip skip, parseNat start, parseGraph g with
    | some skip, some start, some G =>
      let r := slotToStackS skip G start
      "ok " ++ showGraph r.1 ++ " removed=" ++ C10.showNats (Slots.dedup r.2)
    | _, _, _ => "perr bad arguments"
  | _ => "perr bad arguments"

def iter (ws : List String) : String :=
  match ws with
  | [start, g] =>
    match parseNat start, parseGraph g with
    | some start, some G => ".".intercalate ((reach G start).map toString)
    | _, _ => "perr bad arguments"
  | _ => "perr bad arguments"

def pairs (ws : List String) : String :=
  match ws with
  | [skip, start, g] =>
    match parseSkip skip, parseNat start, parseGraph g with
    | some skip, some start, some G =>
      let r := slotToStackS skip G start
      let b (x : Bool) : String := if x then "1" else "0"
      s!"pairsOnly={b (pairsOnly G start r.2)} framed={b (primsFramed G start)}"
    | _, _, _ => "perr bad arguments"
  | _ => "perr bad arguments"

def showStack (st : List Val) : String := "[" ++ " ".intercalate (st.map Compare.showVal) ++ "]"
def showSlots (w : World) : String :=
  "slots[" ++ " ".intercalate ((Compare.userSlots w).map (fun (s, v) => s!"{s}=" ++ Compare.showVal v)) ++ "]"

def run (ws : List String) : String :=
  match ws with
  | [start, fuel, g] =>
    match parseNat start, parseNat fuel, parseGraph g with
    | some start, some fuel, some G =>
      (match grun {} G fuel start {} with
       | .halt o => "halt " ++ Compare.showOutcome true o
       | .fell m => "fell " ++ showStack m.stack ++ " " ++ showSlots m.world
       | .fuel => "fuel")
    | _, _, _ => "perr bad arguments"
  | _ => "perr bad arguments"

def parseSBlock (w : String) : Option (List Slots.Op × Succ) :=
  match w.splitOn ":" with
  | [ops, s] =>
    let os : Option (List Slots.Op) := if ops.isEmpty then some [] else (ops.splitOn ";").mapM C10.parseOp
    match os, parseSucc s with
    | some os, some s => some (os, s)
    | _, _ => none
  | _ => none

def parseRoutine (w : String) : Option (Slots.Key × SGraph) :=
  match w.splitOn "=" with
  | [k, start, body] =>
    let key : Option Slots.Key := if k == "m" then some none else (parseNat k).map some
    match key, parseNat start, (body.splitOn "/").mapM parseSBlock with
    | some key, some start, some bs => some (key, { blocks := bs.toArray, start := start })
    | _, _, _ => none
  | _ => none

def unopt (ws : List String) : String :=
  match ws.mapM parseRoutine with
  | some rs => "unopt=" ++ C10.showNats (skipOf rs)
  | none => "perr bad program"

end PyTealV.Cmd.C03Opt
