/-
  C10 driver commands.

  Program encoding (numbers only, no free text): one word per routine, in dict order
      ROUTINE := KEY "=" [OP {";" OP}]        KEY := "m" | <subroutine number>
      OP      := KIND {"," ARG}               KIND := l | s | i | o   (load, store, int, other)
      ARG     := "S" obj "." id "." (0|1)  |  "N" n
    c10-assign  R…   → ok asg=obj:n,… locals=KEY:n.n|… prog=R R …   | err dup | err toomany N | err validate | err keyerror
    c10-collect R…   → global=obj.obj locals=KEY:obj.obj|… unopt=obj.obj
    c10-alloc M P    → M successive alloc_abstract_var calls, P = "-" (no proto) or the current
                       number of frame locals → f0,f1,…,s,s
-/
import PyTealV.Util
import PyTealV.Models.Slots
namespace PyTealV.Cmd.C10
open PyTealV.Models.Slots PyTealV.Util

def parseArg (w : String) : Option Arg :=
  match w.toList with
  | 'N' :: cs => (parseNat (String.ofList cs)).map Arg.imm
  | 'S' :: cs =>
    match (String.ofList cs).splitOn "." with
    | [o, i, r] =>
      match parseNat o, parseNat i, r with
      | some o, some i, "0" => some (.slot ⟨o, i, false⟩)
      | some o, some i, "1" => some (.slot ⟨o, i, true⟩)
      | _, _, _ => none
    | _ => none
  | _ => none

def parseOp (w : String) : Option Op :=
  match w.splitOn "," with
  | k :: args =>
    let kind : Option OpKind := match k with
      | "l" => some .load | "s" => some .store | "i" => some .int | "o" => some .other | _ => none
    match kind, args.mapM parseArg with
    | some kind, some args => some ⟨kind, args⟩
    | _, _ => none
  | [] => none

def parseRoutine (w : String) : Option Routine :=
  match w.splitOn "=" with
  | [k, body] =>
    let key : Option Key := if k == "m" then some none else (parseNat k).map some
    let ops : Option (List Op) := if body.isEmpty then some [] else (body.splitOn ";").mapM parseOp
    match key, ops with
    | some key, some ops => some (key, ops)
    | _, _ => none
  | _ => none

def parseProgram (ws : List String) : Option Program := ws.mapM parseRoutine

def showKey : Key → String
  | none => "m"
  | some n => toString n

def showArg : Arg → String
  | .slot s => s!"S{s.obj}.{s.id}.{if s.reserved then 1 else 0}"
  | .imm n => s!"N{n}"

def showKind : OpKind → String
  | .load => "l" | .store => "s" | .int => "i" | .other => "o"

def showOp (op : Op) : String := ",".intercalate (showKind op.kind :: op.args.map showArg)

def showRoutine (r : Routine) : String := showKey r.1 ++ "=" ++ ";".intercalate (r.2.map showOp)

def sortNat (l : List Nat) : List Nat := l.mergeSort (fun a b => decide (a ≤ b))

def showNats (l : List Nat) : String := ".".intercalate ((sortNat l).map toString)

def showErr : Err → String
  | .dupRequested => "err dup"
  | .tooMany n => s!"err toomany {n}"
  | .loadBeforeStore => "err validate"
  | .keyError => "err keyerror"

def assign (ws : List String) : String :=
  match parseProgram ws with
  | none => "perr bad program"
  | some p =>
    match assignSlots p with
    | .error e => showErr e
    | .ok r =>
      let asg := (r.assignment.mergeSort (fun a b => decide (a.1.obj ≤ b.1.obj))).map
        (fun e => s!"{e.1.obj}:{e.2}")
      let locals := r.localSets.map (fun e => showKey e.1 ++ ":" ++ showNats e.2)
      "ok asg=" ++ ",".intercalate asg ++ " locals=" ++ "|".intercalate locals ++
        " prog=" ++ " ".intercalate (r.program.map showRoutine)

def collect (ws : List String) : String :=
  match parseProgram ws with
  | none => "perr bad program"
  | some p =>
    let c := collectSlots p
    "global=" ++ showNats (c.1.map (·.obj)) ++
      " locals=" ++ "|".intercalate (c.2.map (fun e => showKey e.1 ++ ":" ++ showNats (e.2.map (·.obj)))) ++
      " unopt=" ++ showNats ((unoptimizedSlots p).map (·.obj))

def alloc (ws : List String) : String :=
  match ws with
  | [m, p] =>
    let proto : Option (Option Nat) := if p == "-" then some none else (parseNat p).map some
    match parseNat m, proto with
    | some m, some proto =>
      ",".intercalate ((allocMany m proto).map (fun v => match v with
        | .frame i => s!"f{i}" | .scratch => "s"))
    | _, _ => "perr bad arguments"
  | _ => "perr bad arguments"

end PyTealV.Cmd.C10
