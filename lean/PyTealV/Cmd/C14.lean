/-
  C14 driver commands.  One S-expression describes a call (type texts hex-encoded UTF-8):
    CALL  := (call SELHEX APPID (kinds K*) (args A*) (extra E*))
    APPID := none | (u N) | (b HEX)
    K     := (plain TYHEX static|dynamic|bool) | account | application | asset
             | (txn txn|pay|keyreg|acfg|axfer|afrz|appl)
    A     := (expr VAL) | (abi TYHEX ENCHEX) | (account HEX) | (application N) | (asset N)
             | (dict E*) | other
    E     := (FIELD one VAL) | (FIELD many VAL*) | (FIELD enum NAME CODE)
    VAL   := (u N) | (b HEX)                       (empty bytes = "-")
  c14-model CALL        what MethodCall emits, recorded  → ok GROUP | err input|type|encoding|other
  c14-spec CALL         what ARC-4 prescribes            → ok VIEWS | none
  c14-submitted CALL    the model's group as read        → ok VIEWS | none
  c14-view [GROUP]      a recorded group as read         → VIEWS | perr
  c14-pack (ENCHEX LAY)*   `packArgs` of the slots       → ok HEX,HEX,… | none
  c14-fields            the TxnField table               → NAME:u|b:0|1,…
  GROUP = f=v,f=v;f=v (as `exec` prints inside `itxn:[…]`), VIEWS = one view per transaction
  joined by ';' : type=V|app=V|args=V,V|accounts=…|apps=…|assets=…|others=f=v,f=v  (absent = -)
-/
import PyTealV.Util
import PyTealV.Sexp
import PyTealV.Models.MethodCall
namespace PyTealV.Cmd.C14
open PyTealV PyTealV.Util PyTealV.Avm PyTealV.Models.MethodCall

def showVal : Val → String
  | .u n => s!"u{n}"
  | .b bs => "b" ++ (if bs.isEmpty then "-" else hex bs)

def showTxn (t : Txn) : String := ",".intercalate (t.map (fun (f, v) => f ++ "=" ++ showVal v))
def showGroup (g : Group) : String := ";".intercalate (g.map showTxn)

def showOpt : Option Val → String
  | some v => showVal v
  | none => "-"
def showVals (l : List Val) : String := if l.isEmpty then "-" else ",".intercalate (l.map showVal)

def showView (v : TxnView) : String :=
  "type=" ++ showOpt v.typeEnum ++ "|app=" ++ showOpt v.appId ++ "|args=" ++ showVals v.appArgs ++
  "|accounts=" ++ showVals v.accounts ++ "|apps=" ++ showVals v.apps ++ "|assets=" ++ showVals v.assets ++
  "|others=" ++ (if v.others.isEmpty then "-" else showTxn v.others)

def showViews (g : List TxnView) : String := ";".intercalate (g.map showView)

def val? : Sexp → Option Val
  | .list [.atom "u", n] => n.nat?.map .u
  | .list [.atom "b", h] => h.hex?.map .b
  | _ => none

def text? (s : Sexp) : Option String :=
  s.hex?.bind (fun bs => String.fromUTF8? (ByteArray.mk bs.toArray))

def layout? : Sexp → Option Layout
  | .atom "static" => some .static | .atom "dynamic" => some .dynamic | .atom "bool" => some .bool
  | _ => none

def kind? : Sexp → Option Kind
  | .atom "account" => some .account
  | .atom "application" => some .application
  | .atom "asset" => some .asset
  | .list [.atom "plain", t, l] => do pure (.plain (← text? t) (← layout? l))
  | .list [.atom "txn", .atom t] => (txnTyOfName t).map .txn
  | _ => none

def entry? : Sexp → Option (String × DVal)
  | .list [.atom f, .atom "one", v] => do pure (f, .one (← val? v))
  | .list (.atom f :: .atom "many" :: vs) => do pure (f, .many (← vs.mapM val?))
  | .list [.atom f, .atom "enum", .atom name, c] => do pure (f, .enum name (← c.nat?))
  | _ => none

def arg? : Sexp → Option PArg
  | .atom "other" => some .other
  | .list [.atom "expr", v] => (val? v).map .expr
  | .list [.atom "abi", t, e] => do pure (.abiVal (← text? t) (← e.hex?))
  | .list [.atom "account", h] => h.hex?.map .account
  | .list [.atom "application", n] => n.nat?.map .application
  | .list [.atom "asset", n] => n.nat?.map .asset
  | .list (.atom "dict" :: es) => (es.mapM entry?).map .dict
  | _ => none

structure Call where
  sig : Sig
  appId : Option Val
  args : List PArg
  extra : Dict

def call? : Sexp → Option Call
  | .list [.atom "call", sel, app, .list (.atom "kinds" :: ks), .list (.atom "args" :: as),
           .list (.atom "extra" :: es)] => do
      let appId ← match app with
        | .atom "none" => some none
        | v => (val? v).map some
      pure { sig := ⟨← sel.hex?, ← ks.mapM kind?⟩, appId := appId, args := ← as.mapM arg?,
             extra := ← es.mapM entry? }
  | _ => none

def parseCall (ws : List String) : Option Call := (Sexp.parse (" ".intercalate ws)).bind call?

def showErr : Err → String
  | .input => "input" | .type => "type" | .encoding => "encoding" | .other => "other"

def model (ws : List String) : String :=
  match parseCall ws with
  | none => "perr bad call"
  | some c =>
    match methodCall (· == ·) c.sig c.appId c.args c.extra with
    | .ok acts => "ok " ++ showGroup (record acts)
    | .error e => "err " ++ showErr e

def submittedCmd (ws : List String) : String :=
  match parseCall ws with
  | none => "perr bad call"
  | some c =>
    match methodCall (· == ·) c.sig c.appId c.args c.extra with
    | .ok acts => "ok " ++ showViews ((record acts).map decodeTxn)
    | .error _ => "none"

def spec (ws : List String) : String :=
  match parseCall ws with
  | none => "perr bad call"
  | some c =>
    match (denote c.sig.args c.args).bind
        (fun vals => arc4Call c.sig vals (appIdNat c.appId) (flattenD c.extra)) with
    | some g => "ok " ++ showViews g
    | none => "none"

def parseVal (s : String) : Option Val :=
  match s.toList with
  | 'u' :: cs => (parseNat (String.ofList cs)).map .u
  | 'b' :: cs => let h := String.ofList cs; if h = "-" then some (.b []) else (unhex h).map .b
  | _ => none

def parseSetting (s : String) : Option Setting :=
  match s.splitOn "=" with
  | [f, v] => (parseVal v).map (fun v => (f, v))
  | _ => none

def parseTxn (s : String) : Option Txn := if s.isEmpty then some [] else (s.splitOn ",").mapM parseSetting

def parseGroup (s : String) : Option Group :=
  let cs := s.toList
  if cs.head? = some '[' ∧ cs.getLast? = some ']' then
    ((String.ofList ((cs.drop 1).dropLast)).splitOn ";").mapM parseTxn
  else none

def view : List String → String
  | [g] => match parseGroup g with
    | some g => showViews (g.map decodeTxn)
    | none => "perr bad group"
  | _ => "perr usage"

def slot? : Sexp → Option Slot
  | .list [e, l] => do pure ⟨← e.hex?, ← layout? l⟩
  | _ => none

def pack (ws : List String) : String :=
  match (Sexp.parse ("(" ++ " ".intercalate ws ++ ")")) with
  | some (.list xs) =>
    match xs.mapM slot? with
    | some slots =>
      match packArgs slots with
      | some bs => "ok " ++ ",".intercalate (bs.map (fun b => if b.isEmpty then "-" else hex b))
      | none => "none"
    | none => "perr bad slots"
  | _ => "perr bad slots"

def fields (_ : List String) : String :=
  ",".intercalate (txnFields.map (fun (n, u, a) => n ++ ":" ++ (if u then "u" else "b") ++ ":" ++ (if a then "1" else "0")))

end PyTealV.Cmd.C14
