/-
  C13 driver commands (all free text hex-encoded UTF-8, empty = "-"):
    c13-escape HEX                 escapeStr of the UTF-8 bytes HEX          → hex of the escaped text
    c13-bytes str HEX              Bytes(s), s.encode() = HEX                → ok LINEHEX | err MSG
    c13-bytes raw HEX              Bytes(b"…")                               → ok LINEHEX
    c13-bytes based BASEHEX TEXTHEX   Bytes(base, text)                      → ok LINEHEX | err MSG
    c13-int N                      Int(N) (N decimal, may be negative)       → ok LINEHEX | err MSG
    c13-addr HEX                   Addr(text)                                → ok LINEHEX | err MSG
    c13-method HEX                 MethodSignature(text)                     → ok LINEHEX | err MSG
    c13-valid 16|32|64|addr HEX    the validators                            → true | false
    c13-pad32 HEX                  correctBase32Padding                      → ok HEX | err MSG
    c13-rfc 16|32|64 HEX           RFC 4648 meaning of a validated text      → bytes HEX | none
    c13-denote str|raw|based …     meaning of the constructor arguments      → bytes HEX | none
    c13-parseline HEX [SIGHEX SELHEX]*   the TEAL text HEX through the independent grammar
                                   (Avm.parse); exactly one instruction      → bytes HEX | int N | error WHY
-/
import PyTealV.Util
import PyTealV.Avm.Syntax
import PyTealV.Models.Literals
namespace PyTealV.Cmd.C13
open PyTealV PyTealV.Util PyTealV.Models.Literals

def unhexArg (s : String) : Option Bytes := if s = "-" then some [] else unhex s
def hexOut (bs : Bytes) : String := if bs.isEmpty then "-" else hex bs
def textArg (s : String) : Option String :=
  (unhexArg s).bind (fun bs => String.fromUTF8? (ByteArray.mk bs.toArray))
def textOut (s : String) : String := hexOut (strBytes s)

def showLine (r : Except String String) : String :=
  match r with
  | .ok l => "ok " ++ textOut l
  | .error e => "err " ++ e

def showBytes : Option Bytes → String
  | some b => "bytes " ++ hexOut b
  | none => "none"

def escape : List String → String
  | [h] => match unhexArg h with
    | some bs => textOut (escapeStr bs)
    | none => "perr bad hex"
  | _ => "perr usage"

def bytesArg : List String → Option BytesArg
  | ["str", h] => (unhexArg h).map .str
  | ["raw", h] => (unhexArg h).map .raw
  | ["based", b, t] => match textArg b, textArg t with
    | some b, some t => some (.based b t)
    | _, _ => none
  | _ => none

def bytes (args : List String) : String :=
  match bytesArg args with
  | some a => showLine ((mkBytes a).map bytesLine)
  | none => "perr usage"

def denote (args : List String) : String :=
  match bytesArg args with
  | some a => showBytes a.denote
  | none => "perr usage"

def int : List String → String
  | [n] => match parseInt n with
    | some v => showLine ((mkInt v).map intLine)
    | none => "perr bad integer"
  | _ => "perr usage"

def addr : List String → String
  | [h] => match textArg h with
    | some s => showLine ((mkAddr s).map addrLine)
    | none => "perr bad text"
  | _ => "perr usage"

def method : List String → String
  | [h] => match textArg h with
    | some s => showLine ((mkMethod s).map methodLine)
    | none => "perr bad text"
  | _ => "perr usage"

def valid : List String → String
  | [k, h] => match textArg h with
    | some s =>
      let cs := s.toList
      if k = "16" then toString (validBase16 cs)
      else if k = "32" then toString (validBase32 cs)
      else if k = "64" then toString (validBase64 cs)
      else if k = "addr" then toString (validAddress cs)
      else "perr bad kind"
    | none => "perr bad text"
  | _ => "perr usage"

def pad32 : List String → String
  | [h] => match textArg h with
    | some s => showLine ((correctBase32Padding s.toList).map String.ofList)
    | none => "perr bad text"
  | _ => "perr usage"

def rfc : List String → String
  | [k, h] => match textArg h with
    | some s =>
      let cs := s.toList
      if k = "16" then showBytes (rfcBase16 cs)
      else if k = "32" then showBytes (rfcBase32 cs)
      else if k = "64" then showBytes (rfcBase64 cs)
      else "perr bad kind"
    | none => "perr bad text"
  | _ => "perr usage"

def selPairs : List String → Option (List (Bytes × Bytes))
  | [] => some []
  | a :: b :: rest => match unhexArg a, unhexArg b, selPairs rest with
    | some x, some y, some r => some ((x, y) :: r)
    | _, _, _ => none
  | _ => none

/-- answers are single lines of printable ASCII (a raw CR/LF in an echoed error would break the
    line protocol) -/
def printable (s : String) : String :=
  String.ofList (s.toList.map (fun c => if c.toNat < 0x20 ∨ c.toNat ≥ 0x7f then '?' else c))

def parseline : List String → String
  | h :: sels => match textArg h, selPairs sels with
    | some text, some sp =>
      let r := Avm.parse sp text
      if !r.errors.isEmpty then "error " ++ printable (" | ".intercalate r.errors)
      else match r.prog.toList with
        | [ln] => match ln.instr with
          | .pushBytes b => "bytes " ++ hexOut b
          | .pushInt n => "int " ++ toString n
          | _ => "error not a push: " ++ printable ln.raw.op
        | l => "error " ++ toString l.length ++ " instructions"
    | _, _ => "perr bad text"
  | _ => "perr usage"

end PyTealV.Cmd.C13
