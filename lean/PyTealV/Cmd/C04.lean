/-
  C04 driver commands (stateless).
    c04-wf HEX VERSION MODE [SIGHEX=SELHEX …]
        HEX      hex of the utf-8 TEAL text
        VERSION  target program version (decimal)
        MODE     sig | app
        pairs    method signature (hex of utf-8) = selector (hex), for `method "sig"` lines
      → ok templates=0|1 constloads=0|1 routines=N reachable=K
      | bad RULE PC DETAILHEX          RULE ∈ parse pragma illegal duplicate-label undefined-label labels flow
      | perr …                          malformed request
    c04-label COMMENTHEX|none LABELHEX   → hex of the label line text (model of TealLabel.assemble)
-/
import PyTealV.Check.Flow
import PyTealV.Models.LabelText
namespace PyTealV.Cmd.C04
open PyTealV PyTealV.Avm PyTealV.Check

def hexText (s : String) : String :=
  let bs := Util.strBytes s
  if bs.isEmpty then "-" else Util.hex bs

def parseSel (w : String) : Option (Bytes × Bytes) :=
  match w.splitOn "=" with
  | [a, b] => match Util.unhex (if a = "-" then "" else a), Util.unhex b with
    | some x, some y => some (x, y)
    | _, _ => none
  | _ => none

def wfCmd : List String → String
  | h :: ver :: mode :: sels =>
    match Util.unhex (if h = "-" then "" else h), Util.parseNat ver, sels.mapM parseSel with
    | some bs, some v, some ss =>
      let m? : Option Mode := if mode = "sig" then some .sig else if mode = "app" then some .app else none
      match m?, String.fromUTF8? (ByteArray.mk bs.toArray) with
      | some m, some text =>
        let r := parse ss text
        match r.errors with
        | e :: _ => s!"bad parse {r.prog.size} {hexText e}"
        | [] =>
          match Flow.wfReport r.prog v m with
          | .ok t c n k => s!"ok templates={if t then 1 else 0} constloads={if c then 1 else 0} routines={n} reachable={k}"
          | .bad rule pc d => s!"bad {rule} {pc} {hexText d}"
      | none, _ => "perr bad mode"
      | _, none => "perr not utf-8"
    | _, _, _ => "perr bad request"
  | _ => "perr usage: c04-wf HEX VERSION MODE [SIGHEX=SELHEX…]"

def unhexText (h : String) : Option String :=
  match Util.unhex (if h = "-" then "" else h) with
  | some bs => String.fromUTF8? (ByteArray.mk bs.toArray)
  | none => none

def labelCmd : List String → String
  | [c, l] =>
    match (if c = "none" then some none else (unhexText c).map some), unhexText l with
    | some c', some l' => hexText (Models.LabelText.assemble c' l')
    | _, _ => "perr bad hex"
  | _ => "perr usage: c04-label COMMENTHEX|none LABELHEX"

end PyTealV.Cmd.C04
