/-
  C18 driver commands (all free text hex-encoded UTF-8, the empty text is `-`):
    c18-strip HEX            statements of a TEAL text as the assembler sees them (comments and blank
                             lines gone; `Models.Annot.stripComments`, i.e. the independent tokeniser)
                             → ok NLINES SAME S1|S2|…   each S = TOK,TOK,… (hex);  `-` if there is none;
                             SAME = 1 iff the model's line split equals `String.splitOn "\n"` (used by `Avm.parse`)
    c18-splitlines HEX       the model of `str.splitlines()`          → ok N P1|P2|…
    c18-commentop HEX        `TealOp(_, Op.comment, text).assemble()` → LINEHEX
    c18-commentexpr HEX      `CommentExpr(text)` + assembly (guard modelled)  → ok LINEHEX | err MSG
    c18-comment HEX          lines contributed by `Comment(text)`     → ok N L1|L2|… | err MSG
    c18-assert VERSION none|HEX   lines after the condition of `Assert(c, comment=…)` (label `L`) → ok N L1|… | err MSG
    c18-header NAMEHEX INDEX `TealLabel.assemble()` of a subroutine   → ok LABELHEX HEADERHEX
    c18-recorded NAME        a recorded compiler output used by a counterexample theorem → TEXTHEX
    c18-instr TOK,TOK,…      one statement through `parseInstr`       → bytes HEX | int N | label HEX | other | error
-/
import PyTealV.Util
import PyTealV.Avm.Syntax
import PyTealV.Models.Annot
namespace PyTealV.Cmd.C18
open PyTealV PyTealV.Util PyTealV.Avm PyTealV.Models.Annot

def unhexArg (s : String) : Option Bytes := if s = "-" then some [] else unhex s
def textArg (s : String) : Option String :=
  (unhexArg s).bind (fun bs => String.fromUTF8? (ByteArray.mk bs.toArray))
def textOut (s : String) : String :=
  let bs := strBytes s
  if bs.isEmpty then "-" else hex bs

def listOut (ls : List String) : String :=
  s!"ok {ls.length} " ++ (if ls.isEmpty then "-" else "|".intercalate (ls.map textOut))

def strip : List String → String
  | [h] => match textArg h with
    | some text =>
      let ss := stripComments text
      let same := if lines text == text.splitOn "\n" then "1" else "0"
      let body := if ss.isEmpty then "-" else "|".intercalate (ss.map (fun toks => ",".intercalate (toks.map textOut)))
      s!"ok {(lines text).length} {same} {body}"
    | none => "perr bad text"
  | _ => "perr usage"

def splitlinesCmd : List String → String
  | [h] => match textArg h with
    | some text => listOut (splitlines text)
    | none => "perr bad text"
  | _ => "perr usage"

def commentop : List String → String
  | [h] => match textArg h with
    | some text => textOut (commentOp text)
    | none => "perr bad text"
  | _ => "perr usage"

def showLines : Except String (List String) → String
  | .ok ls => listOut ls
  | .error e => "err " ++ e

def commentexpr : List String → String
  | [h] => match textArg h with
    | some text => (match mkCommentExpr text with
      | .ok l => "ok " ++ textOut l
      | .error e => "err " ++ e)
    | none => "perr bad text"
  | _ => "perr usage"

def commentCmd : List String → String
  | [h] => match textArg h with
    | some text => showLines (comment text)
    | none => "perr bad text"
  | _ => "perr usage"

def assertCmd : List String → String
  | [v, c] => match parseNat v with
    | some ver =>
      if c = "none" then showLines (assertLines ver none "L") else
      (match textArg c with
       | some t => showLines (assertLines ver (some t) "L")
       | none => "perr bad text")
    | none => "perr bad version"
  | _ => "perr usage"

def headerCmd : List String → String
  | [n, i] => match textArg n, parseNat i with
    | some name, some idx => s!"ok {textOut (subLabel name idx)} {textOut (header name idx)}"
    | _, _ => "perr bad argument"
  | _ => "perr usage"

def recorded : List String → String
  | ["layout-base"] => textOut layoutBase
  | ["layout-variant"] => textOut layoutVariant
  | ["optimiser-base"] => textOut optimiserBase
  | ["optimiser-variant"] => textOut optimiserVariant
  | _ => "perr unknown name"

def instr : List String → String
  | [ts] => match (ts.splitOn ",").mapM textArg with
    | some toks => match parseInstr [] toks with
      | .ok (.pushBytes b) => "bytes " ++ (if b.isEmpty then "-" else hex b)
      | .ok (.pushInt n) => s!"int {n}"
      | .ok (.label l) => "label " ++ textOut l
      | .ok _ => "other"
      | .error _ => "error"
    | none => "perr bad text"
  | _ => "perr usage"

end PyTealV.Cmd.C18
