/-
  C09 driver commands (model `Models/RouterArgs.lean`).

    SIG   := - | K;K;…       K := p:TYPE | account | application | asset | t:txn|pay|keyreg|acfg|axfer|afrz|appl
             (TYPE = ARC-4 type string)
    LIST  := - | x,x,…       (a byte string element is hex, the empty byte string `_`)

    c09-const                               → cutoff=15 prefix=151f7c75
    c09-glue SIG OUT(0|1)                   → ok instrs=I,I,… frame=N|c0.c1.…|TUPLECELL|OUTCELL
         I := A<i>>p<j> | A<i>>T | G<back>>p<j> | T<type>>p<j> | E<idx>>p<j>      (`-` = none)
    c09-binding SIG                         → ok model=B,B,… spec=B,B,… mtuple=TYPES stuple=TYPES
         B := a<i> | t<i>.<k> | g<back>:<type|-> | none
    c09-run SIG TYPES GI ARGS SENDER ACCTS APPID APPS ASSETS
                                            → model=VALS|fail spec=VALS|fail
         VALS := V,V,…   V := v<hex> | acct<hex> | app<n> | asset<n> | txn<n>
    c09-wrap FP(0|1) ARGSOK(0|1) RESULT(hex|_|void) LOGS
                                            → model=approved:LOGS|failed spec=…
    c09-contract R;R;…   R := FNHEX:OVHEX|-:ARGHEX.ARGHEX…|-:RETHEX
                                            → ok contract=SIGHEX,… dispatch=SIGHEX,… | err duplicate|collision
-/
import PyTealV.Util
import PyTealV.Arc4
import PyTealV.Models.RouterArgs
namespace PyTealV.Cmd.C09
open PyTealV PyTealV.Util PyTealV.Arc4 PyTealV.Models.RouterArgs

def txnTy? : String → Option TxnTy
  | "txn" => some .any | "pay" => some .pay | "keyreg" => some .keyreg | "acfg" => some .acfg
  | "axfer" => some .axfer | "afrz" => some .afrz | "appl" => some .appl
  | _ => none

def showTxnTy : TxnTy → String
  | .any => "txn" | .pay => "pay" | .keyreg => "keyreg" | .acfg => "acfg"
  | .axfer => "axfer" | .afrz => "afrz" | .appl => "appl"

def kind? (s : String) : Option PKind :=
  if s = "account" then some (.ref .account)
  else if s = "application" then some (.ref .application)
  else if s = "asset" then some (.ref .asset)
  else match s.toList with
    | 'p' :: ':' :: rest => (Ty.parse (String.ofList rest)).map .plain
    | 't' :: ':' :: rest => (txnTy? (String.ofList rest)).map .txn
    | _ => none

def sig? (s : String) : Option Sig :=
  if s = "-" then some [] else (s.splitOn ";").mapM kind?

def list? {α} (f : String → Option α) (s : String) : Option (List α) :=
  if s = "-" then some [] else (s.splitOn ",").mapM f

def bytes? (s : String) : Option Bytes := if s = "_" then some [] else unhex s
def showBytes (b : Bytes) : String := if b.isEmpty then "_" else hex b
def showList {α} (f : α → String) (l : List α) : String := if l.isEmpty then "-" else ",".intercalate (l.map f)

def const (_ : List String) : String :=
  s!"cutoff={METHOD_ARG_NUM_CUTOFF} prefix={hex RETURN_HASH_PREFIX}"

def showTarget : Target → String
  | .param j => s!"p{j}"
  | .tupled _ => "T"

def showInstr : Instr → String
  | .decodeArg t i => s!"A{i}>" ++ showTarget t
  | .setTxnIndex j back => s!"G{back}>p{j}"
  | .assertType j t => "T" ++ showTxnTy t ++ s!">p{j}"
  | .detuple idx j => s!"E{idx}>p{j}"

def showOptNat : Option Nat → String
  | some n => toString n
  | none => "-"

def glueCmd : List String → String
  | [s, out] =>
    match sig? s with
    | none => "perr bad signature"
    | some sig =>
      let L := frameLayout sig (out == "1")
      let cells := (List.range sig.length).map L.paramCell
      "ok instrs=" ++ showList showInstr (glue sig) ++
        s!" frame={L.numLocals}|" ++ (if cells.isEmpty then "-" else ".".intercalate (cells.map toString)) ++
        "|" ++ showOptNat L.tupleCell ++ "|" ++ showOptNat L.outputCell
  | _ => "perr usage"

def showBinding : Option Binding → String
  | none => "none"
  | some (.appArg i) => s!"a{i}"
  | some (.tupleElem i k) => s!"t{i}.{k}"
  | some (.groupTxn back e) => s!"g{back}:" ++ (match e with | some t => showTxnTy t | none => "-")

def showTypes (ts : List Ty) : String := signature (.tuple ts)

def bindingCmd : List String → String
  | [s] =>
    match sig? s with
    | none => "perr bad signature"
    | some sig =>
      let js := List.range sig.length
      "ok model=" ++ showList (fun j => showBinding (modelBinding sig j)) js ++
        " spec=" ++ showList (fun j => showBinding (specBinding sig j)) js ++
        " mtuple=" ++ showTypes (modelTupleTypes sig) ++ " stuple=" ++ showTypes (specTupleTypes sig) ++
        " beyond=" ++ showBinding (modelBinding sig sig.length) ++ "/" ++ showBinding (specBinding sig sig.length)
  | _ => "perr usage"

def showBound : Bound → String
  | .value b => "v" ++ showBytes b
  | .account a => "acct" ++ showBytes a
  | .application n => s!"app{n}"
  | .asset n => s!"asset{n}"
  | .txn n => s!"txn{n}"

def showRun : Option (List Bound) → String
  | none => "fail"
  | some l => showList showBound l

def runCmd : List String → String
  | [s, types, gi, args, sender, accts, appId, apps, assets] =>
    match sig? s, list? parseNat types, parseNat gi, list? bytes? args, bytes? sender, list? bytes? accts,
          parseNat appId, list? parseNat apps, list? parseNat assets with
    | some sig, some types, some gi, some args, some sender, some accts, some appId, some apps, some assets =>
      let c : Call := { groupTypes := types, gi := gi, appArgs := args, sender := sender, accounts := accts,
                        appId := appId, apps := apps, assets := assets }
      "model=" ++ showRun (modelRun sig c) ++ " spec=" ++ showRun (specRun sig c)
    | _, _, _, _, _, _, _, _, _ => "perr bad call"
  | _ => "perr usage"

def showOutcome : Outcome → String
  | .approved logs => "approved:" ++ showList showBytes logs
  | .failed => "failed"

def wrapCmd : List String → String
  | [fp, ok, result, logs] =>
    match (if result = "void" then some none else (bytes? result).map some), list? bytes? logs with
    | some r, some ls =>
      let b : Body := ⟨ok == "1", ls, r⟩
      "model=" ++ showOutcome (wrapOutcome (fp == "1") b) ++ " spec=" ++ showOutcome (specEffects b.argsOk b.logs b.result)
    | _, _ => "perr bad body"
  | _ => "perr usage"

def text? (s : String) : Option String :=
  (if s = "-" then some [] else unhex s).bind (fun bs => String.fromUTF8? (ByteArray.mk bs.toArray))

def reg? (s : String) : Option Reg :=
  match s.splitOn ":" with
  | [fn, ov, args, ret] => do
    let fn ← text? fn
    let ov ← if ov = "-" then some none else (text? ov).map some
    let args ← if args = "-" then some [] else (args.splitOn ".").mapM text?
    let ret ← text? ret
    pure ⟨fn, ov, args, ret⟩
  | _ => none

def hexText (s : String) : String := let b := strBytes s; if b.isEmpty then "-" else hex b

def contractCmd : List String → String
  | [s] =>
    match (if s = "-" then some [] else (s.splitOn ";").mapM reg?) with
    | none => "perr bad registrations"
    | some regs =>
      match registerAll (fun t => t) ({} : RouterSt String) regs with
      | .ok st =>
        "ok contract=" ++ showList (fun (m : MethodSpec) => hexText m.signature) (contractOf st) ++
          " dispatch=" ++ showList hexText (dispatchedOf (fun t => t) st)
      | .error .duplicate => "err duplicate"
      | .error .collision => "err collision"
  | _ => "perr usage"

end PyTealV.Cmd.C09
