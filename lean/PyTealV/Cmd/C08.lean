/-
  Driver commands of property C08 (router dispatch).

    c08-dispatch METHODS BARE CLEAR ARGS OC APPID
        → ok approval=<outcome> decision=<decision> spec=<decision> clear=<outcome> clearspec=<decision>
        | err <message>            (the model of the Python constructors / add_method_handler /
                                    _build_program raised)

    METHODS = `-` | comma-separated `SIGHEX:SELHEX:cccccc`   (registration order; the six digits
              are the CallConfig values 0..3 of no_op, opt_in, close_out, clear_state,
              update_application, delete_application)
    BARE    = `-` | six comma-separated `c.ID` / `c.-` (same field order: CallConfig digit, action id)
    CLEAR   = `-` | action id
    ARGS    = `n` (no application arguments) | comma-separated hex (`-` = empty byte string)
    OC      = 0..5      APPID = decimal
    outcome  = run:m<k> | run:b<k> | run:c<k> | ret0 | fail:err | fail:assert | fail:argidx
    decision = m<k> | b<k> | c<k> | reject
-/
import PyTealV.Util
import PyTealV.Models.Router
namespace PyTealV.Cmd.C08
open PyTealV PyTealV.Models.Router

def cc? : Char → Option CallConfig
  | '0' => some .never | '1' => some .call | '2' => some .create | '3' => some .all | _ => none

def hexOrEmpty (w : String) : Option Bytes := if w == "-" then some [] else Util.unhex w

/-- `none`: malformed word; `some (.error _)`: the Python constructor raises -/
def method? (w : String) : Option (Except String Method) :=
  match w.splitOn ":" with
  | [sg, sl, cs] =>
    match hexOrEmpty sg, hexOrEmpty sl, cs.toList.mapM cc? with
    | some sg, some sl, some [a, b, c, d, e, f] =>
      some (match MethodConfig.make a b c d e f with
            | .ok mc => .ok ⟨sg, sl, mc⟩
            | .error e => .error e)
    | _, _, _ => none
  | _ => none

def oca? (w : String) : Option (Except String OnCompleteAction) :=
  match w.splitOn "." with
  | [c, i] =>
    match c.toList, (if i == "-" then some none else (Util.parseNat i).map some) with
    | [ch], some act => (cc? ch).map (fun cc => OnCompleteAction.make act cc)
    | _, _ => none
  | _ => none

def seqE {α} : List (Except String α) → Except String (List α)
  | [] => .ok []
  | x :: xs => match x, seqE xs with
    | .ok a, .ok as => .ok (a :: as)
    | .error e, _ => .error e
    | _, .error e => .error e

def bare? (w : String) : Option (Except String BareCallActions) :=
  if w == "-" then some (.ok BareCallActions.empty) else
  match (w.splitOn ",").mapM oca? with
  | some l =>
    some (match seqE l with
          | .ok [no_op, opt_in, close_out, clear_state, upd, del] =>
            BareCallActions.make close_out clear_state del no_op opt_in upd
          | .ok _ => .error "perr six bare entries expected"
          | .error e => .error e)
  | none => none

def args? (w : String) : Option (List Bytes) :=
  if w == "n" then some [] else (w.splitOn ",").mapM hexOrEmpty

def showAction : Action → String
  | .method k => s!"m{k}" | .bare k => s!"b{k}" | .clear k => s!"c{k}"

def showOutcome : Outcome → String
  | .ran a => "run:" ++ showAction a
  | .returned0 => "ret0"
  | .failErr => "fail:err"
  | .failAssert => "fail:assert"
  | .failArgIndex => "fail:argidx"

def showDecision : Decision → String
  | .run a => showAction a
  | .reject => "reject"

def dispatchCmd (args : List String) : String :=
  match args with
  | [ms, b, cl, as, oc, appId] =>
    let methods? : Option (Except String (List Method)) :=
      if ms == "-" then some (.ok []) else ((ms.splitOn ",").mapM method?).map seqE
    let clear? : Option (Option Nat) := if cl == "-" then some none else (Util.parseNat cl).map some
    match methods?, bare? b, clear?, args? as, (Util.parseNat oc).bind OC.ofNat?, Util.parseNat appId with
    | some mE, some bE, some clear, some appArgs, some oc, some appId =>
      -- Python evaluation order in the harness: bare actions, Router(...), then the methods
      match bE, mE with
      | .error e, _ => "err " ++ e
      | _, .error e => "err " ++ e
      | .ok bare, .ok methods =>
        let cfg : RouterCfg := ⟨methods, bare, clear⟩
        let c : Call := ⟨appArgs, oc, appId⟩
        match modelEval cfg c, modelClear cfg c with
        | .ok o, .ok oc' =>
          s!"ok approval={showOutcome o} decision={showDecision o.toDecision} spec={showDecision (dispatch cfg c)}" ++
          s!" clear={showOutcome oc'} clearspec={showDecision (clearDispatch cfg)}"
        | .error e, _ => "err " ++ e
        | _, .error e => "err " ++ e
    | _, _, _, _, _, _ => "perr bad arguments"
  | _ => "perr six arguments expected"

end PyTealV.Cmd.C08
