/-
  Driver commands of property C17.

    c17-validate  START INIT GRAPH   → ok | err B.I.E B.I.E …   (errors of the `validateSlots` model, in order)
    c17-initcheck START INIT GRAPH   → ok | bad B.I B.I …       (dataflow oracle, sorted by block then op index)

  INIT  = `-` or comma-separated slot ids (the pre-initialised `slotsInUse`)
  GRAPH = blocks separated by `;`, block = OPS `:` SUCC
          OPS  = `-` or comma-separated `s<slot>` | `l<slot>.<expr>` | `r` | `o`
          SUCC = `n` | `j<i>` | `c<t>.<f>`
-/
import PyTealV.Util
import PyTealV.Models.ValidateSlots
namespace PyTealV.Cmd.C17
open PyTealV.Models.ValidateSlots

def parseOp (w : String) : Option SOp :=
  match w.toList with
  | ['r'] => some .ret
  | ['o'] => some .other
  | 's' :: cs => (Util.parseNat (String.ofList cs)).map .store
  | 'l' :: cs =>
    match (String.ofList cs).splitOn "." with
    | [a, b] => do some (.load (← Util.parseNat a) (← Util.parseNat b))
    | _ => none
  | _ => none

def parseSucc (w : String) : Option Succ :=
  match w.toList with
  | ['n'] => some .none
  | 'j' :: cs => (Util.parseNat (String.ofList cs)).map .next
  | 'c' :: cs =>
    match (String.ofList cs).splitOn "." with
    | [a, b] => do some (.cond (← Util.parseNat a) (← Util.parseNat b))
    | _ => none
  | _ => none

def parseBlock (w : String) : Option Block :=
  match w.splitOn ":" with
  | [ops, succ] => do
    let os ← if ops == "-" then some [] else (ops.splitOn ",").mapM parseOp
    some ⟨os, ← parseSucc succ⟩
  | _ => none

def parseGraph (w : String) : Option Graph := do
  let bs ← (w.splitOn ";").mapM parseBlock
  some bs.toArray

def parseInit (w : String) : Option (List Nat) :=
  if w == "-" then some [] else (w.splitOn ",").mapM Util.parseNat

def parseArgs : List String → Option (Nat × List Nat × Graph)
  | [s, i, g] => do some (← Util.parseNat s, ← parseInit i, ← parseGraph g)
  | _ => none

def validate (args : List String) : String :=
  match parseArgs args with
  | none => "perr bad arguments"
  | some (start, init, G) =>
    match validateSlots? G init start with
    | none => "fuel"
    | some [] => "ok"
    | some errs => "err " ++ " ".intercalate (errs.map fun e => s!"{e.blk}.{e.idx}.{e.expr}")

def initcheck (args : List String) : String :=
  match parseArgs args with
  | none => "perr bad arguments"
  | some (start, init, G) =>
    match initCheck G init start with
    | none => "fuel"
    | some [] => "ok"
    | some bad => "bad " ++ " ".intercalate (bad.map fun p => s!"{p.1}.{p.2}")

end PyTealV.Cmd.C17
