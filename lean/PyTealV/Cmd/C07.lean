/-
  Driver commands of C07 (ABI decoding / element access; model `PyTealV.Models.AbiDecode`).

    c07-descr SIG                → ok DYN(0|1) BYTELEN|err STRIDE|err|-        PyTeal's own descriptors
    c07-plan  SIG I              → ok PLAN | builderr HEXMSG                     `_index_tuple` of tuple type SIG at I
          PLAN = bit:N | dec:START:STOP:LEN  with  - | lit.N | u16.N
    c07-path  SIG HEX STEPS LEAF → ok SIG' u N | ok SIG' b HEX | fail HEXMSG | builderr HEXMSG
          decode HEX as SIG, follow STEPS (`-` or comma separated  tI  cI  eI :
          tuple index / array index given as Python int / array index given as run-time value),
          then LEAF = stored | encode | get | length
  SIG is an ARC-4 type string, HEX the encoded input (`-` = empty).
-/
import PyTealV.Util
import PyTealV.Arc4
import PyTealV.Models.AbiDecode
namespace PyTealV.Cmd.C07
open PyTealV PyTealV.Arc4 PyTealV.Avm PyTealV.Models.AbiDecode

def hexMsg (s : String) : String :=
  let bs := s.toUTF8.toList
  if bs.isEmpty then "-" else Util.hex bs

def showFailMsg : Fail → String
  | .underflow => "underflow"
  | .typeErr m => "type:" ++ m
  | .badPc => "badPc"
  | .badLabel l => "badLabel:" ++ l
  | .illegal m => "illegal:" ++ m
  | .frame m => "frame:" ++ m
  | .logic m => "logic:" ++ m
  | .unmodelled m => "unmodelled:" ++ m

def showExc {α} (f : α → String) : Except String α → String
  | .ok a => f a
  | .error e => "err." ++ hexMsg e

def descr (args : List String) : String :=
  match args with
  | [sig] =>
    match Ty.parse sig with
    | some t =>
      let sd := match arrayOf t with
        | some (e, _) => showExc toString (stride e)
        | none => "-"
      s!"ok {if isDyn t then 1 else 0} {showExc toString (byteLen t)} {sd}"
    | none => "perr bad type"
  | _ => "perr usage"

def showIdx : Option Idx → String
  | none => "-"
  | some (.lit n) => s!"lit.{n}"
  | some (.u16 p) => s!"u16.{p}"

def showPlan : Plan → String
  | .bit i => s!"bit:{i}"
  | .dec s e l => s!"dec:{showIdx s}:{showIdx e}:{showIdx l}"

def planCmd (args : List String) : String :=
  match args with
  | [sig, i] =>
    match Ty.parse sig, Util.parseNat i with
    | some (.tuple ts), some i =>
      match obsList ts with
      | .ok ks =>
        match indexTuple ks i with
        | .ok p => "ok " ++ showPlan p
        | .error e => "builderr " ++ hexMsg e
      | .error e => "builderr " ++ hexMsg e
    | _, _ => "perr bad arguments"
  | _ => "perr usage"

def parseStep (s : String) : Option Step :=
  match s.toList with
  | 't' :: r => (Util.parseNat (String.ofList r)).map .tup
  | 'c' :: r => (Util.parseNat (String.ofList r)).map .arrC
  | 'e' :: r => (Util.parseNat (String.ofList r)).map .arrE
  | _ => none

def parseSteps (s : String) : Option (List Step) :=
  if s = "-" then some [] else optMap parseStep (s.splitOn ",")

def showVal : Val → String
  | .u n => s!"u {n}"
  | .b bs => "b " ++ (if bs.isEmpty then "-" else Util.hex bs)

/-- the leaf operation applied to the reached value -/
def leafCode (leaf : String) (t : Ty) : Except String (Val → M Val) :=
  match leaf with
  | "stored" => .ok (fun v => .ok v)
  | "encode" => .ok (fun v => match encodeStored t v with
      | some bs => .ok (.b bs)
      | none => .error (.typeErr "encode: stored value of the wrong kind"))
  | "get" =>
    -- build-time availability of get() depends on the type only
    match getCode t (match t with | .bool | .byte | .uint _ => .u 0 | _ => .b []) with
    | .error e => .error e
    | .ok _ => .ok (fun v => match getCode t v with
        | .ok r => r
        | .error _ => .error (.typeErr "get: stored value of the wrong kind"))
  | "length" =>
    match lengthCode t with
    | .error e => .error e
    | .ok f => .ok (fun v => match v with
        | .b bs => (f bs).map .u
        | .u _ => .error (.typeErr "expected bytes"))
  | _ => .error "unknown leaf"

def pathCmd (args : List String) : String :=
  match args with
  | [sig, h, steps, leaf] =>
    match Ty.parse sig, (if h = "-" then some [] else Util.unhex h), parseSteps steps with
    | some t, some bs, some path =>
      match decodePath t path with
      | .error e => "builderr " ++ hexMsg e
      | .ok (tf, code) =>
        match leafCode leaf tf with
        | .error e => "builderr " ++ hexMsg e
        | .ok lf =>
          match code bs with
          | .error f => "fail " ++ hexMsg (showFailMsg f)
          | .ok v =>
            match lf v with
            | .error f => "fail " ++ hexMsg (showFailMsg f)
            | .ok r => s!"ok {signature tf} {showVal r}"
    | none, _, _ => "perr bad type"
    | _, none, _ => "perr bad hex"
    | _, _, none => "perr bad steps"
  | _ => "perr usage"

end PyTealV.Cmd.C07
