/- Instrumented run (not part of any theorem): what a routine leaves on the operand stack whenever
   control leaves it.

   At every `retsub` the recorded list is the part of the stack that belongs to the ACTIVATION that
   returns: the values above the lowest stack height reached since its `callsub` (the callee pops its
   arguments under the scratch-slot convention, so that height is "entry minus arguments").  What lies
   below belongs to the callers - under the scratch-slot convention a recursive caller parks its live
   local slots there (spill code), and how many there are depends on how many slots the caller owns,
   which is not behaviour of the routine that returns. -/
import PyTealV.Avm.Sem
namespace PyTealV.Avm

structure ExitTrace where
  exits : List (List Val) := []     -- own part of the stack at every retsub (newest first), before the frame is popped
  final : List Val := []            -- stack when the program halted
  lows : List Nat := []             -- lowest stack height of every active call (innermost first)

private def bump (h : Nat) : List Nat → List Nat
  | [] => []
  | l :: ls => min l h :: ls

def runTraced (cx : Ctx) (p : Program) : Nat → St → ExitTrace → Outcome × ExitTrace
  | 0, s, t => (.outOfFuel, { t with final := s.ms.stack })
  | fuel+1, s, t =>
    let h := s.ms.stack.length
    let t0 := { t with lows := bump h t.lows }
    let t' := match p[s.pc]? with
      | some ln => (match ln.instr with
        | .retsub =>
          (match t0.lows with
           | l :: rest => { t0 with exits := s.ms.stack.take (h - l) :: t0.exits, lows := bump l rest }
           | [] => { t0 with exits := s.ms.stack :: t0.exits })
        | .callsub _ => { t0 with lows := h :: t0.lows }
        | _ => t0)
      | none => t0
    match step cx p s with
    | .next s' => runTraced cx p fuel s' t'
    | .halt o => (o, { t' with final := s.ms.stack })

end PyTealV.Avm
