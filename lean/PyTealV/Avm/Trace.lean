/- Instrumented run (not part of any theorem): what a routine leaves on the operand stack whenever
   control leaves it.

   At every `retsub` three things are recorded for the ACTIVATION that returns:
     * `delta`  = stack height at the `retsub` minus the height at its `callsub`
                  (results minus arguments popped: the same in two programs that leave the same values);
     * `span`   = how far below the exit height the stack was observed during the activation
                  (exit height minus the lowest height seen between two instructions since the `callsub`);
     * the whole stack.
   Two exits AGREE when the deltas are equal and the top `max span₁ span₂` values are equal.  What lies
   deeper belongs to the callers: under the scratch-slot convention a recursive caller parks its live
   local slots there (spill code), and how many there are depends on how many slots the caller owns
   (the scratch-slot optimiser removes slots), which is not behaviour of the routine that returns.
   A value left behind by the returning routine changes `delta`. -/
import PyTealV.Avm.Sem
namespace PyTealV.Avm

structure ExitRec where
  delta : Int
  span : Nat
  stack : List Val
  deriving BEq

structure ExitTrace where
  exits : List ExitRec := []        -- newest first; taken before the frame is popped
  final : List Val := []            -- stack when the program halted
  lows : List (Nat × Nat) := []     -- (height at callsub, lowest height since) of every active call, innermost first

private def bump (h : Nat) : List (Nat × Nat) → List (Nat × Nat)
  | [] => []
  | (e, l) :: ls => (e, min l h) :: ls

def ExitRec.agrees (a b : ExitRec) : Bool :=
  let k := max a.span b.span
  a.delta == b.delta && a.stack.take k == b.stack.take k

def exitsAgree : List ExitRec → List ExitRec → Bool
  | [], [] => true
  | a :: as, b :: bs => a.agrees b && exitsAgree as bs
  | _, _ => false

def runTraced (cx : Ctx) (p : Program) : Nat → St → ExitTrace → Outcome × ExitTrace
  | 0, s, t => (.outOfFuel, { t with final := s.ms.stack })
  | fuel+1, s, t =>
    let h := s.ms.stack.length
    let t0 := { t with lows := bump h t.lows }
    let t' := match p[s.pc]? with
      | some ln => (match ln.instr with
        | .retsub =>
          (match t0.lows with
           | (e, l) :: rest =>
             { t0 with exits := { delta := (h : Int) - (e : Int), span := h - l, stack := s.ms.stack } :: t0.exits, lows := bump l rest }
           | [] => { t0 with exits := { delta := 0, span := h, stack := s.ms.stack } :: t0.exits })
        | .callsub _ => { t0 with lows := (h, h) :: t0.lows }
        | _ => t0)
      | none => t0
    match step cx p s with
    | .next s' => runTraced cx p fuel s' t'
    | .halt o => (o, { t' with final := s.ms.stack })

end PyTealV.Avm
