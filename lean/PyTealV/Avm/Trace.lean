/- Instrumented run (not part of any theorem): the operand stack whenever control leaves a routine. -/
import PyTealV.Avm.Sem
namespace PyTealV.Avm

structure ExitTrace where
  exits : List (List Val) := []     -- stack at every retsub (newest first), before the frame is popped
  final : List Val := []            -- stack when the program halted

def runTraced (cx : Ctx) (p : Program) : Nat → St → ExitTrace → Outcome × ExitTrace
  | 0, s, t => (.outOfFuel, { t with final := s.ms.stack })
  | fuel+1, s, t =>
    let t' := match p[s.pc]? with
      | some ln => (match ln.instr with
        | .retsub => { t with exits := s.ms.stack :: t.exits }
        | _ => t)
      | none => t
    match step cx p s with
    | .next s' => runTraced cx p fuel s' t'
    | .halt o => (o, { t' with final := s.ms.stack })

end PyTealV.Avm
