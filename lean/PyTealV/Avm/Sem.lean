/-
  AVM operational semantics (trusted spec) for the TEAL subset PyTeal emits.
  `execPrim` is the one shared opcode-semantics function: the source semantics (`Src`) and the
  machine (`Avm.step`) both call it, so compiler-correctness statements are parametric in it.
-/
import PyTealV.Avm.Syntax
namespace PyTealV.Avm
open PyTealV PyTealV.Util

inductive Val
  | u (n : Nat)
  | b (bs : Bytes)
  deriving Repr, BEq, DecidableEq, Inhabited

inductive Fail
  | underflow                 -- pops below the stack
  | typeErr (msg : String)    -- opcode applied to a value of the wrong type
  | badPc                     -- ran off the end of the program
  | badLabel (l : String)     -- branch / callsub to an undefined label
  | illegal (msg : String)    -- unknown opcode, malformed immediate, placeholder
  | frame (msg : String)      -- call-stack / frame-pointer misuse
  | logic (msg : String)      -- err, failed assert, arithmetic / range / limit errors
  | unmodelled (msg : String) -- outside the modelled fragment (never compared)
  deriving Repr, BEq, DecidableEq, Inhabited

inductive Effect
  | log (bs : Bytes)
  | gput (k : Bytes) (v : Val)
  | gdel (k : Bytes)
  | lput (a k : Bytes) (v : Val)
  | ldel (a k : Bytes)
  | boxPut (k v : Bytes)
  | boxDel (k : Bytes)
  | itxn (group : List (List (String × Val)))
  deriving Repr, BEq, DecidableEq, Inhabited

structure World where
  scratch : List (Nat × Val) := []
  globals : List (Bytes × Val) := []
  locals : List ((Bytes × Bytes) × Val) := []
  boxes : List (Bytes × Bytes) := []
  effects : List Effect := []                       -- newest first
  itxnB : Option (List (List (String × Val))) := none  -- inner group under construction, newest txn first, fields newest first
  lastItxn : List (List (String × Val)) := []
  deriving Repr, BEq, Inhabited

inductive Mode | sig | app deriving Repr, BEq, DecidableEq, Inhabited

structure Ctx where
  mode : Mode := .app
  version : Nat := 10
  args : List Bytes := []                               -- logic-sig arguments
  group : List (List (String × List Val)) := []        -- per transaction: field ↦ values (arrays: many)
  groupIndex : Nat := 0
  globalF : List (String × Val) := []
  oracleSalt : Nat := 0
  deriving Repr, Inhabited

abbrev M := Except Fail

def getSlot (sc : List (Nat × Val)) (s : Nat) : Val :=
  match sc.find? (·.1 == s) with
  | some (_, v) => v
  | none => .u 0

def setSlot (sc : List (Nat × Val)) (s : Nat) (v : Val) : List (Nat × Val) :=
  (s, v) :: sc.filter (·.1 != s)

def assocGet {α β} [BEq α] (l : List (α × β)) (k : α) : Option β := (l.find? (·.1 == k)).map (·.2)
def assocSet {α β} [BEq α] (l : List (α × β)) (k : α) (v : β) : List (α × β) :=
  (k, v) :: l.filter (fun p => !(p.1 == k))
def assocDel {α β} [BEq α] (l : List (α × β)) (k : α) : List (α × β) := l.filter (fun p => !(p.1 == k))

def two64 : Nat := 2 ^ 64
def maxBytes : Nat := 4096
def maxStack : Nat := 1000

def mkU (n : Nat) : M Val := if n < two64 then .ok (.u n) else .error (.logic "uint64 overflow")
def mkB (bs : Bytes) : M Val := if bs.length ≤ maxBytes then .ok (.b bs) else .error (.logic "byte string too long")
def boolV (c : Bool) : Val := .u (if c then 1 else 0)

def asU : Val → M Nat
  | .u n => .ok n
  | .b _ => .error (.typeErr "expected uint64")
def asB : Val → M Bytes
  | .b bs => .ok bs
  | .u _ => .error (.typeErr "expected bytes")

def immNat (op : String) (imms : List String) (i : Nat) : M Nat :=
  match imms[i]? with
  | some s => match parseNat s with
    | some n => .ok n
    | none => .error (.illegal s!"{op}: bad immediate {s}")
  | none => .error (.illegal s!"{op}: missing immediate {i}")

def immStr (op : String) (imms : List String) (i : Nat) : M String :=
  match imms[i]? with
  | some s => .ok s
  | none => .error (.illegal s!"{op}: missing immediate {i}")

/-- deterministic stand-in for uninterpreted results (hashes, ledger look-ups) -/
def mix (salt : Nat) (name : String) (imms : List String) (args : List Val) : Nat :=
  let feed (h : Nat) (x : Nat) : Nat := ((h * 1099511628211) + x + 1) % two64
  let h := name.toList.foldl (fun h c => feed h c.toNat) (feed 14695981039346656037 salt)
  let h := imms.foldl (fun h s => s.toList.foldl (fun h c => feed h c.toNat) (feed h 255)) h
  args.foldl (fun h v => match v with
    | .u n => feed (feed h 1) n
    | .b bs => bs.foldl (fun h b => feed h b.toNat) (feed h 2)) h

def fakeHash (salt : Nat) (name : String) (args : List Val) (len : Nat) : Bytes :=
  let h := mix salt name [] args
  (List.range len).map (fun i => UInt8.ofNat ((mix i "h" [] [.u h]) % 256))

def sliceB (bs : Bytes) (s e : Nat) : M Bytes :=
  if s ≤ e ∧ e ≤ bs.length then .ok ((bs.drop s).take (e - s)) else .error (.logic "slice out of range")

def bmath (a b : Bytes) (f : Nat → Nat → M Nat) : M Val := do
  if a.length > 64 ∨ b.length > 64 then throw (.logic "bigint operand too long")
  let r ← f (beToNat a) (beToNat b)
  mkB (natToBEMin r)

def bcmp (a b : Bytes) (f : Nat → Nat → Bool) : M Val :=
  if a.length > 64 ∨ b.length > 64 then .error (.logic "bigint operand too long")
  else .ok (boolV (f (beToNat a) (beToNat b)))

def bbit (a b : Bytes) (f : UInt8 → UInt8 → UInt8) : M Val :=
  let n := max a.length b.length
  let pa := List.replicate (n - a.length) (0 : UInt8) ++ a
  let pb := List.replicate (n - b.length) (0 : UInt8) ++ b
  .ok (.b (List.zipWith f pa pb))

def getBitB (bs : Bytes) (i : Nat) : M Nat :=
  match bs[i / 8]? with
  | some byte => .ok ((byte.toNat / 2 ^ (7 - i % 8)) % 2)
  | none => .error (.logic "getbit index out of range")

def setBitB (bs : Bytes) (i v : Nat) : M Bytes :=
  match bs[i / 8]? with
  | some byte =>
    let m := 2 ^ (7 - i % 8)
    let cleared := byte.toNat - ((byte.toNat / m) % 2) * m
    .ok (bs.set (i / 8) (UInt8.ofNat (cleared + v * m)))
  | none => .error (.logic "setbit index out of range")

def acctKey : Val → Bytes
  | .u n => 0x49 :: natToBE 8 n
  | .b bs => bs

def fieldLookup (flds : List (String × List Val)) (f : String) (idx : Option Nat) : M Val :=
  match assocGet flds f with
  | none => .error (.unmodelled s!"field {f} not in context")
  | some vs => match idx with
    | none => match vs with
      | [v] => .ok v
      | _ => .error (.unmodelled s!"field {f}: scalar read of array")
    | some i => match vs[i]? with
      | some v => .ok v
      | none => .error (.logic s!"array field {f} index {i} out of range")

def txnLookup (cx : Ctx) (t : Nat) (f : String) (idx : Option Nat) : M Val :=
  match cx.group[t]? with
  | some flds => fieldLookup flds f idx
  | none => .error (.logic s!"group index {t} out of range")

/-- fields whose `txn F` form reads a whole array are rejected by the assembler; array fields
    are recognised by the context carrying ≠ 1 values or by the op used. -/
def pop1 : List Val → M (Val × List Val)
  | v :: r => .ok (v, r)
  | _ => .error .underflow
def pop2 : List Val → M (Val × Val × List Val)      -- returns (A, B, rest) with B the top
  | b :: a :: r => .ok (a, b, r)
  | _ => .error .underflow
def pop3 : List Val → M (Val × Val × Val × List Val)
  | c :: b :: a :: r => .ok (a, b, c, r)
  | _ => .error .underflow
def pop4 : List Val → M (Val × Val × Val × Val × List Val)
  | d :: c :: b :: a :: r => .ok (a, b, c, d, r)
  | _ => .error .underflow

def expNat (a b : Nat) (limit : Nat) : M Nat :=
  if a = 0 ∧ b = 0 then .error (.logic "0^0") else
  if a = 0 then .ok 0 else
  if a = 1 then .ok 1 else
  if b > 128 then .error (.logic "exp overflow") else
  let r := a ^ b
  if r < limit then .ok r else .error (.logic "exp overflow")

def oracle2 (cx : Ctx) (name : String) (imms : List String) (args : List Val) : List Val :=
  -- (value, didExist) as the AVM pushes them: value below, flag on top
  let h := mix cx.oracleSalt name imms args
  if h % 4 = 0 then [.u 0, .u 0] else [.u 1, .u (h / 4 % 1000)]  -- head = top

/-- Semantics of every non-control opcode, on the whole operand stack (head = top). -/
def execPrim (cx : Ctx) (op : String) (imms : List String) (w : World) (st : List Val) :
    M (List Val × World) := do
  let un (f : Val → M Val) : M (List Val × World) := do
    let (a, r) ← pop1 st; let v ← f a; pure (v :: r, w)
  let bin (f : Val → Val → M Val) : M (List Val × World) := do
    let (a, b, r) ← pop2 st; let v ← f a b; pure (v :: r, w)
  let binU (f : Nat → Nat → M Val) : M (List Val × World) :=
    bin (fun a b => do let x ← asU a; let y ← asU b; f x y)
  let binB (f : Bytes → Bytes → M Val) : M (List Val × World) :=
    bin (fun a b => do let x ← asB a; let y ← asB b; f x y)
  let needApp : M Unit := if cx.mode == .app then pure () else throw (.illegal s!"{op} in signature mode")
  match op with
  -- uint64 arithmetic
  | "+" => binU (fun x y => mkU (x + y))
  | "-" => binU (fun x y => if y ≤ x then mkU (x - y) else throw (.logic "- underflow"))
  | "*" => binU (fun x y => mkU (x * y))
  | "/" => binU (fun x y => if y = 0 then throw (.logic "/ by zero") else mkU (x / y))
  | "%" => binU (fun x y => if y = 0 then throw (.logic "% by zero") else mkU (x % y))
  | "<" => binU (fun x y => pure (boolV (x < y)))
  | ">" => binU (fun x y => pure (boolV (x > y)))
  | "<=" => binU (fun x y => pure (boolV (x ≤ y)))
  | ">=" => binU (fun x y => pure (boolV (x ≥ y)))
  | "&&" => binU (fun x y => pure (boolV (x ≠ 0 ∧ y ≠ 0)))
  | "||" => binU (fun x y => pure (boolV (x ≠ 0 ∨ y ≠ 0)))
  | "==" => bin (fun a b => match a, b with
      | .u x, .u y => pure (boolV (x = y))
      | .b x, .b y => pure (boolV (x = y))
      | _, _ => throw (.typeErr "== on different types"))
  | "!=" => bin (fun a b => match a, b with
      | .u x, .u y => pure (boolV (x ≠ y))
      | .b x, .b y => pure (boolV (x ≠ y))
      | _, _ => throw (.typeErr "!= on different types"))
  | "!" => un (fun a => do let x ← asU a; pure (boolV (x = 0)))
  | "~" => un (fun a => do let x ← asU a; pure (.u (two64 - 1 - x)))
  | "&" => binU (fun x y => pure (.u (x &&& y)))
  | "|" => binU (fun x y => pure (.u (x ||| y)))
  | "^" => binU (fun x y => pure (.u (x ^^^ y)))
  | "shl" => binU (fun x y => if y < 64 then pure (.u ((x * 2 ^ y) % two64)) else throw (.logic "shl arg too big"))
  | "shr" => binU (fun x y => if y < 64 then pure (.u (x / 2 ^ y)) else throw (.logic "shr arg too big"))
  | "sqrt" => un (fun a => do let x ← asU a; pure (.u (isqrt x)))
  | "bitlen" => un (fun a => match a with
      | .u x => pure (.u (bitLen x))
      | .b bs => pure (.u (bitLen (beToNat bs))))
  | "exp" => binU (fun x y => do let r ← expNat x y two64; pure (.u r))
  | "mulw" => do
      let (a, b, r) ← pop2 st; let x ← asU a; let y ← asU b
      pure (.u (x * y % two64) :: .u (x * y / two64) :: r, w)
  | "addw" => do
      let (a, b, r) ← pop2 st; let x ← asU a; let y ← asU b
      pure (.u ((x + y) % two64) :: .u ((x + y) / two64) :: r, w)
  | "expw" => do
      let (a, b, r) ← pop2 st; let x ← asU a; let y ← asU b
      let v ← expNat x y (two64 * two64)
      pure (.u (v % two64) :: .u (v / two64) :: r, w)
  | "divmodw" => do
      let (a, b, c, d, r) ← pop4 st
      let a ← asU a; let b ← asU b; let c ← asU c; let d ← asU d
      let n := a * two64 + b; let m := c * two64 + d
      if m = 0 then throw (.logic "divmodw by zero")
      let q := n / m; let rem := n % m
      pure (.u (rem % two64) :: .u (rem / two64) :: .u (q % two64) :: .u (q / two64) :: r, w)
  | "divw" => do
      let (a, b, c, r) ← pop3 st
      let a ← asU a; let b ← asU b; let c ← asU c
      if c = 0 then throw (.logic "divw by zero")
      let q := (a * two64 + b) / c
      if q < two64 then pure (.u q :: r, w) else throw (.logic "divw overflow")
  -- bytes
  | "len" => un (fun a => do let x ← asB a; pure (.u x.length))
  | "itob" => un (fun a => do let x ← asU a; pure (.b (natToBE 8 x)))
  | "btoi" => un (fun a => do
      let x ← asB a
      if x.length ≤ 8 then pure (.u (beToNat x)) else throw (.logic "btoi arg too long"))
  | "concat" => binB (fun x y => if x.length + y.length ≤ maxBytes then pure (.b (x ++ y)) else throw (.logic "concat too long"))
  | "substring" => do
      let s ← immNat op imms 0; let e ← immNat op imms 1
      un (fun a => do let x ← asB a; let r ← sliceB x s e; pure (.b r))
  | "substring3" => do
      let (a, b, c, r) ← pop3 st
      let x ← asB a; let s ← asU b; let e ← asU c
      let v ← sliceB x s e; pure (.b v :: r, w)
  | "extract" => do
      let s ← immNat op imms 0; let l ← immNat op imms 1
      un (fun a => do
        let x ← asB a
        let e := if l = 0 then x.length else s + l
        let r ← sliceB x s e; pure (.b r))
  | "extract3" => do
      let (a, b, c, r) ← pop3 st
      let x ← asB a; let s ← asU b; let l ← asU c
      let v ← sliceB x s (s + l); pure (.b v :: r, w)
  | "extract_uint16" => bin (fun a b => do let x ← asB a; let s ← asU b; let r ← sliceB x s (s + 2); pure (.u (beToNat r)))
  | "extract_uint32" => bin (fun a b => do let x ← asB a; let s ← asU b; let r ← sliceB x s (s + 4); pure (.u (beToNat r)))
  | "extract_uint64" => bin (fun a b => do let x ← asB a; let s ← asU b; let r ← sliceB x s (s + 8); pure (.u (beToNat r)))
  | "getbit" => bin (fun a b => do
      let i ← asU b
      match a with
      | .u x => if i < 64 then pure (.u ((x / 2 ^ i) % 2)) else throw (.logic "getbit index > 63")
      | .b bs => do let r ← getBitB bs i; pure (.u r))
  | "setbit" => do
      let (a, b, c, r) ← pop3 st
      let i ← asU b; let v ← asU c
      if v > 1 then throw (.logic "setbit value > 1")
      match a with
      | .u x =>
        if i < 64 then
          let cleared := x - ((x / 2 ^ i) % 2) * 2 ^ i
          pure (.u (cleared + v * 2 ^ i) :: r, w)
        else throw (.logic "setbit index > 63")
      | .b bs => do let nb ← setBitB bs i v; pure (.b nb :: r, w)
  | "getbyte" => bin (fun a b => do
      let x ← asB a; let i ← asU b
      match x[i]? with
      | some v => pure (.u v.toNat)
      | none => throw (.logic "getbyte index out of range"))
  | "setbyte" => do
      let (a, b, c, r) ← pop3 st
      let x ← asB a; let i ← asU b; let v ← asU c
      if v > 255 then throw (.logic "setbyte value > 255")
      if i < x.length then pure (.b (x.set i (UInt8.ofNat v)) :: r, w) else throw (.logic "setbyte index out of range")
  | "bzero" => un (fun a => do let n ← asU a; if n ≤ maxBytes then pure (.b (List.replicate n 0)) else throw (.logic "bzero too long"))
  | "replace2" => do
      let s ← immNat op imms 0
      bin (fun a b => do
        let x ← asB a; let y ← asB b
        if s + y.length ≤ x.length then pure (.b (x.take s ++ y ++ x.drop (s + y.length))) else throw (.logic "replace out of range"))
  | "replace3" => do
      let (a, b, c, r) ← pop3 st
      let x ← asB a; let s ← asU b; let y ← asB c
      if s + y.length ≤ x.length then pure (.b (x.take s ++ y ++ x.drop (s + y.length)) :: r, w) else throw (.logic "replace out of range")
  | "base64_decode" => do
      let e ← immStr op imms 0
      un (fun a => do
        let x ← asB a
        match base64Decode (e == "URLEncoding") (bytesToAscii x) with
        | some r => pure (.b r)
        | none => throw (.logic "bad base64"))
  | "b+" => binB (fun x y => bmath x y (fun m n => pure (m + n)))
  | "b-" => binB (fun x y => bmath x y (fun m n => if n ≤ m then pure (m - n) else throw (.logic "b- underflow")))
  | "b*" => binB (fun x y => bmath x y (fun m n => pure (m * n)))
  | "b/" => binB (fun x y => bmath x y (fun m n => if n = 0 then throw (.logic "b/ by zero") else pure (m / n)))
  | "b%" => binB (fun x y => bmath x y (fun m n => if n = 0 then throw (.logic "b% by zero") else pure (m % n)))
  | "b<" => binB (fun x y => bcmp x y (· < ·))
  | "b>" => binB (fun x y => bcmp x y (· > ·))
  | "b<=" => binB (fun x y => bcmp x y (· ≤ ·))
  | "b>=" => binB (fun x y => bcmp x y (· ≥ ·))
  | "b==" => binB (fun x y => bcmp x y (· == ·))
  | "b!=" => binB (fun x y => bcmp x y (· != ·))
  | "b|" => binB (fun x y => bbit x y (· ||| ·))
  | "b&" => binB (fun x y => bbit x y (· &&& ·))
  | "b^" => binB (fun x y => bbit x y (· ^^^ ·))
  | "b~" => un (fun a => do let x ← asB a; pure (.b (x.map (fun v => 255 - v))))
  | "bsqrt" => un (fun a => do
      let x ← asB a
      if x.length > 64 then throw (.logic "bsqrt arg too long")
      pure (.b (natToBEMin (isqrt (beToNat x)))))
  -- uninterpreted hashes / crypto
  | "sha256" | "keccak256" | "sha512_256" | "sha3_256" =>
      un (fun a => do let _ ← asB a; pure (.b (fakeHash cx.oracleSalt op [a] 32)))
  | "ed25519verify" | "ed25519verify_bare" => do
      let (a, b, c, r) ← pop3 st
      let _ ← asB a; let _ ← asB b; let _ ← asB c
      pure (.u (mix cx.oracleSalt op [] [a, b, c] % 2) :: r, w)
  -- stack manipulation
  | "pop" => do let (_, r) ← pop1 st; pure (r, w)
  | "dup" => do let (a, r) ← pop1 st; pure (a :: a :: r, w)
  | "dup2" => do let (a, b, r) ← pop2 st; pure (b :: a :: b :: a :: r, w)
  | "swap" => do let (a, b, r) ← pop2 st; pure (a :: b :: r, w)
  | "select" => do
      let (a, b, c, r) ← pop3 st
      let x ← asU c
      pure ((if x ≠ 0 then b else a) :: r, w)
  | "dig" => do
      let n ← immNat op imms 0
      match st[n]? with
      | some v => pure (v :: st, w)
      | none => throw .underflow
  | "bury" => do
      let n ← immNat op imms 0
      if n = 0 then throw (.logic "bury 0")
      let (a, r) ← pop1 st
      if n - 1 < r.length then pure (r.set (n - 1) a, w) else throw .underflow
  | "cover" => do
      let n ← immNat op imms 0
      let (a, r) ← pop1 st
      if n ≤ r.length then pure (r.take n ++ a :: r.drop n, w) else throw .underflow
  | "uncover" => do
      let n ← immNat op imms 0
      match st[n]? with
      | some v => pure (v :: (st.take n ++ st.drop (n + 1)), w)
      | none => throw .underflow
  | "popn" => do
      let n ← immNat op imms 0
      if n ≤ st.length then pure (st.drop n, w) else throw .underflow
  | "dupn" => do
      let n ← immNat op imms 0
      let (a, r) ← pop1 st
      pure (List.replicate (n + 1) a ++ r, w)
  | "assert" => do
      let (a, r) ← pop1 st
      let x ← asU a
      if x ≠ 0 then pure (r, w) else throw (.logic "assert failed")
  -- scratch
  | "loads" => un (fun a => do
      let s ← asU a
      if s < 256 then pure (getSlot w.scratch s) else throw (.logic "loads slot out of range"))
  | "stores" => do
      let (a, b, r) ← pop2 st
      let s ← asU a
      if s < 256 then pure (r, { w with scratch := setSlot w.scratch s b }) else throw (.logic "stores slot out of range")
  -- context reads
  | "txn" => do let f ← immStr op imms 0; let v ← txnLookup cx cx.groupIndex f none; pure (v :: st, w)
  | "txna" => do
      let f ← immStr op imms 0; let i ← immNat op imms 1
      let v ← txnLookup cx cx.groupIndex f (some i); pure (v :: st, w)
  | "txnas" => do
      let f ← immStr op imms 0
      let (a, r) ← pop1 st; let i ← asU a
      let v ← txnLookup cx cx.groupIndex f (some i); pure (v :: r, w)
  | "gtxn" => do
      let t ← immNat op imms 0; let f ← immStr op imms 1
      let v ← txnLookup cx t f none; pure (v :: st, w)
  | "gtxna" => do
      let t ← immNat op imms 0; let f ← immStr op imms 1; let i ← immNat op imms 2
      let v ← txnLookup cx t f (some i); pure (v :: st, w)
  | "gtxnas" => do
      let t ← immNat op imms 0; let f ← immStr op imms 1
      let (a, r) ← pop1 st; let i ← asU a
      let v ← txnLookup cx t f (some i); pure (v :: r, w)
  | "gtxns" => do
      let f ← immStr op imms 0
      let (a, r) ← pop1 st; let t ← asU a
      let v ← txnLookup cx t f none; pure (v :: r, w)
  | "gtxnsa" => do
      let f ← immStr op imms 0; let i ← immNat op imms 1
      let (a, r) ← pop1 st; let t ← asU a
      let v ← txnLookup cx t f (some i); pure (v :: r, w)
  | "gtxnsas" => do
      let f ← immStr op imms 0
      let (a, b, r) ← pop2 st; let t ← asU a; let i ← asU b
      let v ← txnLookup cx t f (some i); pure (v :: r, w)
  | "global" => do
      let f ← immStr op imms 0
      match assocGet cx.globalF f with
      | some v => pure (v :: st, w)
      | none => throw (.unmodelled s!"global {f} not in context")
  | "arg" => do
      if cx.mode != .sig then throw (.illegal "arg in application mode")
      let i ← immNat op imms 0
      match cx.args[i]? with
      | some v => pure (.b v :: st, w)
      | none => throw (.logic "arg index out of range")
  | "arg_0" | "arg_1" | "arg_2" | "arg_3" => do
      if cx.mode != .sig then throw (.illegal "arg in application mode")
      let i := (op.toList.getLast?.map (fun c => c.toNat - '0'.toNat)).getD 0
      match cx.args[i]? with
      | some v => pure (.b v :: st, w)
      | none => throw (.logic "arg index out of range")
  | "args" => do
      if cx.mode != .sig then throw (.illegal "args in application mode")
      let (a, r) ← pop1 st; let i ← asU a
      match cx.args[i]? with
      | some v => pure (.b v :: r, w)
      | none => throw (.logic "arg index out of range")
  -- application state
  | "app_global_get" => do
      needApp
      let (a, r) ← pop1 st; let k ← asB a
      pure ((assocGet w.globals k).getD (.u 0) :: r, w)
  | "app_global_get_ex" => do
      needApp
      let (a, b, r) ← pop2 st; let app ← asU a; let k ← asB b
      if app = 0 then
        match assocGet w.globals k with
        | some v => pure (.u 1 :: v :: r, w)
        | none => pure (.u 0 :: .u 0 :: r, w)
      else pure (oracle2 cx op imms [a, b] ++ r, w)
  | "app_global_put" => do
      needApp
      let (a, b, r) ← pop2 st; let k ← asB a
      if k.length > 64 then throw (.logic "key too long")
      pure (r, { w with globals := assocSet w.globals k b, effects := .gput k b :: w.effects })
  | "app_global_del" => do
      needApp
      let (a, r) ← pop1 st; let k ← asB a
      pure (r, { w with globals := assocDel w.globals k, effects := .gdel k :: w.effects })
  | "app_local_get" => do
      needApp
      let (a, b, r) ← pop2 st; let k ← asB b
      pure ((assocGet w.locals (acctKey a, k)).getD (.u 0) :: r, w)
  | "app_local_get_ex" => do
      needApp
      let (a, b, c, r) ← pop3 st; let app ← asU b; let k ← asB c
      if app = 0 then
        match assocGet w.locals (acctKey a, k) with
        | some v => pure (.u 1 :: v :: r, w)
        | none => pure (.u 0 :: .u 0 :: r, w)
      else pure (oracle2 cx op imms [a, b, c] ++ r, w)
  | "app_local_put" => do
      needApp
      let (a, b, c, r) ← pop3 st; let k ← asB b
      if k.length > 64 then throw (.logic "key too long")
      pure (r, { w with locals := assocSet w.locals (acctKey a, k) c, effects := .lput (acctKey a) k c :: w.effects })
  | "app_local_del" => do
      needApp
      let (a, b, r) ← pop2 st; let k ← asB b
      pure (r, { w with locals := assocDel w.locals (acctKey a, k), effects := .ldel (acctKey a) k :: w.effects })
  | "app_opted_in" => do
      needApp
      let (a, b, r) ← pop2 st; let _ ← asU b
      pure (.u (mix cx.oracleSalt op [] [a, b] % 2) :: r, w)
  | "balance" | "min_balance" => do
      needApp
      let (a, r) ← pop1 st
      pure (.u (mix cx.oracleSalt op [] [a] % 1000000) :: r, w)
  | "asset_holding_get" => do
      needApp
      let (a, b, r) ← pop2 st; let _ ← asU b
      pure (oracle2 cx op imms [a, b] ++ r, w)
  | "asset_params_get" | "app_params_get" => do
      needApp
      let (a, r) ← pop1 st; let _ ← asU a
      pure (oracle2 cx op imms [a] ++ r, w)
  | "acct_params_get" => do
      needApp
      let (a, r) ← pop1 st
      pure (oracle2 cx op imms [a] ++ r, w)
  | "log" => do
      needApp
      let (a, r) ← pop1 st; let x ← asB a
      let nlogs := (w.effects.filter (fun e => match e with | .log _ => true | _ => false)).length
      if nlogs ≥ 32 then throw (.logic "too many logs")
      pure (r, { w with effects := .log x :: w.effects })
  -- boxes
  | "box_create" => do
      needApp
      let (a, b, r) ← pop2 st; let k ← asB a; let n ← asU b
      match assocGet w.boxes k with
      | some old => if old.length = n then pure (.u 0 :: r, w) else throw (.logic "box size mismatch")
      | none =>
        -- consensus parameter MaxBoxSize = 32768
        if n > 32768 then throw (.logic "box size too large") else
        let v := List.replicate n (0 : UInt8)
        pure (.u 1 :: r, { w with boxes := assocSet w.boxes k v, effects := .boxPut k v :: w.effects })
  | "box_put" => do
      needApp
      let (a, b, r) ← pop2 st; let k ← asB a; let v ← asB b
      match assocGet w.boxes k with
      | some old => if old.length ≠ v.length then throw (.logic "box_put wrong size") else pure ()
      | none => pure ()
      pure (r, { w with boxes := assocSet w.boxes k v, effects := .boxPut k v :: w.effects })
  | "box_get" => do
      needApp
      let (a, r) ← pop1 st; let k ← asB a
      match assocGet w.boxes k with
      | some v => pure (.u 1 :: .b v :: r, w)
      | none => pure (.u 0 :: .b [] :: r, w)
  | "box_len" => do
      needApp
      let (a, r) ← pop1 st; let k ← asB a
      match assocGet w.boxes k with
      | some v => pure (.u 1 :: .u v.length :: r, w)
      | none => pure (.u 0 :: .u 0 :: r, w)
  | "box_del" => do
      needApp
      let (a, r) ← pop1 st; let k ← asB a
      match assocGet w.boxes k with
      | some _ => pure (.u 1 :: r, { w with boxes := assocDel w.boxes k, effects := .boxDel k :: w.effects })
      | none => pure (.u 0 :: r, w)
  | "box_extract" => do
      needApp
      let (a, b, c, r) ← pop3 st; let k ← asB a; let s ← asU b; let l ← asU c
      match assocGet w.boxes k with
      | some v => do let x ← sliceB v s (s + l); pure (.b x :: r, w)
      | none => throw (.logic "no such box")
  | "box_replace" => do
      needApp
      let (a, b, c, r) ← pop3 st; let k ← asB a; let s ← asU b; let y ← asB c
      match assocGet w.boxes k with
      | some x =>
        if s + y.length ≤ x.length then
          let v := x.take s ++ y ++ x.drop (s + y.length)
          pure (r, { w with boxes := assocSet w.boxes k v, effects := .boxPut k v :: w.effects })
        else throw (.logic "box_replace out of range")
      | none => throw (.logic "no such box")
  -- inner transactions
  | "itxn_begin" => do
      needApp
      match w.itxnB with
      | some _ => throw (.logic "itxn_begin without itxn_submit")
      | none => pure (st, { w with itxnB := some [[]] })
  | "itxn_next" => do
      needApp
      match w.itxnB with
      | some g => pure (st, { w with itxnB := some ([] :: g) })
      | none => throw (.logic "itxn_next without itxn_begin")
  | "itxn_field" => do
      needApp
      let f ← immStr op imms 0
      let (a, r) ← pop1 st
      match w.itxnB with
      | some (t :: g) => pure (r, { w with itxnB := some (((f, a) :: t) :: g) })
      | _ => throw (.logic "itxn_field without itxn_begin")
  | "itxn_submit" => do
      needApp
      match w.itxnB with
      | some g =>
        let grp := (g.map List.reverse).reverse
        pure (st, { w with itxnB := none, lastItxn := grp, effects := .itxn grp :: w.effects })
      | none => throw (.logic "itxn_submit without itxn_begin")
  | "itxn" => do
      needApp
      let f ← immStr op imms 0
      match w.lastItxn.getLast? with
      | some t => match assocGet t f with
        | some v => pure (v :: st, w)
        | none => pure (.u (mix cx.oracleSalt op imms [] % 1000) :: st, w)
      | none => throw (.logic "itxn read without inner transaction")
  -- source-level pseudo operation (never appears in TEAL): Suffix(A, B) = A[B:]
  | "suffix" => bin (fun a b => do let x ← asB a; let s ← asU b; let r ← sliceB x s x.length; pure (.b r))
  -- source-level dynamic variable access (abstract cells; no 256 bound)
  | "vloads" => un (fun a => do let s ← asU a; pure (getSlot w.scratch s))
  | "vstores" => do
      let (a, b, r) ← pop2 st
      let s ← asU a
      pure (r, { w with scratch := setSlot w.scratch s b })
  | _ => throw (.unmodelled s!"opcode {op}")

/-! ### Machine -/

structure Frame where
  retPc : Nat
  height : Nat
  proto : Option (Nat × Nat) := none
  deriving Repr, BEq, Inhabited

/-- machine state without control (pc, call stack) -/
structure MS where
  stack : List Val := []          -- head = top
  intc : List Nat := []
  bytec : List Bytes := []
  world : World := {}
  deriving Repr, Inhabited

structure St where
  pc : Nat := 0
  calls : List Frame := []        -- head = innermost
  ms : MS := {}
  deriving Repr, Inhabited

inductive Outcome
  | done (ret : Val) (w : World)      -- `return` executed (or clean end of program) with this top value
  | fail (f : Fail)
  | outOfFuel
  deriving Repr, Inhabited

/-- result of an instruction that does not touch pc / call stack -/
inductive SR
  | ok (m : MS)
  | halt (o : Outcome)
  deriving Inhabited

def pushV (m : MS) (v : Val) : SR :=
  if m.stack.length < maxStack then .ok { m with stack := v :: m.stack } else .halt (.fail (.logic "stack overflow"))

/-- Straight-line instructions: everything except branches, calls and frame access.
    `none` means "not a straight-line instruction". -/
def execSimple (cx : Ctx) (i : Instr) (m : MS) : Option SR :=
  match i with
  | .label _ => some (.ok m)
  | .pragma _ _ => some (.ok m)
  | .intcblock vs => some (.ok { m with intc := vs })
  | .bytecblock vs => some (.ok { m with bytec := vs })
  | .intc i => some (match m.intc[i]? with
      | some v => pushV m (.u v)
      | none => .halt (.fail (.illegal s!"intc {i} beyond constant block")))
  | .bytec i => some (match m.bytec[i]? with
      | some v => pushV m (.b v)
      | none => .halt (.fail (.illegal s!"bytec {i} beyond constant block")))
  | .pushInt n => some (pushV m (.u n))
  | .pushBytes b => some (pushV m (.b b))
  | .tmpl op n => some (.halt (.fail (.illegal s!"template placeholder {op} {n}")))
  | .ret => some (match m.stack with
      | v :: _ => (match v with
        | .u _ => .halt (.done v m.world)
        | .b _ => .halt (.fail (.typeErr "return of bytes")))
      | [] => .halt (.fail .underflow))
  | .err => some (.halt (.fail (.logic "err")))
  | .load n => some (
      if n < 256 then pushV m (getSlot m.world.scratch n) else .halt (.fail (.illegal "load slot > 255")))
  | .store n => some (match m.stack with
      | v :: r =>
        if n < 256 then .ok { m with stack := r, world := { m.world with scratch := setSlot m.world.scratch n v } }
        else .halt (.fail (.illegal "store slot > 255"))
      | [] => .halt (.fail .underflow))
  | .prim op imms => some (
      match execPrim cx op imms m.world m.stack with
      | .ok (st', w') =>
        if st'.length ≤ maxStack then .ok { m with stack := st', world := w' }
        else .halt (.fail (.logic "stack overflow"))
      | .error e => .halt (.fail e))
  | _ => none

inductive StepR
  | next (s : St)
  | halt (o : Outcome)
  deriving Inhabited

def jump (p : Program) (l : String) (s : St) : StepR :=
  match findLabel p l with
  | some t => .next { s with pc := t }
  | none => .halt (.fail (.badLabel l))

/-- stack index (from bottom) → index from top -/
def fromBottom (st : List Val) (i : Nat) : Nat := st.length - 1 - i

def finish (m : MS) : Outcome :=
  match m.stack with
  | [v] => (match v with
    | .u _ => .done v m.world
    | .b _ => .fail (.typeErr "bytes left at end"))
  | [] => .fail (.logic "stack empty at end")
  | _ => .fail (.logic "stack has more than one value at end")

def belowArgs (f : Frame) (i : Int) : Bool :=
  match f.proto with
  | some (a, _) => decide (i < 0 ∧ (-i).toNat > a)
  | none => false

def step (cx : Ctx) (p : Program) (s : St) : StepR :=
  match p[s.pc]? with
  | none =>
    -- falling off the end: legal iff pc = size (then the stack decides)
    if s.pc = p.size then .halt (finish s.ms) else .halt (.fail .badPc)
  | some ln =>
    let s1 := { s with pc := s.pc + 1 }
    match execSimple cx ln.instr s.ms with
    | some (.ok m) => .next { s1 with ms := m }
    | some (.halt o) => .halt o
    | none =>
    match ln.instr with
    | .b l => jump p l s1
    | .bz l => match s.ms.stack with
      | .u 0 :: r => jump p l { s1 with ms := { s.ms with stack := r } }
      | .u _ :: r => .next { s1 with ms := { s.ms with stack := r } }
      | .b _ :: _ => .halt (.fail (.typeErr "branch on bytes"))
      | [] => .halt (.fail .underflow)
    | .bnz l => match s.ms.stack with
      | .u 0 :: r => .next { s1 with ms := { s.ms with stack := r } }
      | .u _ :: r => jump p l { s1 with ms := { s.ms with stack := r } }
      | .b _ :: _ => .halt (.fail (.typeErr "branch on bytes"))
      | [] => .halt (.fail .underflow)
    | .callsub l =>
      jump p l { s1 with calls := { retPc := s.pc + 1, height := s.ms.stack.length } :: s.calls }
    | .retsub => match s.calls with
      | [] => .halt (.fail (.frame "retsub with empty call stack"))
      | f :: cs => match f.proto with
        | none => .next { s with pc := f.retPc, calls := cs }
        | some (a, r) =>
          if s.ms.stack.length < f.height + r then .halt (.fail (.frame "retsub: stack below declared returns"))
          else if f.height < a then .halt (.fail (.frame "retsub: frame below args"))
          else
            let bottomUp := s.ms.stack.reverse
            let kept := bottomUp.take (f.height - a) ++ (bottomUp.drop f.height).take r
            .next { s with pc := f.retPc, calls := cs, ms := { s.ms with stack := kept.reverse } }
    | .proto a r => match s.calls with
      | [] => .halt (.fail (.frame "proto with empty call stack"))
      | f :: cs =>
        if f.proto.isSome then .halt (.fail (.frame "proto twice"))
        else if s.ms.stack.length < a then .halt (.fail (.frame "proto: fewer values than args"))
        else .next { s1 with calls := { f with proto := some (a, r) } :: cs }
    | .frameDig i => match s.calls with
      | [] => .halt (.fail (.frame "frame_dig with empty call stack"))
      | f :: _ =>
        if belowArgs f i then .halt (.fail (.frame "frame_dig below args")) else
        let idx : Int := (f.height : Int) + i
        if idx < 0 then .halt (.fail (.frame "frame_dig below stack"))
        else if idx.toNat ≥ s.ms.stack.length then .halt (.fail (.frame "frame_dig above stack"))
        else match s.ms.stack[fromBottom s.ms.stack idx.toNat]? with
          | some v => (match pushV s.ms v with
            | .ok m => .next { s1 with ms := m }
            | .halt o => .halt o)
          | none => .halt (.fail (.frame "frame_dig above stack"))
    | .frameBury i => match s.calls with
      | [] => .halt (.fail (.frame "frame_bury with empty call stack"))
      | f :: _ => match s.ms.stack with
        | [] => .halt (.fail .underflow)
        | v :: r =>
          if belowArgs f i then .halt (.fail (.frame "frame_bury below args")) else
          let idx : Int := (f.height : Int) + i
          if idx < 0 then .halt (.fail (.frame "frame_bury below stack"))
          else if idx.toNat ≥ r.length then .halt (.fail (.frame "frame_bury above stack"))
          else .next { s1 with ms := { s.ms with stack := r.set (fromBottom r idx.toNat) v } }
    | _ => .halt (.fail (.illegal "unreachable: straight-line instruction"))

def runFrom (cx : Ctx) (p : Program) : Nat → St → Outcome
  | 0, _ => .outOfFuel
  | fuel+1, s => match step cx p s with
    | .next s' => runFrom cx p fuel s'
    | .halt o => o

def run (cx : Ctx) (p : Program) (fuel : Nat) (w0 : World := {}) : Outcome :=
  runFrom cx p fuel { ms := { world := w0 } }

end PyTealV.Avm
