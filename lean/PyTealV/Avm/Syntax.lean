/-
  TEAL text grammar (trusted spec): tokeniser, literal syntax, instructions.
  Written from the AVM assembler's documented grammar, independent of PyTeal.
-/
import PyTealV.Util
namespace PyTealV.Avm
open PyTealV PyTealV.Util

/-- One TEAL instruction after literal decoding.  Branch targets stay symbolic. -/
inductive Instr
  | label (l : String)
  | pragma (name val : String)
  | intcblock (vs : List Nat)
  | bytecblock (vs : List Bytes)
  | intc (i : Nat)
  | bytec (i : Nat)
  | pushInt (n : Nat)                       -- int / pushint
  | pushBytes (b : Bytes)                   -- byte / pushbytes / addr / method
  | tmpl (op name : String)                 -- template placeholder (not executable)
  | b (l : String) | bz (l : String) | bnz (l : String)
  | callsub (l : String) | retsub | ret | err
  | proto (a r : Nat) | frameDig (i : Int) | frameBury (i : Int)
  | load (s : Nat) | store (s : Nat)
  | prim (name : String) (imms : List String)   -- everything else: `execPrim`
  deriving Repr, BEq, DecidableEq, Inhabited

/-- A source line as tokens: opcode and immediates (kept for legality checks). -/
structure Raw where
  op : String
  imms : List String
  deriving Repr, BEq, Inhabited

structure Line where
  raw : Raw
  instr : Instr
  deriving Repr, Inhabited

abbrev Program := Array Line

/-! ### Tokeniser -/

private def isWs (c : Char) : Bool := c = ' ' ∨ c = '\t' ∨ c = '\r'

structure TokSt where
  toks : List String := []      -- reversed
  cur : List Char := []         -- reversed
  inStr : Bool := false
  esc : Bool := false
  inB64 : Bool := false
  done : Bool := false

private def TokSt.flush (s : TokSt) : TokSt :=
  if s.cur.isEmpty then s else { s with toks := String.ofList s.cur.reverse :: s.toks, cur := [] }

/-- Tokenise one line: whitespace separated; a double-quoted string (opened at the start of a
    token) runs to the matching unescaped quote; `//` outside a string and outside `base64(…)`
    starts a comment; a lone `;` is a statement separator token. -/
def tokenise (line : String) : List String :=
  let rec go : List Char → TokSt → TokSt
    | [], s => s
    | c :: rest, s =>
      if s.done then s else
      if s.inStr then
        if s.esc then go rest { s with cur := c :: s.cur, esc := false }
        else if c = '\\' then go rest { s with cur := c :: s.cur, esc := true }
        else if c = '"' then go rest ({ s with cur := c :: s.cur, inStr := false })
        else go rest { s with cur := c :: s.cur }
      else if isWs c then go rest s.flush
      else if c = '"' ∧ s.cur.isEmpty then go rest { s with cur := [c], inStr := true }
      else if c = '/' ∧ !s.inB64 ∧ rest.head? = some '/' then { s.flush with done := true }
      else if c = '(' then
        let pre := String.ofList s.cur.reverse
        go rest { s with cur := c :: s.cur, inB64 := s.inB64 || pre = "base64" || pre = "b64" }
      else if c = ')' then go rest { s with cur := c :: s.cur, inB64 := false }
      else go rest { s with cur := c :: s.cur }
  ((go line.toList {}).flush).toks.reverse

/-- split a token list at standalone `;` tokens -/
def splitStatements (ts : List String) : List (List String) :=
  let rec go : List String → List String → List (List String) → List (List String)
    | [], cur, acc => (cur.reverse :: acc).reverse
    | t :: rest, cur, acc => if t = ";" then go rest [] (cur.reverse :: acc) else go rest (t :: cur) acc
  (go ts [] []).filter (fun l => !l.isEmpty)

/-! ### Literals -/

/-- `"…"` with the escapes `\n \r \t \\ \" \xHH` -/
def parseStringLiteral (tok : String) : Option Bytes :=
  match tok.toList with
  | '"' :: rest =>
    let rec go : List Char → List UInt8 → Option Bytes
      | [], _ => none                                  -- unterminated
      | ['"'], acc => some acc.reverse
      | '"' :: _, _ => none                            -- quote before the end
      | '\\' :: 'n' :: r, acc => go r (10 :: acc)
      | '\\' :: 'r' :: r, acc => go r (13 :: acc)
      | '\\' :: 't' :: r, acc => go r (9 :: acc)
      | '\\' :: '\\' :: r, acc => go r (92 :: acc)
      | '\\' :: '"' :: r, acc => go r (34 :: acc)
      | '\\' :: 'x' :: a :: b :: r, acc =>
        match hexVal a, hexVal b with
        | some x, some y => go r (UInt8.ofNat (x * 16 + y) :: acc)
        | _, _ => none
      | '\\' :: _, _ => none
      | c :: r, acc => go r ((String.singleton c).toUTF8.toList.reverse ++ acc)
    go rest []
  | _ => none

private def stripParen (pre tok : String) : Option String :=
  if tok.startsWith (pre ++ "(") ∧ tok.endsWith ")" then
    some ((tok.drop (pre.length + 1)).dropEnd 1).toString
  else none

/-- byte-literal forms accepted after `byte`/`pushbytes`/in `bytecblock` (one or two tokens) -/
def parseBytesLit : List String → Option (Bytes × List String)
  | "base64" :: v :: rest | "b64" :: v :: rest => (base64Decode false v).map (·, rest)
  | "base32" :: v :: rest | "b32" :: v :: rest => (base32Decode v).map (·, rest)
  | tok :: rest =>
    if tok.startsWith "0x" then (unhex (tok.drop 2).toString).map (·, rest)
    else if tok.startsWith "\"" then (parseStringLiteral tok).map (·, rest)
    else match stripParen "base64" tok <|> stripParen "b64" tok with
      | some v => (base64Decode false v).map (·, rest)
      | none => match stripParen "base32" tok <|> stripParen "b32" tok with
        | some v => (base32Decode v).map (·, rest)
        | none => none
  | [] => none

def parseBytesLits : Nat → List String → Option (List Bytes)
  | 0, _ => none
  | _, [] => some []
  | fuel+1, ts => match parseBytesLit ts with
    | some (b, rest) => (parseBytesLits fuel rest).map (b :: ·)
    | none => none

/-- named integer constants the assembler accepts after `int` -/
def namedInt : String → Option Nat
  | "NoOp" => some 0 | "OptIn" => some 1 | "CloseOut" => some 2 | "ClearState" => some 3
  | "UpdateApplication" => some 4 | "DeleteApplication" => some 5
  | "unknown" => some 0 | "pay" => some 1 | "keyreg" => some 2 | "acfg" => some 3
  | "axfer" => some 4 | "afrz" => some 5 | "appl" => some 6
  | _ => none

def parseUint64 (s : String) : Option Nat :=
  let v := if s.startsWith "0x" then
      (s.drop 2).toString.toList.foldl (fun acc c => match acc, hexVal c with
        | some a, some d => some (a * 16 + d) | _, _ => none) (if s.length > 2 then some 0 else none)
    else parseNat s
  match v with
  | some n => if n < 2 ^ 64 then some n else none
  | none => none

/-! ### Instructions -/

def isTmpl (s : String) : Bool := s.startsWith "TMPL_"

/-- Algorand address: base32 of 32-byte key ++ 4-byte checksum (58 chars). The checksum is
    SHA-512/256 based and is *not* verified here (stated in the trusted base). -/
def parseAddr (s : String) : Option Bytes :=
  if s.length ≠ 58 then none else
  match base32Decode s with
  | some bs => if bs.length = 36 then some (bs.take 32) else none
  | none => none

/-- `selectors` resolves `method "sig"` (SHA-512/256 is uninterpreted; supplied by the harness) -/
def parseInstr (selectors : List (Bytes × Bytes)) : List String → Except String Instr
  | [] => .error "empty"
  | op :: imms =>
    let nat1 (k : Nat → Instr) : Except String Instr := match imms with
      | [a] => match parseNat a with
        | some n => .ok (k n) | none => .error s!"bad immediate {a} for {op}"
      | _ => .error s!"{op}: expected one immediate"
    let int1 (k : Int → Instr) : Except String Instr := match imms with
      | [a] => match parseInt a with
        -- a signed one-byte immediate (frame_dig / frame_bury): the assembler refuses anything else
        | some n => if -128 ≤ n ∧ n ≤ 127 then .ok (k n) else .error s!"immediate {a} of {op} does not fit one signed byte"
        | none => .error s!"bad immediate {a} for {op}"
      | _ => .error s!"{op}: expected one immediate"
    let lab1 (k : String → Instr) : Except String Instr := match imms with
      | [a] => .ok (k a) | _ => .error s!"{op}: expected a label"
    if op.endsWith ":" ∧ imms.isEmpty then .ok (.label (op.dropEnd 1).toString) else
    match op with
    | "#pragma" => match imms with
      | [n, v] => .ok (.pragma n v) | _ => .error "bad pragma"
    | "int" | "pushint" => match imms with
      | [a] => if isTmpl a then .ok (.tmpl op a) else
          match (if op = "int" then namedInt a else none) <|> parseUint64 a with
          | some n => .ok (.pushInt n) | none => .error s!"bad int literal {a}"
      | _ => .error "int: expected one immediate"
    | "byte" | "pushbytes" => match imms with
      | [a] => if isTmpl a then .ok (.tmpl op a) else
          match parseBytesLit [a] with
          | some (b, []) => .ok (.pushBytes b) | _ => .error s!"bad byte literal {a}"
      | _ => match parseBytesLit imms with
          | some (b, []) => .ok (.pushBytes b) | _ => .error s!"bad byte literal {imms}"
    | "addr" => match imms with
      | [a] => if isTmpl a then .ok (.tmpl op a) else
          match parseAddr a with
          | some b => .ok (.pushBytes b) | none => .error s!"bad address {a}"
      | _ => .error "addr: expected one immediate"
    | "method" => match imms with
      | [a] => match parseStringLiteral a with
          | some sig => match selectors.find? (·.1 == sig) with
            | some (_, sel) => .ok (.pushBytes sel)
            | none => .error s!"method: selector of {a} not supplied"
          | none => .error s!"method: bad signature literal {a}"
      | _ => .error "method: expected one immediate"
    | "intcblock" => match imms.mapM parseUint64 with
      | some vs => .ok (.intcblock vs) | none => .error "bad intcblock"
    | "bytecblock" => match parseBytesLits (imms.length + 1) imms with
      | some vs => .ok (.bytecblock vs) | none => .error "bad bytecblock"
    | "intc" => nat1 .intc
    | "intc_0" => .ok (.intc 0) | "intc_1" => .ok (.intc 1)
    | "intc_2" => .ok (.intc 2) | "intc_3" => .ok (.intc 3)
    | "bytec" => nat1 .bytec
    | "bytec_0" => .ok (.bytec 0) | "bytec_1" => .ok (.bytec 1)
    | "bytec_2" => .ok (.bytec 2) | "bytec_3" => .ok (.bytec 3)
    | "b" => lab1 .b | "bz" => lab1 .bz | "bnz" => lab1 .bnz | "callsub" => lab1 .callsub
    | "retsub" => if imms.isEmpty then .ok .retsub else .error "retsub takes no immediates"
    | "return" => if imms.isEmpty then .ok .ret else .error "return takes no immediates"
    | "err" => if imms.isEmpty then .ok .err else .error "err takes no immediates"
    | "proto" => match imms with
      | [a, r] => match parseNat a, parseNat r with
        | some a, some r => .ok (.proto a r) | _, _ => .error "bad proto"
      | _ => .error "bad proto"
    | "frame_dig" => int1 .frameDig
    | "frame_bury" => int1 .frameBury
    | "load" => nat1 .load
    | "store" => nat1 .store
    | _ => .ok (.prim op imms)

structure ParseResult where
  prog : Program
  errors : List String
  deriving Inhabited

/-- Parse a whole TEAL text. Every physical line is tokenised; blank/comment-only lines vanish. -/
def parse (selectors : List (Bytes × Bytes)) (text : String) : ParseResult :=
  let lines := text.splitOn "\n"
  let step (acc : Array Line × List String) (ln : String) : Array Line × List String :=
    (splitStatements (tokenise ln)).foldl (fun (acc : Array Line × List String) toks =>
      match toks with
      | [] => acc
      | op :: imms => match parseInstr selectors toks with
        | .ok i => (acc.1.push ⟨⟨op, imms⟩, i⟩, acc.2)
        | .error e => (acc.1, acc.2 ++ [e ++ " in line: " ++ ln])) acc
  let (p, errs) := lines.foldl step (#[], [])
  ⟨p, errs⟩

def findLabel (p : Program) (l : String) : Option Nat :=
  p.findIdx? (fun ln => match ln.instr with | .label l' => l' == l | _ => false)

end PyTealV.Avm
