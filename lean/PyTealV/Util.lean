/-
  Byte/number/text helpers shared by the AVM spec, the source semantics and the models.
  No imports outside core Lean (the native driver links this file).
-/
namespace PyTealV

abbrev Bytes := List UInt8

namespace Util

/-- value of a hex digit -/
def hexVal (c : Char) : Option Nat :=
  if '0' ≤ c ∧ c ≤ '9' then some (c.toNat - '0'.toNat)
  else if 'a' ≤ c ∧ c ≤ 'f' then some (c.toNat - 'a'.toNat + 10)
  else if 'A' ≤ c ∧ c ≤ 'F' then some (c.toNat - 'A'.toNat + 10)
  else none

def hexDigit (n : Nat) : Char :=
  if n < 10 then Char.ofNat ('0'.toNat + n) else Char.ofNat ('a'.toNat + (n - 10))

/-- decode an even-length hex string -/
def unhexChars : List Char → Option Bytes
  | [] => some []
  | [_] => none
  | a :: b :: rest =>
    match hexVal a, hexVal b, unhexChars rest with
    | some x, some y, some r => some (UInt8.ofNat (x * 16 + y) :: r)
    | _, _, _ => none

def unhex (s : String) : Option Bytes := unhexChars s.toList

def hexOfByte (b : UInt8) : List Char := [hexDigit (b.toNat / 16), hexDigit (b.toNat % 16)]

def hex (bs : Bytes) : String := String.ofList (bs.flatMap hexOfByte)

/-- big-endian bytes → Nat -/
def beToNat (bs : Bytes) : Nat := bs.foldl (fun acc b => acc * 256 + b.toNat) 0

/-- Nat → exactly `n` big-endian bytes (truncating high part) -/
def natToBE : Nat → Nat → Bytes
  | 0, _ => []
  | n+1, v => natToBE n (v / 256) ++ [UInt8.ofNat (v % 256)]

/-- minimal big-endian representation (zero ↦ empty) -/
def natToBEMin (v : Nat) : Bytes :=
  let rec go : Nat → Nat → Bytes → Bytes
    | 0, _, acc => acc
    | fuel+1, v, acc => if v = 0 then acc else go fuel (v / 256) (UInt8.ofNat (v % 256) :: acc)
  go (v + 1) v []

def isqrt (n : Nat) : Nat :=
  -- Newton iteration with fuel; n < 2^4096*8 in practice, fuel generous
  if n < 2 then n else
  let rec go : Nat → Nat → Nat
    | 0, x => x
    | fuel+1, x =>
      let y := (x + n / x) / 2
      if y < x then go fuel y else x
  go 20000 n

def bitLen (n : Nat) : Nat :=
  let rec go : Nat → Nat → Nat → Nat
    | 0, _, acc => acc
    | fuel+1, v, acc => if v = 0 then acc else go fuel (v / 2) (acc + 1)
  go (n + 1) n 0

/-- RFC 4648 base64 value of a char, for the std or url alphabet -/
def b64Val (url : Bool) (c : Char) : Option Nat :=
  if 'A' ≤ c ∧ c ≤ 'Z' then some (c.toNat - 'A'.toNat)
  else if 'a' ≤ c ∧ c ≤ 'z' then some (c.toNat - 'a'.toNat + 26)
  else if '0' ≤ c ∧ c ≤ '9' then some (c.toNat - '0'.toNat + 52)
  else if !url ∧ c = '+' then some 62
  else if !url ∧ c = '/' then some 63
  else if url ∧ c = '-' then some 62
  else if url ∧ c = '_' then some 63
  else none

/-- bits (msb first) of a `w`-bit value -/
def bitsOf (w v : Nat) : List Bool :=
  (List.range w).map (fun i => (v / 2 ^ (w - 1 - i)) % 2 = 1)

def bitsToNat (bs : List Bool) : Nat := bs.foldl (fun a b => a * 2 + (if b then 1 else 0)) 0

def bitsToBytes : Nat → List Bool → Bytes
  | 0, _ => []
  | fuel+1, bs =>
    if bs.length < 8 then [] else
    UInt8.ofNat (bitsToNat (bs.take 8)) :: bitsToBytes fuel (bs.drop 8)

/-- decode base64 (padding optional, as the AVM assembler / `base64_decode` accept) -/
def base64Decode (url : Bool) (s : String) : Option Bytes :=
  let cs := s.toList.filter (· ≠ '=')
  match cs.mapM (b64Val url) with
  | none => none
  | some vs =>
    if cs.length % 4 = 1 then none else
    let bits := vs.flatMap (bitsOf 6)
    some (bitsToBytes (bits.length + 1) bits)

def b32Val (c : Char) : Option Nat :=
  if 'A' ≤ c ∧ c ≤ 'Z' then some (c.toNat - 'A'.toNat)
  else if '2' ≤ c ∧ c ≤ '7' then some (c.toNat - '2'.toNat + 26)
  else none

def base32Decode (s : String) : Option Bytes :=
  let cs := s.toList.filter (· ≠ '=')
  match cs.mapM b32Val with
  | none => none
  | some vs =>
    let r := cs.length % 8
    if r = 1 ∨ r = 3 ∨ r = 6 then none else
    let bits := vs.flatMap (bitsOf 5)
    some (bitsToBytes (bits.length + 1) bits)

def b64Char (n : Nat) : Char :=
  if n < 26 then Char.ofNat ('A'.toNat + n)
  else if n < 52 then Char.ofNat ('a'.toNat + (n - 26))
  else if n < 62 then Char.ofNat ('0'.toNat + (n - 52))
  else if n = 62 then '+' else '/'

def bytesToBits (bs : Bytes) : List Bool := bs.flatMap (fun b => bitsOf 8 b.toNat)

def chunkBits : Nat → Nat → List Bool → List (List Bool)
  | 0, _, _ => []
  | fuel+1, w, bs => if bs.isEmpty then [] else
      let c := bs.take w
      let c := c ++ List.replicate (w - c.length) false
      c :: chunkBits fuel w (bs.drop w)

def base64Encode (bs : Bytes) : String :=
  let bits := bytesToBits bs
  let chunks := chunkBits (bits.length + 1) 6 bits
  let body := chunks.map (fun c => b64Char (bitsToNat c))
  let pad := (4 - body.length % 4) % 4
  String.ofList (body ++ List.replicate pad '=')

/-- parse a decimal natural number (no sign, no underscore) -/
def parseNat (s : String) : Option Nat :=
  if s.isEmpty then none else
  s.toList.foldl (fun acc c => match acc with
    | none => none
    | some a => if '0' ≤ c ∧ c ≤ '9' then some (a * 10 + (c.toNat - '0'.toNat)) else none) (some 0)

def parseInt (s : String) : Option Int :=
  match s.toList with
  | '-' :: rest => (parseNat (String.ofList rest)).map (fun n => - (Int.ofNat n))
  | _ => (parseNat s).map Int.ofNat

def strBytes (s : String) : Bytes := s.toUTF8.toList

/-- lossy ascii rendering for reports -/
def bytesToAscii (bs : Bytes) : String := String.ofList (bs.map (fun b => Char.ofNat b.toNat))

end Util
end PyTealV
