/- S-expressions: the line protocol between the Python harness and the Lean driver. -/
import PyTealV.Util
namespace PyTealV

inductive Sexp
  | atom (s : String)
  | list (xs : List Sexp)
  deriving Repr, Inhabited, BEq

namespace Sexp

partial def toStr : Sexp → String
  | .atom s => s
  | .list xs => "(" ++ " ".intercalate (xs.map toStr) ++ ")"

/-- tokenise into "(", ")" and atoms -/
def tokens (s : String) : List String :=
  let flush (cur : List Char) (acc : List String) : List String :=
    if cur.isEmpty then acc else String.ofList cur.reverse :: acc
  let (cur, acc) := s.toList.foldl (fun (st : List Char × List String) c =>
    let (cur, acc) := st
    if c = '(' then ([], "(" :: flush cur acc)
    else if c = ')' then ([], ")" :: flush cur acc)
    else if c = ' ' ∨ c = '\n' ∨ c = '\t' ∨ c = '\r' then ([], flush cur acc)
    else (c :: cur, acc)) ([], [])
  (flush cur acc).reverse

/-- parse with an explicit stack of open lists -/
def parse (s : String) : Option Sexp :=
  let rec go : List String → List (List Sexp) → Option Sexp
    | [], [[x]] => some x
    | [], _ => none
    | "(" :: rest, stack => go rest ([] :: stack)
    | ")" :: rest, top :: next :: stack => go rest ((Sexp.list top.reverse :: next) :: stack)
    | ")" :: _, _ => none
    | a :: rest, top :: stack => go rest ((Sexp.atom a :: top) :: stack)
    | _ :: _, [] => none
  go (tokens s) [[]]

def nat? : Sexp → Option Nat
  | .atom s => Util.parseNat s
  | _ => none

def hex? : Sexp → Option Bytes
  | .atom s => if s = "-" then some [] else Util.unhex s
  | _ => none

def str? : Sexp → Option String
  | .atom s => some s
  | _ => none

end Sexp
end PyTealV
