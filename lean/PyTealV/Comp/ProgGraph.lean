/-
  Multi-routine graph machine: a whole program is the main routine graph plus a finite map from
  model labels (`"@k"`) to subroutine graphs.  Straight-line ops and block exits run exactly as in
  `Comp.gstep`; `callsub` / `retsub` / `proto` / `frame_dig` / `frame_bury` act on a call stack of
  graph frames with exactly the stack arithmetic of `Avm.step` (Avm/Sem.lean).  The return point of
  a frame is a graph program point of the calling routine instead of a pc.
  Soundness of the whole-program certificate check against this machine: Proofs/SimR.lean.
-/
import PyTealV.Comp.Graph
namespace PyTealV.Comp
open PyTealV PyTealV.Avm

/-- routine identifier: `none` = the main routine, `some l` = the subroutine with model label `l` -/
abbrev RId := Option String

/-- whole program: main graph with its entry block, and (model label ↦ graph, entry block) -/
structure PProg where
  main : Graph
  start : Nat
  subs : List (String × Graph × Nat) := []
  deriving Inhabited

def PProg.graphOf (Pg : PProg) : RId → Option Graph
  | none => some Pg.main
  | some l => (Pg.subs.lookup l).map (·.1)

/-- call-stack frame of the graph machine (compare `Avm.Frame`: `retPc` is replaced by the
    routine and graph point to return to) -/
structure GFrame where
  ret : RId
  pt : GPt
  height : Nat
  proto : Option (Nat × Nat) := none
  deriving Repr, Inhabited

structure GSt where
  r : RId := none                 -- current routine
  p : GPt := ⟨0, 0⟩
  calls : List GFrame := []       -- head = innermost
  ms : MS := {}
  deriving Inhabited

inductive PStep
  | next (s : GSt)
  | halt (o : Outcome)
  deriving Inhabited

/-- `Avm.belowArgs` on a graph frame -/
def belowArgsG (f : GFrame) (i : Int) : Bool :=
  match f.proto with
  | some (a, _) => decide (i < 0 ∧ (-i).toNat > a)
  | none => false

/-- one step at op granularity -/
def gstepP (cx : Ctx) (Pg : PProg) (s : GSt) : PStep :=
  match Pg.graphOf s.r with
  | none => .halt (.fail (.illegal "unknown current routine"))
  | some G =>
  match G[s.p.b]? with
  | none => .halt (.fail .badPc)
  | some blk =>
    match blk.ops[s.p.i]? with
    | some x =>
      let s1 := { s with p := ⟨s.p.b, s.p.i + 1⟩ }
      (match execSimple cx x s.ms with
       | some (.ok m') => .next { s1 with ms := m' }
       | some (.halt o) => .halt o
       | none =>
       match x with
       | .callsub l =>
         (match Pg.subs.lookup l with
          | some (_, e) =>
            .next { s with r := some l, p := ⟨e, 0⟩,
                           calls := { ret := s.r, pt := ⟨s.p.b, s.p.i + 1⟩, height := s.ms.stack.length } :: s.calls }
          | none => .halt (.fail (.badLabel l)))
       | .retsub => (match s.calls with
         | [] => .halt (.fail (.frame "retsub with empty call stack"))
         | f :: cs => match f.proto with
           | none => .next { s with r := f.ret, p := f.pt, calls := cs }
           | some (a, r) =>
             if s.ms.stack.length < f.height + r then .halt (.fail (.frame "retsub: stack below declared returns"))
             else if f.height < a then .halt (.fail (.frame "retsub: frame below args"))
             else
               let bottomUp := s.ms.stack.reverse
               let kept := bottomUp.take (f.height - a) ++ (bottomUp.drop f.height).take r
               .next { s with r := f.ret, p := f.pt, calls := cs, ms := { s.ms with stack := kept.reverse } })
       | .proto a r => (match s.calls with
         | [] => .halt (.fail (.frame "proto with empty call stack"))
         | f :: cs =>
           if f.proto.isSome then .halt (.fail (.frame "proto twice"))
           else if s.ms.stack.length < a then .halt (.fail (.frame "proto: fewer values than args"))
           else .next { s1 with calls := { f with proto := some (a, r) } :: cs })
       | .frameDig i => (match s.calls with
         | [] => .halt (.fail (.frame "frame_dig with empty call stack"))
         | f :: _ =>
           if belowArgsG f i then .halt (.fail (.frame "frame_dig below args")) else
           let idx : Int := (f.height : Int) + i
           if idx < 0 then .halt (.fail (.frame "frame_dig below stack"))
           else if idx.toNat ≥ s.ms.stack.length then .halt (.fail (.frame "frame_dig above stack"))
           else match s.ms.stack[fromBottom s.ms.stack idx.toNat]? with
             | some v => (match pushV s.ms v with
               | .ok m => .next { s1 with ms := m }
               | .halt o => .halt o)
             | none => .halt (.fail (.frame "frame_dig above stack")))
       | .frameBury i => (match s.calls with
         | [] => .halt (.fail (.frame "frame_bury with empty call stack"))
         | f :: _ => match s.ms.stack with
           | [] => .halt (.fail .underflow)
           | v :: r =>
             if belowArgsG f i then .halt (.fail (.frame "frame_bury below args")) else
             let idx : Int := (f.height : Int) + i
             if idx < 0 then .halt (.fail (.frame "frame_bury below stack"))
             else if idx.toNat ≥ r.length then .halt (.fail (.frame "frame_bury above stack"))
             else .next { s1 with ms := { s.ms with stack := r.set (fromBottom r idx.toNat) v } })
       | _ => .halt (.fail (.illegal "control instruction inside a block")))
    | none =>
      match blk.succ with
      | .none =>
        -- leaving a graph through a block without successor: the end of the program for the main
        -- routine; a subroutine graph must leave through `retsub`
        (match s.r with
         | none => .halt (finish s.ms)
         | some _ => .halt (.fail (.illegal "fell out of a subroutine graph")))
      | .next c => .next { s with p := ⟨c, 0⟩ }
      | .cond t f =>
        match s.ms.stack with
        | .u 0 :: r => .next { s with p := ⟨f, 0⟩, ms := { s.ms with stack := r } }
        | .u _ :: r => .next { s with p := ⟨t, 0⟩, ms := { s.ms with stack := r } }
        | .b _ :: _ => .halt (.fail (.typeErr "branch on bytes"))
        | [] => .halt (.fail .underflow)

def grunP (cx : Ctx) (Pg : PProg) : Nat → GSt → Outcome
  | 0, _ => .outOfFuel
  | fuel+1, s => match gstepP cx Pg s with
    | .next s' => grunP cx Pg fuel s'
    | .halt o => o

/-- initial state: main routine, entry block, empty call stack -/
def PProg.init (Pg : PProg) (m : MS) : GSt := { r := none, p := ⟨Pg.start, 0⟩, calls := [], ms := m }

def runP (cx : Ctx) (Pg : PProg) (fuel : Nat) (m : MS) : Outcome := grunP cx Pg fuel (Pg.init m)

end PyTealV.Comp
