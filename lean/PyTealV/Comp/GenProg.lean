/-
  Code-generation model for whole programs with subroutines (both calling conventions).
  `genR` extends `Comp.gen` (which stays untouched because `Proofs/Shape*.lean` is about it) with:
  subroutine calls (`callsub` + recursion spill/restore from `Models.Spill`), parameters read
  through `frame_dig` under the frame-pointer convention, `retsub`, and the routine prologue
  (`SubroutineEval.evaluate`).  Used by the certificate check for call-graph programs (C02).
-/
import PyTealV.Comp.Gen
import PyTealV.Models.Spill
import PyTealV.Models.WideRatio
namespace PyTealV.Comp
open PyTealV PyTealV.Avm PyTealV.Src PyTealV.Models.Spill

structure Callee where
  id : Nat
  nArgs : Nat
  hasRet : Bool
  deriving Repr, Inhabited

structure RCfg where
  version : Nat := 10
  inSub : Bool := false
  framePointers : Bool := false
  frameParams : List (Var × Int) := []     -- by-value parameters read with frame_dig (fp convention)
  callees : List Callee := []
  reenters : List Nat := []                 -- callees that may re-enter the current routine
  localSlots : List Nat := []               -- sorted local slots of the current routine (spill set)
  markIndex : Bool := false
  deriving Repr, Inhabited

def subLabel (f : Nat) : String := "@" ++ toString f

/-- the op items of the WideRatio model as instructions (factor items never occur in these lists) -/
def wideInstrs (items : List Models.WideRatio.Item) : List Instr :=
  items.filterMap (fun it => match it with
    | .op o is => some (.prim o is)
    | .int n => some (.pushInt n)
    | .fac _ _ => none)

def RCfg.base (c : RCfg) : GenCfg := { version := c.version, inSub := c.inSub, markIndex := c.markIndex }

mutual
  def genR (cfg : RCfg) : Expr → Nat → Option Loop → GenM Nat
    | .int n, k, _ => opBlock [.pushInt n] k
    | .bytes b, k, _ => opBlock [.pushBytes b] k
    | .prim op imms args, k, L => do
      -- source-level dynamic variable access is the AVM's loads / stores
      let op' := if op == "vloads" then "loads" else if op == "vstores" then "stores" else op
      let ob ← opBlock [.prim op' imms] k
      genRArgs cfg args ob L
    | .substring s a b, k, L =>
      (match lowerSubstring cfg.version a b with
       | .error e => throw e
       | .ok (.one i) => do
         let ob ← opBlock [i] k
         genR cfg s ob L
       | .ok (.consts i x y) => do
         let ob ← opBlock [i] k
         let b2 ← opBlock [.pushInt y] ob
         let b1 ← opBlock [.pushInt x] b2
         genR cfg s b1 L
       | .ok (.asGiven i) => do
         let ob ← opBlock [i] k
         let bs ← genR cfg b ob L
         let as ← genR cfg a bs L
         genR cfg s as L)
    | .extract s a l, k, L =>
      (match lowerExtract a l with
       | .one i => do
         let ob ← opBlock [i] k
         genR cfg s ob L
       | .consts i x y => do
         let ob ← opBlock [i] k
         let b2 ← opBlock [.pushInt y] ob
         let b1 ← opBlock [.pushInt x] b2
         genR cfg s b1 L
       | .asGiven i => do
         let ob ← opBlock [i] k
         let ls ← genR cfg l ob L
         let as ← genR cfg a ls L
         genR cfg s as L)
    | .suffix s a, k, L =>
      (match a with
       | .int st =>
         if st < 256 then
           if cfg.version ≥ 5 then do
             let ob ← opBlock [.prim "extract" [toString st, "0"]] k
             genR cfg s ob L
           else throw "TealInputError: Program version too low to use op extract"
         else do
           let ob ← opBlock suffixOps k
           let as ← opBlock [.pushInt st] ob
           genR cfg s as L
       | _ => do
         let ob ← opBlock suffixOps k
         let as ← genR cfg a ob L
         genR cfg s as L)
    | .load v, k, _ =>
      (match cfg.frameParams.find? (·.1 == v) with
       | some (_, idx) => opBlock [.frameDig idx] k
       | none => opBlock [.load v] k)
    | .store v e, k, L => do
      let ob ← opBlock [.store v] k
      genR cfg e ob L
    | .index v, k, _ => opBlock [if cfg.markIndex then .prim "__index" [toString v] else .pushInt v] k
    | .multi op imms args outs, k, L => do
      let sb ← opBlock (outs.reverse.map .store) k
      let ob ← opBlock [.prim op imms] sb
      genRArgs cfg args ob L
    | .seq es, k, L => genRSeq cfg es k L
    | .ite c t e, k, L => do
      let endB ← opBlock [] k
      let ts ← genR cfg t endB L
      let es ← match e with
        | some e => genR cfg e endB L
        | none => pure endB
      let br ← emit { ops := [], succ := .cond ts es }
      genR cfg c br L
    | .cond arms, k, L => do
      let endB ← opBlock [] k
      let errB ← emit { ops := [.err], succ := .none }
      genRCond cfg arms endB errB L
    | .while_ c d, k, _ => do
      let endB ← opBlock [] k
      let br ← reserve
      let hdr ← reserve
      let cs ← genR cfg c br (some ⟨endB, hdr⟩)
      write hdr { ops := [], succ := .next cs }
      let ds ← genR cfg d hdr (some ⟨endB, hdr⟩)
      write br { ops := [], succ := .cond ds endB }
      pure hdr
    | .for_ i c s d, k, _ => do
      let endB ← opBlock [] k
      let br ← reserve
      let shdr ← reserve
      let cs ← genR cfg c br (some ⟨endB, shdr⟩)
      let ss ← genR cfg s cs (some ⟨endB, shdr⟩)
      write shdr { ops := [], succ := .next ss }
      let ds ← genR cfg d shdr (some ⟨endB, shdr⟩)
      write br { ops := [], succ := .cond ds endB }
      genR cfg i cs (some ⟨endB, shdr⟩)
    | .brk, _, L =>
      match L with
      | some l => emit { ops := [], succ := .next l.brk }
      | none => throw "TealCompileError: break is only allowed in a loop"
    | .cont, _, L =>
      match L with
      | some l => emit { ops := [], succ := .next l.cont }
      | none => throw "TealCompileError: continue is only allowed in a loop"
    | .assert_ c, k, L =>
      if cfg.version ≥ 3 then do
        let ob ← opBlock [.prim "assert" []] k
        genR cfg c ob L
      else do
        let endB ← opBlock [] k
        let errB ← emit { ops := [.err], succ := .none }
        let br ← emit { ops := [], succ := .cond endB errB }
        genR cfg c br L
    | .ret none, k, _ =>
      if cfg.inSub then opBlock [.retsub] k
      else throw "TealCompileError: Return from main program must have an argument"
    | .ret (some e), k, L => do
      let ob ← opBlock [if cfg.inSub then .retsub else .ret] k
      genR cfg e ob L
    | .exit e, k, L => do
      let ob ← opBlock [.ret] k
      genR cfg e ob L
    | .err, k, _ => opBlock [.err] k
    | .call f args, k, L =>
      (match cfg.callees.find? (·.id == f) with
       | none => throw "unknown subroutine"
       | some ce => do
         let spill := cfg.reenters.contains f && !cfg.localSlots.isEmpty
         let cover := decide (cfg.version ≥ 5)
         let before := if spill then spillBefore cfg.localSlots ce.nArgs cover else []
         let after := if spill then spillAfter cfg.localSlots ce.nArgs ce.hasRet cover else []
         let cb ← opBlock (before ++ [.callsub (subLabel f)] ++ after) k
         genRArgs cfg args cb L)
    | .wideRatio ns ds, k, L =>
      -- `Models.WideRatio.wideRatio?`: constructor checks, version check, then
      -- multiplyFactors(numerators) ++ multiplyFactors(denominators) ++ combine
      if ns.isEmpty || ds.isEmpty then throw "TealInternalError: At least 1 factor must be present in the numerator and denominator"
      else if ns.length == 1 && ds.length == 1 then throw "TealInternalError: There is only a single factor in the numerator and denominator. Use basic division instead."
      else if cfg.version < Models.WideRatio.minVersion then throw "TealCompileError: WideRatio requires program version 5 or higher"
      else do
        let cb ← opBlock (wideInstrs Models.WideRatio.combine) k
        let dstart ← genRWideTop cfg ds cb L
        genRWideTop cfg ns dstart L
    | .note none, k, _ => opBlock [] k
    | .note (some e), k, L => genR cfg e k L
    | .nonce b e, k, L => do
      let es ← genR cfg e k L
      opBlock [.pushBytes b, .prim "pop" []] es

  /-- `multiplyFactors`: [f0] ↦ int 0; f0   |   f0 f1 rest ↦ f0; f1; mulw; (f; mulStep)* -/
  def genRWideTop (cfg : RCfg) : List Expr → Nat → Option Loop → GenM Nat
    | [], _, _ => throw "TealInternalError: Received 0 factors"
    | [e0], k, L => do
      let b ← genR cfg e0 k L
      opBlock [.pushInt 0] b
    | e0 :: e1 :: rest, k, L => do
      let r ← genRWideRest cfg rest k L
      let mb ← opBlock [.prim "mulw" []] r
      let b1 ← genR cfg e1 mb L
      genR cfg e0 b1 L

  def genRWideRest (cfg : RCfg) : List Expr → Nat → Option Loop → GenM Nat
    | [], k, _ => pure k
    | e :: rest, k, L => do
      let k' ← genRWideRest cfg rest k L
      let sb ← opBlock (wideInstrs Models.WideRatio.mulStep) k'
      genR cfg e sb L

  def genRArgs (cfg : RCfg) : List Expr → Nat → Option Loop → GenM Nat
    | [], k, _ => pure k
    | e :: es, k, L => do
      let k' ← genRArgs cfg es k L
      genR cfg e k' L

  def genRSeq (cfg : RCfg) : List Expr → Nat → Option Loop → GenM Nat
    | [], k, _ => opBlock [] k
    | e :: es, k, L => do
      let k' ← genRSeq cfg es k L
      genR cfg e k' L

  def genRCond (cfg : RCfg) : List (Expr × Expr) → Nat → Nat → Option Loop → GenM Nat
    | [], _, errB, _ => pure errB
    | (c, b) :: rest, endB, errB, L => do
      let nxt ← genRCond cfg rest endB errB L
      let bs ← genR cfg b endB L
      let br ← emit { ops := [], succ := .cond bs nxt }
      genR cfg c br L
end

/-- one routine: entry block and graph -/
structure Routine where
  id : Option Nat
  G : Graph
  start : Nat

def calleesOf (p : Prog) : List Callee :=
  p.subs.map (fun s => { id := s.id, nArgs := s.params.length, hasRet := s.hasRet })

/-- `compileSubroutine` + `SubroutineEval.evaluate` for one subroutine -/
def genSub (version : Nat) (fp : Bool) (markIndex : Bool) (p : Prog) (sd : SubDef) (localSlots : List Nat) : Except String Routine :=
  let n := sd.params.length
  let idxOf (i : Nat) : Int := (i : Int) - (n : Int)
  let indexed := (List.range n).zip sd.params
  let frameParams : List (Var × Int) :=
    if fp then indexed.filterMap (fun (i, (k, v)) => if k == .val then some (v, idxOf i) else none) else []
  let cfg : RCfg := { version := version, inSub := true, framePointers := fp, frameParams := frameParams,
                      callees := calleesOf p, reenters := sd.reenters, localSlots := localSlots, markIndex := markIndex }
  let body := if hasReturn sd.body then sd.body
              else if sd.hasRet then .ret (some sd.body) else .seq [sd.body, .ret none]
  let prologue : List Instr :=
    if fp then
      .proto n (if sd.hasRet then 1 else 0) ::
        (indexed.reverse.filterMap (fun (i, (k, v)) => if k == .ref then some [Instr.frameDig (idxOf i), Instr.store v] else none)).flatten
    else sd.params.reverse.map (fun (_, v) => Instr.store v)
  match (do
      let exitB ← emit {}
      let bs ← genR cfg body exitB none
      opBlock prologue bs : GenM Nat).run #[] with
  | .ok (s, g) => .ok { id := some sd.id, G := g, start := s }
  | .error m => .error m

def genMainR (version : Nat) (markIndex : Bool) (p : Prog) : Except String Routine :=
  let cfg : RCfg := { version := version, inSub := false, callees := calleesOf p, markIndex := markIndex }
  let e' := if hasReturn p.main then p.main else .ret (some p.main)
  match (do let exitB ← emit {}; genR cfg e' exitB none : GenM Nat).run #[] with
  | .ok (s, g) => .ok { id := none, G := g, start := s }
  | .error m => .error m

end PyTealV.Comp
