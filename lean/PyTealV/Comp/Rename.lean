/- α-renaming of source variables (used to identify each variable with the slot the compiler gave it). -/
import PyTealV.Src
namespace PyTealV.Comp
open PyTealV.Src

mutual
  def renameVars (f : Nat → Nat) : Expr → Expr
    | .int n => .int n
    | .bytes b => .bytes b
    | .prim op imms args => .prim op imms (renameList f args)
    | .load v => .load (f v)
    | .store v e => .store (f v) (renameVars f e)
    | .index v => .index (f v)
    | .multi op imms args outs => .multi op imms (renameList f args) (outs.map f)
    | .seq es => .seq (renameList f es)
    | .ite c t none => .ite (renameVars f c) (renameVars f t) none
    | .ite c t (some e) => .ite (renameVars f c) (renameVars f t) (some (renameVars f e))
    | .cond arms => .cond (renameArms f arms)
    | .while_ c b => .while_ (renameVars f c) (renameVars f b)
    | .for_ i c s b => .for_ (renameVars f i) (renameVars f c) (renameVars f s) (renameVars f b)
    | .brk => .brk
    | .cont => .cont
    | .assert_ c => .assert_ (renameVars f c)
    | .ret none => .ret none
    | .ret (some e) => .ret (some (renameVars f e))
    | .exit e => .exit (renameVars f e)
    | .err => .err
    | .call g args => .call g (renameList f args)
    | .wideRatio ns ds => .wideRatio (renameList f ns) (renameList f ds)
    | .substring s a b => .substring (renameVars f s) (renameVars f a) (renameVars f b)
    | .extract s a l => .extract (renameVars f s) (renameVars f a) (renameVars f l)
    | .suffix s a => .suffix (renameVars f s) (renameVars f a)
    | .note none => .note none
    | .note (some e) => .note (some (renameVars f e))
    | .nonce b e => .nonce b (renameVars f e)
  def renameList (f : Nat → Nat) : List Expr → List Expr
    | [] => []
    | e :: es => renameVars f e :: renameList f es
  def renameArms (f : Nat → Nat) : List (Expr × Expr) → List (Expr × Expr)
    | [] => []
    | (c, b) :: rest => (renameVars f c, renameVars f b) :: renameArms f rest
end

def applyBindings (bs : List (Nat × Nat)) (v : Nat) : Nat :=
  match bs.find? (·.1 == v) with
  | some (_, s) => s
  | none => v

end PyTealV.Comp
