/-
  Block-graph IR of one routine and its execution.  Blocks hold straight-line instructions
  (the `execSimple` fragment of the AVM); control lives in the successor field, as in PyTeal's
  TealSimpleBlock / TealConditionalBlock.
-/
import PyTealV.Avm.Sem
namespace PyTealV.Comp
open PyTealV PyTealV.Avm

inductive Succ
  | none
  | next (b : Nat)
  | cond (t f : Nat)
  deriving Repr, BEq, DecidableEq, Inhabited

structure Block where
  ops : List Instr := []
  succ : Succ := .none
  deriving Repr, Inhabited

abbrev Graph := Array Block

/-- outcome of running a routine graph -/
inductive GOut
  | halt (o : Outcome)         -- return / err / run-time failure
  | fell (m : MS)              -- left through a block without successor
  | fuel
  deriving Inhabited

/-- run straight-line ops; a control instruction inside a block is illegal -/
def execOps (cx : Ctx) : List Instr → MS → SR
  | [], m => .ok m
  | i :: is, m => match execSimple cx i m with
    | some (.ok m') => execOps cx is m'
    | some (.halt o) => .halt o
    | none => .halt (.fail (.illegal "control instruction inside a block"))

/-- program point of a routine graph: before op `i` of block `b` (`i = ops.length`: at the exit) -/
structure GPt where
  b : Nat
  i : Nat
  deriving Repr, BEq, DecidableEq, Inhabited

inductive GStep
  | next (p : GPt) (m : MS)
  | halt (o : Outcome)
  | fell (m : MS)
  deriving Inhabited

/-- one step at op granularity -/
def gstep (cx : Ctx) (G : Graph) (p : GPt) (m : MS) : GStep :=
  match G[p.b]? with
  | none => .halt (.fail .badPc)
  | some blk =>
    match blk.ops[p.i]? with
    | some x =>
      (match execSimple cx x m with
       | some (.ok m') => .next ⟨p.b, p.i + 1⟩ m'
       | some (.halt o) => .halt o
       | none => .halt (.fail (.illegal "control instruction inside a block")))
    | none =>
      match blk.succ with
      | .none => .fell m
      | .next c => .next ⟨c, 0⟩ m
      | .cond t f =>
        match m.stack with
        | .u 0 :: r => .next ⟨f, 0⟩ { m with stack := r }
        | .u _ :: r => .next ⟨t, 0⟩ { m with stack := r }
        | .b _ :: _ => .halt (.fail (.typeErr "branch on bytes"))
        | [] => .halt (.fail .underflow)

def grunAt (cx : Ctx) (G : Graph) : Nat → GPt → MS → GOut
  | 0, _, _ => .fuel
  | fuel+1, p, m =>
    match gstep cx G p m with
    | .next p' m' => grunAt cx G fuel p' m'
    | .halt o => .halt o
    | .fell m' => .fell m'

def grun (cx : Ctx) (G : Graph) (fuel : Nat) (b : Nat) (m : MS) : GOut := grunAt cx G fuel ⟨b, 0⟩ m

/-- whole-routine outcome for the main routine: falling out of the graph is the end of the program -/
def GOut.toOutcome : GOut → Outcome
  | .halt o => o
  | .fell m => finish m
  | .fuel => .outOfFuel

end PyTealV.Comp
