/-
  Model of PyTeal code generation (`Expr.__teal__`) for one routine: source tree → block graph.
  Destination-passing style: `gen e k L` receives the continuation block `k` and the loop
  targets `L` and returns the entry block; every block is created with its final successor,
  except the loop branch block (id reserved first, written once).  The op choices mirror the
  Python code construct by construct (Assert lowering below v3, Substring/Extract/Suffix opcode
  selection, MultiValue stores in reverse order, Nonce push-and-pop, …).
-/
import PyTealV.Comp.Graph
import PyTealV.Src
namespace PyTealV.Comp
open PyTealV PyTealV.Avm PyTealV.Src

structure GenCfg where
  version : Nat := 10
  inSub : Bool := false          -- Return lowers to retsub inside a subroutine
  markIndex : Bool := false      -- (slot discovery only) emit `__index v` instead of `int v`
  deriving Repr, Inhabited

structure Loop where
  brk : Nat
  cont : Nat
  deriving Repr, Inhabited

abbrev GenM := StateT Graph (Except String)

def emit (b : Block) : GenM Nat := do
  let g ← get
  set (g.push b)
  pure g.size

def reserve : GenM Nat := emit {}

def write (i : Nat) (b : Block) : GenM Unit := modify (fun g => g.setIfInBounds i b)

def opBlock (ops : List Instr) (k : Nat) : GenM Nat := emit { ops := ops, succ := .next k }

/-- result of the opcode selection in `pyteal/ast/substring.py` -/
inductive Low
  | one (i : Instr)                 -- operand on the stack: the string only
  | consts (i : Instr) (x y : Nat)  -- operands: the string, then two constants
  | asGiven (i : Instr)             -- operands exactly as written
  deriving Repr

def lowerSubstring (version : Nat) (a b : Expr) : Except String Low :=
  match a, b with
  | .int st, .int en =>
    if en < st then .error "TealCompileError: end index must be greater than or equal to the start index"
    else
      let l := en - st
      if l > 0 ∧ version ≥ 5 then
        if st < 256 ∧ l < 256 then .ok (.one (.prim "extract" [toString st, toString l]))
        else .ok (.consts (.prim "extract3" []) st l)
      else
        if st < 256 ∧ en < 256 then .ok (.one (.prim "substring" [toString st, toString en]))
        else .ok (.asGiven (.prim "substring3" []))
  | _, _ => .ok (.asGiven (.prim "substring3" []))

def lowerExtract (a l : Expr) : Low :=
  match a, l with
  | .int st, .int ln =>
    if st < 256 ∧ ln > 0 ∧ ln < 256 then .one (.prim "extract" [toString st, toString ln])
    else .asGiven (.prim "extract3" [])
  | _, _ => .asGiven (.prim "extract3" [])

def suffixOps : List Instr := [.prim "dig" ["1"], .prim "len" [], .prim "substring3" []]

mutual
  def gen (cfg : GenCfg) : Expr → Nat → Option Loop → GenM Nat
    | .int n, k, _ => opBlock [.pushInt n] k
    | .bytes b, k, _ => opBlock [.pushBytes b] k
    | .prim op imms args, k, L => do
      let ob ← opBlock [.prim op imms] k
      genArgs cfg args ob L
    | .substring s a b, k, L =>
      (match lowerSubstring cfg.version a b with
       | .error e => throw e
       | .ok (.one i) => do
         let ob ← opBlock [i] k
         gen cfg s ob L
       | .ok (.consts i x y) => do
         let ob ← opBlock [i] k
         let b2 ← opBlock [.pushInt y] ob
         let b1 ← opBlock [.pushInt x] b2
         gen cfg s b1 L
       | .ok (.asGiven i) => do
         let ob ← opBlock [i] k
         let bs ← gen cfg b ob L
         let as ← gen cfg a bs L
         gen cfg s as L)
    | .extract s a l, k, L =>
      (match lowerExtract a l with
       | .one i => do
         let ob ← opBlock [i] k
         gen cfg s ob L
       | .consts i x y => do
         let ob ← opBlock [i] k
         let b2 ← opBlock [.pushInt y] ob
         let b1 ← opBlock [.pushInt x] b2
         gen cfg s b1 L
       | .asGiven i => do
         let ob ← opBlock [i] k
         let ls ← gen cfg l ob L
         let as ← gen cfg a ls L
         gen cfg s as L)
    | .suffix s a, k, L =>
      (match a with
       | .int st =>
         if st < 256 then
           if cfg.version ≥ 5 then do
             let ob ← opBlock [.prim "extract" [toString st, "0"]] k
             gen cfg s ob L
           else throw "TealInputError: Program version too low to use op extract"
         else do
           let ob ← opBlock suffixOps k
           let as ← opBlock [.pushInt st] ob
           gen cfg s as L
       | _ => do
         let ob ← opBlock suffixOps k
         let as ← gen cfg a ob L
         gen cfg s as L)
    | .load v, k, _ => opBlock [.load v] k
    | .store v e, k, L => do
      let ob ← opBlock [.store v] k
      gen cfg e ob L
    | .index v, k, _ => opBlock [if cfg.markIndex then .prim "__index" [toString v] else .pushInt v] k
    | .multi op imms args outs, k, L => do
      let sb ← opBlock (outs.reverse.map .store) k
      let ob ← opBlock [.prim op imms] sb
      genArgs cfg args ob L
    | .seq es, k, L => genSeq cfg es k L
    | .ite c t e, k, L => do
      let endB ← opBlock [] k
      let ts ← gen cfg t endB L
      let es ← match e with
        | some e => gen cfg e endB L
        | none => pure endB
      let br ← emit { ops := [], succ := .cond ts es }
      gen cfg c br L
    | .cond arms, k, L => do
      let endB ← opBlock [] k
      let errB ← emit { ops := [.err], succ := .none }
      genCond cfg arms endB errB L
    | .while_ c d, k, _ => do
      let endB ← opBlock [] k
      let br ← reserve
      -- the condition is generated inside the loop context, as in while_.py; its own
      -- Break/Continue targets are the loop end and the condition start (reserved id)
      let hdr ← reserve
      let cs ← gen cfg c br (some ⟨endB, hdr⟩)
      write hdr { ops := [], succ := .next cs }
      let ds ← gen cfg d hdr (some ⟨endB, hdr⟩)
      write br { ops := [], succ := .cond ds endB }
      pure hdr
    | .for_ i c s d, k, _ => do
      let endB ← opBlock [] k
      let br ← reserve
      let shdr ← reserve                     -- step start (Continue target)
      let cs ← gen cfg c br (some ⟨endB, shdr⟩)
      let ss ← gen cfg s cs (some ⟨endB, shdr⟩)
      write shdr { ops := [], succ := .next ss }
      let ds ← gen cfg d shdr (some ⟨endB, shdr⟩)
      write br { ops := [], succ := .cond ds endB }
      gen cfg i cs (some ⟨endB, shdr⟩)
    | .brk, _, L =>
      match L with
      | some l => emit { ops := [], succ := .next l.brk }
      | none => throw "TealCompileError: break is only allowed in a loop"
    | .cont, _, L =>
      match L with
      | some l => emit { ops := [], succ := .next l.cont }
      | none => throw "TealCompileError: continue is only allowed in a loop"
    | .assert_ c, k, L =>
      if cfg.version ≥ 3 then do
        let ob ← opBlock [.prim "assert" []] k
        gen cfg c ob L
      else do
        let endB ← opBlock [] k
        let errB ← emit { ops := [.err], succ := .none }
        let br ← emit { ops := [], succ := .cond endB errB }
        gen cfg c br L
    | .ret none, k, _ =>
      if cfg.inSub then opBlock [.retsub] k
      else throw "TealCompileError: Return from main program must have an argument"
    | .ret (some e), k, L => do
      let ob ← opBlock [if cfg.inSub then .retsub else .ret] k
      gen cfg e ob L
    | .exit e, k, L => do
      let ob ← opBlock [.ret] k
      gen cfg e ob L
    | .err, k, _ => opBlock [.err] k
    | .call _ _, _, _ => throw "unmodelled: subroutine call"
    | .wideRatio _ _, _, _ => throw "unmodelled: WideRatio"
    | .note none, k, _ => opBlock [] k
    | .note (some e), k, L => gen cfg e k L
    | .nonce b e, k, L => do
      let es ← gen cfg e k L
      opBlock [.pushBytes b, .prim "pop" []] es

  /-- operands left to right: returns the entry of the first -/
  def genArgs (cfg : GenCfg) : List Expr → Nat → Option Loop → GenM Nat
    | [], k, _ => pure k
    | e :: es, k, L => do
      let k' ← genArgs cfg es k L
      gen cfg e k' L

  def genSeq (cfg : GenCfg) : List Expr → Nat → Option Loop → GenM Nat
    | [], k, _ => opBlock [] k
    | e :: es, k, L => do
      let k' ← genSeq cfg es k L
      gen cfg e k' L

  def genCond (cfg : GenCfg) : List (Expr × Expr) → Nat → Nat → Option Loop → GenM Nat
    | [], _, errB, _ => pure errB
    | (c, b) :: rest, endB, errB, L => do
      let nxt ← genCond cfg rest endB errB L
      let bs ← gen cfg b endB L
      let br ← emit { ops := [], succ := .cond bs nxt }
      gen cfg c br L
end

/- `has_return` of the Python classes -/
mutual
  def hasReturn : Expr → Bool
    | .ret _ => true
    | .exit _ => true
    | .err => true
    | .seq es => hasReturnLast es
    | .ite _ t (some e) => hasReturn t && hasReturn e
    | .cond arms => hasReturnArms arms
    | .note (some e) => hasReturn e
    | .nonce _ e => hasReturn e
    | _ => false
  def hasReturnLast : List Expr → Bool
    | [] => false
    | [e] => hasReturn e
    | _ :: e :: es => hasReturnLast (e :: es)
  def hasReturnArms : List (Expr × Expr) → Bool
    | [] => true
    | (_, b) :: rest => hasReturn b && hasReturnArms rest
end

/-- main routine: `compileSubroutine` wraps a tree without return into `Return(ast)` -/
def genMain (cfg : GenCfg) (e : Expr) : Except String (Graph × Nat) :=
  let e' := if hasReturn e then e else .ret (some e)
  -- block 0 is the exit: a block without successor and without ops
  match (do let exitB ← emit {}; gen cfg e' exitB none : GenM Nat).run #[] with
  | .ok (s, g) => .ok (g, s)
  | .error m => .error m

end PyTealV.Comp
