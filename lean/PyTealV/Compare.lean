/- Rendering and comparison of outcomes (canonical, order-defined). -/
import PyTealV.Src
namespace PyTealV.Compare
open PyTealV PyTealV.Avm PyTealV.Util

def showVal : Val → String
  | .u n => s!"u{n}"
  | .b bs => "b" ++ (if bs.isEmpty then "-" else hex bs)

def showEffect : Effect → String
  | .log bs => "log:" ++ showVal (.b bs)
  | .gput k v => "gput:" ++ showVal (.b k) ++ ":" ++ showVal v
  | .gdel k => "gdel:" ++ showVal (.b k)
  | .lput a k v => "lput:" ++ showVal (.b a) ++ ":" ++ showVal (.b k) ++ ":" ++ showVal v
  | .ldel a k => "ldel:" ++ showVal (.b a) ++ ":" ++ showVal (.b k)
  | .boxPut k v => "boxput:" ++ showVal (.b k) ++ ":" ++ showVal (.b v)
  | .boxDel k => "boxdel:" ++ showVal (.b k)
  | .itxn g => "itxn:[" ++ ";".intercalate (g.map (fun t => ",".intercalate (t.map (fun (f, v) => f ++ "=" ++ showVal v)))) ++ "]"

def showFail : Fail → String
  | .underflow => "underflow"
  | .typeErr m => "typeErr(" ++ m ++ ")"
  | .badPc => "badPc"
  | .badLabel l => "badLabel(" ++ l ++ ")"
  | .illegal m => "illegal(" ++ m ++ ")"
  | .frame m => "frame(" ++ m ++ ")"
  | .logic m => "logic(" ++ m ++ ")"
  | .unmodelled m => "unmodelled(" ++ m ++ ")"

/-- user-numbered slots (0..255) with a non-default value, sorted -/
def userSlots (w : World) : List (Nat × Val) :=
  ((List.range 256).filterMap (fun s =>
    let v := getSlot w.scratch s
    if v == .u 0 then none else some (s, v)))

def showOutcome (withSlots : Bool) : Outcome → String
  | .done v w =>
    "done " ++ showVal v ++ " [" ++ " ".intercalate (w.effects.reverse.map showEffect) ++ "]" ++
      (if withSlots then " slots[" ++ " ".intercalate ((userSlots w).map (fun (s, v) => s!"{s}=" ++ showVal v)) ++ "]" else "")
  | .fail f => "fail " ++ showFail f
  | .outOfFuel => "outOfFuel"

/-- failure classes: `machine` failures can never be the legitimate meaning of a well-typed source program -/
inductive Cls | approve | reject | failLogic | failType | failMachine | unmodelled | fuel
  deriving Repr, BEq, DecidableEq

def cls : Outcome → Cls
  | .done (.u 0) _ => .reject
  | .done _ _ => .approve
  | .fail (.logic _) => .failLogic
  | .fail (.typeErr _) => .failType
  | .fail (.unmodelled _) => .unmodelled
  | .fail _ => .failMachine
  | .outOfFuel => .fuel

def clsName : Cls → String
  | .approve => "approve" | .reject => "reject" | .failLogic => "fail" | .failType => "failtype"
  | .failMachine => "failmachine" | .unmodelled => "unmodelled" | .fuel => "fuel"

/-- `some true` agree, `some false` differ, `none` not comparable (unmodelled / fuel) -/
def agree (a b : Outcome) : Option Bool :=
  match a, b with
  | .done v w, .done v' w' => some (v == v' && w.effects == w'.effects)
  | .fail (.unmodelled _), _ | _, .fail (.unmodelled _) => none
  | .outOfFuel, _ | _, .outOfFuel => none
  | .fail f, .fail g =>
    -- source failures are logic/type failures; the target must fail the same way up to kind
    some ((cls (.fail f) == .failLogic || cls (.fail f) == .failType) &&
          (cls (.fail g) == .failLogic || cls (.fail g) == .failType))
  | _, _ => some false

end PyTealV.Compare
