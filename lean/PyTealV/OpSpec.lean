/-
  OpSpec (TRUSTED SPEC): the AVM opcodes PyTeal can emit, TEAL versions 2..10.

  Hand-written from the AVM specification (the opcode tables of the TEAL language reference,
  `data/transactions/logic` of the reference node), independently of PyTeal's own table
  `pyteal/ir/ops.py`.  For every opcode: the version that introduced it, the run modes in which
  it may appear (logic signature / application), and its immediates with their encodable
  ranges.  For every named immediate ("field"): the group it belongs to, the version that
  introduced it, and for transaction fields whether it is an array field and from which version
  `itxn_field` may set it; for `global` fields the mode in which the *evaluator* accepts them.

  The regenerated tables `Gen/OpTable.lean`, `Gen/FieldTable.lean` (from the live PyTeal
  modules) are compared entry by entry against this file in `Proofs/C04.lean`.

  Core Lean only (linked into the native driver).
-/
namespace PyTealV.OpSpec

/-- Names (opcodes, fields) are stored as ONE natural number, not as `String`: the code points
    `c₀ c₁ …` of the name as digits `cᵢ+1` in base 2²¹, first character least significant
    (`Nm.enc`; injective, proved in `Proofs/C04.lean`: `key_inj`).  Reason: the finite-table
    theorems of `Proofs/C04.lean` evaluate tens of thousands of name comparisons inside the Lean
    kernel, which compares number literals in microseconds but needs milliseconds per `String`
    (or list) comparison.  `n!"err"` is notation for the number `Nm.ofString "err"`, computed at
    compile time (checked for sample names in `Proofs/C04.lean`). -/
abbrev Nm := Nat

def Nm.enc : List Nat → Nat
  | [] => 0
  | d :: ds => d + 1 + 2097152 * Nm.enc ds

def Nm.ofString (s : String) : Nm := Nm.enc (s.toList.map Char.toNat)

/-- `n!"abc"` ↦ the literal `Nm.ofString "abc"` (expanded at compile time) -/
macro:max "n!" s:str : term => do
  let v := s.getString.toList.foldr (fun c acc => c.toNat + 1 + 2097152 * acc) 0
  `((($(Lean.Syntax.mkNumLit (toString v)) : Nat)))

/-- groups of named immediates -/
inductive FG
  | txnScalar      -- a non-array transaction field      (`txn F`, `gtxn t F`, `gtxns F`, `itxn F`, `gitxn t F`)
  | txnArray       -- an array transaction field         (`txna F i`, `txnas F`, `gtxna t F i`, …)
  | itxnSet        -- a field `itxn_field` may set
  | global
  | assetHolding | assetParams | appParams | acctParams
  | base64 | json | ecdsa | vrf | block | ec
  deriving Repr, DecidableEq, Inhabited

/-- one immediate of an opcode, with its encodable range -/
inductive Imm
  | u8                 -- one byte, 0..255 (array index, stack depth, slot, group index, …)
  | i8                 -- one signed byte, -128..127 (`frame_dig`, `frame_bury`)
  | label              -- branch target (two-byte relative offset in the encoding)
  | field (g : FG)     -- a name of group `g`
  deriving Repr, DecidableEq, Inhabited

structure Op where
  name : Nm
  minV : Nat           -- version that introduced the opcode (1 for the original set)
  sig : Bool           -- allowed in logic-signature mode
  app : Bool           -- allowed in application mode
  imms : List Imm := []
  /-- operands are literals of the TEAL grammar (`int`, `byte`, `pushbytes`, `intcblock`, …):
      their number is not fixed and their syntax is validated by the grammar (`Avm.parseInstr`) -/
  lit : Bool := false
  deriving Repr, Inhabited

private def both (n : Nm) (v : Nat) (imms : List Imm := []) : Op := ⟨n, v, true, true, imms, false⟩
private def appOnly (n : Nm) (v : Nat) (imms : List Imm := []) : Op := ⟨n, v, false, true, imms, false⟩
private def sigOnly (n : Nm) (v : Nat) (imms : List Imm := []) : Op := ⟨n, v, true, false, imms, false⟩
private def litOp (n : Nm) (v : Nat) : Op := ⟨n, v, true, true, [], true⟩

open Imm FG in
def table : List Op := [
  -- ---------------------------------------------------------------- version 1
  both n!"err" 1, both n!"sha256" 1, both n!"keccak256" 1, both n!"sha512_256" 1, both n!"ed25519verify" 1,
  both n!"+" 1, both n!"-" 1, both n!"/" 1, both n!"*" 1, both n!"<" 1, both n!">" 1, both n!"<=" 1, both n!">=" 1,
  both n!"&&" 1, both n!"||" 1, both n!"==" 1, both n!"!=" 1, both n!"!" 1, both n!"len" 1, both n!"itob" 1,
  both n!"btoi" 1, both n!"%" 1, both n!"|" 1, both n!"&" 1, both n!"^" 1, both n!"~" 1, both n!"mulw" 1,
  litOp n!"intcblock" 1, both n!"intc" 1 [u8], both n!"intc_0" 1, both n!"intc_1" 1, both n!"intc_2" 1, both n!"intc_3" 1,
  litOp n!"bytecblock" 1, both n!"bytec" 1 [u8], both n!"bytec_0" 1, both n!"bytec_1" 1, both n!"bytec_2" 1, both n!"bytec_3" 1,
  -- assembler pseudo-ops (constant loading through the constant blocks / push ops)
  litOp n!"int" 1, litOp n!"byte" 1, litOp n!"addr" 1, litOp n!"method" 1,
  sigOnly n!"arg" 1 [u8], sigOnly n!"arg_0" 1, sigOnly n!"arg_1" 1, sigOnly n!"arg_2" 1, sigOnly n!"arg_3" 1,
  both n!"txn" 1 [field txnScalar], both n!"global" 1 [field global], both n!"gtxn" 1 [u8, field txnScalar],
  both n!"load" 1 [u8], both n!"store" 1 [u8],
  both n!"bnz" 1 [label], both n!"pop" 1, both n!"dup" 1,
  -- ---------------------------------------------------------------- version 2
  both n!"addw" 2, both n!"txna" 2 [field txnArray, u8], both n!"gtxna" 2 [u8, field txnArray, u8],
  both n!"bz" 2 [label], both n!"b" 2 [label], both n!"return" 2, both n!"dup2" 2, both n!"concat" 2,
  both n!"substring" 2 [u8, u8], both n!"substring3" 2,
  appOnly n!"balance" 2, appOnly n!"app_opted_in" 2, appOnly n!"app_local_get" 2, appOnly n!"app_local_get_ex" 2,
  appOnly n!"app_global_get" 2, appOnly n!"app_global_get_ex" 2, appOnly n!"app_local_put" 2,
  appOnly n!"app_global_put" 2, appOnly n!"app_local_del" 2, appOnly n!"app_global_del" 2,
  appOnly n!"asset_holding_get" 2 [field assetHolding], appOnly n!"asset_params_get" 2 [field assetParams],
  -- ---------------------------------------------------------------- version 3
  both n!"gtxns" 3 [field txnScalar], both n!"gtxnsa" 3 [field txnArray, u8], both n!"assert" 3,
  both n!"dig" 3 [u8], both n!"swap" 3, both n!"select" 3, both n!"getbit" 3, both n!"setbit" 3,
  both n!"getbyte" 3, both n!"setbyte" 3, appOnly n!"min_balance" 3,
  litOp n!"pushbytes" 3, litOp n!"pushint" 3,
  -- ---------------------------------------------------------------- version 4
  both n!"shl" 4, both n!"shr" 4, both n!"sqrt" 4, both n!"bitlen" 4, both n!"exp" 4, both n!"divmodw" 4, both n!"expw" 4,
  both n!"b+" 4, both n!"b-" 4, both n!"b/" 4, both n!"b*" 4, both n!"b<" 4, both n!"b>" 4, both n!"b<=" 4, both n!"b>=" 4,
  both n!"b==" 4, both n!"b!=" 4, both n!"b%" 4, both n!"b|" 4, both n!"b&" 4, both n!"b^" 4, both n!"b~" 4, both n!"bzero" 4,
  appOnly n!"gload" 4 [u8, u8], appOnly n!"gloads" 4 [u8], appOnly n!"gaid" 4 [u8], appOnly n!"gaids" 4,
  both n!"callsub" 4 [label], both n!"retsub" 4,
  -- ---------------------------------------------------------------- version 5
  both n!"ecdsa_verify" 5 [field ecdsa], both n!"ecdsa_pk_decompress" 5 [field ecdsa],
  both n!"ecdsa_pk_recover" 5 [field ecdsa],
  both n!"loads" 5, both n!"stores" 5, both n!"cover" 5 [u8], both n!"uncover" 5 [u8],
  both n!"extract" 5 [u8, u8], both n!"extract3" 5, both n!"extract_uint16" 5, both n!"extract_uint32" 5,
  both n!"extract_uint64" 5,
  appOnly n!"app_params_get" 5 [field appParams], appOnly n!"log" 5,
  appOnly n!"itxn_begin" 5, appOnly n!"itxn_field" 5 [field itxnSet], appOnly n!"itxn_submit" 5,
  appOnly n!"itxn" 5 [field txnScalar], appOnly n!"itxna" 5 [field txnArray, u8],
  both n!"txnas" 5 [field txnArray], both n!"gtxnas" 5 [u8, field txnArray], both n!"gtxnsas" 5 [field txnArray],
  sigOnly n!"args" 5,
  -- ---------------------------------------------------------------- version 6
  both n!"bsqrt" 6, both n!"divw" 6, appOnly n!"itxn_next" 6, appOnly n!"itxnas" 6 [field txnArray],
  appOnly n!"gitxn" 6 [u8, field txnScalar], appOnly n!"gitxna" 6 [u8, field txnArray, u8],
  appOnly n!"gitxnas" 6 [u8, field txnArray], appOnly n!"gloadss" 6, appOnly n!"acct_params_get" 6 [field acctParams],
  -- ---------------------------------------------------------------- version 7
  both n!"replace2" 7 [u8], both n!"replace3" 7, both n!"base64_decode" 7 [field base64],
  both n!"json_ref" 7 [field json], both n!"ed25519verify_bare" 7, both n!"sha3_256" 7,
  both n!"vrf_verify" 7 [field vrf], both n!"block" 7 [field block],
  -- ---------------------------------------------------------------- version 8
  appOnly n!"box_create" 8, appOnly n!"box_extract" 8, appOnly n!"box_replace" 8, appOnly n!"box_del" 8,
  appOnly n!"box_len" 8, appOnly n!"box_get" 8, appOnly n!"box_put" 8,
  both n!"popn" 8 [u8], both n!"dupn" 8 [u8], both n!"bury" 8 [u8],
  both n!"frame_dig" 8 [i8], both n!"frame_bury" 8 [i8], both n!"proto" 8 [u8, u8],
  -- ---------------------------------------------------------------- version 10
  appOnly n!"box_splice" 10, appOnly n!"box_resize" 10,
  both n!"ec_add" 10 [field ec], both n!"ec_scalar_mul" 10 [field ec], both n!"ec_pairing_check" 10 [field ec],
  both n!"ec_multi_scalar_mul" 10 [field ec], both n!"ec_subgroup_check" 10 [field ec], both n!"ec_map_to" 10 [field ec]
]

def findNm (name : Nm) : Option Op := table.find? (·.name == name)
def find (name : String) : Option Op := findNm (Nm.ofString name)

/-- (minimum version within the supported range 2..10, signature mode, application mode) -/
def lookupNm (name : Nm) : Option (Nat × Bool × Bool) :=
  (findNm name).map (fun o => (max 2 o.minV, o.sig, o.app))
def lookup (name : String) : Option (Nat × Bool × Bool) := lookupNm (Nm.ofString name)

/-! ### Transaction fields -/

structure TxnField where
  name : Nm
  minV : Nat
  isArray : Bool
  isUint : Bool        -- stack type: uint64 (true) or bytes (false)
  itxnV : Nat          -- version from which `itxn_field` may set it; 0 = never
  deriving Repr, Inhabited

private def tf (n : Nm) (v : Nat) (u : Bool) (itxn : Nat) (arr : Bool := false) : TxnField := ⟨n, v, arr, u, itxn⟩

def txnFields : List TxnField := [
  tf n!"Sender" 1 false 5, tf n!"Fee" 1 true 5, tf n!"FirstValid" 1 true 0, tf n!"FirstValidTime" 7 true 0,
  tf n!"LastValid" 1 true 0, tf n!"Note" 1 false 6, tf n!"Lease" 1 false 0, tf n!"Receiver" 1 false 5,
  tf n!"Amount" 1 true 5, tf n!"CloseRemainderTo" 1 false 5, tf n!"VotePK" 1 false 6, tf n!"SelectionPK" 1 false 6,
  tf n!"VoteFirst" 1 true 6, tf n!"VoteLast" 1 true 6, tf n!"VoteKeyDilution" 1 true 6, tf n!"Type" 1 false 5,
  tf n!"TypeEnum" 1 true 5, tf n!"XferAsset" 1 true 5, tf n!"AssetAmount" 1 true 5, tf n!"AssetSender" 1 false 5,
  tf n!"AssetReceiver" 1 false 5, tf n!"AssetCloseTo" 1 false 5, tf n!"GroupIndex" 1 true 0, tf n!"TxID" 1 false 0,
  tf n!"ApplicationID" 2 true 6, tf n!"OnCompletion" 2 true 6, tf n!"ApplicationArgs" 2 false 6 true,
  tf n!"NumAppArgs" 2 true 0, tf n!"Accounts" 2 false 6 true, tf n!"NumAccounts" 2 true 0,
  tf n!"ApprovalProgram" 2 false 6, tf n!"ClearStateProgram" 2 false 6, tf n!"RekeyTo" 2 false 6,
  tf n!"ConfigAsset" 2 true 5, tf n!"ConfigAssetTotal" 2 true 5, tf n!"ConfigAssetDecimals" 2 true 5,
  tf n!"ConfigAssetDefaultFrozen" 2 true 5, tf n!"ConfigAssetUnitName" 2 false 5, tf n!"ConfigAssetName" 2 false 5,
  tf n!"ConfigAssetURL" 2 false 5, tf n!"ConfigAssetMetadataHash" 2 false 5, tf n!"ConfigAssetManager" 2 false 5,
  tf n!"ConfigAssetReserve" 2 false 5, tf n!"ConfigAssetFreeze" 2 false 5, tf n!"ConfigAssetClawback" 2 false 5,
  tf n!"FreezeAsset" 2 true 5, tf n!"FreezeAssetAccount" 2 false 5, tf n!"FreezeAssetFrozen" 2 true 5,
  tf n!"Assets" 3 true 6 true, tf n!"NumAssets" 3 true 0, tf n!"Applications" 3 true 6 true, tf n!"NumApplications" 3 true 0,
  tf n!"GlobalNumUint" 3 true 6, tf n!"GlobalNumByteSlice" 3 true 6, tf n!"LocalNumUint" 3 true 6,
  tf n!"LocalNumByteSlice" 3 true 6, tf n!"ExtraProgramPages" 4 true 6, tf n!"Nonparticipation" 5 true 6,
  tf n!"Logs" 5 false 0 true, tf n!"NumLogs" 5 true 0, tf n!"CreatedAssetID" 5 true 0, tf n!"CreatedApplicationID" 5 true 0,
  tf n!"LastLog" 6 false 0, tf n!"StateProofPK" 6 false 6,
  tf n!"ApprovalProgramPages" 7 false 7 true, tf n!"NumApprovalProgramPages" 7 true 0,
  tf n!"ClearStateProgramPages" 7 false 7 true, tf n!"NumClearStateProgramPages" 7 true 0
]

def txnFieldNm? (name : Nm) : Option TxnField := txnFields.find? (·.name == name)
def txnField? (name : String) : Option TxnField := txnFieldNm? (Nm.ofString name)

/-! ### `global` fields -/

structure GlobalField where
  name : Nm
  minV : Nat
  isUint : Bool
  appOnly : Bool       -- the evaluator rejects the field in logic-signature mode (a run-time failure)
  deriving Repr, Inhabited

def globalFields : List GlobalField := [
  ⟨n!"MinTxnFee", 1, true, false⟩, ⟨n!"MinBalance", 1, true, false⟩, ⟨n!"MaxTxnLife", 1, true, false⟩,
  ⟨n!"ZeroAddress", 1, false, false⟩, ⟨n!"GroupSize", 1, true, false⟩, ⟨n!"LogicSigVersion", 2, true, false⟩,
  ⟨n!"Round", 2, true, true⟩, ⟨n!"LatestTimestamp", 2, true, true⟩, ⟨n!"CurrentApplicationID", 2, true, true⟩,
  ⟨n!"CreatorAddress", 3, false, true⟩, ⟨n!"CurrentApplicationAddress", 5, false, true⟩,
  ⟨n!"GroupID", 5, false, false⟩, ⟨n!"OpcodeBudget", 6, true, false⟩,
  ⟨n!"CallerApplicationID", 6, true, true⟩, ⟨n!"CallerApplicationAddress", 6, false, true⟩,
  ⟨n!"AssetCreateMinBalance", 10, true, false⟩, ⟨n!"AssetOptInMinBalance", 10, true, false⟩,
  ⟨n!"GenesisHash", 10, false, false⟩
]

def globalFieldNm? (name : Nm) : Option GlobalField := globalFields.find? (·.name == name)
def globalField? (name : String) : Option GlobalField := globalFieldNm? (Nm.ofString name)

/-! ### Other named immediates: (name, version, stack type is uint64) -/

structure SimpleField where
  name : Nm
  minV : Nat
  isUint : Bool
  deriving Repr, Inhabited

def simpleFields : FG → List SimpleField
  | .assetHolding => [⟨n!"AssetBalance", 2, true⟩, ⟨n!"AssetFrozen", 2, true⟩]
  | .assetParams => [
      ⟨n!"AssetTotal", 2, true⟩, ⟨n!"AssetDecimals", 2, true⟩, ⟨n!"AssetDefaultFrozen", 2, true⟩,
      ⟨n!"AssetUnitName", 2, false⟩, ⟨n!"AssetName", 2, false⟩, ⟨n!"AssetURL", 2, false⟩,
      ⟨n!"AssetMetadataHash", 2, false⟩, ⟨n!"AssetManager", 2, false⟩, ⟨n!"AssetReserve", 2, false⟩,
      ⟨n!"AssetFreeze", 2, false⟩, ⟨n!"AssetClawback", 2, false⟩, ⟨n!"AssetCreator", 5, false⟩]
  | .appParams => [
      ⟨n!"AppApprovalProgram", 5, false⟩, ⟨n!"AppClearStateProgram", 5, false⟩, ⟨n!"AppGlobalNumUint", 5, true⟩,
      ⟨n!"AppGlobalNumByteSlice", 5, true⟩, ⟨n!"AppLocalNumUint", 5, true⟩, ⟨n!"AppLocalNumByteSlice", 5, true⟩,
      ⟨n!"AppExtraProgramPages", 5, true⟩, ⟨n!"AppCreator", 5, false⟩, ⟨n!"AppAddress", 5, false⟩]
  | .acctParams => [
      ⟨n!"AcctBalance", 6, true⟩, ⟨n!"AcctMinBalance", 6, true⟩, ⟨n!"AcctAuthAddr", 6, false⟩,
      ⟨n!"AcctTotalNumUint", 8, true⟩, ⟨n!"AcctTotalNumByteSlice", 8, true⟩, ⟨n!"AcctTotalExtraAppPages", 8, true⟩,
      ⟨n!"AcctTotalAppsCreated", 8, true⟩, ⟨n!"AcctTotalAppsOptedIn", 8, true⟩, ⟨n!"AcctTotalAssetsCreated", 8, true⟩,
      ⟨n!"AcctTotalAssets", 8, true⟩, ⟨n!"AcctTotalBoxes", 8, true⟩, ⟨n!"AcctTotalBoxBytes", 8, true⟩]
  | .base64 => [⟨n!"URLEncoding", 7, false⟩, ⟨n!"StdEncoding", 7, false⟩]
  | .json => [⟨n!"JSONString", 7, false⟩, ⟨n!"JSONUint64", 7, true⟩, ⟨n!"JSONObject", 7, false⟩]
  | .ecdsa => [⟨n!"Secp256k1", 5, false⟩, ⟨n!"Secp256r1", 7, false⟩]
  | .vrf => [⟨n!"VrfAlgorand", 7, false⟩]
  | .block => [⟨n!"BlkSeed", 7, false⟩, ⟨n!"BlkTimestamp", 7, true⟩]
  | .ec => [⟨n!"BN254g1", 10, false⟩, ⟨n!"BN254g2", 10, false⟩, ⟨n!"BLS12_381g1", 10, false⟩, ⟨n!"BLS12_381g2", 10, false⟩]
  | _ => []

def simpleFieldNm? (g : FG) (name : Nm) : Option SimpleField := (simpleFields g).find? (·.name == name)
def simpleField? (g : FG) (name : String) : Option SimpleField := simpleFieldNm? g (Nm.ofString name)

/-- Names on which the spec is **unsettled** (PyTeal declares them, the reference assembler as we
    know it does not list them): accepted by `fieldMinV`, never alarmed on, and excluded from the
    agreement theorems.  `vrf_verify VrfChainlink` is declared by PyTeal for v7; the reference
    node's `vrf_verify` documents only `VrfAlgorand`. -/
def unsettled : List (FG × Nm × Nat) := [(.vrf, n!"VrfChainlink", 7)]

/-- the version from which `name` is accepted as an immediate of group `g` (none: never) -/
def fieldMinVNm (g : FG) (name : Nm) : Option Nat :=
  match g with
  | .txnScalar => match txnFieldNm? name with
    | some f => if f.isArray then none else some f.minV
    | none => none
  | .txnArray => match txnFieldNm? name with
    | some f => if f.isArray then some f.minV else none
    | none => none
  | .itxnSet => match txnFieldNm? name with
    | some f => if f.itxnV = 0 then none else some f.itxnV
    | none => none
  | .global => (globalFieldNm? name).map (·.minV)
  | g => match simpleFieldNm? g name with
    | some f => some f.minV
    | none => (unsettled.find? (fun u => u.1 == g && u.2.1 == name)).map (·.2.2)

def fieldMinV (g : FG) (name : String) : Option Nat := fieldMinVNm g (Nm.ofString name)

def fieldOK (g : FG) (v : Nat) (name : String) : Bool :=
  match fieldMinV g name with
  | some m => m ≤ v
  | none => false

end PyTealV.OpSpec
