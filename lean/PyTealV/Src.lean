/-
  Source semantics of PyTeal expression trees (trusted spec): what an expression *denotes*.
  Big-step, fuelled.  Opcode meaning is delegated to `Avm.execPrim`, so statements relating
  `Src.eval` and `Avm.run` are parametric in it.
-/
import PyTealV.Avm.Sem
namespace PyTealV.Src
open PyTealV PyTealV.Avm

/-- A variable is identified by its ScratchSlot id: requested ids are < 256 and are the slot
    actually used; automatically numbered ones are ≥ 256 (abstract cells). -/
abbrev Var := Nat

inductive Expr
  | int (n : Nat)
  | bytes (b : Bytes)
  | prim (op : String) (imms : List String) (args : List Expr)
  | load (v : Var)
  | store (v : Var) (e : Expr)
  | index (v : Var)
  | multi (op : String) (imms : List String) (args : List Expr) (outs : List Var)
  | seq (es : List Expr)
  | ite (c t : Expr) (e : Option Expr)
  | cond (arms : List (Expr × Expr))
  | while_ (c body : Expr)
  | for_ (init c step body : Expr)
  | brk
  | cont
  | assert_ (c : Expr)
  | ret (e : Option Expr)
  | exit (e : Expr)
  | err
  | call (f : Nat) (args : List Expr)
  | wideRatio (ns ds : List Expr)
  | substring (s a b : Expr)          -- Substring(s, start, end)  = s[start:end]
  | extract (s a l : Expr)            -- Extract(s, start, length) = s[start:start+length]
  | suffix (s a : Expr)               -- Suffix(s, start)          = s[start:]
  | note (e : Option Expr)            -- Comment / Pragma wrapper: no semantics of its own
  | nonce (b : Bytes) (e : Expr)      -- push-and-pop of the nonce bytes, then `e`
  deriving Repr, Inhabited

inductive ParamKind | val | ref deriving Repr, BEq, DecidableEq, Inhabited

structure SubDef where
  id : Nat
  name : String
  params : List (ParamKind × Var)    -- the variable the body reads the parameter from
  hasRet : Bool                      -- return type ≠ none
  body : Expr
  locals : List Var                  -- variables mentioned only by this routine
  reenters : List Nat                -- callees that may re-enter this routine (recursion points)
  deriving Repr, Inhabited

structure Prog where
  subs : List SubDef
  main : Expr
  mainLocals : List Var := []
  deriving Repr, Inhabited

inductive Res
  | vals (vs : List Val)          -- normal completion; head = last pushed
  | brk
  | cont
  | ret (v : Option Val)
  | exit (v : Val)
  | fail (f : Fail)
  deriving Repr, Inhabited

structure Env where
  cx : Ctx
  prog : Prog
  cur : Option Nat := none          -- current subroutine id

def findSub (p : Prog) (f : Nat) : Option SubDef := p.subs.find? (·.id == f)

/-- running product of a factor list in 128-bit arithmetic, as WideRatio specifies -/
def wideProd : List Nat → Option Nat
  | [] => some 1
  | x :: xs => xs.foldl (fun acc y => match acc with
      | some a => if a * y < two64 * two64 then some (a * y) else none
      | none => none) (some x)

mutual
  def eval (env : Env) : Nat → Expr → World → Res × World
    | 0, _, w => (.fail (.unmodelled "fuel"), w)
    | fuel+1, e, w =>
      match e with
      | .int n => (.vals [.u n], w)
      | .bytes b => (.vals [.b b], w)
      | .prim op imms args =>
        match evalArgs env fuel args w [] with
        | (.vals st, w1) =>
          (match execPrim env.cx op imms w1 st with
           | .ok (st', w2) => (.vals st', w2)
           | .error f => (.fail f, w1))
        | r => r
      | .load v => (.vals [getSlot w.scratch v], w)
      | .store v e =>
        (match eval env fuel e w with
         | (.vals [x], w1) => (.vals [], { w1 with scratch := setSlot w1.scratch v x })
         | (.vals _, w1) => (.fail (.typeErr "store of non-value"), w1)
         | r => r)
      | .index v => (.vals [.u v], w)
      | .multi op imms args outs =>
        (match evalArgs env fuel args w [] with
         | (.vals st, w1) =>
           (match execPrim env.cx op imms w1 st with
            | .ok (st', w2) =>
              if st'.length = outs.length then
                -- top of stack goes to the last output variable
                let sc := (outs.reverse.zip st').foldl (fun sc (p : Var × Val) => setSlot sc p.1 p.2) w2.scratch
                (.vals [], { w2 with scratch := sc })
              else (.fail (.typeErr "multi-value arity"), w2)
            | .error f => (.fail f, w1))
         | r => r)
      | .seq es => evalSeq env fuel es w
      | .ite c t e =>
        (match eval env fuel c w with
         | (.vals [.u n], w1) =>
           if n ≠ 0 then eval env fuel t w1
           else (match e with
             | some e => eval env fuel e w1
             | none => (.vals [], w1))
         | (.vals _, w1) => (.fail (.typeErr "condition not uint64"), w1)
         | r => r)
      | .cond arms => evalCond env fuel arms w
      | .while_ c body =>
        (match eval env fuel c w with
         | (.vals [.u n], w1) =>
           if n = 0 then (.vals [], w1) else
           (match eval env fuel body w1 with
            | (.vals _, w2) => eval env fuel (.while_ c body) w2
            | (.cont, w2) => eval env fuel (.while_ c body) w2
            | (.brk, w2) => (.vals [], w2)
            | r => r)
         | (.vals _, w1) => (.fail (.typeErr "condition not uint64"), w1)
         | (.brk, w1) => (.vals [], w1)
         | (.cont, w1) => eval env fuel (.while_ c body) w1
         | r => r)
      | .for_ init c step body =>
        (match eval env fuel init w with
         | (.vals _, w1) => evalForLoop env fuel c step body w1
         | (.brk, w1) => (.vals [], w1)
         | (.cont, w1) =>
           (match eval env fuel step w1 with
            | (.vals _, w2) => evalForLoop env fuel c step body w2
            | (.brk, w2) => (.vals [], w2)
            | r => r)
         | r => r)
      | .brk => (.brk, w)
      | .cont => (.cont, w)
      | .assert_ c =>
        (match eval env fuel c w with
         | (.vals [.u n], w1) => if n ≠ 0 then (.vals [], w1) else (.fail (.logic "assert failed"), w1)
         | (.vals _, w1) => (.fail (.typeErr "assert on non-uint64"), w1)
         | r => r)
      | .ret none => (.ret none, w)
      | .ret (some e) =>
        (match eval env fuel e w with
         | (.vals [x], w1) => (.ret (some x), w1)
         | (.vals _, w1) => (.fail (.typeErr "return of non-value"), w1)
         | r => r)
      | .exit e =>
        (match eval env fuel e w with
         | (.vals [x], w1) => (.exit x, w1)
         | (.vals _, w1) => (.fail (.typeErr "exit of non-value"), w1)
         | r => r)
      | .err => (.fail (.logic "err"), w)
      | .call f args =>
        (match findSub env.prog f with
         | none => (.fail (.illegal "unknown subroutine"), w)
         | some sd =>
           (match evalArgs env fuel args w [] with
            | (.vals st, w1) =>
              let argVals := st.reverse
              if argVals.length ≠ sd.params.length then (.fail (.typeErr "arity"), w1) else
              -- the caller's locals survive a call that may re-enter the caller
              let callerLocals : List Var := match env.cur with
                | some c => (match findSub env.prog c with
                  | some cd => if cd.reenters.contains f then cd.locals else []
                  | none => [])
                | none => []
              let saved := callerLocals.map (fun v => (v, getSlot w1.scratch v))
              let sc := (sd.params.zip argVals).foldl (fun sc (p : (ParamKind × Var) × Val) => setSlot sc p.1.2 p.2) w1.scratch
              let w2 := { w1 with scratch := sc }
              let (r, w3) := eval { env with cur := some f } fuel sd.body w2
              let restore (w : World) : World :=
                { w with scratch := saved.foldl (fun sc (p : Var × Val) => setSlot sc p.1 p.2) w.scratch }
              (match r with
               | .ret none => if sd.hasRet then (.fail (.typeErr "missing return value"), w3) else (.vals [], restore w3)
               | .ret (some v) => if sd.hasRet then (.vals [v], restore w3) else (.fail (.typeErr "unexpected return value"), w3)
               | .vals [] => if sd.hasRet then (.fail (.typeErr "missing return value"), w3) else (.vals [], restore w3)
               | .vals [v] => if sd.hasRet then (.vals [v], restore w3) else (.fail (.typeErr "unexpected value"), w3)
               | .vals _ => (.fail (.typeErr "routine left several values"), w3)
               | .brk | .cont => (.fail (.illegal "break/continue escaping a routine"), w3)
               | r => (r, w3))
            | r => r))
      | .wideRatio ns ds =>
        (match evalArgs env fuel (ns ++ ds) w [] with
         | (.vals st, w1) =>
           let vs := st.reverse
           (match vs.mapM (fun v => match v with | .u n => some n | _ => none) with
            | none => (.fail (.typeErr "WideRatio factor not uint64"), w1)
            | some xs =>
              let nn := xs.take ns.length
              let dd := xs.drop ns.length
              (match wideProd nn, wideProd dd with
               | some pn, some pd =>
                 if pd = 0 then (.fail (.logic "WideRatio division by zero"), w1)
                 else if pn / pd < two64 then (.vals [.u (pn / pd)], w1)
                 else (.fail (.logic "WideRatio overflow"), w1)
               | _, _ => (.fail (.logic "WideRatio product overflow"), w1)))
         | r => r)
      | .substring s a b => evalOp env fuel "substring3" [s, a, b] w
      | .extract s a l => evalOp env fuel "extract3" [s, a, l] w
      | .suffix s a => evalOp env fuel "suffix" [s, a] w
      | .note none => (.vals [], w)
      | .note (some e) => eval env fuel e w
      | .nonce _ e => eval env fuel e w

  /-- operands left to right, then the opcode's meaning -/
  def evalOp (env : Env) : Nat → String → List Expr → World → Res × World
    | 0, _, _, w => (.fail (.unmodelled "fuel"), w)
    | fuel+1, op, args, w =>
      match evalArgs env fuel args w [] with
      | (.vals st, w1) =>
        (match execPrim env.cx op [] w1 st with
         | .ok (st', w2) => (.vals st', w2)
         | .error f => (.fail f, w1))
      | r => r

  /-- evaluate operands left to right, accumulating the operand stack (head = last) -/
  def evalArgs (env : Env) : Nat → List Expr → World → List Val → Res × World
    | 0, _, w, _ => (.fail (.unmodelled "fuel"), w)
    | _, [], w, acc => (.vals acc, w)
    | fuel+1, e :: es, w, acc =>
      match eval env fuel e w with
      | (.vals vs, w1) => evalArgs env fuel es w1 (vs ++ acc)
      | r => r

  def evalSeq (env : Env) : Nat → List Expr → World → Res × World
    | 0, _, w => (.fail (.unmodelled "fuel"), w)
    | _, [], w => (.vals [], w)
    | fuel+1, [e], w => eval env fuel e w
    | fuel+1, e :: es, w =>
      match eval env fuel e w with
      | (.vals _, w1) => evalSeq env fuel es w1
      | r => r

  def evalCond (env : Env) : Nat → List (Expr × Expr) → World → Res × World
    | 0, _, w => (.fail (.unmodelled "fuel"), w)
    | _, [], w => (.fail (.logic "err"), w)
    | fuel+1, (c, b) :: rest, w =>
      match eval env fuel c w with
      | (.vals [.u n], w1) => if n ≠ 0 then eval env fuel b w1 else evalCond env fuel rest w1
      | (.vals _, w1) => (.fail (.typeErr "condition not uint64"), w1)
      | r => r

  def evalForLoop (env : Env) : Nat → Expr → Expr → Expr → World → Res × World
    | 0, _, _, _, w => (.fail (.unmodelled "fuel"), w)
    | fuel+1, c, step, body, w =>
      match eval env fuel c w with
      | (.vals [.u n], w1) =>
        if n = 0 then (.vals [], w1) else
        let afterBody (w2 : World) : Res × World :=
          match eval env fuel step w2 with
          | (.vals _, w3) => evalForLoop env fuel c step body w3
          | (.brk, w3) => (.vals [], w3)
          | (.cont, w3) => (.fail (.unmodelled "continue inside For step"), w3)
          | r => r
        (match eval env fuel body w1 with
         | (.vals _, w2) => afterBody w2
         | (.cont, w2) => afterBody w2
         | (.brk, w2) => (.vals [], w2)
         | r => r)
      | (.vals _, w1) => (.fail (.typeErr "condition not uint64"), w1)
      | (.brk, w1) => (.vals [], w1)
      | (.cont, w1) => (.fail (.unmodelled "continue inside For condition"), w1)
      | r => r
end

/-- Whole-program outcome in the vocabulary of `Avm.Outcome`. -/
def runProg (cx : Ctx) (p : Prog) (fuel : Nat) (w0 : World := {}) : Outcome :=
  match eval { cx := cx, prog := p } fuel p.main w0 with
  | (.exit v, w) => (match v with
      | .u _ => .done v w
      | .b _ => .fail (.typeErr "return of bytes"))
  | (.ret (some v), w) => (match v with
      | .u _ => .done v w
      | .b _ => .fail (.typeErr "return of bytes"))
  | (.vals [v], w) => (match v with            -- implicit Return(ast)
      | .u _ => .done v w
      | .b _ => .fail (.typeErr "return of bytes"))
  | (.fail (.unmodelled "fuel"), _) => .outOfFuel
  | (.fail f, _) => .fail f
  | (_, _) => .fail (.illegal "main routine ended without a value")

end PyTealV.Src
