/-
  C03 — model of the scratch-slot optimiser, pyteal/compiler/optimizer/optimizer.py
  (`apply_global_optimizations`, `_apply_slot_to_stack`, `_has_load_dependencies`,
  `_remove_extraneous_slot_access`), of `TealBlock.Iterate`, and of
  `collect_unoptimized_slots` (pyteal/compiler/scratchslots.py).

  What is abstracted
  * A routine is a `Comp.Graph` (array of blocks; a block is identified by its index, which
    stands for the identity of the Python object: `_has_load_dependencies` skips the candidate
    load with `block is cur_block and i == pos`).  `succ = .none | .next b` is a
    `TealSimpleBlock` (`nextBlock` None / set), `succ = .cond t f` a `TealConditionalBlock` with
    both branches set (what the compiler builds; a conditional block with a missing branch is
    not representable — the optimiser only looks at `getOutgoing()`).  An index outside the array
    stands for an empty block without successor (Python graphs have no such thing).
  * `.load s` / `.store s` are `TealOp(_, Op.load/Op.store, slot)`; the number `s` is the
    *identity* of the `ScratchSlot` object (ScratchSlot defines neither `__eq__` nor `__hash__`:
    `slot in set(..)`, `issubset`, `!=` are identity based).  load/store ops with a number of
    slot arguments other than one (Python: `TealInternalError`) are not representable; PyTeal's
    AST never builds them.  Every other instruction is an op that is neither load nor store.
  * `prev_ops == block.ops` compares a list with a filtered copy of itself (same objects), so it
    is true exactly when nothing was deleted from the block; the model compares the op lists.
-/
import PyTealV.Comp.Graph
import PyTealV.Models.Slots
namespace PyTealV.Models.Optimizer
open PyTealV PyTealV.Avm PyTealV.Comp

/-- block `b`; an index outside the array is an empty block without successor -/
def blk (G : Graph) (b : Nat) : Block := (G[b]?).getD {}

/-- `getOutgoing` -/
def targets : Succ → List Nat
  | .none => []
  | .next b => [b]
  | .cond t f => [t, f]

/-! ### TealBlock.Iterate -/

/-- `for nextBlock in nextBlocks: if not is_in_visited(nextBlock): visited.append; queue.append` -/
def enqueue : List Nat → List Nat × List Nat → List Nat × List Nat
  | [], qv => qv
  | c :: cs, (q, vis) => if c ∈ vis then enqueue cs (q, vis) else enqueue cs (q ++ [c], vis ++ [c])

/-- the `while len(queue) != 0` loop; the result lists the blocks in the order they are yielded -/
def bfsGo (succs : Nat → List Nat) : Nat → List Nat → List Nat → List Nat
  | 0, _, _ => []
  | _ + 1, [], _ => []
  | fuel + 1, w :: q, vis =>
    let qv := enqueue (succs w) (q, vis)
    w :: bfsGo succs fuel qv.1 qv.2

/-- `TealBlock.Iterate(start)` for a graph of `n` blocks with successor function `succs`.  At
    most `2n+1` blocks are ever enqueued (the start and the successors of the `n` blocks), so
    the fuel never runs out (`Proofs/C03OptLemmas: bfs_closed`). -/
def bfs (succs : Nat → List Nat) (n : Nat) (start : Nat) : List Nat :=
  bfsGo succs (2 * n + 2) [start] [start]

def gsuccs (G : Graph) (b : Nat) : List Nat := targets (blk G b).succ
/-- the blocks of the routine, in `TealBlock.Iterate(start)` order -/
def reach (G : Graph) (start : Nat) : List Nat := bfs (gsuccs G) G.size start

/-! ### _has_load_dependencies -/

/-- the inner `for i, op in enumerate(block.ops)`; `same` is `block is cur_block` -/
def scanOps (same : Bool) (s pos : Nat) : Nat → List Instr → Bool
  | _, [] => false
  | i, x :: rest =>
    if same && i == pos then scanOps same s pos (i + 1) rest
    else if x == .load s then true
    else scanOps same s pos (i + 1) rest

/-- `_has_load_dependencies(cur_block, start, slot, pos)`; `order` is `Iterate(start)` -/
def hasLoadDeps (G : Graph) (cur s pos : Nat) (order : List Nat) : Bool :=
  order.any (fun b => scanOps (b == cur) s pos 0 (blk G b).ops)

/-! ### _remove_extraneous_slot_access -/

/-- `keep_op` -/
def keepOp (remove : List Nat) : Instr → Bool
  | .load s => !(remove.contains s)
  | .store s => !(remove.contains s)
  | _ => true

def mapIdxFrom {α β} (f : Nat → α → β) : Nat → List α → List β
  | _, [] => []
  | i, a :: l => f i a :: mapIdxFrom f (i + 1) l

/-- `for block in TealBlock.Iterate(start): block.ops = list(filter(keep_op, block.ops))`
    (`order` is `Iterate(start)`; blocks of the array outside it are left alone) -/
def removeAccess (remove order : List Nat) (G : Graph) : Graph :=
  ⟨mapIdxFrom (fun i (b : Block) =>
      if order.contains i then { b with ops := b.ops.filter (keepOp remove) } else b) 0 G.toList⟩

/-! ### _apply_slot_to_stack -/

/-- the loop `for i, op in enumerate(cur_block.ops[:-1])`: the slots put into `slots_to_remove`
    (a store outside `skip` directly followed by a load of the same slot that has no load
    dependency); the first argument is `i`, the second `cur_block.ops[i:]` -/
def candidates (skip : List Nat) (G : Graph) (order : List Nat) (cur : Nat) : Nat → List Instr → List Nat
  | _, [] => []
  | i, x :: rest =>
    match x, rest with
    | .store a, .load b :: _ =>
      if skip.contains a then candidates skip G order cur (i + 1) rest
      else if a ≠ b then candidates skip G order cur (i + 1) rest
      else if hasLoadDeps G cur a (i + 1) order then candidates skip G order cur (i + 1) rest
      else a :: candidates skip G order cur (i + 1) rest
    | _, _ => candidates skip G order cur (i + 1) rest

/-- `_apply_slot_to_stack(cur_block, start, skip_slots)`: the new graph and `slots_to_remove` -/
def applySlotToStack (skip order : List Nat) (cur : Nat) (G : Graph) : Graph × List Nat :=
  let S := candidates skip G order cur 0 (blk G cur).ops
  (removeAccess S order G, S)

/-! ### apply_global_optimizations -/

/-- `for _ in range(len(block.ops))` (the bound is evaluated once): repeat
    `_apply_slot_to_stack` until `prev_ops == block.ops`; the second component accumulates
    every slot removed -/
def loopBlock (skip order : List Nat) (cur : Nat) : Nat → Graph × List Nat → Graph × List Nat
  | 0, st => st
  | n + 1, (G, acc) =>
    let r := applySlotToStack skip order cur G
    if (blk G cur).ops = (blk r.1 cur).ops then (r.1, acc ++ r.2)
    else loopBlock skip order cur n (r.1, acc ++ r.2)

/-- the outer `for block in TealBlock.Iterate(start)` -/
def outerLoop (skip order : List Nat) : List Nat → Graph × List Nat → Graph × List Nat
  | [], st => st
  | b :: rest, (G, acc) =>
    outerLoop skip order rest (loopBlock skip order b (blk G b).ops.length (G, acc))

/-- `apply_global_optimizations(start, options, version)` with
    `options.optimize_scratch_slots(version)` true and `options._skip_slots = skip`: the
    optimised graph and the list of all slots whose accesses were removed.
    (`Iterate` is evaluated once: the pass never changes a successor, so every later
    `Iterate(start)` of the Python code yields the same blocks — `reach_removeAccess`.) -/
def slotToStackS (skip : List Nat) (G : Graph) (start : Nat) : Graph × List Nat :=
  let order := reach G start
  outerLoop skip order order (G, [])

/-- the optimised routine -/
def slotToStack (skip : List Nat) (G : Graph) (start : Nat) : Graph := (slotToStackS skip G start).1

/-- the slots whose accesses `slotToStack` removes -/
def removedSlots (skip : List Nat) (G : Graph) (start : Nat) : List Nat := (slotToStackS skip G start).2

/-! ### hypotheses of the soundness theorem (decidable) -/

/-- every access to a slot of `S` in an op list is the `store s` of an adjacent
    `store s; load s` pair or the `load s` of such a pair -/
def pairsOK (S : List Nat) : List Instr → Bool
  | [] => true
  | x :: rest =>
    match x with
    | .store a =>
      if S.contains a then
        (match rest with
         | .load b :: rest' => a == b && pairsOK S rest'
         | _ => false)
      else pairsOK S rest
    | .load b => !(S.contains b) && pairsOK S rest
    | _ => pairsOK S rest

/-- `pairsOK` for every block of the routine -/
def pairsOnly (G : Graph) (start : Nat) (S : List Nat) : Bool :=
  (reach G start).all (fun b => pairsOK S (blk G b).ops)

/-- opcodes that address scratch space through a run-time value (the AVM's `loads` / `stores`
    and the source-level `vloads` / `vstores` of the AVM model) -/
def dynScratchOps : List String := ["loads", "stores", "vloads", "vstores"]

/-- the opcodes of `Avm.execPrim` that neither read nor write scratch space
    (`Proofs/C03OptFrame: execPrim_frame`): every opcode of the model except `dynScratchOps` -/
def framedOps : List String :=
  ["+", "-", "*", "/", "%", "<", ">", "<=",
   ">=", "&&", "||", "==", "!=", "!", "~", "&",
   "|", "^", "shl", "shr", "sqrt", "bitlen", "exp", "mulw",
   "addw", "expw", "divw", "len", "itob", "btoi", "concat", "substring",
   "substring3", "extract", "extract3", "extract_uint16", "extract_uint32", "extract_uint64", "getbit", "setbit",
   "getbyte", "setbyte", "bzero", "replace2", "replace3", "base64_decode", "b+", "b-",
   "b*", "b/", "b%", "b<", "b>", "b<=", "b>=", "b==",
   "b!=", "b|", "b&", "b^", "b~", "bsqrt", "sha256", "keccak256",
   "sha512_256", "sha3_256", "ed25519verify", "ed25519verify_bare", "pop", "dup", "dup2", "swap",
   "select", "dig", "bury", "cover", "uncover", "popn", "dupn", "assert",
   "txn", "txna", "txnas", "gtxn", "gtxna", "gtxnas", "gtxns", "gtxnsa",
   "gtxnsas", "global", "arg", "arg_0", "arg_1", "arg_2", "arg_3", "args",
   "app_global_get", "app_global_get_ex", "app_global_put", "app_global_del", "app_local_get", "app_local_get_ex", "app_local_put", "app_local_del",
   "app_opted_in", "balance", "min_balance", "asset_holding_get", "asset_params_get", "app_params_get", "acct_params_get", "log",
   "box_create", "box_put", "box_get", "box_len", "box_del", "box_extract", "box_replace", "itxn_begin",
   "itxn_next", "itxn_field", "itxn_submit", "itxn", "suffix", "divmodw"]

def isFramed : Instr → Bool
  | .prim n _ => framedOps.contains n
  | _ => true

/-- every `prim` op of the routine is in `framedOps`: in particular no op of the routine
    addresses scratch space dynamically -/
def primsFramed (G : Graph) (start : Nat) : Bool :=
  (reach G start).all (fun b => (blk G b).ops.all isFramed)

/-! ### collect_unoptimized_slots -/

/-- `collect_unoptimized_slots(subroutineBlocks)` on the op lists of the routines in
    `TealBlock.Iterate` order (the abstraction of Models/Slots: slot objects, opcode classes):
    slots referenced by an `int` op (`ScratchSlot.index()`, i.e. DynamicScratchVar), reserved
    slots, and slots referenced by more than one routine. -/
def unoptimizedSlots (p : Slots.Program) : List Slots.Slot := Slots.unoptimizedSlots p

/-- a routine given as a graph of `Slots.Op`s -/
structure SGraph where
  blocks : Array (List Slots.Op × Succ)
  start : Nat
  deriving Repr

/-- ops of a routine in `Iterate` order -/
def SGraph.flatten (g : SGraph) : List Slots.Op :=
  (bfs (fun b => targets ((g.blocks[b]?).getD ([], .none)).2) g.blocks.size g.start).flatMap
    (fun b => ((g.blocks[b]?).getD ([], .none)).1)

/-- `collect_unoptimized_slots` on routine graphs (`subroutineBlocks` in dict order) -/
def unoptimizedSlotsG (rs : List (Slots.Key × SGraph)) : List Slots.Slot :=
  unoptimizedSlots (rs.map (fun r => (r.1, r.2.flatten)))

/-- the skip set handed to `slotToStack`: identities of the unoptimised slots -/
def skipOf (rs : List (Slots.Key × SGraph)) : List Nat := (unoptimizedSlotsG rs).map (·.obj)

end PyTealV.Models.Optimizer
