/-
  Translation validation for `assembleConstants`: a decidable relation between two parsed TEAL
  programs (`Avm.Program`) saying that the second is the first with (a) an `intcblock` and/or a
  `bytecblock` declaration prepended and (b) some `int`/`byte`-like pushes replaced by references
  into those blocks that hold the same value.  `PyTealV.Proofs.C12Run.assembled_run_eq` proves
  that related programs have the same outcome on every context, world and fuel.
-/
import PyTealV.Avm.Syntax
namespace PyTealV.Models.ConstantsTV
open PyTealV PyTealV.Avm

/-- may line `a` of the plain program appear as line `b` of the assembled one? -/
def lineOkB (IB : List Nat) (BB : List Bytes) (a b : Line) : Bool :=
  match a.instr with
  | .intcblock _ | .bytecblock _ | .intc _ | .bytec _ => false      -- the plain program declares/uses no blocks
  | .pushInt n =>
    decide (b.instr = .pushInt n) ||
      (match b.instr with | .intc k => decide (IB[k]? = some n) | _ => false)
  | .pushBytes x =>
    decide (b.instr = .pushBytes x) ||
      (match b.instr with | .bytec k => decide (BB[k]? = some x) | _ => false)
  | i => decide (b.instr = i)

def allOk (IB : List Nat) (BB : List Bytes) : List Line → List Line → Bool
  | [], [] => true
  | a :: as, b :: bs => lineOkB IB BB a b && allOk IB BB as bs
  | _, _ => false

def isPragma (l : Line) : Bool := match l.instr with | .pragma _ _ => true | _ => false

/-- lines that only declare: `#pragma`, `intcblock`, `bytecblock` -/
def isDecl (l : Line) : Bool :=
  match l.instr with | .pragma _ _ | .intcblock _ | .bytecblock _ => true | _ => false

/-- the constant blocks in force after a run of declaration lines (a later block replaces an earlier one) -/
def declBlocks : List Line → List Nat × List Bytes → List Nat × List Bytes
  | [], acc => acc
  | l :: r, acc =>
    match l.instr with
    | .intcblock vs => declBlocks r (vs, acc.2)
    | .bytecblock vs => declBlocks r (acc.1, vs)
    | _ => declBlocks r acc

/-- `some (m, n)`: after its `m` leading `#pragma` lines the plain program `p` is, line for line, the
    assembled program `q` after its `n` leading declaration lines (same pragmas, plus the blocks), with
    constant pushes possibly replaced by references into the declared blocks that hold the same value -/
def checkAssembled (p q : Program) : Option (Nat × Nat) :=
  let hp := p.toList.takeWhile isPragma
  let hq := q.toList.takeWhile isDecl
  let blocks := declBlocks hq ([], [])
  if (hq.filter isPragma).map (·.instr) = hp.map (·.instr) ∧
     allOk blocks.1 blocks.2 (p.toList.drop hp.length) (q.toList.drop hq.length) = true
  then some (hp.length, hq.length) else none

end PyTealV.Models.ConstantsTV
