/-
  C10 — model of pyteal/compiler/scratchslots.py (`collectScratchSlots`,
  `assignScratchSlotsToSubroutines`, `collect_unoptimized_slots`) and of
  `alloc_abstract_var` (pyteal/ast/abstractvar.py).

  What is abstracted
  * A `ScratchSlot` *object* is a record `⟨obj, id, reserved⟩`.  `obj` is the identity of the
    Python object (`ScratchSlot` defines neither `__eq__` nor `__hash__`, so every Python `set`
    / `dict` of slots and the `slot == arg` of `TealOp.assignSlot` are identity based); `id` is
    `slot.id`, `reserved` is `slot.isReservedSlot`.  Two different objects may carry the same
    `id` (two `ScratchSlot(5)`; automatic ids after `ScratchSlot.reset_slot_numbering()`), and
    an automatic slot may have an id below 256 (after `reset_slot_numbering(0)`).
  * A `TealOp` is its opcode class (`load`, `store`, `int`, anything else) and its argument
    list; an argument is a slot object or something else (an already literal number).
  * A routine is the list of its ops in `TealBlock.Iterate` order; the program is the list of
    `(key, ops)` in the iteration order of the `subroutineBlocks` dict (`none` = main routine).
    `validateSlots` is path sensitive on branching graphs; the model implements it for the
    straight-line case (a chain of simple blocks), which is what the harness builds.
  * Python sets are duplicate-free lists.  CPython's iteration order of a set of slot objects
    is address dependent; the model uses first-occurrence order.  The order only matters for
    the tie-break of `sorted(allSlots, key=id)` among slots with *equal* ids; every theorem of
    Proofs/C10 about the numbering loop is proved for an arbitrary duplicate-free order.
-/
namespace PyTealV.Models.Slots

/-- pyteal/config.py -/
def NUM_SLOTS : Nat := 256
/-- pyteal/ast/frame.py -/
def MAX_FRAME_LOCAL_VARS : Nat := 128

structure Slot where
  obj : Nat
  id : Nat
  reserved : Bool
  deriving DecidableEq, Repr, Inhabited

inductive OpKind | load | store | int | other
  deriving DecidableEq, Repr, Inhabited

inductive Arg
  | slot (s : Slot)
  | imm (n : Nat)
  deriving DecidableEq, Repr, Inhabited

structure Op where
  kind : OpKind
  args : List Arg
  deriving DecidableEq, Repr, Inhabited

/-- `None` (main routine) or a subroutine, named by a number -/
abbrev Key := Option Nat
abbrev Routine := Key × List Op
abbrev Program := List Routine

inductive Err
  /-- "Slot ID {} has been assigned multiple times" -/
  | dupRequested
  /-- "Too many slots in use: {}, maximum is {}" -/
  | tooMany (n : Nat)
  /-- "Encountered {} error{} when assigning slots to subroutine" (load before store) -/
  | loadBeforeStore
  /-- `slotAssignments[slot]` raising KeyError (proved impossible: `assign_no_keyError`) -/
  | keyError
  deriving DecidableEq, Repr, Inhabited

/-! ### Python sets as duplicate-free lists -/

/-- `set(l)` keeping the first occurrence of each element -/
def dedup {α} [DecidableEq α] : List α → List α
  | [] => []
  | a :: l => a :: (dedup l).filter (fun x => decide (x ≠ a))

/-- `a | b` -/
def union {α} [DecidableEq α] (a b : List α) : List α := a ++ (dedup b).filter (fun x => decide (x ∉ a))
/-- `a & b` -/
def inter {α} [DecidableEq α] (a b : List α) : List α := a.filter (fun x => decide (x ∈ b))
/-- `a - b` -/
def diff {α} [DecidableEq α] (a b : List α) : List α := a.filter (fun x => decide (x ∉ b))
/-- `set().union(*ls)` -/
def unionAll {α} [DecidableEq α] (ls : List (List α)) : List α := ls.foldl union []

/-! ### collectScratchSlots -/

/-- `TealOp.getSlots` -/
def Op.slots (op : Op) : List Slot :=
  op.args.filterMap (fun a => match a with | .slot s => some s | .imm _ => none)

/-- the set built by `collectSlotsFromBlock` over all blocks of one routine -/
def routineSlots (ops : List Op) : List Slot := dedup (ops.flatMap Op.slots)

/-- the second loop of `collectScratchSlots`: `before` are the entries already visited,
    the second argument the entries still to visit, `g` the running `global_slots` -/
def collectGo (before : List (Key × List Slot)) :
    List (Key × List Slot) → List Slot → List Slot × List (Key × List Slot)
  | [], g => (g, [])
  | (k, slots) :: rest, g =>
    -- `subroutine is not otherSubroutine`: every other entry of the dict
    let allOther := unionAll ((before ++ rest).map (·.2))
    let g' := union g (inter slots allOther)
    let r := collectGo (before ++ [(k, slots)]) rest g'
    (r.1, (k, diff slots g') :: r.2)

/-- `collectScratchSlots`: (global_slots, local_slots) -/
def collectSlots (p : Program) : List Slot × List (Key × List Slot) :=
  collectGo [] (p.map (fun r => (r.1, routineSlots r.2))) []

/-- `allSlots = global_slots | set().union(*local_slots.values())` -/
def allSlots (p : Program) : List Slot :=
  let c := collectSlots p
  union c.1 (unionAll (c.2.map (·.2)))

/-- `collect_unoptimized_slots`: slots used by an `int` op (DynamicScratchVar / index()),
    reserved slots, global slots -/
def unoptimizedSlots (p : Program) : List Slot :=
  let fromOps := dedup ((p.flatMap (·.2)).flatMap (fun op =>
    op.slots.filter (fun s => op.kind == .int || s.reserved)))
  union fromOps (collectSlots p).1

/-! ### assignScratchSlotsToSubroutines -/

/-- first loop: collect the requested ids, raising on a repeated one; `ids` is `slotIds` -/
def reservedIdsCheck : List Slot → List Nat → Except Err (List Nat)
  | [], ids => .ok ids
  | s :: rest, ids =>
    if !s.reserved then reservedIdsCheck rest ids
    else if s.id ∈ ids then .error .dupRequested
    else reservedIdsCheck rest (s.id :: ids)

/-- `TealBlock.validateSlots` of a straight-line routine: number of
    "Scratch slot load occurs before store" errors -/
def validateOps : List Slot → List Op → Nat
  | _, [] => 0
  | inUse, op :: rest =>
    let inUse' := if op.kind = .store then op.slots.reverse ++ inUse else inUse
    let errs := if op.kind = .load then (op.slots.filter (fun s => decide (s ∉ inUse'))).length else 0
    errs + validateOps inUse' rest

def listMax (l : List Nat) : Nat := l.foldr max 0

/-- `while nextSlotIndex in slotIds: nextSlotIndex += 1`, with explicit fuel -/
def skipUsed (used : List Nat) : Nat → Nat → Nat
  | 0, n => n
  | fuel + 1, n => if n ∈ used then skipUsed used fuel (n + 1) else n

/-- the `while` loop; the fuel `max(slotIds)+1-n` is always sufficient (`nextFree_not_mem`) -/
def nextFree (used : List Nat) (n : Nat) : Nat := skipUsed used (listMax used + 1 - n) n

/-- the loop `for slot in sorted(allSlots, key=lambda slot: slot.id)` as a recursion over the
    sorted slots; `next` is `nextSlotIndex`, `used` is `slotIds`; the result lists the
    `slotAssignments[slot] = …` writes in the order they happen -/
def numberGo (next : Nat) (used : List Nat) : List Slot → List (Slot × Nat)
  | [] => []
  | s :: rest =>
    -- `while nextSlotIndex in slotIds: nextSlotIndex += 1`  (runs for reserved slots too)
    let next' := nextFree used next
    if s.reserved then (s, s.id) :: numberGo next' used rest
    else (s, next') :: numberGo next' (next' :: used) rest

/-- the numbering loop: `ids` are the requested ids (`slotIds`), `order` the sorted slots -/
def numberLoop (ids : List Nat) (order : List Slot) : List (Slot × Nat) := numberGo 0 ids order

/-- insert `x` before the first element whose id is not smaller -/
def insertById (x : Slot) : List Slot → List Slot
  | [] => [x]
  | y :: l => if x.id ≤ y.id then x :: y :: l else y :: insertById x l

/-- `sorted(allSlots, key=lambda slot: slot.id)`: a stable sort (insertion sort; slots with equal
    ids keep the order they have in the list standing for the set) -/
def sortById (l : List Slot) : List Slot := l.foldr insertById []

/-- `slotAssignments[slot]` -/
def lookupSlot (asg : List (Slot × Nat)) (s : Slot) : Except Err Nat :=
  match asg.find? (fun e => e.1 = s) with
  | some e => .ok e.2
  | none => .error .keyError

/-- `for slot in op.getSlots(): op.assignSlot(slot, slotAssignments[slot])` : every argument
    that is that slot object is replaced by the number -/
def rewriteArgs (asg : List (Slot × Nat)) : List Arg → Except Err (List Arg)
  | [] => .ok []
  | .imm n :: rest => do let r ← rewriteArgs asg rest; pure (.imm n :: r)
  | .slot s :: rest => do
    let n ← lookupSlot asg s
    let r ← rewriteArgs asg rest
    pure (.imm n :: r)

def rewriteOps (asg : List (Slot × Nat)) : List Op → Except Err (List Op)
  | [] => .ok []
  | op :: rest => do
    let a ← rewriteArgs asg op.args
    let r ← rewriteOps asg rest
    pure ({ kind := op.kind, args := a } :: r)

def rewriteProgram (asg : List (Slot × Nat)) : Program → Except Err Program
  | [] => .ok []
  | (k, ops) :: rest => do
    let o ← rewriteOps asg ops
    let r ← rewriteProgram asg rest
    pure ((k, o) :: r)

def lookupAll (asg : List (Slot × Nat)) : List Slot → Except Err (List Nat)
  | [] => .ok []
  | s :: rest => do
    let n ← lookupSlot asg s
    let r ← lookupAll asg rest
    pure (n :: r)

/-- `assignedLocalSlots[subroutine] = set(slotAssignments[slot] for slot in slots)` -/
def assignedLocals (asg : List (Slot × Nat)) : List (Key × List Slot) → Except Err (List (Key × List Nat))
  | [] => .ok []
  | (k, slots) :: rest => do
    let ns ← lookupAll asg slots
    let r ← assignedLocals asg rest
    pure ((k, dedup ns) :: r)

structure Result where
  /-- `slotAssignments` -/
  assignment : List (Slot × Nat)
  /-- the ops after `assignSlot` -/
  program : Program
  /-- the returned dict -/
  localSets : List (Key × List Nat)
  deriving Repr, DecidableEq

/-- `for subroutine, start in subroutineBlocks.items(): start.validateSlots(slotsInUse=global_slots)` -/
def validateAll (g : List Slot) (p : Program) : Bool :=
  p.all (fun r => validateOps g r.2 == 0)

/-- `assignScratchSlotsToSubroutines` with the sorting function as a parameter (`sortf` stands
    for `sorted(·, key=id)` applied to CPython's iteration order of the set `allSlots`); the
    order of the checks is the order of the `raise` statements in the code -/
def assignWith (sortf : List Slot → List Slot) (p : Program) : Except Err Result :=
  let c := collectSlots p
  let all := allSlots p
  match reservedIdsCheck all [] with
  | .error e => .error e
  | .ok ids =>
    if all.length > NUM_SLOTS then .error (.tooMany all.length)
    else if validateAll c.1 p = false then .error .loadBeforeStore
    else
      let asg := numberLoop ids (sortf all)
      match rewriteProgram asg p with
      | .error e => .error e
      | .ok prog =>
        match assignedLocals asg c.2 with
        | .error e => .error e
        | .ok locals => .ok { assignment := asg, program := prog, localSets := locals }

/-- `assignScratchSlotsToSubroutines` -/
def assignSlots (p : Program) : Except Err Result := assignWith sortById p

/-- the number the assignment gives to a slot object -/
def Result.number (r : Result) (s : Slot) : Option Nat :=
  (r.assignment.find? (fun e => e.1 = s)).map (·.2)

/-! ### alloc_abstract_var -/

inductive VarAlloc
  | frame (index : Nat)
  | scratch
  deriving DecidableEq, Repr

/-- `alloc_abstract_var`: `proto` is `len(SubroutineEval._current_proto.mem_layout.local_stack_types)`
    or `none` when no proto is current; returns the variable and the new length -/
def allocAbstractVar (proto : Option Nat) : VarAlloc × Option Nat :=
  match proto with
  | some n => if n + 1 ≤ MAX_FRAME_LOCAL_VARS then (.frame n, some (n + 1)) else (.scratch, some n)
  | none => (.scratch, none)

/-- `m` successive allocations -/
def allocMany : Nat → Option Nat → List VarAlloc
  | 0, _ => []
  | m + 1, proto => let r := allocAbstractVar proto; r.1 :: allocMany m r.2

end PyTealV.Models.Slots
