/-
  C11 — a state machine of PyTeal's PROCESS-GLOBAL state, with the API operations that read or
  write it.

  Modelled state (Python side in brackets)
  * `nextSlotId`        [`ScratchSlot.nextSlotId`, pyteal/ast/scratch.py:18; never reset here:
                         `ScratchSlot.reset_slot_numbering` is called only by `__probe_info`,
                         `_new_abi_instance_from_storage` and `Router._cleaning_context`, to REWIND]
  * `nextSubroutineId`  [`SubroutineDefinition.nextSubroutineId`, subroutine.py:99]
  * `currentProto`      [`SubroutineEval._current_proto`, subroutine.py:925; written only by
                         `_frame_pointer_context` (subroutine.py:840-849), which restores it in a
                         `finally:` (commit 6bedda4; before that a raising body left it set, see
                         `evaluateOld`); read by `alloc_abstract_var` (abstractvar.py:59), i.e. by
                         every ABI value constructor]
  * per definition: the declaration caches `option_map[False/True]` and the `has_return/type_of`
    memo of `_SubroutineDeclByOption` (subroutine.py:25-88)
  * `templates`         [`Tmpl._session_templates`, tmpl.py:23 — written by every `Tmpl`, read by
                         nothing the compiler does; it is state, but no input of `compile`]
  Feature gates (`feature_gates/__init__.py`) are switches the user sets, not state the API
  mutates; they are an explicit input of the harness sessions, not of this model.

  Objects are named by the caller (`Name`); an operation that creates an object binds its name
  (shadowing an older binding: a Python variable being re-assigned).  `nextObj` numbers the
  `ScratchSlot` objects (their Python identity, `Slots.Slot.obj`); it is bookkeeping of the
  model, not Python state.

  A definition is described by what ONE evaluation of its Python body does (`DefInfo`): how many
  parameters it has, how many `ScratchVar()`s and ABI values the body creates, whether it has an
  ABI output, and whether the body raises under either calling convention.

  Restrictions of the model (named, not hidden): a program is FLAT — a main routine that
  references scratch variables, ABI values and subroutines, whose bodies reference only what they
  create themselves (no subroutine calling another one, hence no nested declaration evaluation);
  a body creates its `ScratchVar`s first, then its ABI values, and raises (if it does) after that;
  ABI values are one-slot values (`abi.Uint64()`); the clear-state program of a router is `Approve()`.

  `compile` maps the objects of a program to the part of the TEAL text that can depend on global
  state: the number given to every slot object (through `Slots.assignSlots`, the C10 model of
  `assignScratchSlotsToSubroutines`), the label index of every subroutine (`resolveSubroutines`:
  position in `sorted(..., key=id)`), and where every ABI value lives (scratch slot, or frame
  index when `currentProto` was set while it was created).
-/
import PyTealV.Models.Slots
namespace PyTealV.Models.Session
open PyTealV.Models.Slots

abbrev Name := Nat

/-- calling convention of a declaration: `option_map[False]` / `option_map[True]` -/
inductive Flavour | scratch | fp
  deriving DecidableEq, Repr, Inhabited

/-- what one evaluation of the Python implementation of a subroutine does -/
structure DefInfo where
  /-- parameters (by value or ABI typed: one argument `ScratchVar` each under the scratch
      convention, frame-dug under frame pointers) -/
  params : Nat
  /-- `ScratchVar()`s created by the body -/
  vars : Nat
  /-- ABI values created by the body (`abi.Uint64()` …: one `alloc_abstract_var` each) -/
  abis : Nat
  /-- `ABIReturnSubroutine` with an `output` keyword argument -/
  hasOutput : Bool
  /-- the body raises when evaluated under the scratch / the frame-pointer convention -/
  raisesScratch : Bool
  raisesFp : Bool
  deriving DecidableEq, Repr, Inhabited

def DefInfo.raises (i : DefInfo) : Flavour → Bool
  | .scratch => i.raisesScratch
  | .fp => i.raisesFp

/-- a `Proto` object: the definition whose evaluation created it and
    `len(mem_layout.local_stack_types)` (mutated in place by `alloc_abstract_var`) -/
structure Proto where
  owner : Name
  locals : Nat
  deriving DecidableEq, Repr, Inhabited

/-- `_stored_value` of an ABI value: `FrameVar(proto, idx)` or a `ScratchVar` -/
inductive Storage
  | frame (owner : Name) (idx : Nat)
  | scratch (s : Slot)
  deriving DecidableEq, Repr, Inhabited

/-- a `SubroutineDeclaration`: the slot objects its body references (creation order) and the
    storage of the ABI values of the body -/
structure Decl where
  slots : List Slot
  abiAlloc : List Storage
  deriving DecidableEq, Repr, Inhabited

/-- a `SubroutineDefinition` with its `_SubroutineDeclByOption` -/
structure DefState where
  info : DefInfo
  subId : Nat
  scratchDecl : Option Decl
  fpDecl : Option Decl
  infoKnown : Bool
  deriving DecidableEq, Repr, Inhabited

def DefState.decl (d : DefState) : Flavour → Option Decl
  | .scratch => d.scratchDecl
  | .fp => d.fpDecl

def DefState.setDecl (d : DefState) (fl : Flavour) (c : Option Decl) : DefState :=
  match fl with
  | .scratch => { d with scratchDecl := c }
  | .fp => { d with fpDecl := c }

/-- a `Router`: its methods in registration order; per method the number of ABI instances the
    wrapper creates for it when the approval program is built (arguments + output) -/
structure RouterState where
  methods : List (Name × Nat)
  deriving DecidableEq, Repr, Inhabited

inductive Obj
  | slot (s : Slot)
  | abi (a : Storage)
  | sub (d : DefState)
  | router (r : RouterState)
  deriving DecidableEq, Repr, Inhabited

structure State where
  nextSlotId : Nat
  nextSubroutineId : Nat
  currentProto : Option Proto
  nextObj : Nat
  env : List (Name × Obj)
  templates : List Nat
  deriving DecidableEq, Repr, Inhabited

/-- a fresh interpreter after `import pyteal` -/
def init : State :=
  { nextSlotId := NUM_SLOTS, nextSubroutineId := 0, currentProto := none, nextObj := 0, env := [], templates := [] }

def State.lookup (s : State) (n : Name) : Option Obj := s.env.lookup n
def State.bind (s : State) (n : Name) (o : Obj) : State := { s with env := (n, o) :: s.env }

/-! ### Allocation -/

/-- `ScratchSlot()` -/
def allocSlot (s : State) : Slot × State :=
  (⟨s.nextObj, s.nextSlotId, false⟩, { s with nextSlotId := s.nextSlotId + 1, nextObj := s.nextObj + 1 })

def allocSlots : Nat → State → List Slot × State
  | 0, s => ([], s)
  | n + 1, s =>
    let r := allocSlot s
    let rs := allocSlots n r.2
    (r.1 :: rs.1, rs.2)

/-- `alloc_abstract_var` (abstractvar.py:47-71): a frame variable of the CURRENT proto when there is
    one with fewer than 128 locals, else a `ScratchVar` -/
def allocAbi (s : State) : Storage × State :=
  match s.currentProto with
  | some p =>
    if p.locals + 1 ≤ MAX_FRAME_LOCAL_VARS then
      (.frame p.owner p.locals, { s with currentProto := some { p with locals := p.locals + 1 } })
    else
      let r := allocSlot s
      (.scratch r.1, r.2)
  | none =>
    let r := allocSlot s
    (.scratch r.1, r.2)

def allocAbis : Nat → State → List Storage × State
  | 0, s => ([], s)
  | n + 1, s =>
    let r := allocAbi s
    let rs := allocAbis n r.2
    (r.1 :: rs.1, rs.2)

def storageSlots (l : List Storage) : List Slot :=
  l.filterMap (fun a => match a with | .scratch s => some s | .frame _ _ => none)

/-! ### Declarations -/

/-- number of slot objects created before the body runs: the argument variables and the output
    instance under the scratch convention (`var_n_loaded_scratch`, subroutine.py:940-962, 1024-1027);
    none under frame pointers (`_new_abi_instance_from_storage` rewinds the counter) -/
def preSlots (info : DefInfo) : Flavour → Nat
  | .scratch => info.params + (if info.hasOutput then 1 else 0)
  | .fp => 0

/-- the proto installed by `with _frame_pointer_context(proto if self.use_frame_pt else None)`;
    a new `Proto` has the output as its only local (subroutine.py:1003-1008) -/
def entryProto (d : Name) (info : DefInfo) : Flavour → Option Proto
  | .scratch => none
  | .fp => some ⟨d, if info.hasOutput then 1 else 0⟩

/-- `SubroutineEval.evaluate`: the new declaration, or `none` when the body raised.
    `_frame_pointer_context` (subroutine.py:840-849) is
    `tmp, cur = cur, proto; try: yield; finally: cur = tmp`: the marker is restored also when the
    body raises (since commit 6bedda4; the behaviour before that commit is `evaluateOld`). -/
def evaluate (s : State) (d : Name) (info : DefInfo) (fl : Flavour) : Option Decl × State :=
  let pre := allocSlots (preSlots info fl) s
  let tmp := pre.2.currentProto
  let s2 := { pre.2 with currentProto := entryProto d info fl }
  let vs := allocSlots info.vars s2
  let as := allocAbis info.abis vs.2
  if info.raises fl then (none, { as.2 with currentProto := tmp })
  else (some ⟨pre.1 ++ vs.1 ++ storageSlots as.1, as.1⟩, { as.2 with currentProto := tmp })

/-- REGRESSION WITNESS — `SubroutineEval.evaluate` as it was before commit 6bedda4:
    `_frame_pointer_context` had no `try/finally`, so when the body raised the assignment after the
    `yield` never ran and `_current_proto` kept the proto installed on entry. -/
def evaluateOld (s : State) (d : Name) (info : DefInfo) (fl : Flavour) : Option Decl × State :=
  let pre := allocSlots (preSlots info fl) s
  let tmp := pre.2.currentProto
  let s2 := { pre.2 with currentProto := entryProto d info fl }
  let vs := allocSlots info.vars s2
  let as := allocAbis info.abis vs.2
  if info.raises fl then (none, as.2)
  else (some ⟨pre.1 ++ vs.1 ++ storageSlots as.1, as.1⟩, { as.2 with currentProto := tmp })

/-- REGRESSION WITNESS — `d.get_declaration_by_option(fl)` on the code before commit 6bedda4 -/
def evalDeclarationOld (s : State) (d : Name) (fl : Flavour) : State × Bool :=
  match s.lookup d with
  | some (.sub ds) =>
    match ds.decl fl with
    | some _ => (s, false)
    | none =>
      let r := evaluateOld s d ds.info fl
      match r.1 with
      | some c => (r.2.bind d (.sub (ds.setDecl fl (some c))), false)
      | none => (r.2, true)
  | _ => (s, false)

/-- `get_declaration_by_option` (subroutine.py:46-56): `none` = the evaluation raised -/
def getDeclaration (s : State) (d : Name) (ds : DefState) (fl : Flavour) : Option DefState × State :=
  match ds.decl fl with
  | some _ => (some ds, s)
  | none =>
    let r := evaluate s d ds.info fl
    match r.1 with
    | some c => (some (ds.setDecl fl (some c)), r.2)
    | none => (none, r.2)

/-- `__probe_info` (subroutine.py:58-66): evaluate, forget the declaration unless it was there
    before, REWIND the slot counter.  The counter is not rewound when the evaluation raises. -/
def probe (s : State) (d : Name) (ds : DefState) (fl : Flavour) : Option DefState × State :=
  let start := s.nextSlotId
  let pre := (ds.decl fl).isSome
  let r := getDeclaration s d ds fl
  match r.1 with
  | none => (none, r.2)
  | some ds' => (some (if pre then ds' else ds'.setDecl fl none), { r.2 with nextSlotId := start })

/-- `__info_prepare` (subroutine.py:68-76) -/
def infoPrepare (s : State) (d : Name) (ds : DefState) : Option DefState × State :=
  if ds.infoKnown then (some ds, s)
  else
    let r1 := probe s d ds .scratch
    match r1.1 with
    | none => (none, r1.2)
    | some ds1 =>
      let r2 := probe r1.2 d ds1 .fp
      match r2.1 with
      | none => (none, r2.2)
      | some ds2 => (some { ds2 with infoKnown := true }, r2.2)

/-! ### Compilation -/

/-- where a compile-time failure that is independent of global state is injected -/
inductive Stage
  /-- in `__teal__` of the main routine (e.g. an op above the program version): before any
      subroutine declaration is evaluated -/
  | mainTeal
  /-- in `validateSlots` (a read before a write) or later: after every declaration was evaluated and
      after the requested-id and slot-count checks -/
  | late
  deriving DecidableEq, Repr, Inhabited

structure Prog where
  /-- scratch variables referenced by the main routine -/
  slots : List Name
  /-- ABI values referenced by the main routine -/
  abis : List Name
  /-- subroutines called from the main routine -/
  subs : List Name
  deriving DecidableEq, Repr, Inhabited

/-- where an ABI value lives in the TEAL text -/
inductive Loc
  | frame (idx : Nat)
  | slot (n : Option Nat)
  deriving DecidableEq, Repr, Inhabited

structure CompileResult where
  /-- the number of every `Prog.slots` variable (`store n` / `load n`) -/
  mainSlots : List (Option Nat)
  /-- `frame_bury i` / `store n` for every `Prog.abis` value -/
  mainAbis : List Loc
  /-- the `i` of the label `name_i` of every subroutine -/
  subLabels : List Nat
  /-- the numbers of the slot objects of every subroutine's declaration -/
  subSlots : List (List (Option Nat))
  subAbis : List (List Loc)
  /-- two referenced slot objects carry the same id: `sorted(allSlots, key=id)` is then decided
      by CPython's iteration order of a set of objects (their addresses) -/
  tie : Bool
  deriving DecidableEq, Repr, Inhabited

/-- `store s; load s` for every slot object -/
def useOps (l : List Slot) : List Slots.Op :=
  l.flatMap (fun s => [⟨.store, [.slot s]⟩, ⟨.load, [.slot s]⟩])

def routines : Nat → List Decl → Slots.Program
  | _, [] => []
  | i, d :: rest => (some i, useOps d.slots) :: routines (i + 1) rest

/-- the routines of a program as the C10 model sees them: main first, then the subroutines in
    compilation order (`sorted(newSubroutines, key=id)`, compiler.py:224) -/
def slotProgram (main : List Slot) (sorted : List Decl) : Slots.Program :=
  (none, useOps main) :: routines 0 sorted

/-- insert before the first entry whose key is not smaller -/
def insertByKey {α} (x : Nat × α) : List (Nat × α) → List (Nat × α)
  | [] => [x]
  | y :: l => if x.1 ≤ y.1 then x :: y :: l else y :: insertByKey x l

/-- `sorted(subroutines, key=lambda s: s.id)` -/
def sortByKey {α} (l : List (Nat × α)) : List (Nat × α) := l.foldr insertByKey []

/-- position of the first entry with key `k` -/
def rank {α} (k : Nat) : List (Nat × α) → Nat
  | [] => 0
  | y :: l => if y.1 = k then 0 else rank k l + 1

def storageLoc (r : Slots.Result) : Storage → Loc
  | .frame _ i => .frame i
  | .scratch s => .slot (r.number s)

/-- **the compile result as a function of the program's objects**: `sortf` stands for
    `sorted(allSlots, key=id)` applied to CPython's iteration order of the set -/
def compileObjsWith (sortf : List Slot → List Slot) (mainSlots : List Slot) (mainAbis : List Storage)
    (subs : List (Nat × Decl)) : Except Slots.Err CompileResult :=
  let sorted := sortByKey subs
  let prog := slotProgram (mainSlots ++ storageSlots mainAbis) (sorted.map (·.2))
  match assignWith sortf prog with
  | .error e => .error e
  | .ok r =>
    .ok { mainSlots := mainSlots.map r.number
          mainAbis := mainAbis.map (storageLoc r)
          subLabels := subs.map (fun e => rank e.1 sorted)
          subSlots := subs.map (fun e => e.2.slots.map r.number)
          subAbis := subs.map (fun e => e.2.abiAlloc.map (storageLoc r))
          tie := !decide (((allSlots prog).map (·.id)).Nodup) }

def compileObjs := compileObjsWith sortById

/-- `OptimizeOptions.use_frame_pointers(version)` (optimizer.py:49-62); `none` = TealInputError -/
def useFp (version : Nat) (opt : Option Bool) : Option Bool :=
  match opt with
  | none => some (decide (8 ≤ version))
  | some true => if 8 ≤ version then some true else none
  | some false => some false

def flavourOf (fp : Bool) : Flavour := if fp then .fp else .scratch

/-- why an API call raised -/
inductive Raise
  /-- the Python implementation of a subroutine raised during a declaration evaluation -/
  | body
  /-- `TealInputError` from an argument check (`ScratchSlot(300)`, `frame_pointers=True` below v8) -/
  | input
  | stage (st : Stage)
  | slots (e : Slots.Err)
  /-- model level: a name is not bound to an object of the right kind -/
  | unbound
  deriving DecidableEq, Repr, Inhabited

inductive Obs
  | unit
  | raised (r : Raise)
  | compiled (r : CompileResult)
  deriving DecidableEq, Repr, Inhabited

def getSlots (s : State) : List Name → Option (List Slot)
  | [] => some []
  | n :: rest =>
    match s.lookup n, getSlots s rest with
    | some (.slot x), some xs => some (x :: xs)
    | _, _ => none

def getAbis (s : State) : List Name → Option (List Storage)
  | [] => some []
  | n :: rest =>
    match s.lookup n, getAbis s rest with
    | some (.abi a), some as => some (a :: as)
    | _, _ => none

/-- `(subId, name)` of every subroutine of the program -/
def getSubIds (s : State) : List Name → Option (List (Nat × Name))
  | [] => some []
  | n :: rest =>
    match s.lookup n, getSubIds s rest with
    | some (.sub d), some ds => some ((d.subId, n) :: ds)
    | _, _ => none

/-- evaluate the missing declarations in the given order; every evaluated declaration is cached in
    its definition even when a later one raises; `false` = some body raised -/
def evalAll (fl : Flavour) : List Name → State → Bool × State
  | [], s => (true, s)
  | n :: rest, s =>
    match s.lookup n with
    | some (.sub ds) =>
      let r := getDeclaration s n ds fl
      match r.1 with
      | none => (false, r.2)
      | some ds' => evalAll fl rest (r.2.bind n (.sub ds'))
    | _ => (false, s)

/-- `(subId, declaration)` of every subroutine, after `evalAll` -/
def getDecls (s : State) (fl : Flavour) : List Name → Option (List (Nat × Decl))
  | [] => some []
  | n :: rest =>
    match s.lookup n, getDecls s fl rest with
    | some (.sub d), some ds =>
      match d.decl fl with
      | some c => some ((d.subId, c) :: ds)
      | none => none
    | _, _ => none

def hasFrame (l : List Storage) : Bool :=
  l.any (fun a => match a with | .frame _ _ => true | .scratch _ => false)

/-- the order in which `compileSubroutine` first meets the subroutines and evaluates their
    declarations: `for subroutine in sorted(newSubroutines, key=lambda subroutine: subroutine.id)`
    (compiler.py:224) for the subroutines the main routine calls; `inOrder` = the order of `subs`
    (router under frame pointers: the main routine calls the casters, whose ids follow the
    registration order, and every caster calls its method) -/
def evalOrder (inOrder : Bool) (subs : List Name) (ids : List (Nat × Name)) : List Name :=
  if inOrder then subs else (sortByKey ids).map (·.2)

/-- after the declarations were evaluated (`r` = the outcome of `evalAll`) -/
def compileTail (sortf : List Slot → List Slot) (r : Bool × State) (mainSlots : List Slot)
    (mainAbis : List Storage) (subs : List Name) (extra : List (Nat × Decl)) (fl : Flavour)
    (failsAt : Option Stage) : State × Obs :=
  if r.1 = false then (r.2, .raised .body)
  else
    match getDecls r.2 fl subs with
    | none => (r.2, .raised .unbound)
    | some decls =>
      match compileObjsWith sortf mainSlots mainAbis (decls ++ extra) with
      | .error e => (r.2, .raised (.slots e))
      | .ok res => if failsAt = some .late then (r.2, .raised (.stage .late)) else (r.2, .compiled res)

/-- the compiler proper; `extra` are subroutines without a definition object in the environment
    (the router's casters) -/
def compileWith (sortf : List Slot → List Slot) (s : State) (mainSlots : List Slot) (mainAbis : List Storage)
    (subs : List Name) (extra : List (Nat × Decl)) (version : Nat) (fp : Bool) (failsAt : Option Stage)
    (inOrder : Bool) : State × Obs :=
  if failsAt = some .mainTeal then (s, .raised (.stage .mainTeal))
  -- `frame_bury` / `frame_dig` of a main-routine ABI value below version 8: TealInputError in `__teal__`
  else if hasFrame mainAbis && !decide (8 ≤ version) then (s, .raised .input)
  else
    match getSubIds s subs with
    | none => (s, .raised .unbound)
    | some ids =>
      compileTail sortf (evalAll (flavourOf fp) (evalOrder inOrder subs ids) s) mainSlots mainAbis subs extra
        (flavourOf fp) failsAt

/-- `compileTeal(prog, version=…, optimize=OptimizeOptions(frame_pointers=fpOpt))` -/
def compileProg (sortf : List Slot → List Slot) (s : State) (p : Prog) (version : Nat) (fpOpt : Option Bool) (failsAt : Option Stage) :
    State × Obs :=
  match useFp version fpOpt with
  | none => (s, .raised .input)
  | some fp =>
    match getSlots s p.slots, getAbis s p.abis with
    | some ms, some ma => compileWith sortf s ms ma p.subs [] version fp failsAt false
    | _, _ => (s, .raised .unbound)

/-! ### Router -/

/-- what building the approval program creates: the ABI instances of the wrappers (referenced by
    the main routine under the scratch convention only) and the ids of the caster subroutines -/
structure Built where
  mainAbis : List Storage
  casters : List (Nat × Decl)
  deriving Repr

/-- `d(...).store_into(out)` (abi/type.py:217-246): `get_declaration_by_option(False)` inside
    `try: … except Exception: pass` — the SCRATCH declaration is evaluated whatever the program
    version, and a raising body is swallowed -/
def storeIntoState (s : State) (d : Name) (ds : DefState) : State :=
  let r := getDeclaration s d ds .scratch
  match r.1 with
  | some ds' => r.2.bind d (.sub ds')
  | none => r.2

/-- under frame pointers every method gets a caster subroutine
    (`Subroutine(TealType.none, …_caster)`, router.py:786): one subroutine id, no slot objects -/
def newCaster (fp : Bool) (s : State) : List (Nat × Decl) × State :=
  if fp then ([(s.nextSubroutineId, ⟨[], []⟩)], { s with nextSubroutineId := s.nextSubroutineId + 1 })
  else ([], s)

/-- `ASTBuilder.wrap_handler` for every method (router.py:596-815): create the ABI instances of the
    arguments and of the output; under frame pointers their storage is replaced by frame variables
    of the new caster subroutine; `handler(*args).store_into(output)` then evaluates the scratch
    declaration of a method with an output -/
def buildMethods (fp : Bool) : List (Name × Nat) → State → Option Built × State
  | [], s => (some ⟨[], []⟩, s)
  | (d, k) :: rest, s =>
    match s.lookup d with
    | some (.sub ds) =>
      let as := allocAbis k s
      let c := newCaster fp as.2
      let s3 := if ds.info.hasOutput then storeIntoState c.2 d ds else c.2
      let r := buildMethods fp rest s3
      match r.1 with
      | some b => (some ⟨(if fp then [] else as.1) ++ b.mainAbis, c.1 ++ b.casters⟩, r.2)
      | none => (none, r.2)
    | _ => (none, s)

/-- `Router.compile_program(version=…)` (router.py:1179-1186, 1303-1332): build and compile inside
    `_cleaning_context`, whose `finally` REWINDS the slot counter to its value on entry -/
def routerCompile (sortf : List Slot → List Slot) (s : State) (r : Name) (version : Nat) : State × Obs :=
  match s.lookup r with
  | some (.router rs) =>
    let start := s.nextSlotId
    let fp := decide (8 ≤ version)
    let b := buildMethods fp rs.methods s
    match b.1 with
    | none => ({ b.2 with nextSlotId := start }, .raised .unbound)
    | some built =>
      let c := compileWith sortf b.2 [] built.mainAbis (rs.methods.map (·.1)) built.casters version fp none fp
      ({ c.1 with nextSlotId := start }, c.2)
  | _ => (s, .raised .unbound)

/-- `Router._build_program(version=…)` on its own: no cleaning context -/
def routerBuild (s : State) (r : Name) (version : Nat) : State × Obs :=
  match s.lookup r with
  | some (.router rs) =>
    let b := buildMethods (decide (8 ≤ version)) rs.methods s
    match b.1 with
    | none => (b.2, .raised .unbound)
    | some _ => (b.2, .unit)
  | _ => (s, .raised .unbound)

/-! ### The API operations -/

inductive Op
  /-- `x = ScratchSlot()` / `ScratchVar()` -/
  | newSlot (x : Name)
  /-- `x = ScratchSlot(n)` -/
  | newSlotReq (x : Name) (n : Nat)
  /-- `@Subroutine(...) def d(...)` / `@ABIReturnSubroutine`: a `SubroutineDefinition` -/
  | newSubroutine (d : Name) (info : DefInfo)
  /-- `d.get_declaration_by_option(fl)` -/
  | evalDeclaration (d : Name) (fl : Flavour)
  /-- `d.type_of()` / `d.has_return()` of a `SubroutineFnWrapper`: `__info_prepare` -/
  | probeInfo (d : Name)
  /-- `d(...).store_into(out)` while an expression is built: evaluates the scratch declaration,
      swallowing exceptions -/
  | storeInto (d : Name)
  /-- `x = abi.Uint64()` outside any subroutine body -/
  | newAbiValue (x : Name)
  /-- `Tmpl.Int("TMPL_n")` -/
  | tmpl (n : Nat)
  | compile (p : Prog) (version : Nat) (fpOpt : Option Bool) (failsAt : Option Stage)
  /-- `r = Router(...)` with the given methods registered -/
  | newRouter (r : Name) (methods : List (Name × Nat))
  | routerBuild (r : Name) (version : Nat)
  | routerCompile (r : Name) (version : Nat)
  deriving DecidableEq, Repr, Inhabited

/-- `sortf` stands for `sorted(allSlots, key=id)` on CPython's iteration order of the set -/
def stepWith (sortf : List Slot → List Slot) (s : State) : Op → State × Obs
  | .newSlot x =>
    let r := allocSlot s
    (r.2.bind x (.slot r.1), .unit)
  | .newSlotReq x n =>
    if n < NUM_SLOTS then ({ s with nextObj := s.nextObj + 1 }.bind x (.slot ⟨s.nextObj, n, true⟩), .unit)
    else (s, .raised .input)
  | .newSubroutine d info =>
    ({ s with nextSubroutineId := s.nextSubroutineId + 1 }.bind d
      (.sub { info := info, subId := s.nextSubroutineId, scratchDecl := none, fpDecl := none, infoKnown := false }),
     .unit)
  | .evalDeclaration d fl =>
    match s.lookup d with
    | some (.sub ds) =>
      let r := getDeclaration s d ds fl
      match r.1 with
      | some ds' => (r.2.bind d (.sub ds'), .unit)
      | none => (r.2, .raised .body)
    | _ => (s, .raised .unbound)
  | .probeInfo d =>
    match s.lookup d with
    | some (.sub ds) =>
      let r := infoPrepare s d ds
      match r.1 with
      | some ds' => (r.2.bind d (.sub ds'), .unit)
      | none => (r.2, .raised .body)
    | _ => (s, .raised .unbound)
  | .storeInto d =>
    match s.lookup d with
    | some (.sub ds) => (storeIntoState s d ds, .unit)
    | _ => (s, .raised .unbound)
  | .newAbiValue x =>
    let r := allocAbi s
    (r.2.bind x (.abi r.1), .unit)
  | .tmpl n => ({ s with templates := n :: s.templates }, .unit)
  | .compile p version fpOpt failsAt => compileProg sortf s p version fpOpt failsAt
  | .newRouter r methods => (s.bind r (.router ⟨methods⟩), .unit)
  | .routerBuild r version => routerBuild s r version
  | .routerCompile r version => routerCompile sortf s r version

/-- the model's own tie-break: stable sort of first-occurrence order -/
def step (s : State) (op : Op) : State × Obs := stepWith sortById s op

/-- the state after a session -/
def run : List Op → State → State
  | [], s => s
  | op :: rest, s => run rest (step s op).1

/-- what the calls of a session returned or raised -/
def observeWith (sortf : List Slot → List Slot) : List Op → State → List Obs
  | [], _ => []
  | op :: rest, s => (stepWith sortf s op).2 :: observeWith sortf rest (stepWith sortf s op).1

def observe : List Op → State → List Obs := observeWith sortById

/-- a target program shares no object with earlier activity: it is run in its own name space,
    inheriting only the process-global counters and the frame-pointer marker -/
def State.forgetNames (s : State) : State := { s with env := [] }

def observeTarget (target : List Op) (s : State) : List Obs := observe target s.forgetNames

end PyTealV.Models.Session
