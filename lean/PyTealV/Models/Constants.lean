/-
  Model of `pyteal/compiler/constants.py` (`createConstantBlocks` and the four extractors) and of
  the two helpers of `pyteal/util.py` it uses (`unescapeStr`, `correctBase32Padding`).

  A `TealOp` is a name and a list of arguments, each a Python `int` or a Python `str`
  (`Arg.num` / `Arg.str`); every other `TealComponent` (labels …) is `Comp.raw`.
  Python exceptions are results (`Except String _`, the string is the exception class name);
  `"UNMODELLED"` marks the single construct the model does not interpret (`\N{name}` escapes).

  SHA-512/256 is a parameter `sha : Bytes → Bytes` (used by `addr` checksums and `method`
  selectors); the driver instantiates it with a finite table supplied by the harness.

  Imports nothing outside core Lean and `PyTealV.Util`.
-/
import PyTealV.Util
namespace PyTealV.Models.Constants
open PyTealV PyTealV.Util

/-! ### Data -/

/-- one argument of a `TealOp`: a Python `int` or a Python `str` -/
inductive Arg where
  | num (n : Int)
  | str (s : String)
  deriving DecidableEq, Repr, Inhabited

/-- a `TealComponent`: a `TealOp` (op name as printed, arguments) or anything else (kept verbatim) -/
inductive Comp where
  | op (name : String) (args : List Arg)
  | raw (text : String)
  deriving DecidableEq, Repr, Inhabited

/-- value of an `int` constant: a number or the name of a template variable -/
inductive IVal where
  | num (n : Int)
  | tmpl (s : String)
  deriving DecidableEq, Repr, Inhabited

/-- value of a `byte`/`addr`/`method` constant: `bytes`, or a Python `str` (template name; also the
    empty string that `algosdk.encoding.decode_address("")` hands back) -/
inductive BVal where
  | bytes (b : Bytes)
  | str (s : String)
  deriving DecidableEq, Repr, Inhabited

/-- what a component loads -/
inductive Site where
  | none
  | int (v : IVal)
  | byt (v : BVal)
  deriving DecidableEq, Repr, Inhabited

abbrev Exc := String

/-! ### `extractIntValue` -/

def tmplPrefix : List Char := ['T', 'M', 'P', 'L', '_']

/-- `s.startswith("TMPL_")` -/
def isTmpl (s : String) : Bool := tmplPrefix.isPrefixOf s.toList

/-- `intEnumValues` -/
def intEnum (s : String) : Option Int :=
  if s = "NoOp" then some 0 else if s = "OptIn" then some 1 else if s = "CloseOut" then some 2
  else if s = "ClearState" then some 3 else if s = "UpdateApplication" then some 4
  else if s = "DeleteApplication" then some 5 else if s = "unknown" then some 0
  else if s = "pay" then some 1 else if s = "keyreg" then some 2 else if s = "acfg" then some 3
  else if s = "axfer" then some 4 else if s = "afrz" then some 5 else if s = "appl" then some 6
  else none

def extractInt (args : List Arg) : Except Exc IVal :=
  match args with
  | [.num n] => .ok (.num n)
  | [.str s] =>
    if isTmpl s then .ok (.tmpl s)
    else match intEnum s with
      | some n => .ok (.num n)
      | none => .error "TealInternalError"
  | _ => .error "TealInternalError"

/-! ### `unescapeStr` and Python's codecs -/

/-- `s.replace('\\"', '"')` : left to right, non-overlapping -/
def replaceBQ : List Nat → List Nat
  | 92 :: 34 :: r => 34 :: replaceBQ r
  | c :: r => c :: replaceBQ r
  | [] => []

def hexValN (c : Nat) : Option Nat :=
  if 48 ≤ c ∧ c ≤ 57 then some (c - 48)
  else if 97 ≤ c ∧ c ≤ 102 then some (c - 87)
  else if 65 ≤ c ∧ c ≤ 70 then some (c - 55)
  else none

/-- read exactly `n` hex digits -/
def readHex : Nat → Nat → List Nat → Option (Nat × List Nat)
  | 0, acc, r => some (acc, r)
  | _ + 1, _, [] => none
  | n + 1, acc, c :: r =>
    match hexValN c with
    | some d => readHex n (acc * 16 + d) r
    | none => none

def isOct (c : Nat) : Bool := 48 ≤ c && c ≤ 55

/-- up to two more octal digits after the first -/
def readOct (first : Nat) (r : List Nat) : Nat × List Nat :=
  match r with
  | c1 :: r1 =>
    if isOct c1 then
      match r1 with
      | c2 :: r2 => if isOct c2 then (((first * 8) + (c1 - 48)) * 8 + (c2 - 48), r2) else (first * 8 + (c1 - 48), r1)
      | [] => (first * 8 + (c1 - 48), r1)
    else (first, r)
  | [] => (first, r)

/-- CPython's `bytes.decode("unicode-escape")` (strict): input bytes, output code points.
    Unknown escapes keep the backslash; `\N{…}` is the one unmodelled form. -/
def uniEsc : Nat → List Nat → Except Exc (List Nat)
  | 0, [] => .ok []
  | 0, _ => .error "UNMODELLED"          -- unreachable with fuel = length + 1
  | _ + 1, [] => .ok []
  | f + 1, 92 :: r =>
    match r with
    | [] => .error "UnicodeDecodeError"  -- "\ at end of string"
    | c :: r' =>
      let lit (v : Nat) : Except Exc (List Nat) := (uniEsc f r').map (v :: ·)
      if c = 10 then uniEsc f r'
      else if c = 92 ∨ c = 39 ∨ c = 34 then lit c
      else if c = 98 then lit 8
      else if c = 102 then lit 12
      else if c = 116 then lit 9
      else if c = 110 then lit 10
      else if c = 114 then lit 13
      else if c = 118 then lit 11
      else if c = 97 then lit 7
      else if isOct c then
        let (v, r'') := readOct (c - 48) r'
        (uniEsc f r'').map (v :: ·)
      else if c = 120 ∨ c = 117 ∨ c = 85 then
        let n := if c = 120 then 2 else if c = 117 then 4 else 8
        match readHex n 0 r' with
        | some (v, r'') => if v > 0x10FFFF then .error "UnicodeDecodeError" else (uniEsc f r'').map (v :: ·)
        | none => .error "UnicodeDecodeError"
      else if c = 78 then
        match r' with
        | 123 :: _ => .error "UNMODELLED"     -- \N{name}: needs the Unicode name table
        | _ => .error "UnicodeDecodeError"
      else (uniEsc f r').map (fun t => 92 :: c :: t)
  | f + 1, c :: r => (uniEsc f r).map (c :: ·)

def isCont (b : Nat) : Bool := 128 ≤ b && b ≤ 191

/-- strict UTF-8 well-formedness (what `bytes.decode("utf-8")` accepts) -/
def utf8Valid : Nat → List Nat → Bool
  | _, [] => true
  | 0, _ => false
  | f + 1, b :: r =>
    if b < 128 then utf8Valid f r
    else if 0xC2 ≤ b ∧ b ≤ 0xDF then
      match r with
      | c1 :: r' => isCont c1 && utf8Valid f r'
      | _ => false
    else if 0xE0 ≤ b ∧ b ≤ 0xEF then
      match r with
      | c1 :: c2 :: r' =>
        isCont c1 && isCont c2 && (b != 0xE0 || 0xA0 ≤ c1) && (b != 0xED || c1 ≤ 0x9F) && utf8Valid f r'
      | _ => false
    else if 0xF0 ≤ b ∧ b ≤ 0xF4 then
      match r with
      | c1 :: c2 :: c3 :: r' =>
        isCont c1 && isCont c2 && isCont c3 && (b != 0xF0 || 0x90 ≤ c1) && (b != 0xF4 || c1 ≤ 0x8F) && utf8Valid f r'
      | _ => false
    else false

def toByte (n : Nat) : UInt8 := UInt8.ofNat n

/-- `unescapeStr(value).encode("utf-8")` for a token that starts and ends with `"` -/
def unescapeQuoted (cs : List Nat) : Except Exc Bytes :=
  if cs.length < 2 then .error "ValueError" else          -- the token `"` alone
  let inner := (cs.drop 1).dropLast
  let inner := replaceBQ inner
  if inner.any (· > 255) then .error "UnicodeEncodeError" else
  match uniEsc (inner.length + 1) inner with
  | .error e => .error e
  | .ok cps =>
    if cps.any (· > 255) then .error "UnicodeEncodeError" else
    if utf8Valid (cps.length + 1) cps then .ok (cps.map toByte) else .error "UnicodeDecodeError"

/-! ### `bytes.fromhex`, `base64.b32decode`, `base64.b64decode` -/

def isPySpace (c : Nat) : Bool := c = 32 || (9 ≤ c && c ≤ 13)

/-- `bytes.fromhex`: ASCII whitespace is skipped between bytes only -/
def fromHex : Nat → List Nat → Except Exc Bytes
  | 0, _ => .error "ValueError"
  | f + 1, cs =>
    match cs.dropWhile isPySpace with
    | [] => .ok []
    | [_] => .error "ValueError"
    | a :: b :: r =>
      match hexValN a, hexValN b with
      | some x, some y => (fromHex f r).map (toByte (x * 16 + y) :: ·)
      | _, _ => .error "ValueError"

def b32ValN (c : Nat) : Option Nat :=
  if 65 ≤ c ∧ c ≤ 90 then some (c - 65) else if 50 ≤ c ∧ c ≤ 55 then some (c - 50 + 26) else none

/-- bits (msb first) → whole bytes, the incomplete tail is dropped -/
def packBits (vs : List Nat) (w : Nat) : Bytes :=
  let bits := vs.flatMap (bitsOf w)
  bitsToBytes (bits.length + 1) bits

/-- `base64.b32decode(correctBase32Padding(s))` -/
def b32Literal (cs : List Nat) : Except Exc Bytes :=
  let content := cs.takeWhile (· ≠ 61)        -- s.split("=")[0]
  let t := content.length % 8
  if t = 1 ∨ t = 3 ∨ t = 6 then .error "TealInternalError" else
  if content.any (· > 127) then .error "ValueError" else
  match content.mapM b32ValN with
  | none => .error "binascii.Error"
  | some vs => .ok (packBits vs 5)

def b64ValN (c : Nat) : Option Nat :=
  if 65 ≤ c ∧ c ≤ 90 then some (c - 65)
  else if 97 ≤ c ∧ c ≤ 122 then some (c - 97 + 26)
  else if 48 ≤ c ∧ c ≤ 57 then some (c - 48 + 52)
  else if c = 43 then some 62
  else if c = 47 then some 63
  else none

structure B64St where
  quad : Nat := 0
  pads : Nat := 0
  vals : List Nat := []        -- sextets of completed/partial quads, reversed
  done : Bool := false

/-- one character of `binascii.a2b_base64(strict_mode=False)` -/
def b64Step (st : B64St) (c : Nat) : B64St :=
  if st.done then st
  else if c = 61 then
    if st.quad ≥ 2 then
      if st.quad + (st.pads + 1) ≥ 4 then { st with pads := st.pads + 1, done := true }
      else { st with pads := st.pads + 1 }
    else st
  else match b64ValN c with
    | none => st
    | some v => { st with pads := 0, quad := (st.quad + 1) % 4, vals := v :: st.vals }

/-- `base64.b64decode(s)` (non-validating) -/
def b64Literal (cs : List Nat) : Except Exc Bytes :=
  if cs.any (· > 127) then .error "ValueError" else
  let st := cs.foldl b64Step {}
  if !st.done ∧ st.quad ≠ 0 then .error "binascii.Error"
  else .ok (packBits st.vals.reverse 6)

/-! ### `extractBytesValue`, `extractAddrValue`, `extractMethodSigValue` -/

def codes (s : String) : List Nat := s.toList.map Char.toNat

def startsWithL (p : String) (cs : List Nat) : Bool := (codes p).isPrefixOf cs

def extractBytes (args : List Arg) : Except Exc BVal :=
  match args with
  | [.str s] =>
    let cs := codes s
    if isTmpl s then .ok (.str s)
    else if cs.head? = some 34 ∧ cs.getLast? = some 34 then (unescapeQuoted cs).map .bytes
    else if startsWithL "0x" cs then
      let h := cs.drop 2
      if h.any (· > 127) then .error "ValueError" else (fromHex (h.length + 1) h).map .bytes
    else if startsWithL "base32(" cs ∧ cs.getLast? = some 41 then (b32Literal ((cs.drop 7).dropLast)).map .bytes
    else if startsWithL "base64(" cs ∧ cs.getLast? = some 41 then (b64Literal ((cs.drop 7).dropLast)).map .bytes
    else .error "TealInternalError"
  | _ => .error "TealInternalError"

/-- `algosdk.encoding.decode_address` -/
def decodeAddress (sha : Bytes → Bytes) (s : String) : Except Exc BVal :=
  let cs := codes s
  if cs.isEmpty then .ok (.str s)                      -- `if not addr: return addr`
  else if cs.length ≠ 58 then .error "WrongKeyLengthError"
  else if cs.any (· > 127) then .error "ValueError"
  else match cs.mapM b32ValN with
    | none => .error "binascii.Error"
    | some vs =>
      let decoded := packBits vs 5                        -- 36 bytes
      let pk := decoded.take (decoded.length - 4)
      let chk := decoded.drop (decoded.length - 4)
      let h := sha pk
      if h.drop (h.length - 4) = chk then .ok (.bytes pk) else .error "WrongChecksumError"

def extractAddr (sha : Bytes → Bytes) (args : List Arg) : Except Exc BVal :=
  match args with
  | [.str s] => if isTmpl s then .ok (.str s) else decodeAddress sha s
  | _ => .error "TealInternalError"

def extractMethod (sha : Bytes → Bytes) (args : List Arg) : Except Exc BVal :=
  match args with
  | [.str s] =>
    let cs := s.toList
    match cs with
    | [] => .error "IndexError"
    | c0 :: _ =>
      if c0 = '"' ∧ cs.getLast? = some '"' then
        let inner := String.ofList ((cs.drop 1).dropLast)
        .ok (.bytes ((sha (strBytes inner)).take 4))
      else .error "TealInternalError"
  | _ => .error "TealInternalError"

/-! ### Python `dict` / `sorted` -/

section Dict
variable {α : Type} [DecidableEq α]

/-- `d[k] = d.get(k, 0) + 1` on an insertion-ordered dict -/
def bump (k : α) : List (α × Nat) → List (α × Nat)
  | [] => [(k, 1)]
  | (k', c) :: r => if k' = k then (k', c + 1) :: r else (k', c) :: bump k r

/-- the frequency dict after the first loop -/
def freqs (vs : List α) : List (α × Nat) := vs.foldl (fun d v => bump v d) []

/-- `d[k]` (0 when absent; never reached for absent keys) -/
def getCount : List (α × Nat) → α → Nat
  | [], _ => 0
  | (k', c) :: r, k => if k' = k then c else getCount r k

/-- insertion keeping descending counts; `x` goes before the first entry that is not larger -/
def insertDesc (x : α × Nat) : List (α × Nat) → List (α × Nat)
  | [] => [x]
  | y :: r => if y.2 ≤ x.2 then x :: y :: r else y :: insertDesc x r

/-- `sorted(d, key=lambda x: d[x], reverse=True)` with its counts: the stable descending sort
    of the items (first defined, first among equals) -/
def sortDesc (d : List (α × Nat)) : List (α × Nat) := d.foldr insertDesc []

/-- `l.index(v)` (length when absent; never reached for absent values) -/
def idxOf (v : α) : List α → Nat
  | [] => 0
  | x :: r => if x = v then 0 else idxOf v r + 1

end Dict

/-! ### `createConstantBlocks` -/

def classify (sha : Bytes → Bytes) : Comp → Except Exc Site
  | .raw _ => .ok .none
  | .op name args =>
    if name = "int" then (extractInt args).map .int
    else if name = "byte" then (extractBytes args).map .byt
    else if name = "addr" then (extractAddr sha args).map .byt
    else if name = "method" then (extractMethod sha args).map .byt
    else .ok .none

def classifyAll (sha : Bytes → Bytes) : List Comp → Except Exc (List Site)
  | [] => .ok []
  | c :: r =>
    match classify sha c with
    | .error e => .error e
    | .ok s =>
      match classifyAll sha r with
      | .error e => .error e
      | .ok ss => .ok (s :: ss)

def intVals : List Site → List IVal
  | [] => []
  | .int v :: r => v :: intVals r
  | _ :: r => intVals r

def byteVals : List Site → List BVal
  | [] => []
  | .byt v :: r => v :: byteVals r
  | _ :: r => byteVals r

def IVal.inBlockAnyway : IVal → Bool
  | .tmpl _ => true             -- isinstance(val, str)
  | .num n => decide (n ≥ 128)  -- val >= 2**7

/-- the `intBlock` comprehension; `i` is the position in `sortedInts` -/
def intBlockFrom (i : Nat) : List (IVal × Nat) → List IVal
  | [] => []
  | (v, c) :: r =>
    if c > 1 ∧ (i < 4 ∨ v.inBlockAnyway = true) then v :: intBlockFrom (i + 1) r
    else intBlockFrom (i + 1) r

def IVal.arg : IVal → Arg
  | .num n => .num n
  | .tmpl s => .str s

/-- `("0x" + b.hex()) if type(b) is bytes else b` -/
def BVal.encode : BVal → String
  | .bytes b => "0x" ++ hex b
  | .str s => s

/-- `"//", *op.args` -/
def commentArgs (args : List Arg) : List Arg := .str "//" :: args

def intRef (idx : Nat) (args : List Arg) : Comp :=
  if idx = 0 then .op "intc_0" (commentArgs args)
  else if idx = 1 then .op "intc_1" (commentArgs args)
  else if idx = 2 then .op "intc_2" (commentArgs args)
  else if idx = 3 then .op "intc_3" (commentArgs args)
  else .op "intc" (.num idx :: commentArgs args)

def byteRef (idx : Nat) (args : List Arg) : Comp :=
  if idx = 0 then .op "bytec_0" (commentArgs args)
  else if idx = 1 then .op "bytec_1" (commentArgs args)
  else if idx = 2 then .op "bytec_2" (commentArgs args)
  else if idx = 3 then .op "bytec_3" (commentArgs args)
  else .op "bytec" (.num idx :: commentArgs args)

/-- `MAX_BLOCK_SIZE`: `intc i` / `bytec i` address a block entry with a one-byte immediate -/
def maxBlockSize : Nat := 256

/-- everything the second loop looks at -/
structure Plan where
  intBlock : List IVal
  byteFreqs : List (BVal × Nat)
  sortedBytes : List BVal
  byteBlock : List BVal

def mkPlan (sites : List Site) : Plan :=
  let intFreqs := freqs (intVals sites)
  let byteFreqs := freqs (byteVals sites)
  let sortedInts := sortDesc intFreqs
  let sortedB := sortDesc byteFreqs
  { intBlock := (intBlockFrom 0 sortedInts).take maxBlockSize          -- `[...][:MAX_BLOCK_SIZE]`
    byteFreqs := byteFreqs
    sortedBytes := sortedB.map (·.1)
    byteBlock := ((sortedB.filter (fun p => p.2 > 1)).map (·.1)).take maxBlockSize }

/-- the body of the second loop for one component -/
def rewriteOne (p : Plan) (c : Comp) (s : Site) : Comp :=
  match c, s with
  | .op _ args, .int v =>
    if v ∈ p.intBlock then intRef (idxOf v p.intBlock) args      -- `intValue not in intBlock` (the truncated block)
    else .op "pushint" (v.arg :: commentArgs args)
  | .op _ args, .byt v =>
    -- `byteFreqs[byteValue] == 1 or sortedBytes.index(byteValue) >= MAX_BLOCK_SIZE`
    if getCount p.byteFreqs v = 1 ∨ idxOf v p.sortedBytes ≥ maxBlockSize then
      .op "pushbytes" (.str v.encode :: commentArgs args)
    else byteRef (idxOf v p.sortedBytes) args       -- index in `sortedBytes`, not in `byteBlock`
  | c, _ => c

def rewriteAll (p : Plan) : List Comp → List Site → List Comp
  | c :: cs, s :: ss => rewriteOne p c s :: rewriteAll p cs ss
  | _, _ => []

structure Result where
  intBlock : List Arg        -- arguments of the emitted `intcblock` (none emitted when empty)
  byteBlock : List Arg       -- arguments of the emitted `bytecblock`
  body : List Comp           -- one component per input component
  deriving DecidableEq, Repr

def build (ops : List Comp) (sites : List Site) : Result :=
  let p := mkPlan sites
  { intBlock := p.intBlock.map IVal.arg
    byteBlock := p.byteBlock.map (fun b => Arg.str b.encode)
    body := rewriteAll p ops sites }

def createConstantBlocks (sha : Bytes → Bytes) (ops : List Comp) : Except Exc Result :=
  match classifyAll sha ops with
  | .error e => .error e
  | .ok sites => .ok (build ops sites)

/-- the returned component list -/
def Result.assembled (r : Result) : List Comp :=
  (if r.intBlock.isEmpty then [] else [Comp.op "intcblock" r.intBlock]) ++
  (if r.byteBlock.isEmpty then [] else [Comp.op "bytecblock" r.byteBlock]) ++ r.body

/-! ### `TealOp.assemble` -/

def Arg.render : Arg → String
  | .num n => toString n
  | .str s => s

def Comp.render : Comp → String
  | .op name args => " ".intercalate (name :: args.map Arg.render)
  | .raw t => t

/-! ### Denotations -/

/-- the constant an original component loads (`none`: not a constant load) -/
def valueOf (sha : Bytes → Bytes) (c : Comp) : Except Exc Site := classify sha c

def argIVal : Arg → IVal
  | .num n => .num n
  | .str s => .tmpl s

/-- what a block entry / `pushbytes` immediate denotes: `0x…` is a hex literal, anything else is a
    placeholder name -/
def argBVal : Arg → Option BVal
  | .num _ => none
  | .str s =>
    match s.toList with
    | '0' :: 'x' :: h => (unhexChars h).map .bytes
    | _ => some (.str s)

def nthArg (l : List Arg) (k : Int) : Option Arg := if k < 0 then none else l[k.toNat]?

/-- the constant an assembled component loads, given the arguments of the emitted blocks -/
def valueAt (ib bb : List Arg) : Comp → Option Site
  | .raw _ => none
  | .op name args =>
    let iAt (k : Int) : Option Site := (nthArg ib k).map (fun a => .int (argIVal a))
    let bAt (k : Int) : Option Site := (nthArg bb k).bind (fun a => (argBVal a).map .byt)
    if name = "intc_0" then iAt 0 else if name = "intc_1" then iAt 1
    else if name = "intc_2" then iAt 2 else if name = "intc_3" then iAt 3
    else if name = "intc" then (match args with | .num k :: _ => iAt k | _ => none)
    else if name = "pushint" then (match args with | a :: _ => some (.int (argIVal a)) | _ => none)
    else if name = "bytec_0" then bAt 0 else if name = "bytec_1" then bAt 1
    else if name = "bytec_2" then bAt 2 else if name = "bytec_3" then bAt 3
    else if name = "bytec" then (match args with | .num k :: _ => bAt k | _ => none)
    else if name = "pushbytes" then (match args with | a :: _ => (argBVal a).map .byt | _ => none)
    else none

/-- the constant-block reference an assembled component makes: (`true` = bytec family, index) -/
def refOf : Comp → Option (Bool × Nat)
  | .raw _ => none
  | .op name args =>
    if name = "intc_0" then some (false, 0) else if name = "intc_1" then some (false, 1)
    else if name = "intc_2" then some (false, 2) else if name = "intc_3" then some (false, 3)
    else if name = "intc" then (match args with | .num k :: _ => if k < 0 then none else some (false, k.toNat) | _ => none)
    else if name = "bytec_0" then some (true, 0) else if name = "bytec_1" then some (true, 1)
    else if name = "bytec_2" then some (true, 2) else if name = "bytec_3" then some (true, 3)
    else if name = "bytec" then (match args with | .num k :: _ => if k < 0 then none else some (true, k.toNat) | _ => none)
    else none

end PyTealV.Models.Constants
