/-
  C18 — model of the TEXT that PyTeal emits for annotations (comments, assert comments,
  subroutine headers), and of what an assembler sees of a TEAL text once comments are gone.

  Mirrors (quirks included):
    pyteal/ir/tealop.py      TealOp.assemble        " ".join([str(op)] + args)      (Op.comment = "//")
    pyteal/ast/comment.py    CommentExpr.__init__   rejects only "\n" and "\r"
                             Comment                comment.splitlines() → one CommentExpr per piece
    pyteal/ast/assert_.py    Assert.__teal__        v ≥ 3: cond, Comment(comment), `assert`;  v < 3: comment unused
    pyteal/compiler/subroutines.py resolveSubroutines   label = re.sub(r"[^A-Za-z0-9]", "", name) + "_" + str(index)
    pyteal/compiler/flatten.py flattenSubroutines   TealLabel(…, LabelReference(label), comment = subroutine.name())
    pyteal/ir/teallabel.py   TealLabel.assemble     "\n" + one line "// piece" per piece of comment.splitlines() (one line "// " if
                                                    there is no piece) + "\n" + label + ":"   (the name is NOT sanitised here)

  Python strings are modelled as Lean `String`s (sequences of Unicode scalar values); lone
  surrogates, which a Python `str` may hold, are outside the model.
  Core Lean only (linked into the native driver).
-/
import PyTealV.Util
import PyTealV.Avm.Syntax
namespace PyTealV.Models.Annot
open PyTealV PyTealV.Avm

/-! ## `str.splitlines()` -/

/-- The line boundaries of Python's `str.splitlines()` (CPython `Py_UNICODE_ISLINEBREAK`):
    LF, CR, VT, FF, FS, GS, RS, NEL, LINE SEPARATOR, PARAGRAPH SEPARATOR. -/
def isBreak (c : Char) : Bool :=
  c = '\n' || c = '\r' || c = '\x0b' || c = '\x0c' || c = '\x1c' || c = '\x1d' || c = '\x1e' ||
  c = '\u0085' || c = '\u2028' || c = '\u2029'

/-- `splitlines` on code points, `keepends=False`: every boundary closes a piece (possibly empty),
    `\r\n` is ONE boundary, and there is no trailing empty piece (`"a\n".splitlines() = ["a"]`,
    `"".splitlines() = []`, `"\n".splitlines() = [""]`).  `cur` is the open piece, reversed;
    `afterCR` says that the previous character was a `\r` (then a `\n` belongs to that boundary). -/
def splitlinesAux : List Char → List Char → Bool → List (List Char)
  | [], cur, _ => if cur.isEmpty then [] else [cur.reverse]
  | c :: rest, cur, afterCR =>
    if c = '\n' ∧ afterCR = true then splitlinesAux rest cur false
    else if isBreak c then cur.reverse :: splitlinesAux rest [] (c = '\r')
    else splitlinesAux rest (c :: cur) false

def splitlinesChars (cs : List Char) : List (List Char) := splitlinesAux cs [] false

def splitlines (s : String) : List String := (splitlinesChars s.toList).map String.ofList

/-! ## comment ops -/

/-- `TealOp(expr, Op.comment, text).assemble()` -/
def commentOp (text : String) : String := "// " ++ text

def hasNewline (s : String) : Bool := s.toList.any (fun c => c = '\n' || c = '\r')

/-- `CommentExpr(line)` followed by its assembly; the constructor's guard is an explicit error -/
def mkCommentExpr (line : String) : Except String String :=
  if hasNewline line then .error "TealInputError: Newlines should not be present in the CommentExpr constructor"
  else .ok (commentOp line)

/-- `Comment(text)` (with or without a wrapped expression): the comment lines it contributes,
    in order, immediately before the first op of the wrapped expression. -/
def comment (text : String) : Except String (List String) := (splitlines text).mapM mkCommentExpr

/-- the same without the guard (equal to `comment` by `comment_total`) -/
def commentLines (text : String) : List String := (splitlines text).map commentOp

/-- `Assert(cond, comment=c)` for ONE condition: the lines that follow the condition's code.
    From version 3 on: the comment lines, then `assert`.  Below version 3 the comment argument is
    never looked at; the lowering is `bnz L / err / L:` with a label `l` chosen later.
    (With several conditions PyTeal builds one such Assert per condition, each with the same comment.) -/
def assertLines (version : Nat) (c : Option String) (l : String) : Except String (List String) :=
  if version ≥ 3 then
    match c with
    | none => .ok ["assert"]
    | some t => (comment t).map (· ++ ["assert"])
  else .ok ["bnz " ++ l, "err", l ++ ":"]

/-! ## subroutine headers -/

def isAlnum (c : Char) : Bool :=
  ('A' ≤ c && c ≤ 'Z') || ('a' ≤ c && c ≤ 'z') || ('0' ≤ c && c ≤ '9')

/-- `re.sub(r"[^A-Za-z0-9]", "", name)` (a `str` pattern: the classes are ASCII ranges) -/
def sanitise (name : String) : String := String.ofList (name.toList.filter isAlnum)

def subLabel (name : String) (index : Nat) : String :=
  sanitise name ++ "_" ++ toString index

/-- `self.comment.splitlines() or [""]` of `TealLabel.assemble`: the pieces of the comment, and one
    empty piece when there is none (`""`, and nothing else, has no piece) -/
def headerPieces (c : String) : List String :=
  match splitlines c with
  | [] => [""]
  | ps => ps

/-- `"// {}".format(ln) for ln in lines`: the comment lines of a label, one per piece -/
def headerCommentLines (c : String) : List String := (headerPieces c).map commentOp

/-- `TealLabel(decl, LabelReference(label), comment = name).assemble()`:
    `"\n{}\n".format("\n".join(comment lines)) + label + ":"` -/
def header (name : String) (index : Nat) : String :=
  "\n" ++ "\n".intercalate (headerCommentLines name) ++ "\n" ++ subLabel name index ++ ":"

/-- the text BEFORE the repair 90c7383 (`"\n// {}\n".format(self.comment)`: the raw name after `// `);
    kept only for the regression example `name_comment_regression` -/
def headerOld (name : String) (index : Nat) : String :=
  "\n// " ++ name ++ "\n" ++ subLabel name index ++ ":"

/-! ## what the assembler sees -/

/-- split a character list at every `\n` (the only line terminator of the TEAL grammar) -/
def splitNl : List Char → List Char → List (List Char)
  | [], cur => [cur.reverse]
  | c :: rest, cur => if c = '\n' then cur.reverse :: splitNl rest [] else splitNl rest (c :: cur)

def lines (text : String) : List String := (splitNl text.toList []).map String.ofList

/-- Statements (token lists) of a TEAL text in order, comments and blank lines gone: every physical
    line through the independent tokeniser and statement splitter of `Avm.Syntax` — the same
    pipeline as `Avm.parse`, before `parseInstr`. -/
def stripComments (text : String) : List (List String) :=
  (lines text).flatMap (fun l => splitStatements (tokenise l))

/-! ## recorded outputs of the real compiler (replayed by the harness: `c18-recorded`) -/

/-- statements of a list of physical lines -/
def stmts (ls : List String) : List (List String) := ls.flatMap (fun l => splitStatements (tokenise l))

/-- `For(i=0; i<2; i=i+1).Do(If(i).Then(Continue()))` then `Approve()`, slot 0, version 6 (lines of the output) -/
def layoutBaseLines : List String :=
  ["#pragma version 6", "int 0", "store 0", "int 0", "store 0", "main_l1:", "load 0", "int 2", "<", "bz main_l4", "load 0", "bnz main_l3", "main_l3:", "load 0", "int 1", "+", "store 0", "b main_l1", "main_l4:", "int 1", "return"]

/-- the same with `Comment("x", Continue())` -/
def layoutVariantLines : List String :=
  ["#pragma version 6", "int 0", "store 0", "int 0", "store 0", "main_l1:", "load 0", "int 2", "<", "bz main_l5", "load 0", "bnz main_l4", "main_l3:", "load 0", "int 1", "+", "store 0", "b main_l1", "main_l4:", "// x", "b main_l3", "main_l5:", "int 1", "return"]

/-- `Seq(k.store(Txn.fee()), If(k.load()).Then(Approve()), Reject())`, version 10, default options -/
def optimiserBaseLines : List String :=
  ["#pragma version 10", "txn Fee", "bz main_l2", "int 1", "return", "main_l2:", "int 0", "return"]

/-- the same with `Comment("x")` between the store and the `If` -/
def optimiserVariantLines : List String :=
  ["#pragma version 10", "txn Fee", "store 0", "// x", "load 0", "bz main_l2", "int 1", "return", "main_l2:", "int 0", "return"]

def layoutBase : String := "\n".intercalate layoutBaseLines
def layoutVariant : String := "\n".intercalate layoutVariantLines
def optimiserBase : String := "\n".intercalate optimiserBaseLines
def optimiserVariant : String := "\n".intercalate optimiserVariantLines

end PyTealV.Models.Annot
