/-
  The fragment of source trees covered by the code-generation correctness theorem
  (`PyTealV.Proofs.Shape.gen_correct`), as a decidable predicate `inFragment`.

  `inFragment e` holds iff `e` is *arity-typed* in the sense PyTeal itself enforces with its
  `TealType.none / uint64 / bytes` discipline.  Only the **number** of values is tracked, not
  their types: run-time type errors (an opcode applied to bytes instead of uint64, a branch on
  bytes, …) are inside the theorem, because both sides delegate to `Avm.execPrim`.

  Restrictions, and why each one is there (counterexamples are theorems in `Proofs/Shape.lean`):

  R1 every operand position (arguments of `prim/multi/substring/extract/suffix`, the stored value
     of `store`, conditions of `ite/cond/while_/for_/assert_`, the value of `ret/exit`) holds an
     expression that yields **exactly one** value when it completes normally, and an operator
     application has as many operands as the opcode pops (`primSig`); a `multi` has as many output
     variables as the opcode pushes.  NEEDED FOR TRUTH: `Src.eval` applies an opcode to the
     operands of *this* application only, the machine applies it to the whole stack, so an
     under-supplied operator fails in the source (`underflow`) and succeeds on the machine
     (`gen_underflow_counterexample`); a main tree with two values is rejected by `runProg` and
     returns on the machine (`gen_arity_counterexample`).
  R2 every discarded position (non-last `seq` elements, loop bodies, `for_` init and step, the
     `then` branch of an `ite` without `else`) yields **no** value.  NEEDED (together with R1):
     the source drops such values, the machine keeps them (`gen_discard_counterexample`).
  R3 `brk`/`cont` occur only where the machine stack is the one of the loop entry: in a loop
     body, in statement position (`seq` elements, `ite`/`cond` branches, `note`/`nonce`
     wrappers) — never inside operands or conditions (`bc = false` there).  Inside operands this
     is PROOF TECHNIQUE (invariant "machine stack = values ++ σ"; PyTeal accepts such trees and
     leaks one operand per iteration, which in the main routine is observable only through the
     1000-deep stack limit, already an allowed deviation).  In the init/cond/step parts of loops
     it is NEEDED: see `gen_forContinue_example`.
  R4 slot ids of `load/store/multi` are real scratch slots (`< 256`).  NEEDED: the graph is
     executed before slot assignment and the machine rejects slots `> 255`
     (`gen_slot_counterexample`).
  R5 opcodes without a fixed stack effect (`dig/bury/cover/uncover/popn/dupn`) and opcodes unknown
     to `execPrim` have no signature.  CONVENIENCE (PyTeal expression classes do not produce them
     as `prim`; `Suffix` has its own constructor); unknown opcodes are `unmodelled` anyway.
  R6 `call`, `wideRatio` (`gen` answers "unmodelled") and `ret none` (rejected by `gen` in the main
     routine) are excluded.  REDUNDANT given `genMain cfg e = .ok _`; listed for documentation.
  `ret (some _)`, `exit`, `err` may occur anywhere, also in operand position (any arity: they
  never complete normally).
-/
import PyTealV.Src
namespace PyTealV.Models.Fragment
open PyTealV PyTealV.Avm PyTealV.Src

/-- (values popped, values pushed) of every opcode of `Avm.execPrim` with a fixed stack effect.
    `dig/bury/cover/uncover/popn/dupn` (immediate-dependent effect; never produced by PyTeal
    expression classes other than `Suffix`, which has its own constructor) and unknown opcodes
    have no signature and are outside the fragment. -/
def primSig (op : String) : Option (Nat × Nat) :=
  match op with
  | "+" => some (2, 1)
  | "-" => some (2, 1)
  | "*" => some (2, 1)
  | "/" => some (2, 1)
  | "%" => some (2, 1)
  | "<" => some (2, 1)
  | ">" => some (2, 1)
  | "<=" => some (2, 1)
  | ">=" => some (2, 1)
  | "&&" => some (2, 1)
  | "||" => some (2, 1)
  | "==" => some (2, 1)
  | "!=" => some (2, 1)
  | "!" => some (1, 1)
  | "~" => some (1, 1)
  | "&" => some (2, 1)
  | "|" => some (2, 1)
  | "^" => some (2, 1)
  | "shl" => some (2, 1)
  | "shr" => some (2, 1)
  | "sqrt" => some (1, 1)
  | "bitlen" => some (1, 1)
  | "exp" => some (2, 1)
  | "mulw" => some (2, 2)
  | "addw" => some (2, 2)
  | "expw" => some (2, 2)
  | "divmodw" => some (4, 4)
  | "divw" => some (3, 1)
  | "len" => some (1, 1)
  | "itob" => some (1, 1)
  | "btoi" => some (1, 1)
  | "concat" => some (2, 1)
  | "substring" => some (1, 1)
  | "substring3" => some (3, 1)
  | "extract" => some (1, 1)
  | "extract3" => some (3, 1)
  | "extract_uint16" => some (2, 1)
  | "extract_uint32" => some (2, 1)
  | "extract_uint64" => some (2, 1)
  | "getbit" => some (2, 1)
  | "setbit" => some (3, 1)
  | "getbyte" => some (2, 1)
  | "setbyte" => some (3, 1)
  | "bzero" => some (1, 1)
  | "replace2" => some (2, 1)
  | "replace3" => some (3, 1)
  | "base64_decode" => some (1, 1)
  | "b+" => some (2, 1)
  | "b-" => some (2, 1)
  | "b*" => some (2, 1)
  | "b/" => some (2, 1)
  | "b%" => some (2, 1)
  | "b<" => some (2, 1)
  | "b>" => some (2, 1)
  | "b<=" => some (2, 1)
  | "b>=" => some (2, 1)
  | "b==" => some (2, 1)
  | "b!=" => some (2, 1)
  | "b|" => some (2, 1)
  | "b&" => some (2, 1)
  | "b^" => some (2, 1)
  | "b~" => some (1, 1)
  | "bsqrt" => some (1, 1)
  | "sha256" => some (1, 1)
  | "keccak256" => some (1, 1)
  | "sha512_256" => some (1, 1)
  | "sha3_256" => some (1, 1)
  | "ed25519verify" => some (3, 1)
  | "ed25519verify_bare" => some (3, 1)
  | "pop" => some (1, 0)
  | "dup" => some (1, 2)
  | "dup2" => some (2, 4)
  | "swap" => some (2, 2)
  | "select" => some (3, 1)
  | "dig" => none
  | "bury" => none
  | "cover" => none
  | "uncover" => none
  | "popn" => none
  | "dupn" => none
  | "assert" => some (1, 0)
  | "loads" => some (1, 1)
  | "stores" => some (2, 0)
  | "txn" => some (0, 1)
  | "txna" => some (0, 1)
  | "txnas" => some (1, 1)
  | "gtxn" => some (0, 1)
  | "gtxna" => some (0, 1)
  | "gtxnas" => some (1, 1)
  | "gtxns" => some (1, 1)
  | "gtxnsa" => some (1, 1)
  | "gtxnsas" => some (2, 1)
  | "global" => some (0, 1)
  | "arg" => some (0, 1)
  | "arg_0" => some (0, 1)
  | "arg_1" => some (0, 1)
  | "arg_2" => some (0, 1)
  | "arg_3" => some (0, 1)
  | "args" => some (1, 1)
  | "app_global_get" => some (1, 1)
  | "app_global_get_ex" => some (2, 2)
  | "app_global_put" => some (2, 0)
  | "app_global_del" => some (1, 0)
  | "app_local_get" => some (2, 1)
  | "app_local_get_ex" => some (3, 2)
  | "app_local_put" => some (3, 0)
  | "app_local_del" => some (2, 0)
  | "app_opted_in" => some (2, 1)
  | "balance" => some (1, 1)
  | "min_balance" => some (1, 1)
  | "asset_holding_get" => some (2, 2)
  | "asset_params_get" => some (1, 2)
  | "app_params_get" => some (1, 2)
  | "acct_params_get" => some (1, 2)
  | "log" => some (1, 0)
  | "box_create" => some (2, 1)
  | "box_put" => some (2, 0)
  | "box_get" => some (1, 2)
  | "box_len" => some (1, 2)
  | "box_del" => some (1, 1)
  | "box_extract" => some (3, 1)
  | "box_replace" => some (3, 0)
  | "itxn_begin" => some (0, 0)
  | "itxn_next" => some (0, 0)
  | "itxn_field" => some (1, 0)
  | "itxn_submit" => some (0, 0)
  | "itxn" => some (0, 1)
  | "suffix" => some (2, 1)
  | "vloads" => some (1, 1)
  | "vstores" => some (2, 0)
  | _ => none

mutual
  /-- `wt bc n e`: `e` is in the fragment, yields exactly `n` values on normal completion, and
      `brk/cont` occur in it only if `bc` (and then only in statement position). -/
  def wt (bc : Bool) (n : Nat) : Expr → Bool
    | .int _ => n == 1
    | .bytes _ => n == 1
    | .index _ => n == 1
    | .load v => n == 1 && decide (v < 256)
    | .prim op _ args =>
      (match primSig op with
       | some (k, p) => args.length == k && p == n
       | none => false) && wtArgs args
    | .store v e => n == 0 && decide (v < 256) && wt false 1 e
    | .multi op _ args outs =>
      n == 0 &&
      (match primSig op with
       | some (k, p) => args.length == k && p == outs.length
       | none => false) && outs.all (fun v => decide (v < 256)) && wtArgs args
    | .seq es => wtSeq bc n es
    | .ite c t none => n == 0 && wt false 1 c && wt bc 0 t
    | .ite c t (some e) => wt false 1 c && wt bc n t && wt bc n e
    | .cond arms => wtArms bc n arms
    | .while_ c b => n == 0 && wt false 1 c && wt true 0 b
    | .for_ i c s b => n == 0 && wt false 0 i && wt false 1 c && wt false 0 s && wt true 0 b
    | .brk => bc
    | .cont => bc
    | .assert_ c => n == 0 && wt false 1 c
    | .ret none => false
    | .ret (some e) => wt false 1 e
    | .exit e => wt false 1 e
    | .err => true
    | .call _ _ => false
    | .wideRatio _ _ => false
    | .substring s a b => n == 1 && wt false 1 s && wt false 1 a && wt false 1 b
    | .extract s a l => n == 1 && wt false 1 s && wt false 1 a && wt false 1 l
    | .suffix s a => n == 1 && wt false 1 s && wt false 1 a
    | .note none => n == 0
    | .note (some e) => wt bc n e
    | .nonce _ e => wt bc n e
  /-- operands: each yields exactly one value, no `brk/cont` -/
  def wtArgs : List Expr → Bool
    | [] => true
    | e :: es => wt false 1 e && wtArgs es
  /-- sequence: all but the last element yield nothing; the last one yields `n` values -/
  def wtSeq (bc : Bool) (n : Nat) : List Expr → Bool
    | [] => n == 0
    | [e] => wt bc n e
    | e :: e2 :: es => wt bc 0 e && wtSeq bc n (e2 :: es)
  /-- `Cond` arms: one-valued conditions, bodies of the common arity -/
  def wtArms (bc : Bool) (n : Nat) : List (Expr × Expr) → Bool
    | [] => true
    | (c, b) :: rest => wt false 1 c && wt bc n b && wtArms bc n rest
end

/-- A main-routine tree is covered iff it is arity-typed as a statement or as a one-valued
    expression (`compileSubroutine` wraps a tree without return into `Return(ast)`). -/
def inFragment (e : Expr) : Bool := wt false 0 e || wt false 1 e

end PyTealV.Models.Fragment
