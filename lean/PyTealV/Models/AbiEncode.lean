/-
  Model of the PyTeal ABI *encoders* (property C06):

      pyteal/ast/abi/type.py, bool.py, uint.py, tuple.py (`_encode_tuple`), array_base.py,
      array_static.py, array_dynamic.py, string.py, address.py

  Three layers.

  1. **Descriptors** – `pyStr`, `pyIsDynamic`, `pyByteLengthStatic`, `pyStride` mirror
     `__str__`, `is_dynamic()`, `byte_length_static()` (incl. `_bool_aware_static_byte_length`)
     and `ArrayTypeSpec._stride()` of every TypeSpec class, on the universe `PT` of TypeSpec
     *objects* (so `byte`/`uint8`, `address`/`byte[32]`, `string`/`byte[]`, tuple/named tuple
     are different objects with the same ARC-4 reading `toTy`).

  2. **The algorithm of the emitted code**.  `Tuple.set(*values)` / `Array.set(values)` return
     an expression built by `_encode_tuple(values)`.  What is modelled here is the *byte
     computation that expression performs when it runs* (not the expression tree):
     the members are visited left to right; a maximal run of `Bool`s becomes one byte string
     (`Bytes(b"\x00" * ceil(n/8))` and one `setbit` per member); a static member contributes
     `elem.encode()`; a dynamic member stores `elem.encode()` in `encoded_tail`, appends it to
     `tail_holder`, moves the running `Uint16` offset (`tail_offset`, `tail_offset_accumulator`)
     and contributes `Suffix(Itob(tail_offset), 6)`; finally `Concat(heads…, tail_holder)`.
     The points where the Python construction raises and where the emitted code fails are
     explicit:
       * `tail_offset.set(head_length_static)` is `uint_set` of a Python int: **build-time**
         `TealInputError` when the static head is ≥ 2¹⁶ bytes (only when a dynamic member exists);
       * `tail_offset_accumulator.set(tail_offset.get() + Len(encoded_tail.load()))` is
         `uint_set` of an *expression*: `Assert(acc < 2¹⁶)` at **run time**, executed for every
         dynamic member that is not the last dynamic one – i.e. every later offset is checked;
       * `tail_offset.set(tail_offset_accumulator)` copies a `Uint16` (no check needed);
       * `setbit` fails for a value > 1, `setbyte` for a value > 255 (never happens for values
         stored through `set`).
     Byte strings are unbounded here.  On the AVM every byte string is ≤ 4096 bytes, so programs
     whose encoding (or an intermediate value) is longer fail there; that only removes successful
     runs, it never changes bytes.  The single place where the bound matters for *correctness*
     is `String.set(expr)` / `DynamicBytes.set(expr)`: the length prefix is
     `Suffix(Itob(Len(x)), 6)` with **no** assertion, i.e. it wraps for `Len(x) ≥ 2¹⁶`
     (`exprByteString`); the bound 4096 < 2¹⁶ makes the wrap unreachable
     (hypothesis `bs.length ≤ avmMaxBytes` in `WT`).

  3. **`set` on nested values** – `pySet : PT → In → Res Bytes`: leaves given as Python
     constants (`boolC/intC/bytesC`: range / length checks raise while the program is *built*)
     or as expressions (`boolE/intE/bytesE`: `Not(Not(e))`, `Assert(v < 2^N)`, `Assert(Len = n)`
     at *run time*), containers assembled bottom-up from already-set instances, exactly as the
     API requires.  Python exceptions (`Res.buildError`) and program failure (`Res.runFail`) are
     distinct results; a build error anywhere wins over any run-time failure (nothing runs when
     the program cannot be built), hence the two separate passes `buildCheck` / `runSet`.

  The `ignoreNext` / `_consecutive_bool_*_num` skipping logic occurs verbatim in
  `_bool_aware_static_byte_length` and in the first loop of `_encode_tuple`; it is factored
  as `pyItems` (a list of "run of bools" / "single member" items) and shared.

  Core Lean only (linked into the native driver).
-/
import PyTealV.Arc4
namespace PyTealV.Models.AbiEncode
open PyTealV.Arc4 (Bytes Ty V)
set_option linter.unusedVariables false

/-! ## TypeSpec objects -/

/-- the five concrete `UintTypeSpec` subclasses -/
inductive UK where
  | byte | u8 | u16 | u32 | u64
  deriving Repr, DecidableEq, Inhabited

/-- `UintTypeSpec.bit_size()` -/
def UK.bits : UK → Nat
  | .byte => 8 | .u8 => 8 | .u16 => 16 | .u32 => 32 | .u64 => 64

/-- TypeSpec objects of ARC-4 data types (transaction / reference specs have no encoding) -/
inductive PT where
  | bool
  | uint (k : UK)
  | address
  | string
  | dynBytes
  | staticBytes (n : Nat)
  | sarray (e : PT) (n : Nat)
  | darray (e : PT)
  | tuple (ts : List PT)
  | named (ts : List PT)        -- NamedTupleTypeSpec: same `value_type_specs()`, same methods
  deriving Repr, Inhabited

mutual
  /-- the ARC-4 type a spec stands for -/
  def toTy : PT → Ty
    | .bool => .bool
    | .uint .byte => .byte
    | .uint k => .uint k.bits
    | .address => .address
    | .string => .string
    | .dynBytes => .darray .byte
    | .staticBytes n => .sarray .byte n
    | .sarray e n => .sarray (toTy e) n
    | .darray e => .darray (toTy e)
    | .tuple ts => .tuple (toTys ts)
    | .named ts => .tuple (toTys ts)
  def toTys : List PT → List Ty
    | [] => []
    | t :: ts => toTy t :: toTys ts
end

/-! ## `__str__` -/

mutual
  def pyStrChars : PT → List Char
    | .bool => "bool".toList
    | .uint .byte => "byte".toList                                    -- ByteTypeSpec.__str__
    | .uint k => "uint".toList ++ (Nat.repr k.bits).toList            -- UintTypeSpec.__str__
    | .address => "address".toList
    | .string => "string".toList
    | .dynBytes => "byte[]".toList
    | .staticBytes n => "byte".toList ++ '[' :: (Nat.repr n).toList ++ [']']   -- StaticArrayTypeSpec.__str__
    | .sarray e n => pyStrChars e ++ '[' :: (Nat.repr n).toList ++ [']']
    | .darray e => pyStrChars e ++ ['[', ']']
    | .tuple ts => '(' :: pyStrList ts ++ [')']
    | .named ts => '(' :: pyStrList ts ++ [')']
  /-- `",".join(map(str, ts))` -/
  def pyStrList : List PT → List Char
    | [] => []
    | [t] => pyStrChars t
    | t :: ts => pyStrChars t ++ ',' :: pyStrList ts
end

def pyStr (t : PT) : String := String.ofList (pyStrChars t)

/-! ## `is_dynamic()` -/

mutual
  def pyIsDynamic : PT → Bool
    | .bool => false                                   -- BoolTypeSpec
    | .uint _ => false                                 -- UintTypeSpec
    | .address => false                                -- StaticArrayTypeSpec: value_type_spec().is_dynamic() of ByteTypeSpec
    | .staticBytes _ => false
    | .string => true                                  -- DynamicArrayTypeSpec
    | .dynBytes => true
    | .darray _ => true
    | .sarray e _ => pyIsDynamic e
    | .tuple ts => pyAnyDynamic ts                     -- any(t.is_dynamic() for t in value_type_specs())
    | .named ts => pyAnyDynamic ts
  def pyAnyDynamic : List PT → Bool
    | [] => false
    | t :: ts => pyIsDynamic t || pyAnyDynamic ts
end

/-! ## runs of bools: the `ignoreNext` loops -/

/-- `t == BoolTypeSpec()` (every `TypeSpec.__eq__` answers `False` for a `BoolTypeSpec` argument
    except `BoolTypeSpec.__eq__`) -/
def isBoolSpec : PT → Bool
  | .bool => true
  | _ => false

/-- `_consecutive_thing_num(things[start:], condition)` -/
def leadCount {α} (p : α → Bool) : List α → Nat
  | [] => 0
  | x :: xs => if p x then leadCount p xs + 1 else 0

inductive Item (α : Type) where
  | run (xs : List α)      -- a bool at position i together with the `numBools - 1` skipped ones
  | one (x : α)
  deriving Repr

/-- The common skeleton of `_bool_aware_static_byte_length` and of the first loop of
    `_encode_tuple`: `for i, x in enumerate(xs): if ignoreNext > 0: ignoreNext -= 1; continue;
    if x is a bool: n = consecutive_bool_num(xs, i); ignoreNext = n - 1; <run of n>; continue;
    <single x>`.  The first argument is `ignoreNext`. -/
def pyItems {α} (isB : α → Bool) : Nat → List α → List (Item α)
  | _, [] => []
  | ig+1, _ :: xs => pyItems isB ig xs
  | 0, x :: xs =>
    if isB x then
      let n := leadCount isB (x :: xs)
      .run ((x :: xs).take n) :: pyItems isB (n - 1) xs
    else .one x :: pyItems isB 0 xs

/-- `_bool_sequence_length(num_bools)` -/
def boolSeqLen (n : Nat) : Nat := (n + 8 - 1) / 8

/-! ## `byte_length_static()` -/

def dynErr : String := "ValueError: Type is dynamic"

/-- `_bool_aware_static_byte_length`, on the items; a single member carries the result of its own
    `byte_length_static()` -/
def boolAwareLen : List (Item (PT × Except String Nat)) → Except String Nat
  | [] => pure 0
  | .run xs :: is => do
    let r ← boolAwareLen is
    pure (boolSeqLen xs.length + r)
  | .one x :: is => do
    let a ← x.2
    let r ← boolAwareLen is
    pure (a + r)

mutual
  def pyByteLengthStatic : PT → Except String Nat
    | .bool => pure 1
    | .uint k => pure (k.bits / 8)
    | .address => pure (32 * 1)                          -- StaticArrayTypeSpec(ByteTypeSpec(), 32)
    | .staticBytes n => pure (n * 1)
    | .sarray e n =>
      if pyIsDynamic e then throw dynErr
      else if isBoolSpec e then pure (boolSeqLen n)
      else do
        let l ← pyByteLengthStatic e
        pure (n * l)
    | .string => throw dynErr
    | .dynBytes => throw dynErr
    | .darray _ => throw dynErr
    | .tuple ts =>
      if pyAnyDynamic ts then throw dynErr
      else boolAwareLen (pyItems (fun p => isBoolSpec p.1) 0 (lenPairs ts))
    | .named ts =>
      if pyAnyDynamic ts then throw dynErr
      else boolAwareLen (pyItems (fun p => isBoolSpec p.1) 0 (lenPairs ts))
  /-- each member with the outcome of its `byte_length_static()` (only looked at for members
      outside bool runs) -/
  def lenPairs : List PT → List (PT × Except String Nat)
    | [] => []
    | t :: ts => (t, pyByteLengthStatic t) :: lenPairs ts
end

/-- `ArrayTypeSpec._stride()` for an array whose `value_type_spec()` is `e` -/
def pyStride (e : PT) : Except String Nat :=
  if pyIsDynamic e then pure 2 else pyByteLengthStatic e

/-- `value_type_spec()` of the array-like specs -/
def elemSpec : PT → Option PT
  | .address | .string | .dynBytes | .staticBytes _ => some (.uint .byte)
  | .sarray e _ | .darray e => some e
  | _ => none

/-! ## AVM primitives used by the emitted code (same arithmetic as `Avm.Sem`) -/

/-- every AVM stack value is at most this long -/
def avmMaxBytes : Nat := 4096

/-- `itob` -/
def itob (n : Nat) : Bytes := Arc4.beBytes 8 n

/-- `setbit` on a byte string: bit `i` counted from the most significant bit of byte 0 -/
def setBit (bs : Bytes) (i v : Nat) : Option Bytes :=
  if v > 1 then none else
  match bs[i / 8]? with
  | some byte =>
    let m := 2 ^ (7 - i % 8)
    let cleared := byte.toNat - ((byte.toNat / m) % 2) * m
    some (bs.set (i / 8) (UInt8.ofNat (cleared + v * m)))
  | none => none

/-- `setbyte` -/
def setByte (bs : Bytes) (i v : Nat) : Option Bytes :=
  if v > 255 then none
  else if i < bs.length then some (bs.set i (UInt8.ofNat v)) else none

/-! ## integers: `uint_set`, `uint_encode` -/

/-- `uint_set(size, var, value)` with `type(value) is int` (non-negative; `Int(-1)` raises too):
    the value stored, or the exception raised while the program is built -/
def uintSetInt (k : UK) (value : Nat) : Except String Nat :=
  if value ≥ 2 ^ k.bits then throw "TealInputError: Value exceeds uint maximum" else pure value

/-- `uint_set(size, var, expr)` where the expression evaluates to `v`: the value stored, or
    `none` when `Assert(var.load() < Int(2**size))` fails (no assertion for size 64) -/
def uintSetExpr (k : UK) (v : Nat) : Option Nat :=
  if k.bits = 64 then some v
  else if v < 2 ^ k.bits then some v else none

/-- `uint_encode(size, var)` on the stored value -/
def uintEncode (k : UK) (v : Nat) : Option Bytes :=
  match k with
  | .byte | .u8 => setByte [0] 0 v                 -- SetByte(Bytes(b"\x00"), Int(0), v)
  | .u16 => some ((itob v).drop 6)                 -- Suffix(Itob(v), Int(6))
  | .u32 => some ((itob v).drop 4)                 -- Suffix(Itob(v), Int(4))
  | .u64 => some (itob v)                          -- Itob(v)

/-! ## bools -/

/-- `Bool.set(True/False)` -/
def boolSetConst (b : Bool) : Nat := if b then 1 else 0

/-- `Bool.set(expr)`: `Not(Not(expr))` -/
def boolSetExpr (n : Nat) : Nat := if n = 0 then 0 else 1

/-! ## members of a tuple as `_encode_tuple` sees them -/

/-- content of an ABI instance's slot (`TealType.uint64` for Bool / Uint, else bytes) -/
inductive Stored where
  | u (n : Nat)
  | b (bs : Bytes)
  deriving Repr, DecidableEq, Inhabited

structure Member where
  spec : PT
  val : Stored
  deriving Repr, Inhabited

/-- `elem.encode()` -/
def memberEncode (m : Member) : Option Bytes :=
  match m.spec, m.val with
  | .bool, .u n => setBit [0] 0 n                  -- SetBit(Bytes(b"\x00"), Int(0), self.get())
  | .uint k, .u n => uintEncode k n
  | .bool, .b _ => none
  | .uint _, .b _ => none
  | _, .b bs => some bs                            -- arrays, tuples, strings: `_stored_value.load()`
  | _, .u _ => none

/-- `_encode_bool_sequence(values)`: `Bytes(b"\x00" * length)` then one `SetBit` per value -/
def setBits (acc : Bytes) (i : Nat) : List Member → Option Bytes
  | [] => some acc
  | m :: ms =>
    match m.val with
    | .u n => (setBit acc i n).bind (fun acc' => setBits acc' (i + 1) ms)
    | .b _ => none

def encodeBoolSeq (ms : List Member) : Option Bytes :=
  setBits (List.replicate (boolSeqLen ms.length) 0) 0 ms

/-! ## `_encode_tuple` -/

/-- first loop: `head_length_static` -/
def headLenItems : List (Item PT) → Except String Nat
  | [] => pure 0
  | .run xs :: is => do
    let r ← headLenItems is
    pure (boolSeqLen xs.length + r)
  | .one t :: is =>
    if pyIsDynamic t then do
      let r ← headLenItems is
      pure (2 + r)
    else do
      let a ← pyByteLengthStatic t
      let r ← headLenItems is
      pure (a + r)

def headLenStatic (specs : List PT) : Except String Nat :=
  headLenItems (pyItems isBoolSpec 0 specs)

/-- What can go wrong while `_encode_tuple(values)` is *built*: `tail_offset.set(head_length_static)`
    raises for a head of 2¹⁶ bytes or more (it is only executed when a dynamic member exists).
    Returns `head_length_static`. -/
def tupleBuildCheck (specs : List PT) : Except String Nat := do
  let hl ← headLenStatic specs
  if specs.any pyIsDynamic && decide (hl ≥ 2 ^ 16) then
    throw "TealInputError: Value exceeds uint16 maximum"
  else pure hl

/-- the scratch slots / frame variables of the emitted expression -/
structure TState where
  tailHolder : Bytes := []        -- tail_holder
  tailOffset : Nat := 0           -- tail_offset (Uint16)
  acc : Nat := 0                  -- tail_offset_accumulator (Uint16)
  first : Bool := true            -- firstDynamicTail (a Python flag, resolved at build time)
  deriving Repr

/-- the head expression of a dynamic member:
    `Seq(encoded_tail.store(elem.encode()), updateVars, updateAccumulator, tail_offset.encode())` -/
def dynHead (headLen : Nat) (st : TState) (m : Member) (notLast : Bool) : Option (Bytes × TState) := do
  let enc ← memberEncode m
  let st1 : TState :=
    if st.first then { st with tailHolder := enc, tailOffset := headLen, first := false }
    else { st with tailHolder := st.tailHolder ++ enc, tailOffset := st.acc }
  let st2 ←
    if notLast then
      let a := st1.tailOffset + enc.length
      -- `+` fails on uint64 overflow; `Assert(acc < Int(2**16))`
      if a < 2 ^ 64 ∧ a < 2 ^ 16 then some { st1 with acc := a } else none
    else some st1
  let h ← uintEncode .u16 st2.tailOffset
  some (h, st2)

/-- `nextValue.type_spec().is_dynamic()` on an item (a run consists of bools) -/
def dynItem : Item Member → Bool
  | .one x => pyIsDynamic x.spec
  | .run _ => false

/-- evaluation of the head expressions, left to right -/
def headsLoop (headLen : Nat) (st : TState) : List (Item Member) → Option (Bytes × TState)
  | [] => some ([], st)
  | .run xs :: is => do
    let h ← encodeBoolSeq xs
    let (hs, st') ← headsLoop headLen st is
    some (h ++ hs, st')
  | .one m :: is =>
    if pyIsDynamic m.spec then do
      let notLast := is.any dynItem      -- any(v.type_spec().is_dynamic() for v in values[i + 1:])
      let (h, st1) ← dynHead headLen st m notLast
      let (hs, st') ← headsLoop headLen st1 is
      some (h ++ hs, st')
    else do
      let h ← memberEncode m
      let (hs, st') ← headsLoop headLen st is
      some (h ++ hs, st')

/-- run-time value of the expression `_encode_tuple(values)` (`none`: the program fails) -/
def encodeTupleRun (ms : List Member) : Option Bytes :=
  match headLenStatic (ms.map (·.spec)) with
  | .error _ => none
  | .ok headLen =>
    match headsLoop headLen {} (pyItems (fun m => isBoolSpec m.spec) 0 ms) with
    | none => none
    | some (heads, st) => some (if st.first then heads else heads ++ st.tailHolder)

/-! ## results -/

inductive Res (α : Type) where
  | buildError (exc : String)     -- a Python exception while the program is constructed
  | runFail                       -- the emitted program fails
  | ok (a : α)
  deriving Repr, DecidableEq

def Res.toOption {α} : Res α → Option α
  | .ok a => some a
  | _ => none

def Res.of {α} (b : Except String Unit) (r : Option α) : Res α :=
  match b with
  | .error e => .buildError e
  | .ok _ =>
    match r with
    | some a => .ok a
    | none => .runFail

/-- `_encode_tuple(values)`, both phases -/
def encodeTuple (ms : List Member) : Res Bytes :=
  Res.of ((tupleBuildCheck (ms.map (·.spec))).map (fun _ => ())) (encodeTupleRun ms)

/-! ## `Array.set(values)` -/

/-- build time: `_encode_tuple`, then (dynamic length) `length_tmp.set(len(values))` -/
def arrayBuildCheck (lengthDynamic : Bool) (specs : List PT) : Except String Unit := do
  let _ ← tupleBuildCheck specs
  if lengthDynamic && decide (specs.length ≥ 2 ^ 16) then
    throw "TealInputError: Value exceeds uint16 maximum"
  else pure ()

/-- run time: `Concat(Seq(length_tmp.set(n), length_tmp.encode()), encoded)` resp. `encoded` -/
def arraySetRun (lengthDynamic : Bool) (ms : List Member) : Option Bytes := do
  let enc ← encodeTupleRun ms
  if lengthDynamic then
    let p ← uintEncode .u16 ms.length
    some (p ++ enc)
  else some enc

/-! ## byte strings: `String` / `DynamicBytes` / `Address` / `StaticBytes` -/

/-- `_encoded_byte_string(s)`: `ABIType.from_string("uint16").encode(len(s)) + s`, computed in
    Python (algosdk raises when the length does not fit) -/
def constByteString (s : Bytes) : Except String Bytes :=
  if s.length < 2 ^ 16 then pure (Arc4.u16 s.length ++ s)
  else throw "ABIEncodingError: value is too big to fit in size 16"

/-- `_store_encoded_expr_byte_string_into_var`: `Concat(Suffix(Itob(Len(x)), Int(6)), x)` –
    no assertion: the prefix is `Len(x) mod 2¹⁶` -/
def exprByteString (x : Bytes) : Bytes := (itob x.length).drop 6 ++ x

/-- `Address.set(bytes)` / `StaticBytes.set(bytes)`: length check in Python -/
def constFixedBytes (n : Nat) (s : Bytes) : Except String Bytes :=
  if s.length = n then pure s else throw "TealInputError: Got bytes with wrong length"

/-- `Address.set(expr)` / `StaticBytes.set(expr)`: `Assert(Len(x) == n)` -/
def exprFixedBytes (n : Nat) (x : Bytes) : Option Bytes :=
  if x.length = n then some x else none

/-! ## nested values given to `set` -/

inductive In where
  | boolC (b : Bool)          -- Python `True` / `False`
  | boolE (n : Nat)           -- an expression evaluating to the uint64 `n`
  | intC (n : Nat)            -- Python int
  | intE (n : Nat)            -- an expression evaluating to the uint64 `n`
  | bytesC (bs : Bytes)       -- Python bytes / str (its UTF-8 bytes)
  | bytesE (bs : Bytes)       -- an expression evaluating to these bytes
  | seq (xs : List In)        -- a sequence of ABI instances, each `set` before
  deriving Repr, Inhabited

mutual
  /-- the abstract value an input stands for -/
  def denote : In → V
    | .boolC b => .bool b
    | .boolE n => .bool (n != 0)
    | .intC n => .uint n
    | .intE n => .uint n
    | .bytesC bs => V.ofBytes bs
    | .bytesE bs => V.ofBytes bs
    | .seq xs => .seq (denotes xs)
  def denotes : List In → List V
    | [] => []
    | x :: xs => denote x :: denotes xs
end

/-- fixed length of the static byte-string specs -/
def fixedLen : PT → Option Nat
  | .address => some 32
  | .staticBytes n => some n
  | _ => none

mutual
  /-- the input has the form `set` accepts for this spec (run-time values are AVM stack values:
      uint64 < 2⁶⁴, byte strings ≤ 4096 bytes); sequence lengths are *not* constrained here -/
  def WT : PT → In → Bool
    | .bool, .boolC _ => true
    | .bool, .boolE n => decide (n < 2 ^ 64)
    | .uint _, .intC _ => true
    | .uint _, .intE n => decide (n < 2 ^ 64)
    | .address, .bytesC _ => true
    | .address, .bytesE bs => decide (bs.length ≤ avmMaxBytes)
    | .address, .seq xs => wtElems (.uint .byte) xs
    | .staticBytes _, .bytesC _ => true
    | .staticBytes _, .bytesE bs => decide (bs.length ≤ avmMaxBytes)
    | .staticBytes _, .seq xs => wtElems (.uint .byte) xs
    | .string, .bytesC _ => true
    | .string, .bytesE bs => decide (bs.length ≤ avmMaxBytes)
    | .string, .seq xs => wtElems (.uint .byte) xs
    | .dynBytes, .bytesC _ => true
    | .dynBytes, .bytesE bs => decide (bs.length ≤ avmMaxBytes)
    | .dynBytes, .seq xs => wtElems (.uint .byte) xs
    | .sarray e _, .seq xs => wtElems e xs
    | .darray e, .seq xs => wtElems e xs
    | .tuple ts, .seq xs => wtFields ts xs
    | .named ts, .seq xs => wtFields ts xs
    | _, _ => false
  def wtElems : PT → List In → Bool
    | _, [] => true
    | e, x :: xs => WT e x && wtElems e xs
  def wtFields : List PT → List In → Bool
    | [], [] => true
    | t :: ts, x :: xs => WT t x && wtFields ts xs
    | _, _ => false
end

def okUnit : Except String Unit := pure ()

mutual
  /-- every exception the Python construction of `x.set(…)` (children first) can raise -/
  def buildCheck : PT → In → Except String Unit
    | .uint k, .intC n => (uintSetInt k n).map (fun _ => ())
    | .address, .bytesC bs => (constFixedBytes 32 bs).map (fun _ => ())
    | .staticBytes n, .bytesC bs => (constFixedBytes n bs).map (fun _ => ())
    | .string, .bytesC bs => (constByteString bs).map (fun _ => ())
    | .dynBytes, .bytesC bs => (constByteString bs).map (fun _ => ())
    | .address, .seq xs => do
      buildElems (.uint .byte) xs
      if xs.length ≠ 32 then throw "TealInputError: Got bytes with wrong length"
      arrayBuildCheck false (List.replicate xs.length (.uint .byte))
    | .staticBytes n, .seq xs => do
      buildElems (.uint .byte) xs
      if xs.length ≠ n then throw "TealInputError: Incorrect length for values"
      arrayBuildCheck false (List.replicate xs.length (.uint .byte))
    | .string, .seq xs => do
      buildElems (.uint .byte) xs
      arrayBuildCheck true (List.replicate xs.length (.uint .byte))
    | .dynBytes, .seq xs => do
      buildElems (.uint .byte) xs
      arrayBuildCheck true (List.replicate xs.length (.uint .byte))
    | .sarray e n, .seq xs => do
      buildElems e xs
      if xs.length ≠ n then throw "TealInputError: Incorrect length for values"
      arrayBuildCheck false (List.replicate xs.length e)
    | .darray e, .seq xs => do
      buildElems e xs
      arrayBuildCheck true (List.replicate xs.length e)
    | .tuple ts, .seq xs => do
      buildFields ts xs
      if xs.length ≠ ts.length then throw "TealInputError: Incorrect length for values"
      (tupleBuildCheck ts).map (fun _ => ())
    | .named ts, .seq xs => do
      buildFields ts xs
      if xs.length ≠ ts.length then throw "TealInputError: Incorrect length for values"
      (tupleBuildCheck ts).map (fun _ => ())
    | _, _ => pure ()
  def buildElems : PT → List In → Except String Unit
    | _, [] => pure ()
    | e, x :: xs => do
      buildCheck e x
      buildElems e xs
  def buildFields : List PT → List In → Except String Unit
    | t :: ts, x :: xs => do
      buildCheck t x
      buildFields ts xs
    | _, _ => pure ()
end

mutual
  /-- slot content after the emitted `x.set(…)` ran (children first); `none`: the program fails.
      Only meaningful when `buildCheck` passed. -/
  def runSet : PT → In → Option Stored
    | .bool, .boolC b => some (.u (boolSetConst b))
    | .bool, .boolE n => some (.u (boolSetExpr n))
    | .uint _, .intC n => some (.u n)
    | .uint k, .intE n => (uintSetExpr k n).map .u
    | .address, .bytesC bs => some (.b bs)
    | .address, .bytesE bs => (exprFixedBytes 32 bs).map .b
    | .address, .seq xs => ((runElems (.uint .byte) xs).bind (arraySetRun false)).map .b
    | .staticBytes _, .bytesC bs => some (.b bs)
    | .staticBytes n, .bytesE bs => (exprFixedBytes n bs).map .b
    | .staticBytes _, .seq xs => ((runElems (.uint .byte) xs).bind (arraySetRun false)).map .b
    | .string, .bytesC bs => some (.b (Arc4.u16 bs.length ++ bs))
    | .string, .bytesE bs => some (.b (exprByteString bs))
    | .string, .seq xs => ((runElems (.uint .byte) xs).bind (arraySetRun true)).map .b
    | .dynBytes, .bytesC bs => some (.b (Arc4.u16 bs.length ++ bs))
    | .dynBytes, .bytesE bs => some (.b (exprByteString bs))
    | .dynBytes, .seq xs => ((runElems (.uint .byte) xs).bind (arraySetRun true)).map .b
    | .sarray e _, .seq xs => ((runElems e xs).bind (arraySetRun false)).map .b
    | .darray e, .seq xs => ((runElems e xs).bind (arraySetRun true)).map .b
    | .tuple ts, .seq xs => ((runFields ts xs).bind encodeTupleRun).map .b
    | .named ts, .seq xs => ((runFields ts xs).bind encodeTupleRun).map .b
    | _, _ => none
  def runElems : PT → List In → Option (List Member)
    | _, [] => some []
    | e, x :: xs =>
      match runSet e x, runElems e xs with
      | some s, some ms => some (⟨e, s⟩ :: ms)
      | _, _ => none
  def runFields : List PT → List In → Option (List Member)
    | [], [] => some []
    | t :: ts, x :: xs =>
      match runSet t x, runFields ts xs with
      | some s, some ms => some (⟨t, s⟩ :: ms)
      | _, _ => none
    | _, _ => none
end

/-- `x.set(input)` followed by `x.encode()` -/
def pySet (t : PT) (i : In) : Res Bytes :=
  Res.of (buildCheck t i) ((runSet t i).bind (fun s => memberEncode ⟨t, s⟩))

end PyTealV.Models.AbiEncode
