/-
  C14 — `InnerTxnBuilder.MethodCall` / `ExecuteMethodCall` (pyteal/ast/itxn.py).

  Part A (SPEC, written from the ARC-4 calling convention, independent of PyTeal):
    `arc4Call : Sig → List SVal → … → Option (List TxnView)` — the inner group an ARC-4 client
    has to submit so that an ARC-4 callee decodes the arguments given.
  Part B (MODEL of the code that exists): `methodCall` — the exact sequence of `itxn_field`
    settings and `itxn_next` actions that `MethodCall` puts into the program, with every
    build-time exception as an explicit `Except Err` result; `record` — how the AVM turns the
    actions between `itxn_begin` and `itxn_submit` into the recorded group (mirrors
    `Avm.Sem` `itxn_begin / itxn_field / itxn_next / itxn_submit`).
  Part C: `decodeTxn` (how a ledger / callee reads a sequence of field settings: array fields
    accumulate, scalar fields are overwritten) and `denote` (the value a Python-level argument
    stands for), which connect B to A in `Proofs/C14.lean`.

  Values are *run-time* values: an `Expr` argument is represented by the value it evaluates to
  (its TealType is the constructor, `Val.u` = uint64, `Val.b` = bytes); an ABI-typed argument by the
  bytes its `.encode()` evaluates to.  SHA-512/256 is uninterpreted: the selector is an input.
-/
import PyTealV.Util
import PyTealV.Avm.Sem
namespace PyTealV.Models.MethodCall
open PyTealV PyTealV.Util PyTealV.Avm

abbrev Setting := String × Val          -- one `itxn_field F` with the value popped
abbrev Txn := List Setting              -- a transaction under construction: settings in order
abbrev Group := List Txn                -- what `Effect.itxn` records

/-! ## Part A — the ARC-4 calling convention (spec) -/

inductive TxnTy | any | pay | keyreg | acfg | axfer | afrz | appl
  deriving DecidableEq, Repr, Inhabited

/-- how a plain value sits inside an ARC-4 tuple (the only thing tuple packing needs to know
    about its type): static → encoding in the head; dynamic → 2-byte offset in the head, encoding
    in the tail; bool → one bit, up to 8 consecutive bools share a byte -/
inductive Layout | static | dynamic | bool
  deriving DecidableEq, Repr, Inhabited

/-- the kind of one argument in a method signature -/
inductive Kind
  | plain (ty : String) (lay : Layout)    -- ARC-4 type (canonical text) + its tuple layout
  | account | application | asset
  | txn (ty : TxnTy)
  deriving DecidableEq, Repr, Inhabited

def Kind.isTxn : Kind → Bool | .txn _ => true | _ => false
def Kind.isAccount : Kind → Bool | .account => true | _ => false
def Kind.isApplication : Kind → Bool | .application => true | _ => false
def Kind.isAsset : Kind → Bool | .asset => true | _ => false

structure Sig where
  selector : Bytes                        -- first 4 bytes of SHA-512/256 of the signature text
  args : List Kind
  deriving Repr, DecidableEq

/-- the value given for one argument: plain → its ARC-4 encoding; account → the address;
    application / asset → the id; transaction → the transaction (its field settings) -/
inductive SVal
  | bytes (b : Bytes)
  | nat (n : Nat)
  | txn (fields : Txn)
  deriving Repr, DecidableEq

/-- A transaction as its reader sees it. -/
structure TxnView where
  typeEnum : Option Val := none
  appId : Option Val := none
  appArgs : List Val := []
  accounts : List Val := []               -- foreign accounts (index 0 = sender is implicit)
  apps : List Val := []                   -- foreign applications (index 0 = called app is implicit)
  assets : List Val := []                 -- foreign assets (index 0 = first entry)
  others : List Setting := []             -- every other field, in the order set
  deriving Repr, DecidableEq

/-- `itxn_field` semantics as the ledger reads it: `ApplicationArgs`, `Accounts`,
    `Applications`, `Assets` append, `TypeEnum` and `ApplicationID` overwrite. -/
def setF (v : TxnView) (s : Setting) : TxnView :=
  if s.1 = "TypeEnum" then { v with typeEnum := some s.2 }
  else if s.1 = "ApplicationID" then { v with appId := some s.2 }
  else if s.1 = "ApplicationArgs" then { v with appArgs := v.appArgs ++ [s.2] }
  else if s.1 = "Accounts" then { v with accounts := v.accounts ++ [s.2] }
  else if s.1 = "Applications" then { v with apps := v.apps ++ [s.2] }
  else if s.1 = "Assets" then { v with assets := v.assets ++ [s.2] }
  else { v with others := v.others ++ [s] }

def decodeTxn (t : Txn) : TxnView := t.foldl setF {}

/-! ### ARC-4 tuple encoding of already-encoded elements -/

structure Slot where
  enc : Bytes
  lay : Layout
  deriving Repr, DecidableEq

inductive Part | static (b : Bytes) | dynamic (b : Bytes)
  deriving Repr, DecidableEq

/-- the truth value of a stand-alone ARC-4 bool encoding (0x80 / 0x00) -/
def boolOf : Bytes → Bool
  | b :: _ => decide (128 ≤ b.toNat)
  | [] => false

/-- up to 8 bools, most significant bit first -/
def packBits (bs : List Bool) : UInt8 :=
  UInt8.ofNat (bitsToNat (bs ++ List.replicate (8 - bs.length) false))

def flushBools (p : List Bool) : List Part := if p.isEmpty then [] else [.static [packBits p]]

/-- head parts of the tuple; consecutive bools are packed 8 to a byte (`p` = bools pending) -/
def groupParts : List Slot → List Bool → List Part
  | [], p => flushBools p
  | s :: r, p =>
    match s.lay with
    | .bool =>
      if p.length = 8 then .static [packBits p] :: groupParts r [boolOf s.enc]
      else groupParts r (p ++ [boolOf s.enc])
    | .static => flushBools p ++ .static s.enc :: groupParts r []
    | .dynamic => flushBools p ++ .dynamic s.enc :: groupParts r []

def headLen : List Part → Nat
  | [] => 0
  | .static b :: r => b.length + headLen r
  | .dynamic _ :: r => 2 + headLen r

def u16? (n : Nat) : Option Bytes := if n < 65536 then some (natToBE 2 n) else none

/-- (heads, tails); `off` = offset at which the next dynamic element's encoding will start -/
def encodeParts : List Part → Nat → Option (Bytes × Bytes)
  | [], _ => some ([], [])
  | .static b :: r, off => do
      let (h, t) ← encodeParts r off
      pure (b ++ h, t)
  | .dynamic b :: r, off => do
      let o ← u16? off
      let (h, t) ← encodeParts r (off + b.length)
      pure (o ++ h, b ++ t)

def tupleEncode (slots : List Slot) : Option Bytes :=
  let ps := groupParts slots []
  (encodeParts ps (headLen ps)).map (fun ht => ht.1 ++ ht.2)

/-! ### the call -/

abbrev KV := Kind × SVal

def countK (p : Kind → Bool) (zs : List KV) : Nat := zs.countP (fun z => p z.1)

def uint8? (n : Nat) : Option Bytes := if n < 256 then some [UInt8.ofNat n] else none

/-- What goes into the application-argument list for one argument, given the arguments before
    it.  A reference argument is passed as the index of its value in the foreign array: the
    number of earlier arguments of the same kind, plus one for accounts and applications
    (whose index 0 denotes the sender / the called application).  A transaction argument
    occupies no slot. -/
def slotOf (before : List KV) : KV → Option (List Slot)
  | (.plain _ lay, .bytes e) => some [⟨e, lay⟩]
  | (.account, .bytes _) => (uint8? (countK Kind.isAccount before + 1)).map (fun b => [⟨b, .static⟩])
  | (.application, .nat _) => (uint8? (countK Kind.isApplication before + 1)).map (fun b => [⟨b, .static⟩])
  | (.asset, .nat _) => (uint8? (countK Kind.isAsset before)).map (fun b => [⟨b, .static⟩])
  | (.txn _, .txn _) => some []
  | _ => none

def encodeFrom (before : List KV) : List KV → Option (List Slot)
  | [] => some []
  | z :: r => do
      let s ← slotOf before z
      let t ← encodeFrom (before ++ [z]) r
      pure (s ++ t)

def accountsOf (zs : List KV) : List Bytes :=
  zs.filterMap (fun z => match z with | (.account, .bytes a) => some a | _ => none)
def appsOf (zs : List KV) : List Nat :=
  zs.filterMap (fun z => match z with | (.application, .nat n) => some n | _ => none)
def assetsOf (zs : List KV) : List Nat :=
  zs.filterMap (fun z => match z with | (.asset, .nat n) => some n | _ => none)
def txnsOf (zs : List KV) : List Txn :=
  zs.filterMap (fun z => match z with | (.txn _, .txn t) => some t | _ => none)

/-- at most 15 argument slots follow the selector; with more than 15 arguments the first 14
    are passed on their own and the 15th slot holds the tuple of all the others -/
def packArgs (slots : List Slot) : Option (List Bytes) :=
  if slots.length ≤ 15 then some (slots.map (·.enc))
  else (tupleEncode (slots.drop 14)).map (fun t => (slots.take 14).map (·.enc) ++ [t])

def applType : Nat := 6

/-- SPEC.  The inner group for calling method `sig` of application `appId` (none = create) with
    the given argument values and the caller's extra field settings: the transaction arguments
    in order, then the application call. -/
def arc4Call (sig : Sig) (vals : List SVal) (appId : Option Nat) (extra : Txn) :
    Option (List TxnView) :=
  if vals.length ≠ sig.args.length then none else
  let zs := sig.args.zip vals
  do
    let slots ← encodeFrom [] zs
    let packed ← packArgs slots
    let call : TxnView :=
      { typeEnum := some (.u applType)
        appId := appId.map .u
        appArgs := (Val.b sig.selector) :: packed.map .b
        accounts := (accountsOf zs).map .b
        apps := (appsOf zs).map .u
        assets := (assetsOf zs).map .u }
    pure ((txnsOf zs).map decodeTxn ++ [extra.foldl setF call])

/-! ## Part B — what `InnerTxnBuilder.MethodCall` emits (model of the code) -/

/-- exceptions raised while the expression is built -/
inductive Err
  | input       -- TealInputError
  | type        -- TealTypeError
  | encoding    -- algosdk.error.ABIEncodingError (uint8 index ≥ 256)
  | other       -- outside the model
  deriving DecidableEq, Repr, Inhabited

/-- the value under a `TxnField` key of a Python dict -/
inductive DVal
  | one (v : Val)                      -- an Expr
  | many (vs : List Val)               -- a Python list of Exprs
  | enum (name : String) (code : Nat)  -- an `EnumInt` (TxnType.* / OnComplete.*): `int name`
  deriving Repr, DecidableEq

abbrev Dict := List (String × DVal)     -- insertion-ordered, keys unique (a Python dict)

/-- pyteal/ast/txn.py `TxnField`: (arg_name, type is uint64, is_array) -/
def txnFields : List (String × Bool × Bool) := [
  ("Sender", false, false), ("Fee", true, false), ("FirstValid", true, false),
  ("FirstValidTime", true, false), ("LastValid", true, false), ("Note", false, false),
  ("Lease", false, false), ("Receiver", false, false), ("Amount", true, false),
  ("CloseRemainderTo", false, false), ("VotePK", false, false), ("SelectionPK", false, false),
  ("VoteFirst", true, false), ("VoteLast", true, false), ("VoteKeyDilution", true, false),
  ("Type", false, false), ("TypeEnum", true, false), ("XferAsset", true, false),
  ("AssetAmount", true, false), ("AssetSender", false, false), ("AssetReceiver", false, false),
  ("AssetCloseTo", false, false), ("GroupIndex", true, false), ("TxID", false, false),
  ("ApplicationID", true, false), ("OnCompletion", true, false), ("ApplicationArgs", false, true),
  ("NumAppArgs", true, false), ("Accounts", false, true), ("NumAccounts", true, false),
  ("ApprovalProgram", false, false), ("ClearStateProgram", false, false), ("RekeyTo", false, false),
  ("ConfigAsset", true, false), ("ConfigAssetTotal", true, false),
  ("ConfigAssetDecimals", true, false), ("ConfigAssetDefaultFrozen", true, false),
  ("ConfigAssetUnitName", false, false), ("ConfigAssetName", false, false),
  ("ConfigAssetURL", false, false), ("ConfigAssetMetadataHash", false, false),
  ("ConfigAssetManager", false, false), ("ConfigAssetReserve", false, false),
  ("ConfigAssetFreeze", false, false), ("ConfigAssetClawback", false, false),
  ("FreezeAsset", true, false), ("FreezeAssetAccount", false, false),
  ("FreezeAssetFrozen", true, false), ("Assets", true, true), ("NumAssets", true, false),
  ("Applications", true, true), ("NumApplications", true, false), ("GlobalNumUint", true, false),
  ("GlobalNumByteSlice", true, false), ("LocalNumUint", true, false),
  ("LocalNumByteSlice", true, false), ("ExtraProgramPages", true, false),
  ("Nonparticipation", true, false), ("Logs", false, true), ("NumLogs", true, false),
  ("CreatedAssetID", true, false), ("CreatedApplicationID", true, false),
  ("LastLog", false, false), ("StateProofPK", false, false),
  ("ApprovalProgramPages", false, true), ("NumApprovalProgramPages", true, false),
  ("ClearStateProgramPages", false, true), ("NumClearStateProgramPages", true, false)]

def fieldInfo (f : String) : Option (Bool × Bool) := (txnFields.find? (·.1 == f)).map (·.2)

/-- `require_type(value, field.type_of())` in `InnerTxnFieldExpr.__init__` -/
def requireType (isUint : Bool) : Val → Except Err Unit
  | .u _ => if isUint then .ok () else .error .type
  | .b _ => if isUint then .error .type else .ok ()

/-- `InnerTxnBuilder.SetField(field, value)` (the `TxnArray` form of an array value — a `For`
    loop over e.g. `Txn.accounts` — is not modelled) -/
def setField (f : String) (dv : DVal) : Except Err Txn :=
  match fieldInfo f with
  | none => .error .other
  | some (isUint, isArray) =>
    if !isArray then
      match dv with
      | .many _ => .error .input
      | .one v => do requireType isUint v; pure [(f, v)]
      | .enum _ c => do requireType isUint (.u c); pure [(f, .u c)]
    else
      match dv with
      | .many vs => do
          let _ ← vs.mapM (requireType isUint)
          pure (vs.map (fun v => (f, v)))
      | _ => .error .input

/-- `InnerTxnBuilder.SetFields(dict)`: the fields in dict order -/
def setFields : Dict → Except Err Txn
  | [] => .ok []
  | (f, dv) :: r => do
      let a ← setField f dv
      let b ← setFields r
      pure (a ++ b)

/-- one element of `args` as Python sees it -/
inductive PArg
  | expr (v : Val)                       -- a PyTeal Expr evaluating to v
  | abiVal (ty : String) (enc : Bytes)   -- a plain abi.BaseType instance: str(type_spec()), encode()
  | account (addr : Bytes)               -- abi.Account instance; .address() evaluates to addr
  | application (id : Nat)               -- abi.Application instance; .application_id()
  | asset (id : Nat)                     -- abi.Asset instance; .asset_id()
  | dict (d : Dict)                      -- dict[TxnField, Expr | list[Expr]]
  | other                                -- any other Python object (int, str, None, …)
  deriving Repr, DecidableEq

/-- `abi.type_spec_from_algosdk(name)` restricted to what can pass the check that follows:
    every other text either raises TealInputError or names a type no transaction type accepts -/
def txnTyOfName : String → Option TxnTy
  | "txn" => some .any | "pay" => some .pay | "keyreg" => some .keyreg | "acfg" => some .acfg
  | "axfer" => some .axfer | "afrz" => some .afrz | "appl" => some .appl
  | _ => none

/-- `type_spec_is_assignable_to` on two transaction type specs (the `isinstance(a, type(b))` /
    `str(a) == str(b)` fall-through): every specific type is a subclass of the generic one -/
def txnAssignable (given expected : TxnTy) : Bool := given == expected || expected == .any

/-- the loop state of `MethodCall` -/
structure LoopSt where
  appArgs : List Bytes := []             -- `app_args` after the selector
  txns : List Txn := []                  -- `txns_to_pass`
  accts : List Bytes := []
  apps : List Nat := []
  assets : List Nat := []
  deriving Repr, DecidableEq

/-- `Bytes(algosdk.abi.ABIType.from_string("uint8").encode(n))` -/
def uint8E (n : Nat) : Except Err Bytes := if n < 256 then .ok [UInt8.ofNat n] else .error .encoding

/-- one iteration of `for idx, method_arg_ts in enumerate(arg_type_specs)`; `asg given expected`
    stands for `type_spec_is_assignable_to` on plain ABI types (subject of C19) -/
def stepArg (asg : String → String → Bool) (k : Kind) (a : PArg) (s : LoopSt) : Except Err LoopSt :=
  match k with
  | .txn ty =>
    match a with
    | .dict d =>
      match d.find? (fun e => e.1 == "TypeEnum") with
      | none => .error .input
      | some (_, .enum name _) =>
        match txnTyOfName name with
        | none => .error .input
        | some g =>
          if txnAssignable g ty then do
            let fs ← setFields d
            pure { s with txns := s.txns ++ [fs] }
          else .error .input
      | some _ => .error .type
    | _ => .error .type
  | .account =>
    match a with
    | .expr (.b x) => do
        let ix ← uint8E (s.accts.length + 1)     -- index taken AFTER the append
        pure { s with accts := s.accts ++ [x], appArgs := s.appArgs ++ [ix] }
    | .account x => do
        let ix ← uint8E (s.accts.length + 1)
        pure { s with accts := s.accts ++ [x], appArgs := s.appArgs ++ [ix] }
    | _ => .error .type
  | .application =>
    match a with
    | .expr (.u n) => do
        let ix ← uint8E (s.apps.length + 1)
        pure { s with apps := s.apps ++ [n], appArgs := s.appArgs ++ [ix] }
    | .application n => do
        let ix ← uint8E (s.apps.length + 1)
        pure { s with apps := s.apps ++ [n], appArgs := s.appArgs ++ [ix] }
    | _ => .error .type
  | .asset => do
    let ix ← uint8E s.assets.length               -- index taken BEFORE the append
    match a with
    | .expr (.u n) => pure { s with assets := s.assets ++ [n], appArgs := s.appArgs ++ [ix] }
    | .asset n => pure { s with assets := s.assets ++ [n], appArgs := s.appArgs ++ [ix] }
    | _ => .error .type
  | .plain ty _ =>
    match a with
    | .expr (.b x) => pure { s with appArgs := s.appArgs ++ [x] }
    | .abiVal ty' enc =>
      if asg ty' ty then pure { s with appArgs := s.appArgs ++ [enc] } else .error .type
    | _ => .error .type

def loop (asg : String → String → Bool) : List Kind → List PArg → LoopSt → Except Err LoopSt
  | [], [], s => .ok s
  | k :: ks, a :: as, s => do
      let s' ← stepArg asg k a s
      loop asg ks as s'
  | _, _, _ => .error .input

/-- what ends up in the program: `itxn_field F` with its value, or `itxn_next` -/
inductive Act
  | field (f : String) (v : Val)
  | next
  deriving Repr, DecidableEq

def Act.ofSetting (s : Setting) : Act := .field s.1 s.2

/-- `if app_id is not None: require_type(app_id, TealType.uint64); SetField(application_id, app_id)` -/
def idFieldsOf : Option Val → Except Err Txn
  | none => .ok []
  | some (.u n) => .ok [("ApplicationID", .u n)]
  | some (.b _) => .error .type

/-- MODEL.  `InnerTxnBuilder.MethodCall(app_id, method_signature, args, extra_fields)`; the
    signature text is represented by its selector and its parsed argument kinds. -/
def methodCall (asg : String → String → Bool) (sig : Sig) (appId : Option Val) (args : List PArg)
    (extra : Dict) : Except Err (List Act) := do
  let idFields ← idFieldsOf appId
  if args.length ≠ sig.args.length then .error .input else
  let s ← loop asg sig.args args {}
  let ex ← setFields extra
  let call : Txn :=
    [("TypeEnum", .u applType)] ++ idFields
      ++ (if s.accts.isEmpty then [] else s.accts.map (fun a => ("Accounts", Val.b a)))
      ++ (if s.apps.isEmpty then [] else s.apps.map (fun n => ("Applications", Val.u n)))
      ++ (if s.assets.isEmpty then [] else s.assets.map (fun n => ("Assets", Val.u n)))
      ++ (sig.selector :: s.appArgs).map (fun x => ("ApplicationArgs", Val.b x))
      ++ ex
  pure (s.txns.flatMap (fun t => t.map Act.ofSetting ++ [Act.next]) ++ call.map Act.ofSetting)

/-- the transaction under construction `cur` and the actions still to come → the group recorded
    at `itxn_submit` -/
def splitActs : List Act → Txn → Group
  | [], cur => [cur]
  | .field f v :: r, cur => splitActs r (cur ++ [(f, v)])
  | .next :: r, cur => cur :: splitActs r []

/-- `itxn_begin; acts; itxn_submit` -/
def record (acts : List Act) : Group := splitActs acts []

/-- the same, written as `Avm.Sem` does it (newest transaction / newest field first, reversed at
    submit); `record_eq_sem` in the proofs -/
def semStep : List Txn → Act → List Txn
  | t :: g, .field f v => ((f, v) :: t) :: g
  | [], .field _ _ => []
  | g, .next => [] :: g
def semRecord (acts : List Act) : Group := ((acts.foldl semStep [[]]).map List.reverse).reverse

/-- `InnerTxnBuilder.ExecuteMethodCall`: Begin, MethodCall, Submit -/
def executeMethodCall (asg : String → String → Bool) (sig : Sig) (appId : Option Val)
    (args : List PArg) (extra : Dict) : Except Err Group :=
  (methodCall asg sig appId args extra).map record

/-! ## Part C — what the Python-level arguments stand for -/

def flattenD : Dict → Txn
  | [] => []
  | (f, .one v) :: r => (f, v) :: flattenD r
  | (f, .many vs) :: r => vs.map (fun v => (f, v)) ++ flattenD r
  | (f, .enum _ c) :: r => (f, .u c) :: flattenD r

def denoteArg : Kind → PArg → Option SVal
  | .plain _ _, .expr (.b x) => some (.bytes x)
  | .plain _ _, .abiVal _ enc => some (.bytes enc)
  | .account, .expr (.b x) => some (.bytes x)
  | .account, .account x => some (.bytes x)
  | .application, .expr (.u n) => some (.nat n)
  | .application, .application n => some (.nat n)
  | .asset, .expr (.u n) => some (.nat n)
  | .asset, .asset n => some (.nat n)
  | .txn _, .dict d => some (.txn (flattenD d))
  | _, _ => none

def denote : List Kind → List PArg → Option (List SVal)
  | [], [] => some []
  | k :: ks, a :: as => do
      let v ← denoteArg k a
      let r ← denote ks as
      pure (v :: r)
  | _, _ => none

def appIdNat : Option Val → Option Nat
  | some (.u n) => some n
  | _ => none

/-- "the type of the argument fits the signature", declaratively -/
def fits (asg : String → String → Bool) : Kind → PArg → Bool
  | .plain _ _, .expr (.b _) => true
  | .plain ty _, .abiVal ty' _ => asg ty' ty
  | .account, .expr (.b _) => true
  | .account, .account _ => true
  | .application, .expr (.u _) => true
  | .application, .application _ => true
  | .asset, .expr (.u _) => true
  | .asset, .asset _ => true
  | .txn ty, .dict d =>
    match d.find? (fun e => e.1 == "TypeEnum") with
    | some (_, .enum name _) =>
      match txnTyOfName name with
      | some g => txnAssignable g ty
      | none => false
    | _ => false
  | _, _ => false

/-- one argument per signature entry, each fitting its entry -/
def allFit (asg : String → String → Bool) : List Kind → List PArg → Bool
  | [], [] => true
  | k :: ks, a :: as => fits asg k a && allFit asg ks as
  | _, _ => false

end PyTealV.Models.MethodCall
