/-
  Model of `TealBlock.validateSlots` (pyteal/ir/tealblock.py:91-131), `isTerminal` (32-37) and
  `getOutgoing` (tealsimpleblock.py / tealconditionalblock.py), plus an independent forward
  must-be-initialised dataflow analysis `initCheck` used as the oracle of property C17.

  A routine is a graph of basic blocks.  Blocks are referred to by index in an array (the Python
  code uses object references; an index that is out of range denotes an empty block without
  successors, both in the algorithm and in the path semantics, so no theorem depends on it).

  Abstraction of `TealOp`:
    * `store s`   – `Op.store` whose only ScratchSlot argument has id `s`
    * `load s e`  – `Op.load` of slot `s`; `e` identifies the `expr` object the op was created
                    from (`TealCompileError.__eq__` compares `sourceExpr` by identity, this is what
                    the de-duplication `if error not in errors` looks at)
    * `ret`       – `Op.return_`, `Op.retsub` or `Op.err` (the ops `isTerminal` looks for)
    * `other`     – anything else
  Slots are identified by `ScratchSlot.id`; distinct slot objects of one program have distinct
  ids (checked by `assignScratchSlotsToSubroutines` before `validateSlots` is called), so the
  Python `set` of slot objects is modelled by the sorted duplicate-free list of ids, which is
  also literally the tail of the memo key `(id(block), *sorted(slot.id …))`.
-/
namespace PyTealV.Models.ValidateSlots

abbrev Slot := Nat

inductive SOp where
  | store (s : Slot)
  | load (s : Slot) (e : Nat)
  | ret
  | other
  deriving DecidableEq, Repr, Inhabited

inductive Succ where
  | none
  | next (i : Nat)
  | cond (t f : Nat)
  deriving DecidableEq, Repr, Inhabited

structure Block where
  ops : List SOp
  succ : Succ
  deriving DecidableEq, Repr, Inhabited

abbrev Graph := Array Block

/-- the block with index `i` (an index outside the array: an empty block without successors) -/
def Graph.block (G : Graph) (i : Nat) : Block := G.getD i ⟨[], .none⟩

/-- `getOutgoing`: `[nextBlock]`, `[trueBlock, falseBlock]` (in this order), or `[]`. -/
def Block.outgoing (b : Block) : List Nat :=
  match b.succ with
  | .none => []
  | .next i => [i]
  | .cond t f => [t, f]

/-- `isTerminal`: a return/retsub/err op *anywhere* in the block, or no outgoing edge. -/
def Block.isTerminal (b : Block) : Bool :=
  b.ops.contains .ret || b.outgoing.isEmpty

/-! ### the slot set `currentSlotsInUse` as a sorted duplicate-free list of ids -/

/-- `set.add` on the sorted representation -/
def ins (x : Nat) : List Nat → List Nat
  | [] => [x]
  | y :: ys => if x < y then x :: y :: ys else if x = y then y :: ys else y :: ins x ys

/-- `set(slotsInUse)` of an arbitrary list of ids -/
def canon (l : List Nat) : List Nat := l.foldr ins []

/-- the value of `currentSlotsInUse` after the `for op in self.ops` loop -/
def stores (cur : List Nat) : List SOp → List Nat
  | [] => cur
  | .store s :: ops => stores (ins s cur) ops
  | _ :: ops => stores cur ops

/-- One reported error: the position of the load op (block index, op index) and the identity of
    its `expr` (the `sourceExpr` of the `TealCompileError`). -/
structure Err where
  blk : Nat
  idx : Nat
  expr : Nat
  deriving DecidableEq, Repr, Inhabited

/-- the errors appended by the `for op in self.ops` loop of block `blk`, in order; `i` is the index
    of the first op of the list, `cur` the slots in use before it -/
def loadErrs (blk : Nat) : Nat → List Nat → List SOp → List Err
  | _, _, [] => []
  | i, cur, .store s :: ops => loadErrs blk (i + 1) (ins s cur) ops
  | i, cur, .load s e :: ops =>
      if cur.contains s then loadErrs blk (i + 1) cur ops
      else ⟨blk, i, e⟩ :: loadErrs blk (i + 1) cur ops
  | i, cur, _ :: ops => loadErrs blk (i + 1) cur ops

/-- `for error in sub: if error not in errors: errors.append(error)`; two `TealCompileError`s are
    equal iff their messages are equal (always, here) and their `sourceExpr` is the same object -/
def mergeErrs (errors sub : List Err) : List Err :=
  sub.foldl (fun acc e => if acc.any (fun a => a.expr == e.expr) then acc else acc ++ [e]) errors

/-- memo key `(id(block), *sortedSlots)` -/
abbrev Key := Nat × List Nat

/-- the state threaded through the recursion: the errors of the current call and the shared,
    mutable `visited` set -/
abbrev St := List Err × List Key

/-- One iteration of `for block in self.getOutgoing()`.  `rec` is the recursive call
    `block.validateSlots(currentSlotsInUse, visited)`; `none` = the recursion ran out of fuel. -/
def edgeStep (rec : Nat → List Nat → List Key → Option St) (cur : List Nat)
    (st : Option St) (b' : Nat) : Option St :=
  match st with
  | none => none
  | some (errs, vis) =>
    if vis.contains (b', cur) then some (errs, vis)
    else
      match rec b' cur ((b', cur) :: vis) with
      | none => none
      | some (sub, vis') => some (mergeErrs errs sub, vis')

/-- `validateSlots` of block `b` with `slotsInUse = S` and the shared `visited` set; returns the
    error list and the updated `visited`.  The first argument bounds the recursion *depth*;
    `none` is returned iff it was too small (never with the bound used below: theorem
    `validateSlots_total` in `Proofs/C17.lean`). -/
def visit (G : Graph) : Nat → Nat → List Nat → List Key → Option St
  | 0, _, _, _ => none
  | fuel + 1, b, S, vis =>
    let B := G.block b
    let errs := loadErrs b 0 S B.ops
    if B.isTerminal then some (errs, vis)
    else B.outgoing.foldl (edgeStep (visit G fuel) (stores S B.ops)) (some (errs, vis))

/-! ### the recursion-depth bound: every nested call adds a fresh key `(block, subset)` -/

def opSlot : SOp → Nat
  | .store s => s + 1
  | .load s _ => s + 1
  | _ => 0

/-- strict upper bound of every slot id occurring in the graph or in `init` -/
def slotBound (G : Graph) (init : List Nat) : Nat :=
  max ((init.map (· + 1)).foldr max 0) ((G.toList.map (fun B => (B.ops.map opSlot).foldr max 0)).foldr max 0)

/-- strict upper bound of every block index that can be reached -/
def blockBound (G : Graph) (start : Nat) : Nat :=
  max (start + 1) ((G.toList.map (fun B => (B.outgoing.map (· + 1)).foldr max 0)).foldr max 0)

/-- number of possible memo keys, plus one for the outermost call (whose key is not recorded) -/
def fuelBound (G : Graph) (init : List Nat) (start : Nat) : Nat :=
  blockBound G start * 2 ^ slotBound G init + 1

/-- `start.validateSlots(slotsInUse = init)`: the list of errors (`none`: out of fuel – excluded
    by `validateSlots_total`). -/
def validateSlots? (G : Graph) (init : List Nat) (start : Nat) : Option (List Err) :=
  (visit G (fuelBound G init start) start (canon init) []).map (·.1)

/-! ### independent oracle: forward must-be-initialised dataflow analysis

  `IN[b]` = `none` while block `b` has not been reached, otherwise the list of slots (a sub-list
  of the universe `U` of slots that are pre-initialised or stored somewhere) that have been
  stored on *every* path from the start block to the entry of `b`.  Transfer function of a block:
  add the slots it stores; join = intersection; round-robin over all edges leaving non-terminal
  blocks until nothing changes. -/

abbrev DF := List (Option (List Nat))

def storedSlots (ops : List SOp) : List Nat :=
  ops.filterMap (fun | .store s => some s | _ => none)

def slotUniverse (G : Graph) (init : List Nat) : List Nat :=
  init ++ G.toList.flatMap (fun B => storedSlots B.ops)

/-- slots initialised at the exit of a block with ops `ops` whose entry fact is `L` -/
def outFact (U : List Nat) (L : List Nat) (ops : List SOp) : List Nat :=
  U.filter (fun s => L.contains s || (storedSlots ops).contains s)

def meet (old : Option (List Nat)) (o : List Nat) : Option (List Nat) :=
  match old with
  | none => some o
  | some L => some (L.filter (fun s => o.contains s))

/-- all edges `(b, b')` leaving non-terminal blocks with index `< n` -/
def edgesOf (G : Graph) (n : Nat) : List (Nat × Nat) :=
  (List.range n).flatMap (fun b =>
    if (G.block b).isTerminal then [] else (G.block b).outgoing.map (fun b' => (b, b')))

def relax (G : Graph) (U : List Nat) (df : DF) (e : Nat × Nat) : DF :=
  match df.getD e.1 none with
  | none => df
  | some L => df.set e.2 (meet (df.getD e.2 none) (outFact U L (G.block e.1).ops))

def pass (G : Graph) (U : List Nat) (E : List (Nat × Nat)) (df : DF) : DF :=
  E.foldl (relax G U) df

/-- iterate passes until a pass changes nothing; `none` = out of fuel -/
def iterate (G : Graph) (U : List Nat) (E : List (Nat × Nat)) : Nat → DF → Option DF
  | 0, _ => none
  | n + 1, df =>
    let df' := pass G U E df
    if df' = df then some df else iterate G U E n df'

def initDF (U init : List Nat) (n start : Nat) : DF :=
  (List.replicate n none).set start (some (U.filter (fun s => init.contains s)))

/-- positions of the loads in `ops` (first op has index `i`) of a slot that is neither in `L` nor
    stored earlier in the block -/
def badLoads (blk : Nat) : Nat → List Nat → List SOp → List (Nat × Nat)
  | _, _, [] => []
  | i, L, .store s :: ops => badLoads blk (i + 1) (s :: L) ops
  | i, L, .load s _ :: ops =>
      if L.contains s then badLoads blk (i + 1) L ops else (blk, i) :: badLoads blk (i + 1) L ops
  | i, L, _ :: ops => badLoads blk (i + 1) L ops

def dfFuel (U : List Nat) (n : Nat) : Nat := n * (U.length + 1) + 1

/-- the fixpoint of the analysis (`none`: out of fuel – excluded by `initCheck_total`) -/
def solve (G : Graph) (init : List Nat) (start : Nat) : Option DF :=
  let U := slotUniverse G init
  let n := blockBound G start
  iterate G U (edgesOf G n) (dfFuel U n) (initDF U init n start)

/-- all `(block, op index)` of loads that may read a slot nobody has stored yet -/
def initCheck (G : Graph) (init : List Nat) (start : Nat) : Option (List (Nat × Nat)) :=
  (solve G init start).map (fun df =>
    (List.range df.length).flatMap (fun b =>
      match df.getD b none with
      | none => []
      | some L => badLoads b 0 L (G.block b).ops))

end PyTealV.Models.ValidateSlots
