/-
  C08 — Router dispatch.  Two things live here (core Lean only):

  (a) the SPEC `dispatch : RouterCfg → Call → Decision`, written from the property text:
      a method runs iff the first application argument is its selector and its MethodConfig
      allows (OnCompletion, create / non-create); a bare action runs iff there are no
      application arguments and the action registered for that OnCompletion allows the
      creation status; everything else is rejected; the clear-state program runs exactly the
      given clear action.

  (b) the MODEL of what `pyteal/ast/router.py` builds: the condition expressions
      (`CallConfig.approval_condition_under_config`, `MethodConfig.approval_cond`), the bare-call
      `Cond` (`BareCallActions.approval_construction`), `CondWithMethod.to_cond_node`,
      `ASTBuilder.add_method_to_ast / program_construction`, `Router.__init__`,
      `Router.add_method_handler` (never-callable, duplicate signature, selector collision),
      `Router._build_program`, and an evaluator of the generated program shape on a call
      (first true `Cond` arm; no arm → `err`; `Assert`; `txna ApplicationArgs 0` on an empty
      argument array fails).  Handlers are opaque effects identified by a number.

  Python exceptions are `Except String _` results.
-/
import PyTealV.Util
namespace PyTealV.Models.Router
open PyTealV

/-! ## shared vocabulary -/

/-- `pyteal.CallConfig` (an IntFlag with exactly these four members) -/
inductive CallConfig | never | call | create | all
  deriving DecidableEq, Repr

/-- `OnComplete`: the six values the AVM allows for `Txn.on_completion()` (0..5) -/
inductive OC | noOp | optIn | closeOut | clearState | updateApplication | deleteApplication
  deriving DecidableEq, Repr

def OC.toNat : OC → Nat
  | .noOp => 0 | .optIn => 1 | .closeOut => 2 | .clearState => 3
  | .updateApplication => 4 | .deleteApplication => 5

def OC.ofNat? : Nat → Option OC
  | 0 => some .noOp | 1 => some .optIn | 2 => some .closeOut | 3 => some .clearState
  | 4 => some .updateApplication | 5 => some .deleteApplication | _ => none

/-- an application call, as far as routing can see it -/
structure Call where
  appArgs : List Bytes      -- Txn.application_args   (NumAppArgs = length)
  oc : OC                   -- Txn.on_completion()
  appId : Nat               -- Txn.application_id()   (0 during creation)
  deriving Repr

/-- creation call: `Txn.application_id() == 0` -/
def Call.isCreate (c : Call) : Bool := c.appId == 0

/-- opaque handler effects: k-th registered method, bare action number k, clear action k -/
inductive Action | method (k : Nat) | bare (k : Nat) | clear (k : Nat)
  deriving DecidableEq, Repr

inductive Decision | run (a : Action) | reject
  deriving DecidableEq, Repr

/-- `MethodConfig`: one CallConfig per OnCompletion.  `clear_state` is not a field: the Python
    dataclass raises in `__post_init__` unless it is NEVER (see `MethodConfig.make`). -/
structure MethodConfig where
  noOp : CallConfig
  optIn : CallConfig
  closeOut : CallConfig
  updateApplication : CallConfig
  deleteApplication : CallConfig
  deriving DecidableEq, Repr

/-- `MethodConfig(no_op=…, opt_in=…, close_out=…, clear_state=…, update_application=…,
    delete_application=…)` with its `__post_init__` check -/
def MethodConfig.make (no_op opt_in close_out clear_state update_application delete_application : CallConfig) :
    Except String MethodConfig :=
  if clear_state ≠ .never then
    .error "TealInputError: Attempt to construct clear state program from MethodConfig"
  else .ok ⟨no_op, opt_in, close_out, update_application, delete_application⟩

/-- `OnCompleteAction(action=…, call_config=…)` -/
structure OnCompleteAction where
  action : Option Nat
  callConfig : CallConfig
  deriving DecidableEq, Repr

/-- `__post_init__`: `bool(call_config) ^ bool(action)` must be false -/
def OnCompleteAction.valid (a : OnCompleteAction) : Bool :=
  (a.callConfig != .never) == a.action.isSome

def OnCompleteAction.make (action : Option Nat) (cc : CallConfig) : Except String OnCompleteAction :=
  if (⟨action, cc⟩ : OnCompleteAction).valid then .ok ⟨action, cc⟩
  else .error "TealInputError: action and call_config contradicts"

def OnCompleteAction.never : OnCompleteAction := ⟨none, .never⟩

/-- `is_empty`: `not self.action and self.call_config == CallConfig.NEVER` -/
def OnCompleteAction.isEmpty (a : OnCompleteAction) : Bool :=
  a.action.isNone && a.callConfig == .never

/-- `BareCallActions`; `clear_state` is not a field: the constructor raises unless it is empty. -/
structure BareCallActions where
  noOp : OnCompleteAction
  optIn : OnCompleteAction
  closeOut : OnCompleteAction
  updateApplication : OnCompleteAction
  deleteApplication : OnCompleteAction
  deriving DecidableEq, Repr

def BareCallActions.make (close_out clear_state delete_application no_op opt_in update_application : OnCompleteAction) :
    Except String BareCallActions :=
  if !clear_state.isEmpty then
    .error "TealInputError: Attempt to construct clear state program from bare app call"
  else .ok ⟨no_op, opt_in, close_out, update_application, delete_application⟩

def BareCallActions.empty : BareCallActions := ⟨.never, .never, .never, .never, .never⟩

/-- one registered method: signature text, 4-byte selector
    (`encoding.checksum(signature)[:4]`, SHA-512/256 is not interpreted here), MethodConfig.
    The handler of the k-th registered method is `Action.method k`. -/
structure Method where
  sig : Bytes
  selector : Bytes
  config : MethodConfig
  deriving DecidableEq, Repr

/-- what a user hands to `Router(...)` and `add_method_handler` (in registration order) -/
structure RouterCfg where
  methods : List Method
  bare : BareCallActions
  clear : Option Nat
  deriving Repr

/-! ## (a) the specification -/

/-- does a CallConfig allow a call with this creation status? -/
def CallConfig.allows : CallConfig → (isCreate : Bool) → Bool
  | .never, _ => false
  | .call, cr => !cr
  | .create, cr => cr
  | .all, _ => true

/-- the CallConfig a MethodConfig holds for an OnCompletion (ClearState: always NEVER) -/
def MethodConfig.get (m : MethodConfig) : OC → CallConfig
  | .noOp => m.noOp | .optIn => m.optIn | .closeOut => m.closeOut | .clearState => .never
  | .updateApplication => m.updateApplication | .deleteApplication => m.deleteApplication

/-- the bare action registered for an OnCompletion (ClearState: never any) -/
def BareCallActions.get (b : BareCallActions) : OC → OnCompleteAction
  | .noOp => b.noOp | .optIn => b.optIn | .closeOut => b.closeOut | .clearState => .never
  | .updateApplication => b.updateApplication | .deleteApplication => b.deleteApplication

/-- the registered method (with its registration index) whose selector is `a` -/
def findMethod (a : Bytes) : List Method → Nat → Option (Nat × Method)
  | [], _ => none
  | m :: ms, k => if m.selector = a then some (k, m) else findMethod a ms (k + 1)

/-- SPEC of the approval program -/
def dispatch (cfg : RouterCfg) (c : Call) : Decision :=
  match c.appArgs with
  | [] =>                                             -- bare call: no application arguments
    match cfg.bare.get c.oc with
    | ⟨some k, cc⟩ => if cc.allows c.isCreate then .run (.bare k) else .reject
    | ⟨none, _⟩ => .reject                            -- nothing registered
  | a :: _ =>                                         -- method call: first argument = selector
    match findMethod a cfg.methods 0 with
    | some (k, m) => if (m.config.get c.oc).allows c.isCreate then .run (.method k) else .reject
    | none => .reject                                 -- unknown selector

/-- SPEC of the clear-state program -/
def clearDispatch (cfg : RouterCfg) : Decision :=
  match cfg.clear with
  | some k => .run (.clear k)
  | none => .reject

/-- "call matches H's registration", relationally (used by the `…_iff` theorems) -/
def MatchesMethod (cfg : RouterCfg) (c : Call) (k : Nat) : Prop :=
  ∃ m, cfg.methods[k]? = some m ∧ c.appArgs.head? = some m.selector ∧
       (m.config.get c.oc).allows c.isCreate = true

def MatchesBare (cfg : RouterCfg) (c : Call) (k : Nat) : Prop :=
  c.appArgs = [] ∧ (cfg.bare.get c.oc).action = some k ∧
    (cfg.bare.get c.oc).callConfig.allows c.isCreate = true

/-! ## (b) the model of the generated logic -/

/-- the uint64 conditions the router generates about OnCompletion / ApplicationID -/
inductive CExpr
  | ocEq (oc : OC)            -- Txn.on_completion() == OnComplete.<oc>
  | appIdNe0                  -- Txn.application_id() != Int(0)
  | appIdEq0                  -- Txn.application_id() == Int(0)
  | and (a b : CExpr)         -- And(a, b)
  | or (a b : CExpr)          -- one `||` of an n-ary Or (left fold, as NaryExpr.__teal__ emits it)
  deriving DecidableEq, Repr

def CExpr.eval (c : Call) : CExpr → Bool
  | .ocEq o => decide (c.oc = o)
  | .appIdNe0 => c.appId != 0
  | .appIdEq0 => c.appId == 0
  | .and a b => a.eval c && b.eval c
  | .or a b => a.eval c || b.eval c

/-- `Expr | int` as returned by `approval_condition_under_config` / `approval_cond` -/
inductive CondR | zero | one | expr (e : CExpr)
  deriving DecidableEq, Repr

def CondR.eval (c : Call) : CondR → Bool
  | .zero => false
  | .one => true
  | .expr e => e.eval c

/-- `CallConfig.approval_condition_under_config` -/
def CallConfig.approvalConditionUnderConfig : CallConfig → CondR
  | .never => .zero
  | .call => .expr .appIdNe0
  | .create => .expr .appIdEq0
  | .all => .one

/-- `Or(*cond_list)`: NaryExpr raises on an empty argument list -/
def orN : List CExpr → Except String CExpr
  | [] => .error "TealInputError: NaryExpr requires at least one child"
  | x :: xs => .ok (xs.foldl .or x)

/-- `config_oc_pairs` of `approval_cond` (this order; ClearState is absent) -/
def MethodConfig.pairs (m : MethodConfig) : List (CallConfig × OC) :=
  [(m.noOp, .noOp), (m.optIn, .optIn), (m.closeOut, .closeOut),
   (m.updateApplication, .updateApplication), (m.deleteApplication, .deleteApplication)]

/-- `is_never` (`astuple` also holds `clear_state`, which is NEVER by construction) -/
def MethodConfig.isNever (m : MethodConfig) : Bool :=
  m.pairs.all (fun p => p.1 == .never)

def MethodConfig.isAllAll (m : MethodConfig) : Bool :=
  m.pairs.all (fun p => p.1 == .all)

/-- the loop body of `approval_cond` -/
def condListEntry (p : CallConfig × OC) : Option CExpr :=
  match p.1.approvalConditionUnderConfig with
  | .expr e => some (.and (.ocEq p.2) e)      -- case Expr(): And(Txn.on_completion() == oc, config_cond)
  | .one => some (.ocEq p.2)                  -- case 1
  | .zero => none                             -- case 0: continue

/-- `MethodConfig.approval_cond` -/
def MethodConfig.approvalCond (m : MethodConfig) : Except String CondR :=
  if m.pairs.all (fun p => p.1 == .never) then .ok .zero
  else if m.pairs.all (fun p => p.1 == .all) then .ok .one
  else match orN (m.pairs.filterMap condListEntry) with
    | .ok e => .ok (.expr e)
    | .error e => .error e

/-- a wrapped handler, optionally behind `Assert(cond)`:  `[Seq(Assert(c),] handler; Approve [)]` -/
structure Body where
  assert? : Option CExpr
  action : Action
  deriving DecidableEq, Repr

/-- the conditions of the top-level `Cond` -/
inductive Guard
  | numAppArgsEq0             -- Txn.application_args.length() == Int(0)
  | arg0Eq (sel : Bytes)      -- Txn.application_args[0] == MethodSignature(sig)
  deriving DecidableEq, Repr

/-- a branch of the top-level `Cond`: a method body, or the bare-call `Cond` over OnCompletions -/
inductive Branch
  | body (b : Body)
  | cond (arms : List (CExpr × Body))
  deriving Repr

/-- a whole generated program -/
inductive Prog
  | reject                                     -- Reject()
  | body (b : Body)                            -- the clear-state program: wrapped handler
  | cond (arms : List (Guard × Branch))        -- Cond([c, branch], …)
  deriving Repr

/-- `BareCallActions.approval_construction`: `None`, or the arms of the inner `Cond` -/
def bareArm (oc : OC) (oca : OnCompleteAction) : Except String (Option (CExpr × Body)) :=
  if oca.isEmpty then .ok none                                   -- continue
  else match oca.action with
    | none => .error "TealInputError: bare appcall can only accept: none type Expr, or Subroutine/ABIReturnSubroutine"
                                                                  -- wrap_handler(False, None)
    | some k =>
      match oca.callConfig with
      | .all => .ok (some (.ocEq oc, ⟨none, .bare k⟩))
      | .call => .ok (some (.ocEq oc, ⟨some .appIdNe0, .bare k⟩))
      | .create => .ok (some (.ocEq oc, ⟨some .appIdEq0, .bare k⟩))
      | .never => .error "TealInternalError: Unexpected CallConfig"

/-- `oc_action_pair` (this order) -/
def BareCallActions.pairs (b : BareCallActions) : List (OC × OnCompleteAction) :=
  [(.noOp, b.noOp), (.optIn, b.optIn), (.closeOut, b.closeOut),
   (.updateApplication, b.updateApplication), (.deleteApplication, b.deleteApplication)]

def bareArms : List (OC × OnCompleteAction) → Except String (List (CExpr × Body))
  | [] => .ok []
  | (oc, oca) :: rest =>
    match bareArm oc oca with
    | .error e => .error e
    | .ok a =>
      match bareArms rest with
      | .error e => .error e
      | .ok as => .ok (a.toList ++ as)      -- `continue` contributes nothing

def BareCallActions.isEmpty (b : BareCallActions) : Bool :=
  b.pairs.all (fun p => p.2.isEmpty)

def BareCallActions.approvalConstruction (b : BareCallActions) : Except String (Option (List (CExpr × Body))) :=
  if b.pairs.all (fun p => p.2.isEmpty) then .ok none
  else match bareArms b.pairs with
    | .ok arms => .ok (some arms)           -- Cond(*arms)   (never empty here)
    | .error e => .error e

/-- `CondWithMethod(method_sig, condition, method)`; `handler` is the registration index -/
structure CondWithMethod where
  selector : Bytes
  cond : CondR
  handler : Nat
  deriving DecidableEq, Repr

/-- `CondWithMethod.to_cond_node` -/
def CondWithMethod.toCondNode (m : CondWithMethod) : Except String (Guard × Branch) :=
  match m.cond with
  | .zero => .error "TealInputError: Invalid condition input for CondWithMethod"
  | .one => .ok (.arg0Eq m.selector, .body ⟨none, .method m.handler⟩)
  | .expr e => .ok (.arg0Eq m.selector, .body ⟨some e, .method m.handler⟩)

def condNodes : List CondWithMethod → Except String (List (Guard × Branch))
  | [] => .ok []
  | m :: ms =>
    match m.toCondNode with
    | .error e => .error e
    | .ok a =>
      match condNodes ms with
      | .error e => .error e
      | .ok as => .ok (a :: as)

/-- `ASTBuilder.program_construction` -/
def programConstruction (bareCalls : List (Guard × Branch)) (ms : List CondWithMethod) : Except String Prog :=
  match condNodes ms with
  | .error e => .error e
  | .ok nodes =>
    let arms := bareCalls ++ nodes
    if arms.isEmpty then .ok .reject else .ok (.cond arms)

/-- the state of a `Router` object -/
structure Router where
  methods : List Method              -- self.methods / method_sig_to_selector / method_selector_to_sig
  ast : List CondWithMethod          -- self.approval_ast.methods_with_conds
  bare : BareCallActions
  clearState : Prog                  -- self.clear_state
  deriving Repr

/-- `Router.__init__` -/
def Router.new (bare : BareCallActions) (clear : Option Nat) : Router :=
  { methods := [], ast := [], bare := bare,
    clearState := match clear with
      | none => .reject                                  -- Reject()
      | some k => .body ⟨none, .clear k⟩ }               -- wrap_handler(False, clear_state)

/-- `ASTBuilder.add_method_to_ast` -/
def addMethodToAst (ast : List CondWithMethod) (sel : Bytes) (cond : CondR) (handler : Nat) : List CondWithMethod :=
  if cond = .zero then ast else ast ++ [⟨sel, cond, handler⟩]

/-- `Router.add_method_handler` -/
def Router.addMethodHandler (r : Router) (m : Method) : Except String Router :=
  if m.config.isNever then .error "TealInputError: registered method is never executed"
  else if m.sig ∈ r.methods.map (·.sig) then .error "TealInputError: re-registering method detected"
  else if m.selector ∈ r.methods.map (·.selector) then .error "TealInputError: re-registering method has hash collision"
  else match m.config.approvalCond with
    | .error e => .error e
    | .ok cond =>
      .ok { r with methods := r.methods ++ [m],
                   ast := addMethodToAst r.ast m.selector cond r.methods.length }

def Router.addAll (r : Router) : List Method → Except String Router
  | [] => .ok r
  | m :: ms =>
    match r.addMethodHandler m with
    | .error e => .error e
    | .ok r' => r'.addAll ms

/-- `Router._build_program`: (approval, clear) -/
def Router.buildProgram (r : Router) : Except String (Prog × Prog) :=
  let bareCalls : Except String (List (Guard × Branch)) :=
    if !r.bare.isEmpty then
      match r.bare.approvalConstruction with
      | .error e => .error e
      | .ok (some arms) => .ok [(.numAppArgsEq0, .cond arms)]
      | .ok none => .ok []
    else .ok []
  match bareCalls with
  | .error e => .error e
  | .ok bc =>
    match programConstruction bc r.ast with
    | .error e => .error e
    | .ok ap => .ok (ap, r.clearState)

/-- the whole path: `Router(bare_calls, clear_state=…)`, `add_method_handler` × n, build -/
def compile (cfg : RouterCfg) : Except String (Prog × Prog) :=
  match (Router.new cfg.bare cfg.clear).addAll cfg.methods with
  | .error e => .error e
  | .ok r => r.buildProgram

/-! ### evaluation of the generated program on a call -/

inductive Outcome
  | ran (a : Action)      -- the handler ran (then Approve)
  | returned0             -- `int 0; return`
  | failErr               -- `err` (no Cond arm matched)
  | failAssert            -- `assert` failed
  | failArgIndex          -- `txna ApplicationArgs 0` with no arguments
  deriving DecidableEq, Repr

def Outcome.toDecision : Outcome → Decision
  | .ran a => .run a
  | _ => .reject

def Body.eval (c : Call) (b : Body) : Outcome :=
  match b.assert? with
  | none => .ran b.action
  | some e => if e.eval c then .ran b.action else .failAssert

def evalInner (c : Call) : List (CExpr × Body) → Outcome
  | [] => .failErr
  | (e, b) :: rest => if e.eval c then b.eval c else evalInner c rest

def Branch.eval (c : Call) : Branch → Outcome
  | .body b => b.eval c
  | .cond arms => evalInner c arms

/-- `none`: evaluating the condition itself fails -/
def Guard.eval (c : Call) : Guard → Option Bool
  | .numAppArgsEq0 => some (c.appArgs.length == 0)
  | .arg0Eq sel =>
    match c.appArgs with
    | [] => none
    | a :: _ => some (decide (a = sel))

def evalTop (c : Call) : List (Guard × Branch) → Outcome
  | [] => .failErr
  | (g, br) :: rest =>
    match g.eval c with
    | none => .failArgIndex
    | some true => br.eval c
    | some false => evalTop c rest

def Prog.eval (c : Call) : Prog → Outcome
  | .reject => .returned0
  | .body b => b.eval c
  | .cond arms => evalTop c arms

/-- model: outcome of the approval program of `cfg` on `c` (error = the router is not accepted) -/
def modelEval (cfg : RouterCfg) (c : Call) : Except String Outcome :=
  match compile cfg with
  | .error e => .error e
  | .ok (ap, _) => .ok (ap.eval c)

def modelDecision (cfg : RouterCfg) (c : Call) : Except String Decision :=
  match modelEval cfg c with
  | .error e => .error e
  | .ok o => .ok o.toDecision

/-- model: outcome of the clear-state program -/
def modelClear (cfg : RouterCfg) (c : Call) : Except String Outcome :=
  match compile cfg with
  | .error e => .error e
  | .ok (_, cl) => .ok (cl.eval c)

end PyTealV.Models.Router
