/-
  C15 — model of the source-map codecs of `pyteal/compiler/sourcemap.py` and of the shape of an
  annotated TEAL line.

  * `vlqEncode` / `vlqDecode`      ↔ `_base64vlq_encode` / `_base64vlq_decode`
  * `Table.toJson` / `Table.fromJson`, `R3Map.toJson` / `R3Map.fromJson`
                                    ↔ `R3SourceMap.to_json` / `R3SourceMap.from_json`
  * `annotate`, `codePart`, `stripComment`
                                    ↔ a line of `_PyTealSourceMapper.annotated_teal()` (tabulate "plain":
                                      TEAL line, padding, constant column `//`, further columns) and
                                      "the line with its comment removed" as the TEAL tokeniser
                                      (`PyTealV.Avm.tokenise`) sees it.
  * `frameIsPyteal`, `keepIdx`      ↔ `StackFrame._frame_info_is_pyteal` and steps 3–4 of
                                      `NatalStackFrame.__init__` (the frame *decision* only; capturing
                                      frames is CPython's business and is checked by execution).

  Text is `List Char` in the definitions the theorems talk about (the `String` wrappers at the
  end are what the driver calls).  Python exceptions are explicit: `Except String α` carrying the
  exception class name.  No imports outside core Lean and other model files.
-/
import PyTealV.Util
import PyTealV.Avm.Syntax
namespace PyTealV.Models.SourceMap

/-! ## 1. Base64 VLQ -/

/-- `_b64chars` -/
def b64chars : List Char :=
  ['A','B','C','D','E','F','G','H','I','J','K','L','M','N','O','P','Q','R','S','T','U','V','W','X','Y','Z',
   'a','b','c','d','e','f','g','h','i','j','k','l','m','n','o','p','q','r','s','t','u','v','w','x','y','z',
   '0','1','2','3','4','5','6','7','8','9','+','/']

def shiftsize : Nat := 5
def flag : Nat := 1 <<< 5
def mask : Nat := (1 <<< 5) - 1

/-- `_b64chars.__getitem__` (only ever applied to values < 64) -/
def b64Char (d : Nat) : Char := b64chars.getD d '?'

/-- the `while True` loop of `_base64vlq_encode` on the sign-tagged magnitude `v` -/
def encNat (v : Nat) : List Nat :=
  let toencode := v &&& mask
  let v' := v >>> shiftsize
  if h : v' = 0 then [toencode ||| 0]          -- `toencode | (v and flag)` with `v == 0`
  else (toencode ||| flag) :: encNat v'
termination_by v
decreasing_by
  have h' : v / 2 ^ 5 ≠ 0 := by
    rw [← Nat.shiftRight_eq_div_pow]; exact h
  show v >>> shiftsize < v
  rw [shiftsize, Nat.shiftRight_eq_div_pow]
  omega

/-- `(abs(v) << 1) | int(v < 0)` -/
def signTag (v : Int) : Nat := (v.natAbs <<< 1) ||| (if v < 0 then 1 else 0)

/-- `_base64vlq_encode(*values)` -/
def vlqEncode (values : List Int) : List Char :=
  (values.flatMap (fun v => encNat (signTag v))).map b64Char

/-- `_b64table[b]` for a byte of `vlqval.encode("ascii")`.
    `none` stands for the table's filler `-1`; bytes above `'z'` are past the end of the table. -/
def tableVal (c : Char) : Except String (Option Nat) :=
  if c.toNat > 122 then .error "IndexError"
  else if c ∈ b64chars then .ok (some (b64chars.idxOf c)) else .ok none

/-- `(value >> 1) * (-1 if value & 1 else 1)` -/
def untag (value : Nat) : Int :=
  ((value >>> 1 : Nat) : Int) * (if value &&& 1 ≠ 0 then -1 else 1)

/-- the `for` loop of `_base64vlq_decode`; `acc` is `results` reversed.  A trailing group whose
    last digit still has the continuation bit is dropped silently, as in the code. -/
def decodeGo : List Char → (shift value : Nat) → List Int → Except String (List Int)
  | [], _, _, acc => .ok acc.reverse
  | c :: cs, shift, value, acc =>
    match tableVal c with
    | .error e => .error e
    | .ok v =>
      -- Python: `-1 & mask == 31`, `-1 & flag == 32`
      let low := match v with | some d => d &&& mask | none => mask
      let cont : Bool := match v with | some d => d &&& flag != 0 | none => true
      let value := value + (low <<< shift)
      if cont then decodeGo cs (shift + shiftsize) value acc
      else decodeGo cs 0 0 (untag value :: acc)

/-- `_base64vlq_decode(vlqval)`; `.encode("ascii")` runs over the whole string first -/
def vlqDecode (s : List Char) : Except String (List Int) :=
  if s.any (fun c => c.toNat ≥ 128) then .error "UnicodeEncodeError"
  else decodeGo s 0 0 []

/-! ## 2. The "mappings" string of a Revision-3 map, on tables -/

/-- the fields of `R3SourceMapping` that `to_json` reads and `from_json` sets (minus `line`,
    which is the row number in a `Table`) -/
structure Seg where
  column : Int
  source : Option String := none
  sourceLine : Option Int := none
  sourceColumn : Option Int := none
  name : Option String := none
  deriving DecidableEq, Repr, Inhabited

/-- rows = generated (TEAL) lines, each a list of segments in index order -/
abbrev Table := List (List Seg)

structure R3Json where
  sources : List String
  names : List String
  mappings : List Char
  deriving DecidableEq, Repr

/-- Python `sep.join(parts)` -/
def joinSep (sep : Char) : List (List Char) → List Char
  | [] => []
  | [x] => x
  | x :: y :: r => x ++ sep :: joinSep sep (y :: r)

/-- Python `s.split(sep)` for a one-character separator (`"".split(";") == [""]`) -/
def splitOn (sep : Char) : List Char → List (List Char)
  | [] => [[]]
  | c :: cs =>
    if c = sep then [] :: splitOn sep cs
    else match splitOn sep cs with
      | [] => [[c]]
      | h :: t => (c :: h) :: t

/-- `autoindex`: `d[key]` numbers keys in order of first use -/
def autoindex (l : List String) (s : String) : Nat × List String :=
  if s ∈ l then (l.idxOf s, l) else (l.length, l ++ [s])

structure EncSt where
  spos : Int := 0
  sline : Int := 0
  scol : Int := 0
  npos : Int := 0
  sources : List String := []
  names : List String := []
  deriving Repr

/-- body of the inner loop of `to_json` for one entry: the delta list `ds` -/
def encSeg (st : EncSt) (gcol : Int) (e : Seg) : Except String (EncSt × List Int) :=
  let d0 := e.column - gcol
  match e.source with
  | none => .ok (st, [d0])
  | some src =>
    match e.sourceLine, e.sourceColumn with
    | some sl, some sc =>
      let (i, sources') := autoindex st.sources src
      let d1 := (i : Int) - st.spos
      let d2 := sl - st.sline
      let d3 := sc - st.scol
      let st1 : EncSt := { st with spos := st.spos + d1, sline := st.sline + d2, scol := st.scol + d3,
                                   sources := sources' }
      match e.name with
      | none => .ok (st1, [d0, d1, d2, d3])
      | some nm =>
        let (j, names') := autoindex st1.names nm
        let d4 := (j : Int) - st1.npos
        .ok ({ st1 with npos := st1.npos + d4, names := names' }, [d0, d1, d2, d3, d4])
    | _, _ => .error "AssertionError"

def encLine : EncSt → Int → List Seg → Except String (EncSt × List (List Int))
  | st, _, [] => .ok (st, [])
  | st, gcol, e :: es =>
    match encSeg st gcol e with
    | .error x => .error x
    | .ok (st1, ds) =>
      match encLine st1 e.column es with
      | .error x => .error x
      | .ok (st2, dss) => .ok (st2, ds :: dss)

def encLines : EncSt → Table → Except String (EncSt × List (List (List Int)))
  | st, [] => .ok (st, [])
  | st, row :: rows =>
    match encLine st 0 row with
    | .error x => .error x
    | .ok (st1, dss) =>
      match encLines st1 rows with
      | .error x => .error x
      | .ok (st2, dsss) => .ok (st2, dss :: dsss)

/-- `";".join(",".join(_base64vlq_encode(*ds) …) …)` -/
def render (dsss : List (List (List Int))) : List Char :=
  joinSep ';' (dsss.map (fun dss => joinSep ',' (dss.map vlqEncode)))

/-- `R3SourceMap.to_json()` restricted to `sources`, `names`, `mappings` -/
def Table.toJson (t : Table) : Except String R3Json :=
  match encLines {} t with
  | .error x => .error x
  | .ok (st, dsss) => .ok { sources := st.sources, names := st.names, mappings := render dsss }

structure DecSt where
  spos : Int := 0
  sline : Int := 0
  scol : Int := 0
  npos : Int := 0
  deriving Repr, DecidableEq

/-- Python list indexing with a possibly negative index -/
def pyIndex (l : List String) (i : Int) : Except String String :=
  if 0 ≤ i then
    match l[i.toNat]? with | some x => .ok x | none => .error "IndexError"
  else if -(l.length : Int) ≤ i then
    match l[(l.length + i).toNat]? with | some x => .ok x | none => .error "IndexError"
  else .error "IndexError"

/-- body of the inner loop of `from_json` on one decoded segment `gcd, *ref`
    (no `sourcesContent`, no `target`: `sp_conts == []`). -/
def decSeg (sources names : List String) (st : DecSt) (gcol : Int) (fields : List Int) :
    Except String (DecSt × Int × Seg) :=
  match fields with
  | [] => .error "ValueError"                       -- `gcd, *ref = []`
  | gcd :: ref =>
    let gcol := gcol + gcd
    match ref with
    | sd :: sld :: scd :: namedelta =>
      let st1 : DecSt := { st with spos := st.spos + sd, sline := st.sline + sld, scol := st.scol + scd }
      -- `sp_conts[spos] if len(sp_conts) > spos else None` with `sp_conts == []`
      if st1.spos < 0 then .error "IndexError" else
      let source : Option String := if st1.spos < sources.length then sources[st1.spos.toNat]? else none
      let seg : Seg := { column := gcol, source := source, sourceLine := some st1.sline,
                         sourceColumn := some st1.scol }
      match namedelta with
      | nd :: _ =>
        if names.isEmpty then
          .ok (st1, gcol, seg)                      -- `if namedelta and names:` is false
        else
          let st2 := { st1 with npos := st1.npos + nd }
          match pyIndex names st2.npos with
          | .error x => .error x
          | .ok nm =>
            -- R3SourceMapping.__post_init__: name without source
            if source.isNone then .error "TypeError" else .ok (st2, gcol, { seg with name := some nm })
      | [] => .ok (st1, gcol, seg)
    | _ => .ok (st, gcol, { column := gcol })        -- `len(ref) < 3`

def decLine (sources names : List String) : DecSt → Int → List (List Char) →
    Except String (DecSt × List Seg)
  | st, _, [] => .ok (st, [])
  | st, gcol, v :: vs =>
    match vlqDecode v with
    | .error x => .error x
    | .ok fields =>
      match decSeg sources names st gcol fields with
      | .error x => .error x
      | .ok (st1, gcol1, seg) =>
        match decLine sources names st1 gcol1 vs with
        | .error x => .error x
        | .ok (st2, segs) => .ok (st2, seg :: segs)

def decLines (sources names : List String) : DecSt → List (List Char) →
    Except String (DecSt × Table)
  | st, [] => .ok (st, [])
  | st, l :: ls =>
    if l.isEmpty then                                -- `if not vlqs: continue`
      match decLines sources names st ls with
      | .error x => .error x
      | .ok (st2, rows) => .ok (st2, [] :: rows)
    else
      match decLine sources names st 0 (splitOn ',' l) with
      | .error x => .error x
      | .ok (st1, row) =>
        match decLines sources names st1 ls with
        | .error x => .error x
        | .ok (st2, rows) => .ok (st2, row :: rows)

/-- `sources = sources or sources_override or ["unknown"]` -/
def effectiveSources (sources : List String) : List String :=
  if sources.isEmpty then ["unknown"] else sources

/-- the loop of `R3SourceMap.from_json(smap, add_right_bounds=False)`: rows of decoded segments
    (building the `entries` dict and the ordering check come in `R3Map.fromJson`) -/
def Table.fromJson (j : R3Json) : Except String Table :=
  match decLines (effectiveSources j.sources) j.names {} (splitOn ';' j.mappings) with
  | .error x => .error x
  | .ok (_, rows) => .ok rows

/-- what `to_json` needs of an entry: without a source nothing but the column is written, with a
    source the line and column must be present (`R3SourceMapping.__post_init__` guarantees the
    second half and that a name implies a source). -/
def Seg.wf (e : Seg) : Bool :=
  match e.source with
  | none => e.sourceLine.isNone && e.sourceColumn.isNone && e.name.isNone
  | some _ => e.sourceLine.isSome && e.sourceColumn.isSome

/-- well-formed table: at least one generated line (Python's `"".split(";")` is `[""]`, so the
    empty index does not survive) and every segment is `Seg.wf`. -/
def Table.wf (t : Table) : Bool :=
  !t.isEmpty && t.all (fun row => row.all Seg.wf)

/-! ## 3. `R3SourceMap` objects: `index` + `entries` dict -/

structure Entry where
  line : Int
  seg : Seg
  deriving DecidableEq, Repr, Inhabited

abbrev Key := Nat × Int

/-- `entries: Mapping[tuple[int,int], R3SourceMapping]` (insertion ordered) and `index` -/
structure R3Map where
  index : List (List Int)
  entries : List (Key × Entry)
  deriving DecidableEq, Repr

def dictGet? (d : List (Key × Entry)) (k : Key) : Option Entry :=
  (d.find? (fun p => p.1 == k)).map (·.2)

/-- `d[k] = v`: replaces in place when the key exists, appends otherwise -/
def dictSet (d : List (Key × Entry)) (k : Key) (v : Entry) : List (Key × Entry) :=
  if d.any (fun p => p.1 == k) then d.map (fun p => if p.1 == k then (k, v) else p)
  else d ++ [(k, v)]

/-- `R3SourceMapping.__lt__` on `(line, column)` -/
def Entry.lt (a b : Entry) : Bool :=
  a.line < b.line || (a.line == b.line && a.seg.column < b.seg.column)

/-- `R3SourceMap.__post_init__`: consecutive entries strictly increasing, else `TypeError` -/
def postInitOk : List (Key × Entry) → Bool
  | a :: b :: rest => a.2.lt b.2 && postInitOk (b :: rest)
  | _ => true

def rowOf (d : List (Key × Entry)) (gline : Nat) : List Int → Except String (List Seg)
  | [] => .ok []
  | col :: cols =>
    match dictGet? d (gline, col) with
    | none => .error "KeyError"
    | some e =>
      match rowOf d gline cols with
      | .error x => .error x
      | .ok r => .ok ({ e.seg with column := col } :: r)   -- `to_json` uses `col`, not `entry.column`

def rowsOf (d : List (Key × Entry)) : Nat → List (List Int) → Except String Table
  | _, [] => .ok []
  | gline, cols :: rest =>
    match rowOf d gline cols with
    | .error x => .error x
    | .ok r =>
      match rowsOf d (gline + 1) rest with
      | .error x => .error x
      | .ok rs => .ok (r :: rs)

/-- the table `to_json` walks: `entries[gline, col]` for `gline, cols in enumerate(index)` -/
def R3Map.table (m : R3Map) : Except String Table := rowsOf m.entries 0 m.index

/-- `R3SourceMap.to_json()` -/
def R3Map.toJson (m : R3Map) : Except String R3Json :=
  match m.table with
  | .error x => .error x
  | .ok t => t.toJson

def insertRow (gline : Nat) : List (Key × Entry) → List Seg → List (Key × Entry)
  | d, [] => d
  | d, s :: ss => insertRow gline (dictSet d (gline, s.column) { line := gline, seg := s }) ss

def insertRows : Nat → List (Key × Entry) → Table → List (Key × Entry)
  | _, d, [] => d
  | gline, d, row :: rows => insertRows (gline + 1) (insertRow gline d row) rows

/-- the `entries` / `index` that `from_json` accumulates -/
def R3Map.ofTable (t : Table) : R3Map :=
  { index := t.map (fun row => row.map (·.column)), entries := insertRows 0 [] t }

/-- `R3SourceMap.from_json(smap, add_right_bounds=False)` up to the fields modelled -/
def R3Map.fromJson (j : R3Json) : Except String R3Map :=
  match Table.fromJson j with
  | .error x => .error x
  | .ok t =>
    let m := R3Map.ofTable t
    if postInitOk m.entries then .ok m else .error "TypeError"

/-- well-formed map object: every key of `index` is present (`table` succeeds) and its table is
    well formed; rebuilding `entries`/`index` from that table by sequential dict insertion gives the
    object back — i.e. `entries` holds exactly the keys of `index`, in index order, each entry
    stored under its own `(line, column)`; and the constructor's ordering check accepts it. -/
def R3Map.wf (m : R3Map) : Bool :=
  match m.table with
  | .ok t => t.wf && (R3Map.ofTable t == m) && postInitOk m.entries
  | .error _ => false

/-! ## 4. Annotated TEAL lines -/

def isWs (c : Char) : Bool := c = ' ' ∨ c = '\t' ∨ c = '\r'

/-- the part of the tokeniser state (`PyTealV.Avm.TokSt`) that decides where a comment starts -/
structure ScanSt where
  cur : List Char := []       -- current token, reversed
  inStr : Bool := false
  esc : Bool := false
  inB64 : Bool := false
  deriving Repr, DecidableEq

/-- does a comment start at `c` (`next` is the following character, if any)?  Outside a string
    literal and outside `base64(…)`, at the first of two slashes. -/
def commentHere (s : ScanSt) (c : Char) (next : Option Char) : Bool :=
  !s.inStr && c == '/' && !s.inB64 && next == some '/'

/-- the scanner state after a character that does not start a comment
    (one step of `PyTealV.Avm.tokenise.go`) -/
def scanNext (s : ScanSt) (c : Char) : ScanSt :=
  if s.inStr then
    if s.esc then { s with cur := c :: s.cur, esc := false }
    else if c = '\\' then { s with cur := c :: s.cur, esc := true }
    else if c = '"' then { s with cur := c :: s.cur, inStr := false }
    else { s with cur := c :: s.cur }
  else if isWs c then { s with cur := [] }
  else if c = '"' ∧ s.cur.isEmpty then { s with cur := [c], inStr := true }
  else if c = '(' then
    let pre := String.ofList s.cur.reverse
    { s with cur := c :: s.cur, inB64 := s.inB64 || pre = "base64" || pre = "b64" }
  else if c = ')' then { s with cur := c :: s.cur, inB64 := false }
  else { s with cur := c :: s.cur }

/-- one character: `none` when a comment starts here -/
def scanStep (s : ScanSt) (c : Char) (next : Option Char) : Option ScanSt :=
  if commentHere s c next then none else some (scanNext s c)

/-- the characters in front of the comment (everything when there is none) -/
def codePart : List Char → ScanSt → List Char
  | [], _ => []
  | c :: rest, s =>
    match scanStep s c rest.head? with
    | none => []
    | some s' => c :: codePart rest s'

/-- scanner state at the end of the line, `none` when the line contains a comment -/
def finalSt : List Char → ScanSt → Option ScanSt
  | [], s => some s
  | c :: rest, s =>
    match scanStep s c rest.head? with
    | none => none
    | some s' => finalSt rest s'

def rstrip (l : List Char) : List Char := (l.reverse.dropWhile isWs).reverse

/-- the line with its comment (and the blanks in front of it) removed -/
def stripComment (line : List Char) : List Char := rstrip (codePart line {})

/-- a line of annotated TEAL as tabulate's "plain" format lays it out: the TEAL line, `pad`
    blanks (column padding + 2 separator blanks), the constant column `//`, then whatever the
    remaining columns hold -/
def annotate (line : List Char) (pad : Nat) (note : List Char) : List Char :=
  line ++ List.replicate pad ' ' ++ '/' :: '/' :: note

/-- `line` is a complete TEAL line: no unterminated string literal or `base64(` group at its end
    (a comment of its own is fine). -/
def closed (line : List Char) : Bool :=
  match finalSt line {} with
  | none => true
  | some s => !s.inStr && !s.inB64

/-- a TEAL line as `TealOp.assemble` produces it when it carries no comment: complete, no
    comment, no trailing blank -/
def plainTeal (line : List Char) : Bool :=
  (match finalSt line {} with
   | none => false
   | some s => !s.inStr && !s.inB64) && rstrip line == line

/-! ## 5. Which frame a constant is attributed to (`NatalStackFrame.__init__`, steps 3–4)

Only the *decision* is modelled: given the file names of the (non-crud) stack frames, innermost
first, which one is kept.  Capturing the frames themselves is CPython's business. -/

/-- `StackFrame._internal_paths` -/
def internalPaths : List String := [
  "beaker/__init__.py", "beaker/application.py", "beaker/consts.py", "beaker/decorators.py",
  "beaker/state.py", "pyteal/__init__.py", "pyteal/ast", "pyteal/compiler", "pyteal/ir",
  "pyteal/pragma", "pyteal/stack_frame.py", "tests/abi_roundtrip.py", "tests/blackbox.py",
  "tests/compile_asserts.py", "tests/mock_version.py" ]

/-- the pattern matches a prefix of `s` (`.` is the regex wildcard: any character but newline;
    the patterns contain no other metacharacter) -/
def matchHere : List Char → List Char → Bool
  | [], _ => true
  | _ :: _, [] => false
  | p :: ps, c :: cs => (p == c || (p == '.' && c != '\n')) && matchHere ps cs

/-- `re.search(pattern, s)`: a match anywhere -/
def searchPat (p : List Char) : List Char → Bool
  | [] => matchHere p []
  | c :: cs => matchHere p (c :: cs) || searchPat p cs

/-- `StackFrame._frame_info_is_pyteal`: `_internal_paths_re.search(f.filename)` -/
def frameIsPyteal (filename : String) : Bool :=
  internalPaths.any (fun p => searchPat p.toList filename.toList)

/-- steps 3–4: start at index 2, skip frames that count as PyTeal's own; the frame kept is
    `frame_infos[last_keep_idx : last_keep_idx + 1]` (`none`: the slice is empty) -/
def keepIdx (files : List String) : Option Nat :=
  let rec go : Nat → List String → Option Nat
    | _, [] => none
    | i, f :: fs => if frameIsPyteal f then go (i + 1) fs else some i
  go 2 (files.drop 2)

/-! ## 6. `String` wrappers (driver side) -/

def vlqEncodeS (vs : List Int) : String := String.ofList (vlqEncode vs)
def vlqDecodeS (s : String) : Except String (List Int) := vlqDecode s.toList
def stripCommentS (s : String) : String := String.ofList (stripComment s.toList)
def annotateS (line : String) (pad : Nat) (note : String) : String :=
  String.ofList (annotate line.toList pad note.toList)

end PyTealV.Models.SourceMap
