/-
  C20 (compilation is total): the decidable acceptance predicate of the code-generation model.

  `genAdmissible cfg inLoop e` is true exactly when no construct of the tree `e` is one of those
  the PyTeal code generator rejects with a PyTeal error:

  * `Break` / `Continue` outside a loop (`inLoop = false`).  `gen` generates the loop CONDITION
    and `For`'s init/step inside the loop context too (as `while_.py` / `for_.py` do), so a
    Break there is accepted: every child of `while_`/`for_` is checked with `inLoop = true`;
  * `Substring(s, Int a, Int b)` with `b < a`;
  * `Suffix(s, Int st)` with `st < 256` below program version 5 (selects `extract`);
  * `Return()` without a value in the main routine (`cfg.inSub = false`);
  * the constructs `gen` does not model (`.call`, `.wideRatio`).

  Nothing else is rejected: the shape of the tree (a loop as first statement, empty sequences,
  bodies that are only Break/Continue, any nesting) is irrelevant.  `Proofs/C20.lean` proves that
  `gen` succeeds exactly on the admissible trees.
-/
import PyTealV.Comp.Gen
namespace PyTealV.Models.GenOk
open PyTealV PyTealV.Src PyTealV.Comp

/-- constant-operand check of `Substring.__teal__`: `end ≥ start` when both are `Int` literals -/
def substringOk : Expr → Expr → Bool
  | .int st, .int en => decide (st ≤ en)
  | _, _ => true

/-- `Suffix(s, Int st)` with `st < 256` lowers to `extract st 0`, which needs version 5 -/
def suffixOk (cfg : GenCfg) : Expr → Bool
  | .int st => decide (256 ≤ st) || decide (5 ≤ cfg.version)
  | _ => true

mutual
  /-- first argument: the construct is (transitively) inside a loop of the same routine -/
  def genAdmissible (cfg : GenCfg) : Bool → Expr → Bool
    | _, .int _ => true
    | _, .bytes _ => true
    | l, .prim _ _ args => genAdmissibleList cfg l args
    | l, .substring s a b =>
      substringOk a b && genAdmissible cfg l s && genAdmissible cfg l a && genAdmissible cfg l b
    | l, .extract s a n => genAdmissible cfg l s && genAdmissible cfg l a && genAdmissible cfg l n
    | l, .suffix s a => suffixOk cfg a && genAdmissible cfg l s && genAdmissible cfg l a
    | _, .load _ => true
    | l, .store _ e => genAdmissible cfg l e
    | _, .index _ => true
    | l, .multi _ _ args _ => genAdmissibleList cfg l args
    | l, .seq es => genAdmissibleList cfg l es
    | l, .ite c t none => genAdmissible cfg l c && genAdmissible cfg l t
    | l, .ite c t (some e) => genAdmissible cfg l c && genAdmissible cfg l t && genAdmissible cfg l e
    | l, .cond arms => genAdmissibleArms cfg l arms
    | _, .while_ c d => genAdmissible cfg true c && genAdmissible cfg true d
    | _, .for_ i c s d =>
      genAdmissible cfg true i && genAdmissible cfg true c && genAdmissible cfg true s
        && genAdmissible cfg true d
    | l, .brk => l
    | l, .cont => l
    | l, .assert_ c => genAdmissible cfg l c
    | _, .ret none => cfg.inSub
    | l, .ret (some e) => genAdmissible cfg l e
    | l, .exit e => genAdmissible cfg l e
    | _, .err => true
    | _, .call _ _ => false
    | _, .wideRatio _ _ => false
    | _, .note none => true
    | l, .note (some e) => genAdmissible cfg l e
    | l, .nonce _ e => genAdmissible cfg l e

  def genAdmissibleList (cfg : GenCfg) : Bool → List Expr → Bool
    | _, [] => true
    | l, e :: es => genAdmissible cfg l e && genAdmissibleList cfg l es

  def genAdmissibleArms (cfg : GenCfg) : Bool → List (Expr × Expr) → Bool
    | _, [] => true
    | l, (c, b) :: rest => genAdmissible cfg l c && genAdmissible cfg l b && genAdmissibleArms cfg l rest
end

/-- the tree `genMain` actually generates: a tree without return is wrapped into `Return(e)` -/
def mainTree (e : Expr) : Expr := if hasReturn e then e else .ret (some e)

/-- acceptance of a main routine -/
def mainAdmissible (cfg : GenCfg) (e : Expr) : Bool := genAdmissible cfg false (mainTree e)

/-- the outcome classes of the model: the names of the PyTeal error classes, and the marker of
    the constructs the model does not cover.  There is no "crash" class. -/
def errorClasses : List String := ["TealCompileError", "TealInputError", "unmodelled"]

end PyTealV.Models.GenOk
