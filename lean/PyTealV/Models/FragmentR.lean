/-
  The fragment of source *programs* (main routine + subroutines) covered by the whole-program
  code-generation theorem `PyTealV.Proofs.C02Gen.genProg_correct`, as decidable predicates.

  `wtR K bc rc n e` extends `Models.Fragment.wt` (see the restrictions R1–R6 there) with
    * `call f args` in operand or statement position: `f` is a declared routine, the number of
      arguments is its number of parameters, every argument yields exactly one value, and the call
      yields one value iff the callee returns one;
    * `ret none` (only in a routine without return value) and `ret (some e)` (only in the main
      routine and in routines with a return value);
    * R7 (new): `ret` occurs only in *statement position* (`rc = true`: `seq` elements, `ite`/`cond`
      branches, loop bodies, `for_` init/step, `note`/`nonce` wrappers) — never inside an operand or
      a condition.  NEEDED inside subroutines: `retsub` leaves the operands that are pending on the
      stack to the caller (PyTeal accepts `Int(1) + Seq(Return(Int(5)))`; known finding "Return in
      operand position").  In the main routine it is a simplification (there `return` ends the
      program whatever the stack holds; `Proofs.Shape.gen_correct` covers that case).
    * R8 (new): the opcode is executable by the graph machine under the same name and neither
      `vloads` nor `vstores` (`genR` renames those to `loads`/`stores`, whose meaning differs for
      slots ≥ 256; they are the access path of by-reference parameters — stage 3).
      With `RK.dyn` they are admitted (stage 3): the generated `loads` / `stores` may then fail their
      range check — unless
    * R9 (`RK.strict`, the by-reference discipline; stage 3 without that caveat): `vloads` / `vstores`
      only dereference a by-reference parameter of the routine they occur in (`vloads [load v]`,
      `vstores [load v, e]`); nobody stores directly into a by-reference parameter slot; what a call
      passes for a by-reference parameter is `index s` (`s < 256` no parameter slot of any routine)
      or the caller's own by-reference parameter; the generic `loads` / `stores` are excluded.
      Then every by-reference parameter cell of an active routine holds a slot number `< 256`
      (`Proofs/C02GenValid.lean`).  Both calling conventions: under the frame-pointer convention
      the by-reference arguments are copied from the frame into their scratch slots by the
      routine's prologue, only the by-value parameter slots are ignored (`ignOf true p true`).
    * `substring/extract/suffix`: as in `wt`.
    * `wideRatio ns ds` (new): both factor lists non-empty and not both singletons (what the
      constructor checks), every factor a one-value operand of the fragment (calls allowed as for
      other operands), and the side conditions W1, W2 (`wideOk`, below).

  `inFragmentR p` is the program-level predicate; `stageOf p fp` says which stage of the proof plan
  a program needs (1: acyclic call graph, by-value parameters, scratch-slot convention;
  2: recursion; 3: by-reference parameters; 4: frame-pointer convention).
-/
import PyTealV.Models.Fragment
import PyTealV.Models.Optimizer
import PyTealV.Models.Spill
import PyTealV.Comp.GenProg
import PyTealV.Comp.ProgGraph
import PyTealV.Check.ValidateProg
namespace PyTealV.Models.FragmentR
open PyTealV PyTealV.Avm PyTealV.Src PyTealV.Comp PyTealV.Models.Fragment

/-- what `wtR` needs to know about the routine a tree belongs to -/
structure RK where
  callees : List Callee
  rv : Bool                 -- the routine returns a value (main routine: `true`)
  ign : List Nat := []      -- slots that only the owning routine may read and nobody may write
                            -- (frame-pointer convention: all by-value parameter slots; else `[]`)
  own : List Nat := []      -- the slots of `ign` this routine may read (its own parameters)
  okCalls : Option (List Nat) := none   -- `some l`: only the routines of `l` may be called
  dyn : Bool := false       -- `vloads` / `vstores` (slots addressed by a run-time value) are allowed;
                            -- the machine may then fail the range check of `loads` / `stores`
  strict : Bool := false    -- the by-reference discipline R9 is enforced (then that failure is impossible)
  ref : List Nat := []      -- the by-reference parameter slots of this routine
  refAll : List Nat := []   -- all by-reference parameter slots of the program (nobody stores into them)
  parAll : List Nat := []   -- all parameter slots of the program (no reference to one of them is created)
  kinds : List (Nat × List Bool) := []   -- routine id ↦ which of its parameters are by reference
  deriving Repr, Inhabited

/-- signature of the opcodes of the fragment: those of `primSig` that do not address scratch
    space by a run-time value (`Optimizer.framedOps`), plus `loads` / `stores` -/
def primSigR (op : String) : Option (Nat × Nat) :=
  if Models.Optimizer.framedOps.contains op || op == "loads" || op == "stores" then primSig op else none

/-- with ignored slots, the run-time addressed `loads` / `stores` are excluded as well -/
def primSigK (K : RK) (op : String) : Option (Nat × Nat) :=
  if K.ign.isEmpty then
    (if K.dyn && (op == "vloads" || op == "vstores") then primSig op
     else if K.strict then (if Models.Optimizer.framedOps.contains op then primSig op else none)
     else primSigR op)
  else if Models.Optimizer.framedOps.contains op then primSig op
  else if K.strict && K.dyn && (op == "vloads" || op == "vstores") then primSig op else none

/-- R9 (by-reference discipline), addresses: `vloads` / `vstores` dereference a by-reference
    parameter of the routine they occur in -/
def dynShapeOk (K : RK) (op : String) (args : List Expr) : Bool :=
  !(K.strict && (op == "vloads" || op == "vstores")) ||
  (match args with
   | .load v :: _ => K.ref.contains v
   | _ => false)

/-- R9, arguments: what is passed for a by-reference parameter is the slot number of a variable
    that is no parameter slot, or the routine's own by-reference parameter (forwarding) -/
def refArgOk (K : RK) : Expr → Bool
  | .index s => decide (s < 256) && !K.parAll.contains s
  | .load v => K.ref.contains v
  | _ => false

def refArgsOk (K : RK) : List Bool → List Expr → Bool
  | true :: ks, e :: es => refArgOk K e && refArgsOk K ks es
  | false :: ks, _ :: es => refArgsOk K ks es
  | _, _ => true

def callShapeOk (K : RK) (f : Nat) (args : List Expr) : Bool :=
  !K.strict ||
  (match K.kinds.lookup f with
   | some ks => refArgsOk K ks args
   | none => false)

/-! ### `WideRatio` factors

  The source semantics evaluates all factors first and multiplies afterwards; the generated code
  multiplies as soon as a factor is on the stack (`mulw`, then the eight ops of `mulStep` after
  every further factor) and the model's values `Val.u n` are unbounded naturals.  Two side
  conditions make the two agree (both are needed: `Proofs/C02GenWide.lean`,
  `wide_unbounded_counterexample`, `wide_exit_counterexample`):
    * W1 the first two factors of a factor list with at least two factors are *syntactically
      uint64* (`u64B`): `mulw` does not check that its operands are below 2^64, the source
      semantics (`Src.wideProd`) checks that their product is below 2^128;
    * W2 every factor that is evaluated after an opcode that can fail (all but the first two
      numerators) is free of `Exit` and of calls (`noExit`): otherwise the source run could end
      with `Exit` in a late factor while the machine has already failed in a multiplication. -/

/-- opcodes whose result is a `uint64` below 2^64 whatever the operands are -/
def u64Ops : List String :=
  ["+", "-", "*", "/", "%", "<", ">", "<=", ">=", "&&", "||", "==", "!=", "!", "~"]

/-- W1: if `e` yields one value, that value is a `uint64` below 2^64 -/
def u64B : Expr → Bool
  | .int n => decide (n < Avm.two64)
  | .index v => decide (v < Avm.two64)
  | .prim op _ _ => u64Ops.contains op
  | .wideRatio _ _ => true
  | .ite _ t (some e) => u64B t && u64B e
  | .note (some e) => u64B e
  | .nonce _ e => u64B e
  | _ => false

def u64Top : List Expr → Bool
  | e0 :: e1 :: _ => u64B e0 && u64B e1
  | _ => true

mutual
  /-- W2: no `Exit` and no call inside `e` -/
  def noExit : Expr → Bool
    | .exit _ => false
    | .call _ _ => false
    | .prim _ _ args => noExitL args
    | .store _ e => noExit e
    | .multi _ _ args _ => noExitL args
    | .seq es => noExitL es
    | .ite c t none => noExit c && noExit t
    | .ite c t (some e) => noExit c && noExit t && noExit e
    | .cond arms => noExitA arms
    | .while_ c b => noExit c && noExit b
    | .for_ i c s b => noExit i && noExit c && noExit s && noExit b
    | .assert_ c => noExit c
    | .ret (some e) => noExit e
    | .wideRatio ns ds => noExitL ns && noExitL ds
    | .substring s a b => noExit s && noExit a && noExit b
    | .extract s a l => noExit s && noExit a && noExit l
    | .suffix s a => noExit s && noExit a
    | .note (some e) => noExit e
    | .nonce _ e => noExit e
    | _ => true
  def noExitL : List Expr → Bool
    | [] => true
    | e :: es => noExit e && noExitL es
  def noExitA : List (Expr × Expr) → Bool
    | [] => true
    | (c, b) :: rest => noExit c && noExit b && noExitA rest
end

/-- the side conditions W1, W2 on the factor lists of a `WideRatio` -/
def wideOk (ns ds : List Expr) : Bool :=
  u64Top ns && u64Top ds && noExitL (ns.drop 2) && noExitL ds

mutual
  /-- `wtR K bc rc n e`: `e` is in the fragment, yields exactly `n` values on normal completion,
      `brk/cont` occur only if `bc`, `ret` only if `rc` (both: statement position only). -/
  def wtR (K : RK) (bc rc : Bool) (n : Nat) : Expr → Bool
    | .int _ => n == 1
    | .bytes _ => n == 1
    | .index _ => n == 1
    | .load v => n == 1 && ((K.ign.contains v && K.own.contains v) || (decide (v < 256) && !K.ign.contains v))
    | .prim op _ args =>
      (match primSigK K op with
       | some (k, p) => args.length == k && p == n
       | none => false) && wtRArgs K args && dynShapeOk K op args
    | .store v e => n == 0 && decide (v < 256) && !K.ign.contains v && wtR K false false 1 e && !K.refAll.contains v
    | .multi op _ args outs =>
      n == 0 &&
      (match primSigK { K with dyn := false } op with
       | some (k, p) => args.length == k && p == outs.length
       | none => false) && outs.all (fun v => decide (v < 256) && !K.ign.contains v) && wtRArgs K args &&
      outs.all (fun v => !K.refAll.contains v)
    | .seq es => wtRSeq K bc rc n es
    | .ite c t none => n == 0 && wtR K false false 1 c && wtR K bc rc 0 t
    | .ite c t (some e) => wtR K false false 1 c && wtR K bc rc n t && wtR K bc rc n e
    | .cond arms => wtRArms K bc rc n arms
    | .while_ c b => n == 0 && wtR K false false 1 c && wtR K true rc 0 b
    | .for_ i c s b => n == 0 && wtR K false rc 0 i && wtR K false false 1 c && wtR K false rc 0 s && wtR K true rc 0 b
    | .brk => bc
    | .cont => bc
    | .assert_ c => n == 0 && wtR K false false 1 c
    | .ret none => rc && !K.rv
    | .ret (some e) => rc && K.rv && wtR K false false 1 e
    | .exit e => wtR K false false 1 e
    | .err => true
    | .call f args =>
      (match K.callees.find? (·.id == f) with
       | some ce => args.length == ce.nArgs && n == (if ce.hasRet then 1 else 0)
       | none => false) &&
      (match K.okCalls with
       | some l => l.contains f
       | none => true) && wtRArgs K args && callShapeOk K f args
    | .wideRatio ns ds =>
      n == 1 && !ns.isEmpty && !ds.isEmpty && !(ns.length == 1 && ds.length == 1) &&
      wtRArgs K ns && wtRArgs K ds && wideOk ns ds
    | .substring s a b => n == 1 && wtR K false false 1 s && wtR K false false 1 a && wtR K false false 1 b
    | .extract s a l => n == 1 && wtR K false false 1 s && wtR K false false 1 a && wtR K false false 1 l
    | .suffix s a => n == 1 && wtR K false false 1 s && wtR K false false 1 a
    | .note none => n == 0
    | .note (some e) => wtR K bc rc n e
    | .nonce _ e => wtR K bc rc n e
  def wtRArgs (K : RK) : List Expr → Bool
    | [] => true
    | e :: es => wtR K false false 1 e && wtRArgs K es
  def wtRSeq (K : RK) (bc rc : Bool) (n : Nat) : List Expr → Bool
    | [] => n == 0
    | [e] => wtR K bc rc n e
    | e :: e2 :: es => wtR K bc rc 0 e && wtRSeq K bc rc n (e2 :: es)
  def wtRArms (K : RK) (bc rc : Bool) (n : Nat) : List (Expr × Expr) → Bool
    | [] => true
    | (c, b) :: rest => wtR K false false 1 c && wtR K bc rc n b && wtRArms K bc rc n rest
end

/-- duplicate-free, as a Boolean function (the native driver evaluates it) -/
def nodupB : List Nat → Bool
  | [] => true
  | x :: xs => !xs.contains x && nodupB xs

/-- the slots the generated code spills around a re-entrant call (scratch-slot convention) -/
def spillSlots (sd : SubDef) : List Nat := Check.sortNat (Check.spillKeys false sd)

def sameSet (a b : List Nat) : Bool := a.all b.contains && b.all a.contains

mutual
  /-- the routines a tree calls (with repetitions) -/
  def callsOf : Expr → List Nat
    | .prim _ _ args => callsOfL args
    | .store _ e => callsOf e
    | .multi _ _ args _ => callsOfL args
    | .seq es => callsOfL es
    | .ite c t none => callsOf c ++ callsOf t
    | .ite c t (some e) => callsOf c ++ callsOf t ++ callsOf e
    | .cond arms => callsOfA arms
    | .while_ c b => callsOf c ++ callsOf b
    | .for_ i c s b => callsOf i ++ callsOf c ++ callsOf s ++ callsOf b
    | .assert_ c => callsOf c
    | .ret (some e) => callsOf e
    | .exit e => callsOf e
    | .call f args => f :: callsOfL args
    | .wideRatio ns ds => callsOfL ns ++ callsOfL ds
    | .substring s a b => callsOf s ++ callsOf a ++ callsOf b
    | .extract s a l => callsOf s ++ callsOf a ++ callsOf l
    | .suffix s a => callsOf s ++ callsOf a
    | .note (some e) => callsOf e
    | .nonce _ e => callsOf e
    | _ => []
  def callsOfL : List Expr → List Nat
    | [] => []
    | e :: es => callsOf e ++ callsOfL es
  def callsOfA : List (Expr × Expr) → List Nat
    | [] => []
    | (c, b) :: rest => callsOf c ++ callsOf b ++ callsOfA rest
end

/-! ### frame-pointer convention: parameters live in the stack frame -/

/-- all parameter slots of the program -/
def allParamSlots (p : Prog) : List Nat := p.subs.flatMap (fun sd => sd.params.map (·.2))

/-- the by-reference / by-value parameter slots of a routine -/
def refSlots (sd : SubDef) : List Nat := (sd.params.filter (fun kv => kv.1 == .ref)).map (·.2)
def valSlots (sd : SubDef) : List Nat := (sd.params.filter (fun kv => kv.1 == .val)).map (·.2)
def allRefSlots (p : Prog) : List Nat := p.subs.flatMap refSlots
def allValSlots (p : Prog) : List Nat := p.subs.flatMap valSlots

/-- the slots `SameW` ignores: under the frame-pointer convention the cells of the by-value
    parameters of the source semantics have no counterpart in scratch space (without the
    by-reference discipline every parameter is by value: all parameter slots) -/
def ignOf (fp : Bool) (p : Prog) (strict : Bool := false) : List Nat :=
  if fp then (if strict then allValSlots p else allParamSlots p) else []

/-- `genSub`'s table of by-value parameters read with `frame_dig` -/
def fpParams (sd : SubDef) : List (Var × Int) :=
  ((List.range sd.params.length).zip sd.params).filterMap
    (fun (i, (k, v)) => if k == .val then some (v, (i : Int) - (sd.params.length : Int)) else none)

/-- one round of "add the callees" -/
def closeStep (p : Prog) (T : List Nat) : List Nat :=
  (T ++ T.flatMap (fun h => match findSub p h with
    | some sd => callsOf sd.body
    | none => [])).eraseDups

def iter {α} (f : α → α) : Nat → α → α
  | 0, x => x
  | n + 1, x => iter f n (f x)

/-- the routines reachable from `g` (candidate; what is used is that it is closed — checked) -/
def reachSet (p : Prog) (g : Nat) : List Nat := iter (closeStep p) (p.subs.length + 1) [g]

/-- `T` consists of declared routines and is closed under "calls" -/
def closedSet (p : Prog) (T : List Nat) : Bool :=
  T.all (fun h => match findSub p h with
    | some sd => (callsOf sd.body).all T.contains
    | none => false)

/-- the callees `g` of `sd` after whose return the parameter cells of `sd` are intact in the source
    semantics: `g` is declared re-entrant (the cells are saved and restored), or `g` cannot reach `sd`
    (witnessed by a closed set of routines that contains `g` and not `sd`) -/
def okCallsOf (p : Prog) (sd : SubDef) : List Nat :=
  (callsOf sd.body).filter (fun g =>
    sd.reenters.contains g ||
    (closedSet p (reachSet p g) && (reachSet p g).contains g && !(reachSet p g).contains sd.id))

/-- routine id ↦ which parameters are by reference -/
def kindsOf (p : Prog) : List (Nat × List Bool) := p.subs.map (fun sd => (sd.id, sd.params.map (fun kv => kv.1 == .ref)))

/-- typing context of the main routine / of a subroutine -/
def mainK (fp : Bool) (p : Prog) (dyn : Bool := false) (strict : Bool := false) : RK :=
  if strict then
    { callees := calleesOf p, rv := true, ign := ignOf fp p true, dyn := dyn, strict := true, refAll := allRefSlots p,
      parAll := allParamSlots p, kinds := kindsOf p, okCalls := some (callsOf p.main) }
  else { callees := calleesOf p, rv := true, ign := ignOf fp p, dyn := dyn }

def subK (fp : Bool) (p : Prog) (sd : SubDef) (dyn : Bool := false) (strict : Bool := false) : RK :=
  if fp then
    (if strict then
      { callees := calleesOf p, rv := sd.hasRet, ign := allValSlots p, own := valSlots sd,
        okCalls := some (okCallsOf p sd), dyn := dyn, strict := true, ref := refSlots sd,
        refAll := allRefSlots p, parAll := allParamSlots p, kinds := kindsOf p }
     else
      { callees := calleesOf p, rv := sd.hasRet, ign := allParamSlots p, own := sd.params.map (·.2),
        okCalls := some (okCallsOf p sd), dyn := dyn })
  else if strict then
    { callees := calleesOf p, rv := sd.hasRet, dyn := dyn, strict := true, ref := refSlots sd,
      refAll := allRefSlots p, parAll := allParamSlots p, kinds := kindsOf p, okCalls := some (callsOf sd.body) }
  else { callees := calleesOf p, rv := sd.hasRet, dyn := dyn }

/-- the slots the generated code spills around a re-entrant call -/
def spillSlotsC (fp : Bool) (sd : SubDef) : List Nat := Check.sortNat (Check.spillKeys fp sd)

/-- per-subroutine conditions (by-value parameters; both calling conventions):
    body arity-typed for the declared return kind; parameters by value, pairwise distinct real
    slots; local variables are real slots; the spill set the generator uses is duplicate-free and,
    outside the ignored slots, has the elements of `locals` (always true; checked instead of
    proved about `sortNat ∘ eraseDups ∘ filter`); under the frame-pointer convention the
    parameters are among the `locals` (so that the source semantics restores them after a
    re-entrant call) -/
def subOkC (fp : Bool) (p : Prog) (sd : SubDef) (dyn : Bool := false) (strict : Bool := false) : Bool :=
  wtR (subK fp p sd dyn strict) false true (if sd.hasRet then 1 else 0) sd.body &&
  sd.params.all (fun kv => (kv.1 == .val || !fp || strict) && ((fp && kv.1 == .val) || decide (kv.2 < 256))) &&
  nodupB (sd.params.map (·.2)) &&
  sd.locals.all (fun v => (ignOf fp p strict).contains v || decide (v < 256)) &&
  nodupB (spillSlotsC fp sd) &&
  (spillSlotsC fp sd).all (fun x => sd.locals.contains x && !(ignOf fp p strict).contains x) &&
  sd.locals.all (fun x => (ignOf fp p strict).contains x || (spillSlotsC fp sd).contains x) &&
  (!fp || sd.params.all (fun kv => sd.locals.contains kv.2)) &&
  (!strict || ((valSlots sd).all (fun v => !(allRefSlots p).contains v) &&
               (refSlots sd).all (fun v => !(allValSlots p).contains v)))

def mainOkC (fp : Bool) (p : Prog) (dyn : Bool := false) (strict : Bool := false) : Bool :=
  wtR (mainK fp p dyn strict) false true 0 p.main || wtR (mainK fp p dyn strict) false true 1 p.main

/-- **The fragment of programs** of `genProg_correct` (by-value parameters; recursion allowed);
    `fp = false`: scratch-slot convention, `fp = true`: frame-pointer convention (then the
    parameter slots of all routines are pairwise distinct) -/
def inFragmentC (fp : Bool) (p : Prog) (dyn : Bool := false) (strict : Bool := false) : Bool :=
  mainOkC fp p dyn strict && p.subs.all (fun sd => subOkC fp p sd dyn strict) && nodupB (p.subs.map (·.id)) &&
  (!fp || nodupB (allParamSlots p))

def subOk (p : Prog) (sd : SubDef) : Bool := subOkC false p sd
def mainOk (p : Prog) : Bool := mainOkC false p
def inFragmentR (p : Prog) : Bool := inFragmentC false p

/-! ### The whole-program generator: main routine and every subroutine of the table -/

/-- graphs of the listed subroutines under their model labels `"@id"` -/
def genSubs (version : Nat) (fp : Bool) (p : Prog) : List SubDef → Except String (List (String × Graph × Nat))
  | [] => .ok []
  | sd :: rest =>
    match genSub version fp false p sd (Check.sortNat (Check.spillKeys fp sd)), genSubs version fp p rest with
    | .ok r, .ok rs => .ok ((subLabel sd.id, r.G, r.start) :: rs)
    | .error e, _ => .error e
    | _, .error e => .error e

/-- the multi-routine graph program of `p` (what `Check.buildCert` regenerates routine by routine) -/
def genProg (version : Nat) (fp : Bool) (p : Prog) : Except String PProg :=
  match genMainR version false p, genSubs version fp p p.subs with
  | .ok m, .ok subs => .ok { main := m.G, start := m.start, subs := subs }
  | .error e, _ => .error e
  | _, .error e => .error e

/-- no routine is declared re-entrant (nothing is spilled): stage 1 -/
def noReentry (p : Prog) : Bool := p.subs.all (fun sd => sd.reenters.isEmpty)

/-! ### Call graph, recursion points (documentation of `SubDef.reenters`) -/

def callGraph (p : Prog) : Spill.CallGraph := p.subs.map (fun sd => (sd.id, (callsOf sd.body).eraseDups))

/-- `SubDef.reenters` is what `findRecursionPoints` computes from the call graph of the bodies -/
def reentersOk (p : Prog) : Bool :=
  match Spill.recursionPoints (callGraph p) with
  | none => false
  | some rp => p.subs.all (fun sd => match rp.find? (·.1 == sd.id) with
      | some (_, pts) => sameSet pts sd.reenters
      | none => false)

/-- no routine can reach itself (stage 1) -/
def acyclic (p : Prog) : Bool := reentersOk p && p.subs.all (fun sd => sd.reenters.isEmpty)

def hasRef (p : Prog) : Bool := p.subs.any (fun sd => sd.params.any (fun kv => kv.1 == .ref))

/-- the stage of the proof plan a program needs under the given calling convention -/
def stageOf (p : Prog) (fp : Bool) : Nat :=
  if hasRef p then 3 else if fp then 4 else if acyclic p then 1 else 2

end PyTealV.Models.FragmentR
