/-
  Model of PyTeal's ABI type specs and of

      pyteal/ast/abi/util.py : type_spec_is_assignable_to(a, b)

  mirrored line by line: the `match a, b:` statement is a chain of `isinstance` tests in
  source order (class patterns `C()` are `isinstance(x, C)`), the `NamedTuple` case is Python's
  `a == b` (reflected-operand rule of rich comparison + every `__eq__` method of the TypeSpec
  classes), and the fall-through is `isinstance(a, type(b))` followed by `str(a) == str(b)`.

  `TS` is the universe of TypeSpec *objects* that can be built from the public classes
  (without subclassing them):

      BoolTypeSpec | ByteTypeSpec | Uint8/16/32/64TypeSpec | AddressTypeSpec | StringTypeSpec
      | DynamicBytesTypeSpec | StaticBytesTypeSpec(n) | StaticArrayTypeSpec(e, n)
      | DynamicArrayTypeSpec(e) | TupleTypeSpec(*ts) | NamedTupleTypeSpec(cls, *ts)
      | the 7 transaction specs | the 3 reference specs

  A `NamedTupleTypeSpec` carries its instance class (an opaque identity `cls : Nat`, compared
  with `==` exactly like Python compares classes) and its value specs, which the constructor
  accepts independently of the class's annotations.
-/
import PyTealV.Arc4
namespace PyTealV.Models.Assignable
set_option linter.unusedVariables false
open PyTealV.Arc4 (Ty)

/-- the five concrete `UintTypeSpec` subclasses -/
inductive UKind where
  | byte | u8 | u16 | u32 | u64
  deriving Repr, DecidableEq, Inhabited

/-- `TransactionTypeSpec` (any) and its six subclasses -/
inductive TxnKind where
  | any | pay | keyreg | acfg | axfer | afrz | appl
  deriving Repr, DecidableEq, Inhabited

inductive RefKind where
  | account | asset | application
  deriving Repr, DecidableEq, Inhabited

inductive TS where
  | bool
  | uint (k : UKind)
  | address
  | string
  | dynBytes
  | staticBytes (n : Nat)
  | sarray (e : TS) (n : Nat)
  | darray (e : TS)
  | tuple (ts : List TS)
  | named (cls : Nat) (ts : List TS)
  | txn (k : TxnKind)
  | ref (k : RefKind)
  deriving Repr, Inhabited

/-! ## The class hierarchy (checked against the real `__mro__`s by the harness) -/

inductive Cls where
  | TypeSpec
  | Bool
  | Uint | Byte | Uint8 | Uint16 | Uint32 | Uint64
  | Tuple | NamedTuple
  | Array | StaticArray | StaticBytes | Address | DynamicArray | DynamicBytes | String
  | Transaction | Payment | KeyRegister | AssetConfig | AssetFreeze | AssetTransfer | ApplicationCall
  | Reference | Account | Asset | Application
  deriving Repr, DecidableEq, Inhabited

def Cls.all : List Cls :=
  [.TypeSpec, .Bool, .Uint, .Byte, .Uint8, .Uint16, .Uint32, .Uint64, .Tuple, .NamedTuple,
   .Array, .StaticArray, .StaticBytes, .Address, .DynamicArray, .DynamicBytes, .String,
   .Transaction, .Payment, .KeyRegister, .AssetConfig, .AssetFreeze, .AssetTransfer,
   .ApplicationCall, .Reference, .Account, .Asset, .Application]

/-- Python class name (`XTypeSpec`) -/
def Cls.name : Cls → _root_.String
  | .TypeSpec => "TypeSpec" | .Bool => "BoolTypeSpec" | .Uint => "UintTypeSpec"
  | .Byte => "ByteTypeSpec" | .Uint8 => "Uint8TypeSpec" | .Uint16 => "Uint16TypeSpec"
  | .Uint32 => "Uint32TypeSpec" | .Uint64 => "Uint64TypeSpec" | .Tuple => "TupleTypeSpec"
  | .NamedTuple => "NamedTupleTypeSpec" | .Array => "ArrayTypeSpec"
  | .StaticArray => "StaticArrayTypeSpec" | .StaticBytes => "StaticBytesTypeSpec"
  | .Address => "AddressTypeSpec" | .DynamicArray => "DynamicArrayTypeSpec"
  | .DynamicBytes => "DynamicBytesTypeSpec" | .String => "StringTypeSpec"
  | .Transaction => "TransactionTypeSpec" | .Payment => "PaymentTransactionTypeSpec"
  | .KeyRegister => "KeyRegisterTransactionTypeSpec" | .AssetConfig => "AssetConfigTransactionTypeSpec"
  | .AssetFreeze => "AssetFreezeTransactionTypeSpec" | .AssetTransfer => "AssetTransferTransactionTypeSpec"
  | .ApplicationCall => "ApplicationCallTransactionTypeSpec" | .Reference => "ReferenceTypeSpec"
  | .Account => "AccountTypeSpec" | .Asset => "AssetTypeSpec" | .Application => "ApplicationTypeSpec"

/-- the (single) TypeSpec base class of each class -/
def Cls.parent : Cls → Option Cls
  | .TypeSpec => none
  | .Bool | .Uint | .Tuple | .Array | .Transaction | .Reference => some .TypeSpec
  | .Byte | .Uint8 | .Uint16 | .Uint32 | .Uint64 => some .Uint
  | .NamedTuple => some .Tuple
  | .StaticArray | .DynamicArray => some .Array
  | .StaticBytes | .Address => some .StaticArray
  | .DynamicBytes | .String => some .DynamicArray
  | .Payment | .KeyRegister | .AssetConfig | .AssetFreeze | .AssetTransfer | .ApplicationCall =>
    some .Transaction
  | .Account | .Asset | .Application => some .Reference

def Cls.isSubN : Nat → Cls → Cls → _root_.Bool
  | 0, c, d => c == d
  | n+1, c, d => c == d || (match c.parent with
    | some p => Cls.isSubN n p d
    | none => false)

/-- `issubclass(c, d)` (the hierarchy is 4 levels deep) -/
def Cls.isSub (c d : Cls) : _root_.Bool := Cls.isSubN 4 c d

/-- `type(x)` -/
def clsOf : TS → Cls
  | .bool => .Bool
  | .uint .byte => .Byte
  | .uint .u8 => .Uint8
  | .uint .u16 => .Uint16
  | .uint .u32 => .Uint32
  | .uint .u64 => .Uint64
  | .address => .Address
  | .string => .String
  | .dynBytes => .DynamicBytes
  | .staticBytes _ => .StaticBytes
  | .sarray _ _ => .StaticArray
  | .darray _ => .DynamicArray
  | .tuple _ => .Tuple
  | .named _ _ => .NamedTuple
  | .txn .any => .Transaction
  | .txn .pay => .Payment
  | .txn .keyreg => .KeyRegister
  | .txn .acfg => .AssetConfig
  | .txn .axfer => .AssetTransfer
  | .txn .afrz => .AssetFreeze
  | .txn .appl => .ApplicationCall
  | .ref .account => .Account
  | .ref .asset => .Asset
  | .ref .application => .Application

/-- `isinstance(x, C)` -/
def isinstance (x : TS) (c : Cls) : Bool := (clsOf x).isSub c

/-! ## Accessor methods (`none` = the object has no such method) -/

/-- `UintTypeSpec.size` / `bit_size()` -/
def UKind.bits : UKind → Nat
  | .byte => 8 | .u8 => 8 | .u16 => 16 | .u32 => 32 | .u64 => 64

def bitSize? : TS → Option Nat
  | .uint k => some k.bits
  | _ => none

/-- `ArrayTypeSpec.value_type_spec()`; Address / String / DynamicBytes / StaticBytes pass
    `ByteTypeSpec()` to the base-class constructor -/
def valueSpec? : TS → Option TS
  | .address | .string | .dynBytes | .staticBytes _ => some (.uint .byte)
  | .sarray e _ | .darray e => some e
  | _ => none

/-- `TupleTypeSpec.value_type_specs()` -/
def valueSpecs? : TS → Option (List TS)
  | .tuple ts | .named _ ts => some ts
  | _ => none

/-- `StaticArrayTypeSpec.length_static()` (AddressLength.Bytes = 32) -/
def arrayLength? : TS → Option Nat
  | .address => some 32
  | .staticBytes n | .sarray _ n => some n
  | _ => none

def instanceClass? : TS → Option Nat
  | .named c _ => some c
  | _ => none

/-! ## `__str__` -/

def TxnKind.str : TxnKind → String
  | .any => "txn" | .pay => "pay" | .keyreg => "keyreg" | .acfg => "acfg"
  | .axfer => "axfer" | .afrz => "afrz" | .appl => "appl"

def RefKind.str : RefKind → String
  | .account => "account" | .asset => "asset" | .application => "application"

mutual
  /-- `str(x)` as a list of characters -/
  def str : TS → List Char
    | .bool => "bool".toList
    | .uint .byte => "byte".toList
    | .uint k => "uint".toList ++ (Nat.repr k.bits).toList          -- UintTypeSpec.__str__
    | .address => "address".toList
    | .string => "string".toList
    | .dynBytes => "byte[]".toList
    | .staticBytes n => "byte".toList ++ '[' :: (Nat.repr n).toList ++ [']']  -- inherited from StaticArrayTypeSpec
    | .sarray e n => str e ++ '[' :: (Nat.repr n).toList ++ [']']
    | .darray e => str e ++ ['[', ']']
    | .tuple ts => '(' :: strList ts ++ [')']
    | .named _ ts => '(' :: strList ts ++ [')']                      -- inherited from TupleTypeSpec
    | .txn k => k.str.toList
    | .ref k => k.str.toList
  /-- `",".join(map(str, ts))` -/
  def strList : List TS → List Char
    | [] => []
    | [t] => str t
    | t :: ts => str t ++ ',' :: strList ts
end

/-! ## A size measure (termination only) -/

mutual
  def TS.size : TS → Nat
    | .address | .string | .dynBytes | .staticBytes _ => 2
    | .sarray e _ | .darray e => e.size + 1
    | .tuple ts | .named _ ts => sizeList ts + 1
    | _ => 1
  def sizeList : List TS → Nat
    | [] => 0
    | t :: ts => t.size + sizeList ts
end

theorem size_lt_of_mem {x : TS} {ts : List TS} (h : x ∈ ts) : x.size ≤ sizeList ts := by
  induction ts with
  | nil => cases h
  | cons t ts ih =>
    simp only [sizeList]
    rcases List.mem_cons.1 h with rfl | h'
    · omega
    · have := ih h'; omega

theorem valueSpec_size {a e : TS} (h : valueSpec? a = some e) : e.size < a.size := by
  cases a <;> simp [valueSpec?] at h <;> subst h <;> simp [TS.size]

theorem valueSpecs_size {a x : TS} {ts : List TS} (h : valueSpecs? a = some ts) (hx : x ∈ ts) :
    x.size < a.size := by
  cases a <;> simp [valueSpecs?] at h <;> subst h <;> simp only [TS.size] <;>
    have := size_lt_of_mem hx <;> omega

/-! ## `==` on TypeSpecs -/

mutual
  /-- `self.__eq__(other)`, the method found on `type(self)` -/
  def eqM (self other : TS) : Bool :=
    match self with
    | .bool => isinstance other .Bool                                 -- BoolTypeSpec.__eq__
    | .uint k =>                                                      -- UintTypeSpec.__eq__
      clsOf (.uint k) == clsOf other && some k.bits == bitSize? other
    | .address => isinstance other .Address                           -- AddressTypeSpec.__eq__
    | .string => isinstance other .String                             -- StringTypeSpec.__eq__
    | .dynBytes => isinstance other .DynamicBytes                     -- DynamicBytesTypeSpec.__eq__
    | .staticBytes n =>                                               -- StaticArrayTypeSpec.__eq__ (inherited)
      isinstance other .StaticArray &&
        (match h : valueSpec? other with
         | some y => pyEq (.uint .byte) y
         | none => false) &&
        some n == arrayLength? other
    | .sarray e n =>                                                  -- StaticArrayTypeSpec.__eq__
      isinstance other .StaticArray &&
        (match h : valueSpec? other with
         | some y => pyEq e y
         | none => false) &&
        some n == arrayLength? other
    | .darray e =>                                                    -- DynamicArrayTypeSpec.__eq__
      isinstance other .DynamicArray &&
        (match h : valueSpec? other with
         | some y => pyEq e y
         | none => false)
    | .tuple ts =>                                                    -- TupleTypeSpec.__eq__
      isinstance other .Tuple &&
        (match h : valueSpecs? other with
         | some us =>
           -- list equality: same length and pairwise `==`
           ts.length == us.length &&
             (ts.attach.zip us.attach).all (fun p => pyEq p.1.1 p.2.1)
         | none => false)
    | .named c ts =>                                                  -- NamedTupleTypeSpec.__eq__
      isinstance other .NamedTuple && some c == instanceClass? other &&
        (match h : valueSpecs? other with
         | some us =>
           ts.length == us.length &&
             (ts.attach.zip us.attach).all (fun p => pyEq p.1.1 p.2.1)
         | none => false)
    | .txn k => clsOf (.txn k) == clsOf other                         -- TransactionTypeSpec.__eq__
    | .ref .account => isinstance other .Account
    | .ref .asset => isinstance other .Asset
    | .ref .application => isinstance other .Application
  termination_by 2 * (self.size + other.size)
  decreasing_by
    all_goals simp_wf
    all_goals first
      | (have := valueSpec_size h; simp [TS.size]; omega)
      | (have h1 := valueSpecs_size (a := .tuple ts) rfl p.1.2
         have h2 := valueSpecs_size h p.2.2
         simp [TS.size] at h1 ⊢; omega)
      | (have h1 := valueSpecs_size (a := .named c ts) rfl p.1.2
         have h2 := valueSpecs_size h p.2.2
         simp [TS.size] at h1 ⊢; omega)
  /-- Python's `x == y` for two TypeSpecs: when `type(y)` is a proper subclass of `type(x)`
      the reflected method `y.__eq__(x)` is tried first, and since no `__eq__` here ever
      returns `NotImplemented` its answer is final. -/
  def pyEq (x y : TS) : Bool :=
    if clsOf x != clsOf y && (clsOf y).isSub (clsOf x) then eqM y x else eqM x y
  termination_by 2 * (x.size + y.size) + 1
  decreasing_by
    all_goals simp_wf
    all_goals omega
end

/-! ## `type_spec_is_assignable_to` -/

/-- util.py:503 `type_spec_is_assignable_to(a, b)` -/
def assignable (a b : TS) : Bool :=
  -- match a, b:
  --   case NamedTupleTypeSpec(), NamedTupleTypeSpec(): return a == b
  if isinstance a .NamedTuple && isinstance b .NamedTuple then pyEq a b
  --   case TupleTypeSpec(), TupleTypeSpec():
  else if isinstance a .Tuple && isinstance b .Tuple then
    match ha : valueSpecs? a, valueSpecs? b with
    | some as, some bs =>
      if as.length != bs.length then false                            -- length_static() differ
      else (as.attach.zip bs).all (fun p => assignable p.1.1 p.2)    -- all(map(..., zip(...)))
    | _, _ => false                                                   -- (unreachable)
  --   case ArrayTypeSpec(), ArrayTypeSpec():
  else if isinstance a .Array && isinstance b .Array then
    match ha : valueSpec? a, valueSpec? b with
    | some ea, some eb =>
      if !assignable ea eb then false
      else
        -- match a, b:
        if isinstance a .Address && isinstance b .StaticArray then
          arrayLength? a == arrayLength? b
        else if isinstance a .StaticArray && isinstance b .Address then false
        else if isinstance a .StaticArray && isinstance b .StaticArray then
          arrayLength? a == arrayLength? b
        else if isinstance a .String && isinstance b .DynamicArray then true
        else if isinstance a .DynamicArray && isinstance b .String then false
        else if isinstance a .DynamicArray && isinstance b .DynamicArray then true
        else false
    | _, _ => false                                                   -- (unreachable)
  --   case UintTypeSpec(), UintTypeSpec(): return a.size == b.size
  else if isinstance a .Uint && isinstance b .Uint then bitSize? a == bitSize? b
  -- if isinstance(a, type(b)): return True
  else if isinstance a (clsOf b) then true
  -- elif str(a) == str(b): return True
  else if str a == str b then true
  else false
termination_by a.size
decreasing_by
  · exact valueSpecs_size ha p.1.2
  · exact valueSpec_size ha

/-! ## Reading the model as ARC-4 -/

mutual
  /-- the ARC-4 type a spec stands for (the type `str(x)` names); `none` for transaction and
      reference specs, which are not ARC-4 data types, and for anything containing one -/
  def toTy : TS → Option Ty
    | .bool => some .bool
    | .uint .byte => some .byte
    | .uint k => some (.uint k.bits)
    | .address => some .address
    | .string => some .string
    | .dynBytes => some (.darray .byte)
    | .staticBytes n => some (.sarray .byte n)
    | .sarray e n => (toTy e).map (.sarray · n)
    | .darray e => (toTy e).map .darray
    | .tuple ts => (toTys ts).map .tuple
    | .named _ ts => (toTys ts).map .tuple
    | .txn _ => none
    | .ref _ => none
  def toTys : List TS → Option (List Ty)
    | [] => some []
    | t :: ts =>
      match toTy t, toTys ts with
      | some x, some xs => some (x :: xs)
      | _, _ => none
end

/-- normalised ARC-4 layout: aliases (`byte`, `address`, `string`) and field names erased -/
def erase (x : TS) : Option Ty := (toTy x).map Ty.norm

end PyTealV.Models.Assignable
