/-
  C09 — how a routed ABI method receives its arguments and returns its result
  (pyteal/ast/router.py `ASTBuilder.__decode_constructions_and_args`, `wrap_handler`,
  `__de_abify_subroutine_vanilla` / `__de_abify_subroutine_frame_pointers`,
  `Router.add_method_handler` / `contract_construct`; pyteal/ast/abi/method_return.py;
  pyteal/ast/abi/reference_type.py; pyteal/config.py).

  Part A (SPEC, written from ARC-4 "Method invocation" / "Reference types" / "Transaction types" /
    "Return value", independent of PyTeal) — the CALLEE side of the convention (the caller side is
    `Models/MethodCall.lean` Part A):
      `specBinding`     where the value of parameter j is found in a call,
      `specTupleTypes`  the type of the tuple that carries the 15th, 16th, … argument,
      `specResolve`     what a reference index denotes,
      `evalBinding`     reading a binding in a concrete call (missing argument, missing
                        transaction, wrong transaction type, index outside the array = failure),
      `specEffects`     what a call of a method must leave behind (logs, approval).
  Part B (MODEL of the code that exists):
      `glue`            the decoding instructions `__decode_constructions_and_args` builds, in the
                        order it builds them, with the `METHOD_ARG_NUM_CUTOFF` handling,
      `frameLayout`     the frame cells of the frame-pointer flavour,
      `modelBinding`    the binding read off those instructions,
      `modelResolve`    `Account.address()` / `Application.application_id()` / `Asset.asset_id()`,
      `wrapSteps`       the statement sequence of `wrap_handler` (both flavours) and `MethodReturn`,
      `register` / `contractOf` / `dispatchedOf`  the bookkeeping of `add_method_handler`.

  An ABI value is represented by its encoding (what `.encode()` evaluates to); decoding one
  value out of a byte string and extracting a tuple component are properties C07/C06.
  SHA-512/256 is uninterpreted: selectors are opaque tokens `sel : String → σ`.
-/
import PyTealV.Util
import PyTealV.Arc4
namespace PyTealV.Models.RouterArgs
open PyTealV PyTealV.Arc4

/-! ## Signatures -/

inductive TxnTy | any | pay | keyreg | acfg | axfer | afrz | appl
  deriving DecidableEq, Repr, Inhabited

/-- the `TypeEnum` a specific transaction type demands (`txn` accepts every type) -/
def TxnTy.code : TxnTy → Option Nat
  | .any => none | .pay => some 1 | .keyreg => some 2 | .acfg => some 3
  | .axfer => some 4 | .afrz => some 5 | .appl => some 6

inductive RefKind | account | application | asset
  deriving DecidableEq, Repr, Inhabited

/-- the kind of one declared parameter -/
inductive PKind
  | plain (ty : Ty)
  | ref (r : RefKind)
  | txn (t : TxnTy)
  deriving DecidableEq, Repr, Inhabited

abbrev Sig := List PKind

def PKind.isTxn : PKind → Bool | .txn _ => true | _ => false
def PKind.isArg (k : PKind) : Bool := !k.isTxn

/-- the type under which a non-transaction parameter travels: ARC-4 "reference types are
    encoded as uint8" -/
def PKind.wireTy : PKind → Ty
  | .plain t => t
  | .ref _ => .uint 8
  | .txn _ => .tuple []

/-! ## Part A — the callee side of ARC-4 (spec) -/

/-- ARC-4: "if a method has more than 15 arguments, the 15th and all following are encoded as a
    tuple in the 15th argument slot" (application argument 0 is the selector) -/
def maxArgs : Nat := 15

/-- ARC-4 "Return value": the first four bytes of SHA-512/256("return") -/
def returnPrefix : Bytes := [0x15, 0x1f, 0x7c, 0x75]

/-- where the value of a parameter is found -/
inductive Binding
  | appArg (i : Nat)                                -- application argument i, whole
  | tupleElem (i : Nat) (k : Nat)                   -- component k of the tuple in application argument i
  | groupTxn (back : Nat) (enforce : Option TxnTy)  -- the transaction `back` places before the call
  deriving DecidableEq, Repr, Inhabited

/-- number of non-transaction parameters among `l` -/
def nArgs (l : Sig) : Nat := l.countP PKind.isArg
def nTxns (l : Sig) : Nat := l.countP PKind.isTxn

/-- SPEC.  Parameter `j` of a method with signature `sig`.
    * a transaction parameter, the `i`-th of `k` (counting from 0): the transaction `k − i`
      places before the application call ("transaction arguments are the transactions
      immediately preceding the call, in the order of the signature"), of the declared type;
    * any other parameter, the `p`-th non-transaction parameter: application argument `p + 1`,
      unless there are more than 15 of them and `p ≥ 14`: then component `p − 14` of the tuple
      in application argument 15. -/
def specBinding (sig : Sig) (j : Nat) : Option Binding :=
  match sig[j]? with
  | none => none
  | some (.txn t) =>
    some (.groupTxn (nTxns sig - nTxns (sig.take j)) (if t = .any then none else some t))
  | some _ =>
    let p := nArgs (sig.take j)
    if nArgs sig ≤ maxArgs ∨ p < maxArgs - 1 then some (.appArg (p + 1))
    else some (.tupleElem maxArgs (p - (maxArgs - 1)))

/-- the component types of the tuple in application argument 15 -/
def specTupleTypes (sig : Sig) : List Ty :=
  ((sig.filter PKind.isArg).drop (maxArgs - 1)).map PKind.wireTy

/-- one application call as the callee sees it -/
structure Call where
  groupTypes : List Nat := []   -- `TypeEnum` of every transaction of the group, in group order
  gi : Nat := 0                 -- position of the application call in the group
  appArgs : List Bytes := []    -- its ApplicationArgs (0 = selector)
  sender : Bytes := []
  accounts : List Bytes := []   -- foreign accounts
  appId : Nat := 0              -- the application being called
  apps : List Nat := []         -- foreign applications
  assets : List Nat := []       -- foreign assets
  deriving Repr, DecidableEq

/-- what a parameter is bound to -/
inductive Bound
  | value (enc : Bytes)          -- the ABI value with this encoding
  | account (addr : Bytes)
  | application (id : Nat)
  | asset (id : Nat)
  | txn (groupIndex : Nat)
  deriving Repr, DecidableEq, Inhabited

/-- SPEC.  ARC-4 "Reference types": account 0 is the sender, application 0 the application
    being called, i > 0 the (i−1)-th foreign account / application; assets index the foreign
    assets directly. -/
def specResolve (c : Call) : RefKind → Nat → Option Bound
  | .account, 0 => some (.account c.sender)
  | .account, i+1 => (c.accounts[i]?).map .account
  | .application, 0 => some (.application c.appId)
  | .application, i+1 => (c.apps[i]?).map .application
  | .asset, i => (c.assets[i]?).map .asset

/-- the stand-alone encoding of a tuple component (a bool travels as one bit) -/
def pieceBytes : Piece → Bytes
  | .bit b => [if b then 0x80 else 0x00]
  | .bytes bs => bs

/-- bytes found for a parameter of kind `k` → what it is bound to; `res` resolves references -/
def boundOf (res : RefKind → Nat → Option Bound) (k : PKind) (bs : Bytes) : Option Bound :=
  match k with
  | .plain _ => some (.value bs)
  | .ref r =>
    match decode (.uint 8) bs with
    | some (.uint n) => res r n
    | _ => none
  | .txn _ => none

/-- reading a binding in a call; `none` = the call fails -/
def evalBinding (res : RefKind → Nat → Option Bound) (tupleTys : List Ty) (c : Call) (k : PKind) :
    Binding → Option Bound
  | .appArg i => (c.appArgs[i]?).bind (boundOf res k)
  | .tupleElem i idx =>
    (c.appArgs[i]?).bind fun bs =>
    (split (kinds tupleTys) bs).bind fun ps =>
    (ps[idx]?).bind fun p => boundOf res k (pieceBytes p)
  | .groupTxn back enforce =>
    if back ≤ c.gi then
      match c.groupTypes[c.gi - back]? with
      | none => none
      | some ty =>
        match enforce with
        | none => some (.txn (c.gi - back))
        | some e => if e.code = some ty then some (.txn (c.gi - back)) else none
    else none

/-- all-or-nothing evaluation of every parameter -/
def runWith (bind : Nat → Option Binding) (res : RefKind → Nat → Option Bound) (tys : List Ty)
    (sig : Sig) (c : Call) : Option (List Bound) :=
  (List.range sig.length).mapM fun j =>
    (sig[j]?).bind fun k => (bind j).bind (evalBinding res tys c k)

/-- SPEC.  The values the parameters of `sig` must be bound to in call `c`
    (`none`: the call must fail). -/
def specRun (sig : Sig) (c : Call) : Option (List Bound) :=
  runWith (specBinding sig) (specResolve c) (specTupleTypes sig) sig c

/-- what a program run leaves behind -/
inductive Outcome
  | approved (logs : List Bytes)
  | failed
  deriving Repr, DecidableEq, Inhabited

/-- SPEC.  ARC-4 "Return value": a method whose arguments could be bound runs its body (which
    logs `bodyLogs` and, unless void, yields the value with encoding `r`), then logs
    `151f7c75 ‖ r` — as the last log — and approves. -/
def specEffects (argsOk : Bool) (bodyLogs : List Bytes) (result : Option Bytes) : Outcome :=
  if argsOk then
    match result with
    | none => .approved bodyLogs
    | some r => .approved (bodyLogs ++ [returnPrefix ++ r])
  else .failed

/-! ## Part B — the generated glue (model of the code) -/

/-- pyteal/config.py `METHOD_ARG_NUM_CUTOFF` -/
def METHOD_ARG_NUM_CUTOFF : Nat := 15

/-- pyteal/config.py `RETURN_HASH_PREFIX` (= algosdk `ABI_RETURN_HASH`) -/
def RETURN_HASH_PREFIX : Bytes := [0x15, 0x1f, 0x7c, 0x75]

/-- an element of `arg_vals`: the instance created for parameter `idx` (Python object identity
    is the position in `arg_vals`) -/
structure Inst where
  kind : PKind
  idx : Nat
  deriving DecidableEq, Repr, Inhabited

/-- what a decoding instruction stores into -/
inductive Target
  | param (j : Nat)              -- `arg_vals[j]`
  | tupled (tys : List Ty)       -- `app_args_tupled = abi.TupleTypeSpec(*last_arg_specs_grouped).new_instance()`
  deriving DecidableEq, Repr, Inhabited

/-- the expressions of `decode_instructions` -/
inductive Instr
  | decodeArg (t : Target) (i : Nat)      -- `app_arg.decode(Txn.application_args[i])`
  | setTxnIndex (j : Nat) (back : Nat)    -- `arg_val._set_index(Txn.group_index() - Int(back))`
  | assertType (j : Nat) (t : TxnTy)      -- `Assert(arg_val.get().type_enum() == spec.txn_type_enum())`
  | detuple (idx : Nat) (j : Nat)         -- `tupled_arg[idx].store_into(arg_val)`
  deriving DecidableEq, Repr, Inhabited

/-- `__subroutine_argument_instance_generate`: `arg_vals`, `app_arg_vals`, `txn_arg_vals` -/
def argVals (sig : Sig) : List Inst := sig.zipIdx.map (fun p => ⟨p.1, p.2⟩)
def appArgVals (sig : Sig) : List Inst := (argVals sig).filter (fun a => a.kind.isArg)   -- `not isinstance(ats, abi.Transaction)`
def txnArgVals (sig : Sig) : List Inst := (argVals sig).filter (fun a => a.kind.isTxn)

/-- `tuplify = len(app_arg_vals) > METHOD_ARG_NUM_CUTOFF` -/
def tuplify (sig : Sig) : Bool := decide ((appArgVals sig).length > METHOD_ARG_NUM_CUTOFF)

/-- `tupled_app_args = app_arg_vals[METHOD_ARG_NUM_CUTOFF - 1:]` (empty unless `tuplify`) -/
def tupledAppArgs (sig : Sig) : List Inst :=
  if tuplify sig then (appArgVals sig).drop (METHOD_ARG_NUM_CUTOFF - 1) else []

/-- `last_arg_specs_grouped` -/
def modelTupleTypes (sig : Sig) : List Ty := (tupledAppArgs sig).map (fun a => a.kind.wireTy)

/-- `app_arg_vals` after `app_arg_vals = app_arg_vals[:CUTOFF-1]; app_arg_vals.append(app_args_tupled)` -/
def decodeTargets (sig : Sig) : List Target :=
  if tuplify sig then
    ((appArgVals sig).take (METHOD_ARG_NUM_CUTOFF - 1)).map (fun a => Target.param a.idx)
      ++ [Target.tupled (modelTupleTypes sig)]
  else (appArgVals sig).map (fun a => Target.param a.idx)

/-- `[app_arg.decode(Txn.application_args[idx + 1]) for idx, app_arg in enumerate(app_arg_vals)]` -/
def decodeInstrs (sig : Sig) : List Instr :=
  (decodeTargets sig).zipIdx.map (fun p => Instr.decodeArg p.1 (p.2 + 1))

/-- the `for idx, arg_val in enumerate(txn_arg_vals)` loop -/
def txnInstrs (sig : Sig) : List Instr :=
  let txn_arg_len := (txnArgVals sig).length
  (txnArgVals sig).zipIdx.flatMap fun p =>
    Instr.setTxnIndex p.1.idx (txn_arg_len - p.2) ::
      (match p.1.kind with
       | .txn .any => []                                  -- `type(spec) is abi.TransactionTypeSpec`
       | .txn t => [Instr.assertType p.1.idx t]
       | _ => [])

/-- `[tupled_arg[idx].store_into(arg_val) for idx, arg_val in enumerate(tupled_app_args)]` -/
def detupleInstrs (sig : Sig) : List Instr :=
  (tupledAppArgs sig).zipIdx.map (fun p => Instr.detuple p.2 p.1.idx)

/-- MODEL.  `decode_instructions` as returned by `__decode_constructions_and_args` -/
def glue (sig : Sig) : List Instr :=
  decodeInstrs sig
    ++ (if (txnArgVals sig).length > 0 then txnInstrs sig else [])
    ++ (if tuplify sig then detupleInstrs sig else [])

/-- the frame cells of the frame-pointer flavour (`use_frame_pt=True`):
    `local_types = [output]? ++ [arg_vals…] ++ [tuple]?`, parameter `i` in cell
    `i + index_start_from`, the tuple in the last cell, the output in cell 0 -/
structure FrameLayout where
  numLocals : Nat
  paramCell : Nat → Nat
  tupleCell : Option Nat
  outputCell : Option Nat

def frameLayout (sig : Sig) (hasOutput : Bool) : FrameLayout :=
  let index_start_from := if hasOutput then 1 else 0
  let n := (if hasOutput then 1 else 0) + sig.length + (if tuplify sig then 1 else 0)
  { numLocals := n
    paramCell := fun i => i + index_start_from
    tupleCell := if tuplify sig then some (n - 1) else none
    outputCell := if hasOutput then some 0 else none }

/-- the source an instruction gives to parameter `j`, if it stores into it -/
inductive Write
  | arg (i : Nat) | grp (back : Nat) | tup (idx : Nat)
  deriving DecidableEq, Repr

def writeOf (j : Nat) : Instr → Option Write
  | .decodeArg (.param j') i => if j' = j then some (.arg i) else none
  | .setTxnIndex j' back => if j' = j then some (.grp back) else none
  | .detuple idx j' => if j' = j then some (.tup idx) else none
  | _ => none

def assertOf (j : Nat) : Instr → Option TxnTy
  | .assertType j' t => if j' = j then some t else none
  | _ => none

/-- the application argument the tuple is decoded from -/
def tupleArgOf : Instr → Option Nat
  | .decodeArg (.tupled _) i => some i
  | _ => none

/-- MODEL.  The binding the generated instructions give to parameter `j` -/
def modelBinding (sig : Sig) (j : Nat) : Option Binding :=
  let is := glue sig
  match is.findSome? (writeOf j) with
  | some (.arg i) => some (.appArg i)
  | some (.grp back) => some (.groupTxn back (is.findSome? (assertOf j)))
  | some (.tup idx) => (is.findSome? tupleArgOf).map (fun i => .tupleElem i idx)
  | none => none

/-- MODEL.  pyteal/ast/abi/reference_type.py: `Account.address() = Txn.accounts[index]`,
    `Application.application_id() = Txn.applications[index]`, `Asset.asset_id() =
    Txn.assets[index]`; the AVM arrays `Accounts` / `Applications` start with the sender / the
    current application, `Assets` does not. -/
def modelResolve (c : Call) : RefKind → Nat → Option Bound
  | .account, i => ((c.sender :: c.accounts)[i]?).map .account
  | .application, i => ((c.appId :: c.apps)[i]?).map .application
  | .asset, i => (c.assets[i]?).map .asset

/-- MODEL.  What the decoding instructions bind in call `c` (`none`: some instruction fails) -/
def modelRun (sig : Sig) (c : Call) : Option (List Bound) :=
  runWith (modelBinding sig) (modelResolve c) (modelTupleTypes sig) sig c

/-! ### `wrap_handler` and `MethodReturn` -/

/-- one statement of the wrapped handler -/
inductive Step
  | decode                       -- `*decode_instructions`
  | call                         -- `handler(*arg_vals)`, void
  | callStore                    -- `handler(*arg_vals).store_into(output_temp)`
  | log (pre : Bytes)            -- `Log(Concat(Bytes(pre), output_temp.encode()))`
  | approve                      -- `Approve()`
  | caster (body : List Step)    -- `subroutine_caster(declaration)()` (proto 0 0)
  deriving Repr, Inhabited

/-- `MethodReturn(arg).__teal__`: `Log(Concat(Bytes(RETURN_HASH_PREFIX), arg.encode()))` -/
def methodReturn : Step := .log RETURN_HASH_PREFIX

/-- `__de_abify_subroutine_vanilla` -/
def wrapVanilla (void : Bool) : List Step :=
  if void then [.decode, .call, .approve] else [.decode, .callStore, methodReturn, .approve]

/-- `__de_abify_subroutine_frame_pointers` -/
def wrapFramePointers (void : Bool) : List Step :=
  let decoding_steps := [Step.decode]
  let returning_steps := if void then [Step.call] else [Step.callStore, methodReturn]
  [.caster (decoding_steps ++ returning_steps), .approve]

def wrapSteps (framePointers void : Bool) : List Step :=
  if framePointers then wrapFramePointers void else wrapVanilla void

/-- machine state while the wrapped handler runs -/
structure RunSt where
  logs : List Bytes := []
  output : Option Bytes := none      -- `output_temp`
  halted : Option Bool := none       -- `some true`: approved; `some false`: failed
  deriving Repr, DecidableEq

/-- the handler is opaque: it emits `bodyLogs` and (non-void) returns the encoding `result` -/
structure Body where
  argsOk : Bool
  logs : List Bytes
  result : Option Bytes

mutual
  def execStep (b : Body) (s : RunSt) : Step → RunSt
    | .decode => if b.argsOk then s else { s with halted := some false }
    | .call => { s with logs := s.logs ++ b.logs }
    | .callStore => { s with logs := s.logs ++ b.logs, output := b.result }
    | .log pre =>
      match s.output with
      | some r => { s with logs := s.logs ++ [pre ++ r] }
      | none => { s with halted := some false }     -- load of a variable never stored
    | .approve => { s with halted := some true }
    | .caster body => execSteps b s body
  def execSteps (b : Body) (s : RunSt) : List Step → RunSt
    | [] => s
    | st :: rest =>
      match s.halted with
      | some _ => s
      | none => execSteps b (execStep b s st) rest
end

/-- MODEL.  Outcome of the wrapped handler -/
def wrapOutcome (framePointers : Bool) (b : Body) : Outcome :=
  let s := execSteps b {} (wrapSteps framePointers b.result.isNone)
  match s.halted with
  | some true => .approved s.logs
  | _ => .failed

/-! ### registration and the contract -/

/-- one call of `add_method_handler(method_call, overriding_name)` -/
structure Reg where
  fnName : String                 -- `method_call.name()`
  overriding : Option String      -- `overriding_name`
  args : List String              -- `str(type_spec)` of the parameters, in order
  ret : String                    -- `str(type_of())` ("void" or a type)
  deriving Repr, DecidableEq, Inhabited

def sigText (name : String) (args : List String) (ret : String) : String :=
  name ++ "(" ++ ",".intercalate args ++ ")" ++ ret

/-- `ABIReturnSubroutine.method_signature(overriding_name)` -/
def Reg.methodSignature (r : Reg) : String :=
  sigText (r.overriding.getD r.fnName) r.args r.ret

/-- an entry of the contract (`algosdk.abi.Method`: name, argument types, return type) -/
structure MethodSpec where
  name : String
  args : List String
  ret : String
  deriving Repr, DecidableEq, Inhabited

/-- `algosdk.abi.Method.get_signature()` -/
def MethodSpec.signature (m : MethodSpec) : String := sigText m.name m.args m.ret

/-- `ABIReturnSubroutine.method_spec()`: `{"name": self.name(), …}` (the subroutine's own name) -/
def Reg.methodSpec (r : Reg) : MethodSpec := ⟨r.fnName, r.args, r.ret⟩

/-- `meth = method_call.method_spec(); if overriding_name is not None: meth.name = overriding_name`
    (`add_method_handler` since commit caa13a5) -/
def Reg.registeredSpec (r : Reg) : MethodSpec :=
  match r.overriding with
  | some n => { r.methodSpec with name := n }
  | none => r.methodSpec

structure RouterSt (σ : Type) where
  methods : List MethodSpec := []        -- `Router.methods`
  sigs : List String := []               -- keys of `method_sig_to_selector`, = `methods_with_conds` signatures
  sels : List σ := []                    -- keys of `method_selector_to_sig`

inductive RegErr | duplicate | collision
  deriving DecidableEq, Repr

/-- `Router.add_method_handler` (the MethodConfig part is property C08); `specOf` = the entry
    appended to `Router.methods` -/
def registerWith {σ} [DecidableEq σ] (specOf : Reg → MethodSpec) (sel : String → σ) (st : RouterSt σ)
    (r : Reg) : Except RegErr (RouterSt σ) :=
  let method_signature := r.methodSignature
  let method_selector := sel method_signature
  if method_signature ∈ st.sigs then .error .duplicate
  else if method_selector ∈ st.sels then .error .collision
  else .ok { methods := st.methods ++ [specOf r]
             sigs := st.sigs ++ [method_signature]
             sels := st.sels ++ [method_selector] }

def registerAllWith {σ} [DecidableEq σ] (specOf : Reg → MethodSpec) (sel : String → σ) :
    RouterSt σ → List Reg → Except RegErr (RouterSt σ)
  | st, [] => .ok st
  | st, r :: rs =>
    match registerWith specOf sel st r with
    | .ok st' => registerAllWith specOf sel st' rs
    | .error e => .error e

/-- MODEL.  The code as it is: the contract entry carries the overriding name -/
def register {σ} [DecidableEq σ] (sel : String → σ) (st : RouterSt σ) (r : Reg) :
    Except RegErr (RouterSt σ) := registerWith Reg.registeredSpec sel st r

def registerAll {σ} [DecidableEq σ] (sel : String → σ) (st : RouterSt σ) (rs : List Reg) :
    Except RegErr (RouterSt σ) := registerAllWith Reg.registeredSpec sel st rs

/-- the code before commit caa13a5 (`self.methods.append(method_call.method_spec())` unchanged):
    kept as a regression witness only -/
def registerAllOld {σ} [DecidableEq σ] (sel : String → σ) (st : RouterSt σ) (rs : List Reg) :
    Except RegErr (RouterSt σ) := registerAllWith Reg.methodSpec sel st rs

/-- `Router.contract_construct().methods` -/
def contractOf {σ} (st : RouterSt σ) : List MethodSpec := st.methods

/-- the selectors the approval program compares `Txn.application_args[0]` with
    (`MethodSignature(method_signature)` in `CondWithMethod.to_cond_node`) -/
def dispatchedOf {σ} (sel : String → σ) (st : RouterSt σ) : List σ := st.sigs.map sel

end PyTealV.Models.RouterArgs
