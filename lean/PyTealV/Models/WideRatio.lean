/-
  Model of `pyteal/ast/widemath.py`: the op sequence `WideRatio.__teal__` emits
  (`multiplyFactors` twice, then the `divmodw` tail) and an executable semantics for it that
  delegates every real opcode to the shared `Avm.execPrim`.

  Each factor is an opaque expression: its code is represented by the pseudo item
  `fac isDen i` ("whatever the i-th numerator / denominator factor compiles to"), whose only
  assumed behaviour is that it leaves the factor's uint64 value on top of the stack.
-/
import PyTealV.Avm.Sem
import PyTealV.Src
namespace PyTealV.Models.WideRatio
open PyTealV PyTealV.Avm

/-- one element of the emitted sequence -/
inductive Item
  | fac (isDen : Bool) (i : Nat)             -- code of numerator (`false`) / denominator (`true`) factor i
  | int (n : Nat)                            -- `int n`
  | op (name : String) (imms : List String)  -- a real TEAL opcode, spelled as in TEAL
  deriving Repr, BEq, DecidableEq, Inhabited

/-- rendering used on the wire and by `wideRatioOps` -/
def Item.render : Item → String × List String
  | .fac false i => ("push", [s!"N{i}"])
  | .fac true i => ("push", [s!"D{i}"])
  | .int n => ("int", [toString n])
  | .op o is => (o, is)

/-- widemath.py:50-69 — the 8 ops folding one more factor C into the 128-bit pair (A, B) -/
def mulStep : List Item :=
  [ .op "uncover" ["2"],  -- [..., B, C, A]
    .op "dig" ["1"],      -- [..., B, C, A, C]
    .op "*" [],           -- [..., B, C, A*C]
    .op "cover" ["2"],    -- [..., A*C, B, C]
    .op "mulw" [],        -- [..., A*C, hi(B*C), lo(B*C)]
    .op "cover" ["2"],    -- [..., lo(B*C), A*C, hi(B*C)]
    .op "+" [],           -- [..., lo(B*C), A*C+hi(B*C)]
    .op "swap" [] ]       -- [..., A*C+hi(B*C), lo(B*C)]

/-- widemath.py:12-74 `multiplyFactors`; the argument is the code of each factor -/
def multiplyFactors : List (List Item) → Except String (List Item)
  | [] => .error "TealInternalError: Received 0 factors"
  | [f0] => .ok (.int 0 :: f0)
  | f0 :: f1 :: rest => .ok (f0 ++ f1 ++ [.op "mulw" []] ++ rest.flatMap (fun f => f ++ mulStep))

/-- widemath.py:127-137 -/
def combine : List Item :=
  [ .op "divmodw" [], .op "pop" [], .op "pop" [], .op "swap" [], .op "!" [], .op "assert" [] ]

/-- `Op.cover.min_version` -/
def minVersion : Nat := 5

def facCodes (isDen : Bool) (k : Nat) : List (List Item) := (List.range k).map (fun i => [Item.fac isDen i])

/-- body of `WideRatio.__teal__` after the version check (n numerators, m denominators) -/
def wideRatioBody (n m : Nat) : Except String (List Item) := do
  let a ← multiplyFactors (facCodes false n)
  let b ← multiplyFactors (facCodes true m)
  pure (a ++ b ++ combine)

/-- constructor checks (widemath.py:103-110), then `__teal__` (114-140) -/
def wideRatio? (version n m : Nat) : Except String (List Item) :=
  if n = 0 ∨ m = 0 then .error "TealInternalError: At least 1 factor must be present in the numerator and denominator"
  else if n = 1 ∧ m = 1 then .error "TealInternalError: There is only a single factor in the numerator and denominator. Use basic division instead."
  else if version < minVersion then .error "TealCompileError: WideRatio requires program version 5 or higher"
  else wideRatioBody n m

/-- The exact sequence of TEAL ops (name, immediates) emitted for n numerators and m denominators
    (factor codes shown as `push N<i>` / `push D<i>`); `[]` when the real code raises. -/
def wideRatioOps (n m : Nat) : List (String × List String) :=
  match wideRatio? minVersion n m with
  | .ok items => items.map Item.render
  | .error _ => []

/-! ### Execution on top of `Avm.execPrim` -/

/-- one item on (stack, world); `ns`/`ds` are the values the factor expressions evaluate to -/
def stepItem (cx : Ctx) (ns ds : List Nat) (it : Item) (w : World) (st : List Val) : Except Fail (List Val × World) :=
  match it with
  | .fac isDen i =>
    match (if isDen then ds else ns)[i]? with
    | some v => .ok (.u v :: st, w)
    | none => .error (.illegal "factor index out of range")
  | .int n => .ok (.u n :: st, w)
  | .op o is => execPrim cx o is w st

def runItems (cx : Ctx) (ns ds : List Nat) : List Item → World → List Val → Except Fail (List Val × World)
  | [], w, st => .ok (st, w)
  | it :: rest, w, st =>
    match stepItem cx ns ds it w st with
    | .ok (st', w') => runItems cx ns ds rest w' st'
    | .error e => .error e

/-- whole model: compile for |ns|, |ds| and run on an initial stack (head = top) -/
def run (cx : Ctx) (version : Nat) (ns ds : List Nat) (w : World) (st : List Val) :
    Except String (Except Fail (List Val × World)) :=
  (wideRatio? version ns.length ds.length).map (fun items => runItems cx ns ds items w st)

/-! ### Specification -/

/-- plain product of a list -/
def prodL : List Nat → Nat
  | [] => 1
  | x :: xs => x * prodL xs

/-- "every running product, taken left to right, fits in 128 bits" -/
def RunningFit (xs : List Nat) : Prop := ∀ k, 1 ≤ k → k ≤ xs.length → prodL (xs.take k) < 2 ^ 128

/-- The value / failure WideRatio must produce, in terms of the source semantics' `Src.wideProd`
    (same case split as the `.wideRatio` clause of `Src.eval`; failures carry the message of
    the AVM opcode that raises them). -/
def spec (ns ds : List Nat) : Except Fail Nat :=
  match Src.wideProd ns, Src.wideProd ds with
  | some pn, some pd =>
    if pd = 0 then .error (.logic "divmodw by zero")
    else if pn / pd < two64 then .ok (pn / pd)
    else .error (.logic "assert failed")
  | _, _ => .error (.logic "uint64 overflow")

end PyTealV.Models.WideRatio
