/-
  C07 — model of the INDEX COMPUTATION performed by the code PyTeal emits for
  `decode()` + element access (pyteal/ast/abi/tuple.py `_index_tuple`, array_base.py
  `ArrayElement.store_into`, array_dynamic.py `length`, bool.py `Bool.decode/decode_bit`,
  uint.py `uint_decode`, util.py `substring_for_decoding`, string.py/address.py `get`).

  This is NOT a model of the expression tree (C01 covers the compiler); it is the function
  "encoded bytes ↦ what lands in the output variable (or failure)" that the emitted code
  denotes, built exactly along the Python control flow:

    * PyTeal's own descriptors `is_dynamic`, `byte_length_static`,
      `_bool_aware_static_byte_length`, `_consecutive_bool_type_spec_num`, `_stride`;
    * `_index_tuple`: the offset walk with its four state variables
      (`offset`, `ignoreNext`, `lastBoolStart`, `lastBoolLength`), the bit offset of a bool
      member, the next-dynamic-head search, and the choice among the `decode(...)` call shapes;
    * `ArrayElement.store_into`: bit index for bool elements, `stride * index (+2)`, head-slot
      reads for dynamic elements with the `index + 1 == length` test;
    * `output.decode(...)` per output class (`Bool.decode`, `uint_decode` by width,
      `substring_for_decoding` for everything stored as bytes);
    * `length()`, `get()`.

  The byte-level primitives are the AVM's own (`Avm.sliceB`, `Avm.getBitB`, `beToNat`, `mkU`),
  so every range / overflow check below is exactly a check some opcode performs; there are
  no other checks.  In particular the emitted code does NOT
    - compare an array index with the array length (static or dynamic),
    - check that a head offset points into the tail, or that a decoded slice has the length
      its type requires,
    - mask the padding bits of a packed bool sequence.
  What fails: `extract3/substring3/extract_uintN` outside the string (`sliceB`), `getbit` /
  `getbyte` beyond the last byte, `*`/`+` overflowing 2^64, `btoi` of more than 8 bytes.

  Build-time Python exceptions are `Except String`; run-time failure of the emitted code is
  `Avm.M` (`Except Avm.Fail`).
-/
import PyTealV.Arc4
import PyTealV.Avm.Sem
namespace PyTealV.Models.AbiDecode
open PyTealV PyTealV.Arc4 PyTealV.Avm PyTealV.Util

/-! ## 1. PyTeal's type descriptors -/

def isBool : Ty → Bool
  | .bool => true
  | _ => false

mutual
  /-- `TypeSpec.is_dynamic()` (address = StaticArray of Byte, string = DynamicArray of Byte) -/
  def isDyn : Ty → Bool
    | .bool => false
    | .byte => false
    | .uint _ => false
    | .address => false
    | .string => true
    | .sarray e _ => isDyn e
    | .darray _ => true
    | .tuple ts => anyDyn ts
  def anyDyn : List Ty → Bool
    | [] => false
    | t :: ts => isDyn t || anyDyn ts
end

/-- `_bool_sequence_length` -/
def boolSeqLen (n : Nat) : Nat := (n + 8 - 1) / 8

/-- `_consecutive_bool_type_spec_num(types, i)` where the argument is `types[i:]` -/
def consecBools : List Ty → Nat
  | .bool :: ts => consecBools ts + 1
  | _ => 0

def dynErr : String := "ValueError: Type is dynamic"

mutual
  /-- `TypeSpec.byte_length_static()` -/
  def byteLen : Ty → Except String Nat
    | .bool => .ok 1
    | .byte => .ok 1
    | .uint bits => .ok (bits / 8)
    | .address => .ok (32 * 1)
    | .string => .error dynErr
    | .darray _ => .error dynErr
    | .sarray e n =>
      if isDyn e then .error dynErr
      else if isBool e then .ok (boolSeqLen n)
      else (byteLen e).map (n * ·)
    | .tuple ts => if anyDyn ts then .error dynErr else boolAwareLen ts 0
  /-- `_bool_aware_static_byte_length(types)`; the second argument is the loop variable
      `ignoreNext` -/
  def boolAwareLen : List Ty → Nat → Except String Nat
    | [], _ => .ok 0
    | _ :: ts, ig+1 => boolAwareLen ts ig
    | t :: ts, 0 =>
      if isBool t then
        (boolAwareLen ts (consecBools (t :: ts) - 1)).map (boolSeqLen (consecBools (t :: ts)) + ·)
      else
        match byteLen t, boolAwareLen ts 0 with
        | .ok l, .ok r => .ok (l + r)
        | .error e, _ => .error e
        | _, .error e => .error e
end

/-- `ArrayTypeSpec._stride()` -/
def stride (e : Ty) : Except String Nat :=
  if isDyn e then .ok 2 else byteLen e

/-- The three observations `_index_tuple` makes of a member type:
    `== BoolTypeSpec()`, `.is_dynamic()`, `.byte_length_static()` (only asked of static types).
    Reuses the constructor names of `Arc4.Kind`. -/
def obs (t : Ty) : Except String Kind :=
  if isBool t then .ok .bit
  else if isDyn t then .ok .dyn
  else (byteLen t).map .stat

def obsList : List Ty → Except String (List Kind)
  | [] => .ok []
  | t :: ts =>
    match obs t, obsList ts with
    | .ok k, .ok ks => .ok (k :: ks)
    | .error e, _ => .error e
    | _, .error e => .error e

/-- `UintTypeSpec` exists for 8/16/32/64 only -/
def uintSupported (bits : Nat) : Bool := bits == 8 || bits == 16 || bits == 32 || bits == 64

mutual
  def supported : Ty → Bool
    | .uint bits => uintSupported bits
    | .sarray e _ => supported e
    | .darray e => supported e
    | .tuple ts => supportedList ts
    | _ => true
  def supportedList : List Ty → Bool
    | [] => true
    | t :: ts => supported t && supportedList ts
end

/-! ## 2. `_index_tuple` -/

/-- `_consecutive_bool_type_spec_num` on observations -/
def consecBits : List Kind → Nat
  | .bit :: ks => consecBits ks + 1
  | _ => 0

/-- the loop variables of the offset walk -/
structure WalkSt where
  offset : Nat := 0
  ignoreNext : Nat := 0
  lastBoolStart : Nat := 0
  lastBoolLength : Nat := 0
  deriving Repr, DecidableEq

/-- `for i, typeBefore in enumerate(value_types[:index])`: `walk value_types[i:] (index - i) st` -/
def walk : List Kind → Nat → WalkSt → WalkSt
  | _, 0, st => st
  | [], _+1, st => st
  | k :: rest, n+1, st =>
    if st.ignoreNext > 0 then walk rest n { st with ignoreNext := st.ignoreNext - 1 }
    else
      match k with
      | .bit =>
        let c := consecBits (k :: rest)
        walk rest n { offset := st.offset + boolSeqLen c, ignoreNext := c - 1,
                      lastBoolStart := st.offset, lastBoolLength := c }
      | .dyn => walk rest n { st with offset := st.offset + 2 }
      | .stat l => walk rest n { st with offset := st.offset + l }

/-- the search for the head position of the next dynamic member:
    `nextDyn value_types[i:] ignoreNext nextDynamicValueOffset = (hasNextDynamicValue, nextDynamicValueOffset)` -/
def nextDyn : List Kind → Nat → Nat → Bool × Nat
  | [], _, p => (false, p)
  | _ :: ks, ig+1, p => nextDyn ks ig p
  | .bit :: ks, 0, p =>
    let c := consecBits (.bit :: ks)
    nextDyn ks (c - 1) (p + boolSeqLen c)
  | .dyn :: _, 0, p => (true, p)
  | .stat n :: ks, 0, p => nextDyn ks 0 (p + n)

/-- an index expression handed to `decode`: `Int(n)` or `ExtractUint16(encoded, Int(pos))` -/
inductive Idx where
  | lit (n : Nat)
  | u16 (pos : Nat)
  deriving Repr, DecidableEq

/-- what `_index_tuple` returns -/
inductive Plan where
  | bit (bitIndex : Nat)                         -- `output.decode_bit(encoded, Int(bitIndex))`
  | dec (start stop len : Option Idx)            -- `output.decode(encoded, start_index=…, end_index=…, length=…)`
  deriving Repr, DecidableEq

def kindIsDyn : Kind → Bool
  | .dyn => true
  | _ => false

/-- `all(not x.is_dynamic() for x in value_types)` -/
def allStatic (ks : List Kind) : Bool := ks.all (fun k => !kindIsDyn k)

def indexTuple (ks : List Kind) (index : Nat) : Except String Plan :=
  match ks[index]? with
  | none => .error "ValueError: Index outside of range"
  | some k =>
    let st := walk ks index {}
    match k with
    | .bit =>
      if st.ignoreNext > 0 then
        -- value is in the middle of a bool sequence
        let bitOffsetInBoolSeq := st.lastBoolLength - st.ignoreNext
        .ok (.bit (st.lastBoolStart * 8 + bitOffsetInBoolSeq))
      else .ok (.bit (st.offset * 8))
    | .dyn =>
      let (hasNext, nextOffset) := nextDyn (ks.drop (index + 1)) 0 (st.offset + 2)
      if !hasNext then .ok (.dec (some (.u16 st.offset)) none none)
      else .ok (.dec (some (.u16 st.offset)) (some (.u16 nextOffset)) none)
    | .stat n =>
      if index + 1 = ks.length ∧ st.offset = 0 then .ok (.dec none none none)
      else if index + 1 = ks.length ∧ allStatic ks then .ok (.dec (some (.lit st.offset)) none none)
      else if st.offset = 0 then .ok (.dec none none (some (.lit n)))
      else .ok (.dec (some (.lit st.offset)) none (some (.lit n)))

/-! ## 3. AVM primitives used by the emitted code -/

def opGetBit (bs : Bytes) (i : Nat) : M Val := (getBitB bs i).map .u

def opGetByte (bs : Bytes) (i : Nat) : M Val :=
  match bs[i]? with
  | some v => .ok (.u v.toNat)
  | none => .error (.logic "getbyte index out of range")

/-- `extract_uint16/32/64` (k = 2/4/8) -/
def opExtractUint (k : Nat) (bs : Bytes) (s : Nat) : M Val :=
  (sliceB bs s (s + k)).map (fun r => .u (beToNat r))

def opBtoi (bs : Bytes) : M Val :=
  if bs.length ≤ 8 then .ok (.u (beToNat bs)) else .error (.logic "btoi arg too long")

def opMul (a b : Nat) : M Nat :=
  if a * b < two64 then .ok (a * b) else .error (.logic "uint64 overflow")

def opAdd (a b : Nat) : M Nat :=
  if a + b < two64 then .ok (a + b) else .error (.logic "uint64 overflow")

def u16At (bs : Bytes) (p : Nat) : M Nat := (sliceB bs p (p + 2)).map beToNat

def evalIdx (bs : Bytes) : Idx → M Nat
  | .lit n => .ok n
  | .u16 p => u16At bs p

def evalIdxO (bs : Bytes) : Option Idx → M (Option Nat)
  | none => .ok none
  | some i => (evalIdx bs i).map some

/-! ## 4. `substring_for_decoding` and `decode` -/

/-- the expression `substring_for_decoding` builds -/
inductive Slice where
  | whole                      -- `encoded`
  | extract (s l : Nat)        -- `Extract(encoded, s, l)`
  | substring (s e : Nat)      -- `Substring(encoded, s, e)`
  | suffix (s : Nat)           -- `Suffix(encoded, s)`
  deriving Repr, DecidableEq

def substringForDecoding (start stop len : Option Nat) : Except String Slice :=
  if len.isSome && stop.isSome then
    .error "TealInputError: length and end_index are mutually exclusive arguments"
  else
    match start, len, stop with
    | some s, some l, _ => .ok (.extract s l)
    | some s, none, some e => .ok (.substring s e)
    | some s, none, none => .ok (.suffix s)
    | none, some l, _ => .ok (.extract 0 l)
    | none, none, some e => .ok (.substring 0 e)
    | none, none, none => .ok .whole

/-- semantics of the three slicing expressions (every opcode choice of substring.py denotes
    this: `Proofs.C07.substring_choice_equiv`) -/
def evalSlice (bs : Bytes) : Slice → M Bytes
  | .whole => .ok bs
  | .extract s l => sliceB bs s (s + l)
  | .substring s e => sliceB bs s e
  | .suffix s => sliceB bs s bs.length

/-- denotation of emitted code: encoded bytes ↦ stored value or failure -/
abbrev Code := Bytes → M Val

/-- build-time outcome of `output.decode(encoded, start_index=…, end_index=…, length=…)` for an
    output of type `out`; it depends only on which keyword arguments are given -/
def decodeCheck (out : Ty) (_hasStart hasStop hasLen : Bool) : Except String Unit :=
  match out with
  | .bool => .ok ()          -- Bool.decode ignores end_index / length
  | .byte => .ok ()
  | .uint bits =>
    if bits > 64 then .error "NotImplementedError: Uint operations have not yet been implemented for bit sizes larger than 64"
    else if uintSupported bits then .ok ()
    else .error "ValueError: Unsupported uint size"
  | _ =>
    if hasLen && hasStop then .error "TealInputError: length and end_index are mutually exclusive arguments"
    else .ok ()

/-- run-time behaviour of `output.decode(encoded, …)` (arguments already evaluated; `none` =
    argument not given) -/
def decodeRun (out : Ty) (bs : Bytes) (start stop len : Option Nat) : M Val :=
  match out with
  | .bool =>
    -- Bool.decode: `decode_bit(encoded, start_index * Int(8))`, start_index defaults to Int(0)
    match opMul (start.getD 0) 8 with
    | .ok bi => opGetBit bs bi
    | .error f => .error f
  | .byte => opGetByte bs (start.getD 0)
  | .uint bits =>
    -- uint_decode: end_index and length are ignored
    if bits = 64 then
      if start.isNone && stop.isNone && len.isNone then opBtoi bs
      else opExtractUint 8 bs (start.getD 0)
    else if bits = 8 then opGetByte bs (start.getD 0)
    else if bits = 16 then opExtractUint 2 bs (start.getD 0)
    else if bits = 32 then opExtractUint 4 bs (start.getD 0)
    else .error (.illegal "unreachable: unsupported uint size is a build-time error")
  | _ =>
    -- Tuple.decode / Array.decode (also String, Address): store the substring
    match substringForDecoding start stop len with
    | .ok sl => (evalSlice bs sl).map .b
    | .error _ => .error (.illegal "unreachable: build-time error")

/-- `output.decode(encoded, …)` with index expressions: the indices are evaluated by the program -/
def decodeInto (out : Ty) (start stop len : Option Idx) : Except String Code :=
  match decodeCheck out start.isSome stop.isSome len.isSome with
  | .error e => .error e
  | .ok () =>
    .ok (fun bs =>
      match evalIdxO bs start, evalIdxO bs stop, evalIdxO bs len with
      | .ok s, .ok e, .ok l => decodeRun out bs s e l
      | .error f, _, _ => .error f
      | _, .error f, _ => .error f
      | _, _, .error f => .error f)

def runPlan (out : Ty) : Plan → Except String Code
  | .bit i => .ok (fun bs => opGetBit bs i)
  | .dec s e l => decodeInto out s e l

/-- `TupleElement(tuple, index).store_into(output)` with `output` of the member's type:
    `_index_tuple(value_types, tuple.encode(), index, output)` -/
def tupleElem (ts : List Ty) (index : Nat) : Except String Code :=
  match obsList ts with
  | .error e => .error e
  | .ok ks =>
    match indexTuple ks index, ts[index]? with
    | .ok plan, some t => runPlan t plan
    | .error e, _ => .error e
    | _, none => .error "ValueError: Index outside of range"

/-! ## 5. arrays -/

/-- element type and static length (`none` = length-dynamic) of the four array-like types -/
def arrayOf : Ty → Option (Ty × Option Nat)
  | .sarray e n => some (e, some n)
  | .darray e => some (e, none)
  | .address => some (.byte, some 32)
  | .string => some (.byte, none)
  | _ => none

/-- `Array.length()`: `Int(n)` for static arrays, `Uint16().decode(encoded); .get()` for dynamic -/
def arrayLength (n : Option Nat) (bs : Bytes) : M Nat :=
  match n with
  | some n => .ok n
  | none =>
    match opExtractUint 2 bs 0 with
    | .ok (.u v) => .ok v
    | .ok (.b _) => .error (.typeErr "expected uint64")
    | .error f => .error f

/-- `ArrayElement(array, index).store_into(output)`; `idx` is the run-time value of the index
    expression (a uint64).  `e` element type, `n` static length or `none`. -/
def arrayElemCode (e : Ty) (n : Option Nat) : Except String (Bytes → Nat → M Val) :=
  let lengthDynamic := n.isNone
  if isBool e then
    -- `arrayType.is_dynamic()` (not is_length_dynamic) decides the +16; for bool elements they agree
    let arrDynamic := match n with | some _ => isDyn e | none => true
    .ok (fun bs idx =>
      match (if arrDynamic then opAdd idx 16 else .ok idx) with
      | .ok bi => opGetBit bs bi
      | .error f => .error f)
  else
    match stride e with
    | .error err => .error err
    | .ok sd =>
      if isDyn e then
        match decodeCheck e true true false with
        | .error err => .error err
        | .ok () =>
          .ok (fun bs idx => do
            let byteIndex0 ← opMul sd idx
            let byteIndex ← if lengthDynamic then opAdd byteIndex0 2 else pure byteIndex0
            let valueStart0 ← u16At bs byteIndex
            let valueStart ← if lengthDynamic then opAdd valueStart0 2 else pure valueStart0
            let idx1 ← opAdd idx 1
            let arrayLen ← arrayLength n bs
            let valueEnd ←
              if idx1 = arrayLen then pure bs.length
              else do
                let p ← opAdd byteIndex 2
                let nextValueStart ← u16At bs p
                if lengthDynamic then opAdd nextValueStart 2 else pure nextValueStart
            decodeRun e bs (some valueStart) (some valueEnd) none)
      else
        match decodeCheck e true false true with
        | .error err => .error err
        | .ok () =>
          .ok (fun bs idx => do
            let byteIndex0 ← opMul sd idx
            let byteIndex ← if lengthDynamic then opAdd byteIndex0 2 else pure byteIndex0
            decodeRun e bs (some byteIndex) none (some sd))

/-- `array[index]` with a run-time index expression -/
def arrayElem (arr : Ty) : Except String (Bytes → Nat → M Val) :=
  match arrayOf arr with
  | some (e, n) => arrayElemCode e n
  | none => .error "TypeError: not an array"

/-- `array[i]` with a Python int: `StaticArray.__getitem__` rejects `i >= length` at build time;
    dynamic arrays cannot -/
def arrayElemConst (arr : Ty) (i : Nat) : Except String Code :=
  match arrayOf arr with
  | some (e, n) =>
    match n with
    | some n' =>
      if i ≥ n' then .error "TealInputError: Index out of bounds"
      else (arrayElemCode e n).map (fun f bs => f bs i)
    | none => (arrayElemCode e n).map (fun f bs => f bs i)
  | none => .error "TypeError: not an array"

/-- `.length()` of arrays and tuples -/
def lengthCode (t : Ty) : Except String (Bytes → M Nat) :=
  match t with
  | .tuple ts => .ok (fun _ => .ok ts.length)
  | _ =>
    match arrayOf t with
    | some (_, n) => .ok (arrayLength n)
    | none => .error "AttributeError: no length()"

/-! ## 6. `get()`, `encode()` of a reached value, top-level `decode`, paths -/

/-- top level `v.decode(bytes)` -/
def decodeTop (t : Ty) : Except String Code := decodeInto t none none none

/-- `get()`: String/DynamicBytes drop the length prefix (`Suffix(stored, Int(2))`);
    Address/StaticBytes/Uint/Bool return the stored value -/
def getCode (t : Ty) (v : Val) : Except String (M Val) :=
  match t, v with
  | .string, .b bs => .ok ((sliceB bs 2 bs.length).map .b)
  | .darray .byte, .b bs => .ok ((sliceB bs 2 bs.length).map .b)
  | .address, .b bs => .ok (.ok (.b bs))
  | .sarray .byte _, .b bs => .ok (.ok (.b bs))
  | .bool, .u n => .ok (.ok (.u n))
  | .byte, .u n => .ok (.ok (.u n))
  | .uint _, .u n => .ok (.ok (.u n))
  | _, _ => .error "AttributeError: no get()"

/-- `encode()` of a stored value (uint_encode / Bool.encode on values already in range) -/
def encodeStored (t : Ty) (v : Val) : Option Bytes :=
  match t, v with
  | .bool, .u n => some [if n = 0 then 0x00 else 0x80]
  | .byte, .u n => some (natToBE 1 n)
  | .uint bits, .u n => some (natToBE (bits / 8) n)
  | _, .b bs => some bs
  | _, _ => none

inductive Step where
  | tup (i : Nat)         -- `tuple[i]` / named-tuple field i
  | arrC (i : Nat)        -- `array[i]`, Python int
  | arrE (i : Nat)        -- `array[expr]`, expr evaluates to i at run time
  deriving Repr, DecidableEq

/-- type reached by a step (build-time) -/
def stepTy : Ty → Step → Option Ty
  | .tuple ts, .tup i => ts[i]?
  | t, .arrC _ => (arrayOf t).map (·.1)
  | t, .arrE _ => (arrayOf t).map (·.1)
  | _, _ => none

def stepCode (t : Ty) (s : Step) : Except String Code :=
  match t, s with
  | .tuple ts, .tup i => tupleElem ts i
  | _, .tup _ => .error "TypeError: not a tuple"
  | t, .arrC i => arrayElemConst t i
  | t, .arrE i => (arrayElem t).map (fun f bs => f bs i)

/-- the code of a whole path starting at a value of type `t`: the reached type and the
    function "stored value ↦ reached stored value"; all build-time errors come first -/
def pathCode : Ty → List Step → Except String (Ty × (Val → M Val))
  | t, [] => .ok (t, fun v => .ok v)
  | t, s :: rest =>
    match stepCode t s, stepTy t s with
    | .ok code, some t' =>
      match pathCode t' rest with
      | .ok (tf, k) =>
        .ok (tf, fun v =>
          match v with
          | .b bs =>
            match code bs with
            | .ok v' => k v'
            | .error f => .error f
          | .u _ => .error (.typeErr "expected bytes"))
      | .error e => .error e
    | .error e, _ => .error e
    | _, none => .error "TypeError: step does not apply"

/-- decode `bs` as a `t`, then follow `path` -/
def decodePath (t : Ty) (path : List Step) : Except String (Ty × Code) :=
  match decodeTop t, pathCode t path with
  | .ok code, .ok (tf, k) =>
    .ok (tf, fun bs =>
      match code bs with
      | .ok v => k v
      | .error f => .error f)
  | .error e, _ => .error e
  | _, .error e => .error e

end PyTealV.Models.AbiDecode
