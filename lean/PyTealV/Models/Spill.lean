/-
  Model of the recursion spill / restore rewriting of PyTeal
  (`pyteal/compiler/subroutines.py`: `graph_search`, `findRecursionPoints`,
  `spillLocalSlotsDuringRecursion`).

  `spillBefore` / `spillAfter` are the op lists the Python code puts in `before` / `after`
  around one `callsub` statement that may re-enter the calling routine:

    slots               = sorted(localSlots[caller])          (non-empty, else nothing is emitted)
    numArgs             = callee.argument_count()
    coverAvailable      = version >= 5
    calleeReturnsValue  = callee.return_type != none or callee.has_abi_output

  The model mirrors the statement order of the Python loops one to one (flags `digArgs`,
  `coverSpilledSlots`, `uncoverArgs`, `stackDistance`, the `swap` special cases, the
  `hideReturnValueInFirstSlot` trick, iteration orders).
-/
import PyTealV.Avm.Syntax
namespace PyTealV.Models.Spill
open PyTealV.Avm

/-- an op with one numeric immediate, as the TEAL text carries it -/
def opN (name : String) (n : Nat) : Instr := .prim name [toString n]
def swapI : Instr := .prim "swap" []
def popI : Instr := .prim "pop" []

/-- `before`: ops inserted in front of the re-entrant `callsub`. -/
def spillBefore (slots : List Nat) (numArgs : Nat) (coverAvailable : Bool) : List Instr :=
  -- `if len(reentryPoints) == 0 or len(slots) == 0: continue`
  if slots.isEmpty then [] else
  -- digArgs = True; coverSpilledSlots = False; uncoverArgs = False
  -- if coverAvailable: digArgs = False; if len(slots) < numArgs: cover… else: uncover…
  let digArgs := !coverAvailable
  let coverSpilledSlots := coverAvailable && decide (slots.length < numArgs)
  let uncoverArgs := coverAvailable && !decide (slots.length < numArgs)
  -- for slot in slots: load slot; if coverSpilledSlots: cover numArgs
  let loads : List Instr := slots.flatMap (fun slot =>
    Instr.load slot :: (if coverSpilledSlots then [opN "cover" numArgs] else []))
  -- for _ in range(numArgs): stackDistance = len(slots) + numArgs - 1; …
  let stackDistance := slots.length + numArgs - 1
  let perArg : List Instr :=
    (if uncoverArgs then
      [if stackDistance == 1 then swapI else opN "uncover" stackDistance]
     else []) ++
    (if digArgs then [opN "dig" stackDistance] else [])
  loads ++ (List.replicate numArgs perArg).flatten

/-- `after`: ops inserted behind the re-entrant `callsub`. -/
def spillAfter (slots : List Nat) (numArgs : Nat) (calleeReturnsValue : Bool)
    (coverAvailable : Bool) : List Instr :=
  match slots with
  | [] => []                                  -- `continue`: nothing is emitted
  | slot0 :: _ =>
    let digArgs := !coverAvailable
    -- if calleeReturnsValue: if len(slots) == 1: swap elif coverAvailable: cover len(slots)
    --                         else: hideReturnValueInFirstSlot = True; store slots[0]
    let hide := calleeReturnsValue && !(slots.length == 1) && !coverAvailable
    let keep : List Instr :=
      if calleeReturnsValue then
        if slots.length == 1 then [swapI]
        else if coverAvailable then [opN "cover" slots.length]
        else [Instr.store slot0]
      else []
    -- for slot in slots[::-1]: if hide and slot is slots[0]: load slot; swap
    --                          store slot
    let restore : List Instr := slots.reverse.flatMap (fun slot =>
      (if hide && slot == slot0 then [Instr.load slot, swapI] else []) ++ [Instr.store slot])
    -- if digArgs: for _ in range(numArgs): if calleeReturnsValue: swap
    --                                      pop
    let pops : List Instr :=
      if digArgs then
        (List.replicate numArgs ((if calleeReturnsValue then [swapI] else []) ++ [popI])).flatten
      else []
    keep ++ restore ++ pops

/-! ### Recursion points (`graph_search`, `findRecursionPoints`)

  The call graph is a finite map given as adjacency lists `(node, callees)`; a node that is
  not a key raises `KeyError` in Python (`graph[current]`) — modelled as `none`.  Python iterates
  `set`s in an unspecified order; the answer does not depend on it when every callee is a key
  (`Proofs.C02RecPoints.graphSearch_true_iff`: the answer is reachability), which PyTeal's
  `subroutineGraph` always satisfies.  (With a missing key, whether `KeyError` or `True` comes
  first can depend on that order; the model then follows the list order.) -/

abbrev CallGraph := List (Nat × List Nat)

def succs (g : CallGraph) (n : Nat) : Option (List Nat) := (g.find? (·.1 == n)).map (·.2)

/-- the `while len(stack) != 0` loop of `graph_search`, with explicit fuel;
    result `none` = fuel exhausted or `KeyError`.  Python pops from the END of the list, so
    the work list is kept reversed (head = last element). -/
def searchLoop (g : CallGraph) (end_ : Nat) : Nat → List Nat → List Nat → Option Bool
  | _, _, [] => some false
  | 0, _, _ :: _ => none
  | fuel + 1, visited, current :: stack =>
    if visited.contains current then searchLoop g end_ fuel visited stack
    else if end_ == current then some true
    else match succs g current with
      | none => none
      | some ss => searchLoop g end_ fuel (current :: visited) (ss.reverse ++ stack)

/-- number of adjacency entries plus number of edges -/
def weight : CallGraph → Nat
  | [] => 0
  | p :: g => p.2.length + 1 + weight g

/-- enough fuel (`Proofs.C02RecPoints.graphSearch_total`): every iteration either discards a
    work-list entry or expands a fresh node, and at most (number of edges + out-degree of start)
    entries are ever pushed. -/
def searchFuel (g : CallGraph) : Nat := 2 * weight g + 2

def graphSearch (g : CallGraph) (start end_ : Nat) : Option Bool :=
  match succs g start with
  | none => none
  | some ss => searchLoop g end_ (searchFuel g) [] ss.reverse

/-- `findRecursionPoints`: for every key, the callees from which the key can be reached again
    (order of the adjacency list kept; Python yields a set).  `none`: some `graph_search` raised
    `KeyError`. -/
def recursionPoints (g : CallGraph) : Option (List (Nat × List Nat)) :=
  if g.all (fun p => p.2.all (fun callee => (graphSearch g callee p.1).isSome)) then
    some (g.map (fun p => (p.1, p.2.filter (fun callee => graphSearch g callee p.1 == some true))))
  else none

end PyTealV.Models.Spill
