/-
  Model of `pyteal/ir/teallabel.py: TealLabel.assemble` — the text of a label line, with the
  optional comment that `flatten.py: flattenSubroutines` attaches to every subroutine entry label
  (the subroutine's name, unescaped):

      comment = "\n// {}\n".format(self.comment) if self.comment is not None else ""
      return "{}{}:".format(comment, self.label.getLabel())

  and of the split of a text into lines.  Core Lean only.
-/
namespace PyTealV.Models.LabelText

def assemble (comment : Option String) (label : String) : String :=
  (match comment with
   | some c => "\n// " ++ c ++ "\n"
   | none => "") ++ label ++ ":"

/-- the same on character lists (what the theorems talk about) -/
def assembleChars (comment : Option (List Char)) (label : List Char) : List Char :=
  (match comment with
   | some c => ['\n', '/', '/', ' '] ++ c ++ ['\n']
   | none => []) ++ label ++ [':']

/-- split at every newline (the TEAL assembler reads line by line) -/
def splitLines : List Char → List (List Char)
  | [] => [[]]
  | c :: cs =>
    if c = '\n' then [] :: splitLines cs
    else match splitLines cs with
      | [] => [[c]]
      | l :: ls => (c :: l) :: ls

end PyTealV.Models.LabelText
