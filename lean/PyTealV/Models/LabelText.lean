/-
  Model of `pyteal/ir/teallabel.py: TealLabel.assemble` — the text of a label line, with the
  optional comment that `flatten.py: flattenSubroutines` attaches to every subroutine entry label
  (the subroutine's name, unescaped):

      comment = ""
      if self.comment is not None:
          lines = self.comment.splitlines() or [""]
          comment = "\n{}\n".format("\n".join("// {}".format(ln) for ln in lines))
      return "{}{}:".format(comment, self.label.getLabel())

  and of the split of a text into lines.  `str.splitlines()` is `Models.Annot.splitlines`
  (ten line boundaries, `\r\n` is one).  Core Lean and model files only.
-/
import PyTealV.Models.Annot
namespace PyTealV.Models.LabelText
open PyTealV.Models.Annot

def assemble (comment : Option String) (label : String) : String :=
  (match comment with
   | some c => "\n" ++ "\n".intercalate (headerCommentLines c) ++ "\n"
   | none => "") ++ label ++ ":"

/-! the same on character lists (what the theorems talk about) -/

/-- `comment.splitlines() or [""]` -/
def piecesChars (c : List Char) : List (List Char) :=
  match splitlinesChars c with
  | [] => [[]]
  | ps => ps

/-- `"// {}".format(ln)` for every piece -/
def commentLinesChars (c : List Char) : List (List Char) :=
  (piecesChars c).map (fun p => '/' :: '/' :: ' ' :: p)

/-- `"\n".join(ls)` -/
def joinNl : List (List Char) → List Char
  | [] => []
  | [a] => a
  | a :: b :: rest => a ++ '\n' :: joinNl (b :: rest)

def assembleChars (comment : Option (List Char)) (label : List Char) : List Char :=
  (match comment with
   | some c => '\n' :: joinNl (commentLinesChars c) ++ ['\n']
   | none => []) ++ label ++ [':']

/-- the text BEFORE the repair 90c7383 (`"\n// {}\n".format(self.comment)`: the raw comment after
    `// `); kept only for the regression example of `Proofs/C04.lean` -/
def assembleCharsOld (comment : Option (List Char)) (label : List Char) : List Char :=
  (match comment with
   | some c => ['\n', '/', '/', ' '] ++ c ++ ['\n']
   | none => []) ++ label ++ [':']

/-- split at every newline (the TEAL assembler reads line by line) -/
def splitLines : List Char → List (List Char)
  | [] => [[]]
  | c :: cs =>
    if c = '\n' then [] :: splitLines cs
    else match splitLines cs with
      | [] => [[c]]
      | l :: ls => (c :: l) :: ls

end PyTealV.Models.LabelText
