/-
  C13 — model of PyTeal's literal constructors (the code that exists, quirks included):

    pyteal/util.py      escapeStr, correctBase32Padding
    pyteal/types.py     valid_base16 / valid_base32 / valid_base64 / valid_address
    pyteal/ast/bytes.py Bytes.__init__ (literal-form selection) and Bytes.__teal__ (token text)
    pyteal/ast/int.py   Int.__init__ (range check), Int.__teal__
    pyteal/ast/addr.py  Addr
    pyteal/ast/methodsig.py MethodSignature

  A Python `str` argument is represented by its code points (`String` / `List Char`); the one
  place where PyTeal looks at the UTF-8 encoding (`escapeStr`) takes the encoded bytes.  Python
  exceptions are an explicit `Except` result (`TealInputError: …`).  Type errors of the
  constructors (`Bytes(3)`, `Int(True)`) are outside the model (checked by the harness only).

  Also here: the RFC 4648 reading of a base32/base64 text as a number (`rfcBase32`,
  `rfcBase64`), used as the *specification* of what a validated base32/base64 literal means.
-/
import PyTealV.Util
namespace PyTealV.Models.Literals
open PyTealV PyTealV.Util

/-! ### `escapeStr`  (util.py:36-65) -/

/-- CPython's `unicode_escape` encoder applied to one latin-1 code point (0..255):
    `\\`, `\t`, `\n`, `\r`; printable ASCII 0x20..0x7e verbatim; everything else `\xhh`
    with lower-case hex digits.  (The quote characters are *not* escaped by the codec.) -/
def unicodeEscapeByte (b : UInt8) : List Char :=
  if b = 92 then ['\\', '\\']
  else if b = 9 then ['\\', 't']
  else if b = 10 then ['\\', 'n']
  else if b = 13 then ['\\', 'r']
  else if 32 ≤ b ∧ b < 127 then [Char.ofNat b.toNat]
  else ['\\', 'x', hexDigit (b.toNat / 16), hexDigit (b.toNat % 16)]

/-- `s.encode("utf-8").decode("latin-1").encode("unicode-escape").decode("latin-1")`, as a
    function of the UTF-8 bytes of `s` (latin-1 decoding maps byte `b` to code point `b`). -/
def unicodeEscape (utf8 : Bytes) : List Char := utf8.flatMap unicodeEscapeByte

/-- `s.replace('"', '\\"')` -/
def replaceQuote (cs : List Char) : List Char :=
  cs.flatMap (fun c => if c = '"' then ['\\', '"'] else [c])

def escapeChars (utf8 : Bytes) : List Char := '"' :: (replaceQuote (unicodeEscape utf8) ++ ['"'])

/-- `escapeStr(s)` where `utf8 = s.encode("utf-8")` -/
def escapeStr (utf8 : Bytes) : String := String.ofList (escapeChars utf8)

/-! ### validators (types.py:51-103), the regular expressions as recognisers -/

def isHexChar (c : Char) : Bool :=
  ('0' ≤ c ∧ c ≤ '9') ∨ ('A' ≤ c ∧ c ≤ 'F') ∨ ('a' ≤ c ∧ c ≤ 'f')

def isB32Char (c : Char) : Bool := ('A' ≤ c ∧ c ≤ 'Z') ∨ ('2' ≤ c ∧ c ≤ '7')

def isB64Char (c : Char) : Bool :=
  ('A' ≤ c ∧ c ≤ 'Z') ∨ ('a' ≤ c ∧ c ≤ 'z') ∨ ('0' ≤ c ∧ c ≤ '9') ∨ c = '+' ∨ c = '/'

/-- `valid_base16`: even number of code points, `[0-9A-Fa-f]*` full match -/
def validBase16 (cs : List Char) : Bool := cs.length % 2 = 0 ∧ cs.all isHexChar

/-- the optional last group of `valid_base32`'s pattern:
    `X{2}(={6})? | X{4}(={4})? | X{5}(={3})? | X{7}(={1})?` with `X = [A-Z2-7]` -/
def b32Tail (cs : List Char) : Bool :=
  let body := cs.takeWhile isB32Char
  let pad := cs.dropWhile isB32Char
  let ok (n k : Nat) : Bool := body.length == n && (pad.isEmpty || pad == List.replicate k '=')
  ok 2 6 || ok 4 4 || ok 5 3 || ok 7 1

/-- `valid_base32`: `^(?:X{8})*(?:tail)?` full match.  Deterministic reading of the pattern: a
    leading run of 8 alphabet characters can only be an `X{8}` group (every tail alternative
    has fewer than 8 alphabet characters). -/
def validBase32 : List Char → Bool
  | c1 :: c2 :: c3 :: c4 :: c5 :: c6 :: c7 :: c8 :: rest =>
    if [c1, c2, c3, c4, c5, c6, c7, c8].all isB32Char then validBase32 rest
    else rest.isEmpty && b32Tail [c1, c2, c3, c4, c5, c6, c7, c8]
  | cs => cs.isEmpty || b32Tail cs

/-- `valid_base64`: `^(?:Y{4})*(?:Y{2}==|Y{3}=)?$` full match, `Y = [A-Za-z0-9+/]` -/
def validBase64 : List Char → Bool
  | [] => true
  | a :: b :: c :: d :: rest =>
    if isB64Char a && isB64Char b && isB64Char c && isB64Char d then validBase64 rest
    else rest.isEmpty && isB64Char a && isB64Char b &&
      ((c = '=' && d = '=') || (isB64Char c && d = '='))
  | _ => false

/-- `valid_address`: 58 code points and `valid_base32` (the checksum is **not** examined) -/
def validAddress (cs : List Char) : Bool := cs.length == 58 && validBase32 cs

/-! ### `Bytes`  (ast/bytes.py:48-94) -/

inductive BytesArg
  | str (utf8 : Bytes)            -- `Bytes(s)`, `s : str`, given by `s.encode("utf-8")`
  | raw (bs : Bytes)              -- `Bytes(b)`, `b : bytes | bytearray`
  | based (base text : String)    -- `Bytes(base, text)`
  deriving Repr

/-- the two attributes the constructor stores -/
structure BytesLit where
  base : String
  byteStr : String
  deriving Repr, BEq, DecidableEq

/-- `arg2[2:] if arg2.startswith("0x") else arg2` -/
def strip0x : List Char → List Char
  | '0' :: 'x' :: r => r
  | cs => cs

def mkBytes : BytesArg → Except String BytesLit
  | .str u => .ok ⟨"utf8", escapeStr u⟩
  | .raw b => .ok ⟨"base16", hex b⟩            -- `bytes.hex()`: two lower-case digits per byte
  | .based base text =>
    if base = "base32" then
      if validBase32 text.toList then .ok ⟨base, text⟩
      else .error "TealInputError: not a valid RFC 4648 base 32 string"
    else if base = "base64" then
      if validBase64 text.toList then .ok ⟨base, text⟩
      else .error "TealInputError: not a valid RFC 4648 base 64 string"
    else if base = "base16" then
      let t := strip0x text.toList
      if validBase16 t then .ok ⟨base, String.ofList t⟩
      else .error "TealInputError: not a valid RFC 4648 base 16 string"
    else .error "TealInputError: invalid base, need to be base32, base64, or base16."

/-- `Bytes.__teal__`: the single argument of the `byte` op -/
def bytesPayload (l : BytesLit) : String :=
  if l.base = "utf8" then l.byteStr
  else if l.base = "base16" then "0x" ++ l.byteStr
  else l.base ++ "(" ++ l.byteStr ++ ")"

/-- `TealOp.assemble`: op and arguments joined by one space -/
def bytesLine (l : BytesLit) : String := "byte " ++ bytesPayload l

/-! ### `Int`, `Addr`, `MethodSignature` -/

def mkInt (v : Int) : Except String Nat :=
  if 0 ≤ v ∧ v < 2 ^ 64 then .ok v.toNat else .error "TealInputError: Int out of range"

/-- `str(value)` of a non-negative Python int is its decimal representation -/
def intLine (n : Nat) : String := "int " ++ toString n

def mkAddr (s : String) : Except String String :=
  if validAddress s.toList then .ok s else .error "TealInputError: bad address"

def addrLine (a : String) : String := "addr " ++ a

/-- the characters `MethodSignature` refuses (`any(c in methodName for c in '"\\\n\r')`): the text is
    emitted verbatim between double quotes, where a quote would end the literal, a backslash would be read
    as an escape and a line break would split the instruction -/
def methodBadChar (c : Char) : Bool := c = '"' || c = '\\' || c = '\n' || c = '\r'

/-- `MethodSignature.__init__` for a `str` argument (methodsig.py:23-36) -/
def mkMethod (sig : String) : Except String String :=
  if sig.toList.isEmpty then .error "TealInputError: invalid input empty string to Method"
  else if sig.toList.any methodBadChar then
    .error "TealInputError: invalid method signature: quotes, backslashes and line breaks are not allowed"
  else .ok sig

/-- `'"{}"'.format(methodName)` — no escaping of any kind (none is needed for an accepted text) -/
def methodLine (sig : String) : String := "method \"" ++ sig ++ "\""

/-! ### `correctBase32Padding`  (util.py:77-93) -/

def correctBase32Padding (cs : List Char) : Except String (List Char) :=
  let content := cs.takeWhile (· ≠ '=')                  -- `s.split("=")[0]`
  let trailing := content.length % 8
  if trailing = 2 then .ok (content ++ List.replicate 6 '=')
  else if trailing = 4 then .ok (content ++ List.replicate 4 '=')
  else if trailing = 5 then .ok (content ++ List.replicate 3 '=')
  else if trailing = 7 then .ok (content ++ List.replicate 1 '=')
  else if trailing ≠ 0 then .error "TealInternalError: Invalid base32 content"
  else .ok content

/-! ### RFC 4648 as a specification

  A base-2^w text denotes the sequence of its symbol values read as one big-endian number of
  `w · n` bits; the decoded octets are the leading `⌊w·n / 8⌋` whole bytes of that number
  (RFC 4648 §4/§6: "24-bit / 40-bit groups", the incomplete last group contributing only its
  whole bytes).  `=` is padding and carries no value. -/

def concatBits (w : Nat) : List Nat → Nat
  | [] => 0
  | v :: vs => v * 2 ^ (w * vs.length) + concatBits w vs

def leadingBytes (w : Nat) (vs : List Nat) : Bytes :=
  let total := w * vs.length
  natToBE (total / 8) (concatBits w vs / 2 ^ (total % 8))

/-- meaning of a *well-formed* (validator-accepted) base64 text -/
def rfcBase64 (cs : List Char) : Option Bytes :=
  if validBase64 cs then ((cs.filter (· ≠ '=')).mapM (b64Val false)).map (leadingBytes 6) else none

def rfcBase32 (cs : List Char) : Option Bytes :=
  if validBase32 cs then ((cs.filter (· ≠ '=')).mapM b32Val).map (leadingBytes 5) else none

/-- meaning of a base16 text: pairs of hex digits, either case -/
def rfcBase16 (cs : List Char) : Option Bytes :=
  if validBase16 cs then unhexChars cs else none

/-- What the user means by the arguments of `Bytes(...)` (independent of how it is spelled
    in TEAL): the specification side of C13. -/
def BytesArg.denote : BytesArg → Option Bytes
  | .str u => some u
  | .raw b => some b
  | .based base text =>
    if base = "base32" then rfcBase32 text.toList
    else if base = "base64" then rfcBase64 text.toList
    else if base = "base16" then rfcBase16 (strip0x text.toList)
    else none

end PyTealV.Models.Literals
