/-
  Helper lemmas for Proofs/C03Opt: `TealBlock.Iterate` (the BFS never runs out of fuel and its
  result is closed under successors), what the pass does to a graph (`removeAccess` of a set of
  slots disjoint from the skip set), indexing lemmas.
-/
import PyTealV.Models.Optimizer
namespace PyTealV.Models.Optimizer
open PyTealV PyTealV.Avm PyTealV.Comp

/-! ### BFS -/

/-- number of elements of the universe `U` not yet visited -/
def unvisited (U vis : List Nat) : Nat := U.countP (fun x => decide (x ∉ vis))

theorem countP_le_of_imp (p q : Nat → Bool) (h : ∀ x, p x = true → q x = true) :
    ∀ l : List Nat, l.countP p ≤ l.countP q := by
  intro l
  induction l with
  | nil => simp
  | cons a l ih =>
    rw [List.countP_cons, List.countP_cons]
    cases hp : p a with
    | false => cases hq : q a <;> simp <;> omega
    | true => rw [h a hp]; simp; exact ih

theorem countP_lt_of_imp (p q : Nat → Bool) (h : ∀ x, p x = true → q x = true) (c : Nat)
    (hpc : p c = false) (hqc : q c = true) :
    ∀ l : List Nat, c ∈ l → l.countP p + 1 ≤ l.countP q := by
  intro l
  induction l with
  | nil => intro hc; cases hc
  | cons a l ih =>
    intro hc
    rw [List.countP_cons, List.countP_cons]
    have hle := countP_le_of_imp p q h l
    by_cases hac : a = c
    · subst hac; rw [hpc, hqc]; simp; omega
    · have hc' : c ∈ l := by
        cases hc with
        | head => exact absurd rfl hac
        | tail _ h => exact h
      have := ih hc'
      cases hp : p a with
      | false => cases hq : q a <;> simp <;> omega
      | true => rw [h a hp]; simp; omega

theorem unvisited_snoc_lt (U vis : List Nat) (c : Nat) (hc : c ∈ U) (hv : c ∉ vis) :
    unvisited U (vis ++ [c]) + 1 ≤ unvisited U vis := by
  unfold unvisited
  apply countP_lt_of_imp _ _ _ c _ _ U hc
  · intro x hx
    simp only [decide_eq_true_eq] at hx ⊢
    intro h; exact hx (List.mem_append_left _ h)
  · simp
  · simpa using hv

theorem enqueue_spec (U : List Nat) : ∀ (cs q vis : List Nat), (∀ c ∈ cs, c ∈ U) →
    (enqueue cs (q, vis)).1.length + unvisited U (enqueue cs (q, vis)).2 ≤ q.length + unvisited U vis ∧
    (∀ x, x ∈ q → x ∈ (enqueue cs (q, vis)).1) ∧
    (∀ x, x ∈ vis → x ∈ (enqueue cs (q, vis)).2) ∧
    (∀ x, x ∈ cs → x ∈ vis ∨ x ∈ (enqueue cs (q, vis)).1) ∧
    (∀ x, x ∈ (enqueue cs (q, vis)).2 → x ∈ vis ∨ x ∈ (enqueue cs (q, vis)).1) := by
  intro cs
  induction cs with
  | nil =>
    intro q vis _
    simp only [enqueue]
    exact ⟨Nat.le_refl _, fun _ h => h, fun _ h => h, fun _ h => absurd h List.not_mem_nil, fun _ h => Or.inl h⟩
  | cons c cs ih =>
    intro q vis hU
    have hU' : ∀ x ∈ cs, x ∈ U := fun x hx => hU x (List.mem_cons_of_mem _ hx)
    by_cases hc : c ∈ vis
    · simp only [enqueue, hc, if_true]
      obtain ⟨h1, h2, h3, h4, h5⟩ := ih q vis hU'
      refine ⟨h1, h2, h3, ?_, h5⟩
      intro x hx
      cases hx with
      | head => exact Or.inl hc
      | tail _ hx => exact h4 x hx
    · simp only [enqueue, hc, if_false]
      obtain ⟨h1, h2, h3, h4, h5⟩ := ih (q ++ [c]) (vis ++ [c]) hU'
      have hlt := unvisited_snoc_lt U vis c (hU c List.mem_cons_self) hc
      refine ⟨?_, ?_, ?_, ?_, ?_⟩
      · simp only [List.length_append, List.length_singleton] at h1; omega
      · intro x hx; exact h2 x (List.mem_append_left _ hx)
      · intro x hx; exact h3 x (List.mem_append_left _ hx)
      · intro x hx
        cases hx with
        | head => exact Or.inr (h2 c (by simp))
        | tail _ hx =>
          rcases h4 x hx with h | h
          · rcases List.mem_append.1 h with h | h
            · exact Or.inl h
            · simp at h; subst h; exact Or.inr (h2 x (by simp))
          · exact Or.inr h
      · intro x hx
        rcases h5 x hx with h | h
        · rcases List.mem_append.1 h with h | h
          · exact Or.inl h
          · simp at h; subst h; exact Or.inr (h2 x (by simp))
        · exact Or.inr h

/-- with enough fuel the BFS yields every queued block, and every successor of a yielded block
    is yielded or was visited before -/
theorem bfsGo_spec (succs : Nat → List Nat) (U : List Nat) (hU : ∀ b c, c ∈ succs b → c ∈ U) :
    ∀ (fuel : Nat) (q vis : List Nat), q.length + unvisited U vis < fuel →
      (∀ x ∈ q, x ∈ bfsGo succs fuel q vis) ∧
      (∀ b ∈ bfsGo succs fuel q vis, ∀ c ∈ succs b, c ∈ bfsGo succs fuel q vis ∨ c ∈ vis) := by
  intro fuel
  induction fuel with
  | zero => intro q vis h; omega
  | succ fuel ih =>
    intro q vis hf
    cases q with
    | nil => simp [bfsGo]
    | cons w q =>
      simp only [bfsGo]
      obtain ⟨e1, e2, e3, e4, e5⟩ := enqueue_spec U (succs w) q vis (fun c hc => hU w c hc)
      have hf' : (enqueue (succs w) (q, vis)).1.length + unvisited U (enqueue (succs w) (q, vis)).2 < fuel := by
        simp only [List.length_cons] at hf; omega
      obtain ⟨i1, i2⟩ := ih _ _ hf'
      constructor
      · intro x hx
        cases hx with
        | head => exact List.mem_cons_self
        | tail _ hx => exact List.mem_cons_of_mem _ (i1 x (e2 x hx))
      · intro b hb c hc
        cases hb with
        | head =>
          rcases e4 c hc with h | h
          · exact Or.inr h
          · exact Or.inl (List.mem_cons_of_mem _ (i1 c h))
        | tail _ hb =>
          rcases i2 b hb c hc with h | h
          · exact Or.inl (List.mem_cons_of_mem _ h)
          · rcases e5 c h with h | h
            · exact Or.inr h
            · exact Or.inl (List.mem_cons_of_mem _ (i1 c h))

theorem bfs_closed (succs : Nat → List Nat) (n start : Nat) (U : List Nat)
    (hU : ∀ b c, c ∈ succs b → c ∈ U) (hlen : U.length ≤ 2 * n) :
    start ∈ bfs succs n start ∧
    ∀ b ∈ bfs succs n start, ∀ c ∈ succs b, c ∈ bfs succs n start := by
  have hf : [start].length + unvisited U [start] < 2 * n + 2 := by
    have : unvisited U [start] ≤ U.length := List.countP_le_length
    simp only [List.length_singleton]; omega
  obtain ⟨h1, h2⟩ := bfsGo_spec succs U hU (2 * n + 2) [start] [start] hf
  refine ⟨h1 start (by simp), ?_⟩
  intro b hb c hc
  rcases h2 b hb c hc with h | h
  · exact h
  · simp at h; subst h; exact h1 c (by simp)

theorem targets_length (s : Succ) : (targets s).length ≤ 2 := by cases s <;> simp [targets]

/-- all successor targets of a graph -/
def allTargets (G : Graph) : List Nat := G.toList.flatMap (fun b => targets b.succ)

theorem allTargets_length (G : Graph) : (allTargets G).length ≤ 2 * G.size := by
  unfold allTargets
  rw [← Array.length_toList]
  induction G.toList with
  | nil => simp
  | cons b l ih =>
    simp only [List.flatMap_cons, List.length_append, List.length_cons]
    have := targets_length b.succ
    omega

theorem gsuccs_mem_allTargets (G : Graph) (b c : Nat) (h : c ∈ gsuccs G b) : c ∈ allTargets G := by
  unfold gsuccs blk at h
  cases hb : G[b]? with
  | none => simp [hb, targets] at h
  | some blk =>
    simp only [hb, Option.getD_some] at h
    unfold allTargets
    rw [List.mem_flatMap]
    refine ⟨blk, ?_, h⟩
    have := Array.mem_of_getElem? hb
    exact Array.mem_toList_iff.2 this

/-- the blocks of a routine: contain the entry and are closed under successors -/
theorem reach_closed (G : Graph) (start : Nat) :
    start ∈ reach G start ∧ ∀ b ∈ reach G start, ∀ c ∈ gsuccs G b, c ∈ reach G start :=
  bfs_closed (gsuccs G) G.size start (allTargets G) (gsuccs_mem_allTargets G) (allTargets_length G)

/-! ### removeAccess -/

theorem getElem?_mapIdxFrom {α β} (f : Nat → α → β) : ∀ (l : List α) (k i : Nat),
    (mapIdxFrom f k l)[i]? = (l[i]?).map (f (k + i)) := by
  intro l
  induction l with
  | nil => intro k i; simp [mapIdxFrom]
  | cons a l ih =>
    intro k i
    cases i with
    | zero => simp [mapIdxFrom]
    | succ i =>
      simp only [mapIdxFrom, List.getElem?_cons_succ]
      rw [ih (k + 1) i]
      congr 2; omega

theorem length_mapIdxFrom {α β} (f : Nat → α → β) : ∀ (l : List α) (k : Nat),
    (mapIdxFrom f k l).length = l.length := by
  intro l
  induction l with
  | nil => intro k; rfl
  | cons a l ih => intro k; simp [mapIdxFrom, ih]

theorem mapIdxFrom_comp {α β γ} (f : Nat → α → β) (g : Nat → β → γ) : ∀ (l : List α) (k : Nat),
    mapIdxFrom g k (mapIdxFrom f k l) = mapIdxFrom (fun i a => g i (f i a)) k l := by
  intro l
  induction l with
  | nil => intro k; rfl
  | cons a l ih => intro k; simp [mapIdxFrom, ih]

theorem mapIdxFrom_id {α} (f : Nat → α → α) (h : ∀ i a, f i a = a) : ∀ (l : List α) (k : Nat),
    mapIdxFrom f k l = l := by
  intro l
  induction l with
  | nil => intro k; rfl
  | cons a l ih => intro k; simp [mapIdxFrom, ih, h]

/-- what `removeAccess` does to block `i` -/
def filterBlock (S order : List Nat) (i : Nat) (b : Block) : Block :=
  if order.contains i then { b with ops := b.ops.filter (keepOp S) } else b

theorem removeAccess_getElem? (S order : List Nat) (G : Graph) (b : Nat) :
    (removeAccess S order G)[b]? = (G[b]?).map (filterBlock S order b) := by
  unfold removeAccess
  rw [← Array.getElem?_toList, ← Array.getElem?_toList]
  simp only [getElem?_mapIdxFrom, Nat.zero_add]
  rfl

theorem removeAccess_size (S order : List Nat) (G : Graph) : (removeAccess S order G).size = G.size := by
  unfold removeAccess
  simp [length_mapIdxFrom]

theorem keepOp_append (S1 S2 : List Nat) (x : Instr) :
    keepOp (S1 ++ S2) x = (keepOp S1 x && keepOp S2 x) := by
  cases x <;> simp [keepOp]

theorem keepOp_nil (x : Instr) : keepOp [] x = true := by
  cases x <;> simp [keepOp]

/-- an op that is deleted is a load or a store of a slot of `S` -/
theorem keepOp_false (S : List Nat) (x : Instr) (h : keepOp S x = false) :
    ∃ s, s ∈ S ∧ (x = .load s ∨ x = .store s) := by
  cases x <;> simp [keepOp] at h
  · exact ⟨_, h, Or.inl rfl⟩
  · exact ⟨_, h, Or.inr rfl⟩

theorem removeAccess_nil (order : List Nat) (G : Graph) : removeAccess [] order G = G := by
  unfold removeAccess
  rw [mapIdxFrom_id]
  intro i b
  split
  · cases b; simp [keepOp_nil]
  · rfl

theorem removeAccess_comp (S1 S2 order : List Nat) (G : Graph) :
    removeAccess S2 order (removeAccess S1 order G) = removeAccess (S1 ++ S2) order G := by
  unfold removeAccess
  simp only [mapIdxFrom_comp]
  congr 2
  funext i b
  by_cases h : i ∈ order
  · simp only [h, List.contains_eq_mem, decide_true, if_true, List.filter_filter, Block.mk.injEq, and_true]
    congr 1
    funext a
    rw [keepOp_append]
    cases keepOp S1 a <;> cases keepOp S2 a <;> rfl
  · simp [h]

theorem blk_removeAccess (S order : List Nat) (G : Graph) (b : Nat) :
    blk (removeAccess S order G) b = filterBlock S order b (blk G b) := by
  unfold blk
  rw [removeAccess_getElem?]
  cases G[b]? with
  | some blk => rfl
  | none =>
    simp only [Option.map_none, Option.getD_none]
    unfold filterBlock
    split <;> rfl

theorem filterBlock_succ (S order : List Nat) (i : Nat) (b : Block) : (filterBlock S order i b).succ = b.succ := by
  unfold filterBlock; split <;> rfl

/-- the pass never changes a successor, so `Iterate` yields the same blocks afterwards -/
theorem reach_removeAccess (S order : List Nat) (G : Graph) (start : Nat) :
    reach (removeAccess S order G) start = reach G start := by
  unfold reach
  rw [removeAccess_size]
  congr 1
  funext b
  unfold gsuccs
  rw [blk_removeAccess, filterBlock_succ]

/-! ### what the pass computes -/

theorem candidates_not_skip (skip : List Nat) (G : Graph) (order : List Nat) (cur : Nat) :
    ∀ (ops : List Instr) (i : Nat), ∀ s ∈ candidates skip G order cur i ops, s ∉ skip := by
  intro ops
  induction ops with
  | nil => intro i s hs; simp [candidates] at hs
  | cons x rest ih =>
    intro i s hs
    unfold candidates at hs
    split at hs
    · rename_i a b rest'
      split at hs
      · exact ih _ s hs
      · rename_i hskip
        split at hs
        · exact ih _ s hs
        · split at hs
          · exact ih _ s hs
          · cases hs with
            | head => simpa using hskip
            | tail _ hs => exact ih _ s hs
    · exact ih _ s hs

/-- every candidate is the slot of an adjacent `store s; load s` pair of the block -/
theorem candidates_pair (skip : List Nat) (G : Graph) (order : List Nat) (cur : Nat) :
    ∀ (ops : List Instr) (i : Nat), ∀ s ∈ candidates skip G order cur i ops,
      ∃ pre post, ops = pre ++ .store s :: .load s :: post := by
  intro ops
  induction ops with
  | nil => intro i s hs; simp [candidates] at hs
  | cons x rest ih =>
    intro i s hs
    have tl : s ∈ candidates skip G order cur (i + 1) rest →
        ∃ pre post, x :: rest = pre ++ .store s :: .load s :: post := by
      intro h
      obtain ⟨pre, post, e⟩ := ih _ s h
      exact ⟨x :: pre, post, by rw [e]; rfl⟩
    unfold candidates at hs
    split at hs
    · rename_i a b rest'
      split at hs
      · exact tl hs
      · split at hs
        · exact tl hs
        · rename_i hab
          split at hs
          · exact tl hs
          · have hab' : a = b := by simpa using hab
            subst hab'
            cases hs with
            | head => exact ⟨[], rest', rfl⟩
            | tail _ hs => exact tl hs
    · exact tl hs

/-- invariant of the two loops: the current graph is the input with the accesses to the
    accumulated slots removed, and no accumulated slot is in the skip set -/
def PassInv (skip order : List Nat) (G0 : Graph) (st : Graph × List Nat) : Prop :=
  st.1 = removeAccess st.2 order G0 ∧ ∀ s ∈ st.2, s ∉ skip

theorem applySlotToStack_inv (skip order : List Nat) (G0 : Graph) (cur : Nat) (G : Graph) (acc : List Nat)
    (hinv : PassInv skip order G0 (G, acc)) :
    PassInv skip order G0 ((applySlotToStack skip order cur G).1, acc ++ (applySlotToStack skip order cur G).2) := by
  unfold applySlotToStack
  obtain ⟨h1, h2⟩ := hinv
  simp only at h1 h2
  constructor
  · simp only; rw [h1, removeAccess_comp]
  · intro s hs
    rcases List.mem_append.1 hs with hs | hs
    · exact h2 s hs
    · exact candidates_not_skip skip G order cur _ _ s hs

theorem loopBlock_inv (skip order : List Nat) (G0 : Graph) (cur : Nat) :
    ∀ (n : Nat) (st : Graph × List Nat), PassInv skip order G0 st →
      PassInv skip order G0 (loopBlock skip order cur n st) := by
  intro n
  induction n with
  | zero => intro st hinv; exact hinv
  | succ n ih =>
    intro st hinv
    obtain ⟨G, acc⟩ := st
    unfold loopBlock
    have hinv1 := applySlotToStack_inv skip order G0 cur G acc hinv
    simp only
    split
    · exact hinv1
    · exact ih _ hinv1

theorem outerLoop_inv (skip order : List Nat) (G0 : Graph) :
    ∀ (bs : List Nat) (st : Graph × List Nat), PassInv skip order G0 st →
      PassInv skip order G0 (outerLoop skip order bs st) := by
  intro bs
  induction bs with
  | nil => intro st hinv; exact hinv
  | cons b rest ih =>
    intro st hinv
    obtain ⟨G, acc⟩ := st
    unfold outerLoop
    exact ih _ (loopBlock_inv skip order G0 b _ _ hinv)

/-- the pass deletes the accesses to a set of slots disjoint from the skip set, nothing else -/
theorem slotToStackS_spec (skip : List Nat) (G : Graph) (start : Nat) :
    slotToStack skip G start = removeAccess (removedSlots skip G start) (reach G start) G ∧
    ∀ s ∈ removedSlots skip G start, s ∉ skip := by
  unfold slotToStack removedSlots slotToStackS
  exact outerLoop_inv skip (reach G start) G _ (G, []) ⟨by simp [removeAccess_nil], by simp⟩

end PyTealV.Models.Optimizer
