/-
  C10 — every variable is its own storage cell; slot limits are enforced.
  Theorems about the model `PyTealV.Models.Slots` of pyteal/compiler/scratchslots.py.
-/
import PyTealV.Models.Slots
namespace PyTealV.Proofs.C10
open PyTealV.Models.Slots

/-! ## Python sets as duplicate-free lists -/

section Sets
variable {α : Type} [DecidableEq α]

theorem mem_dedup {x : α} {l : List α} : x ∈ dedup l ↔ x ∈ l := by
  induction l with
  | nil => simp [dedup]
  | cons a l ih =>
    simp only [dedup, List.mem_cons, List.mem_filter, ih, decide_eq_true_eq]
    by_cases h : x = a <;> simp [h]

theorem nodup_dedup (l : List α) : (dedup l).Nodup := by
  induction l with
  | nil => simp [dedup]
  | cons a l ih =>
    simp only [dedup, List.nodup_cons, List.mem_filter, decide_eq_true_eq]
    exact ⟨fun h => h.2 rfl, ih.sublist List.filter_sublist⟩

theorem mem_union {x : α} {a b : List α} : x ∈ union a b ↔ x ∈ a ∨ x ∈ b := by
  simp only [union, List.mem_append, List.mem_filter, mem_dedup, decide_eq_true_eq]
  by_cases h : x ∈ a <;> simp [h]

theorem nodup_union {a b : List α} (ha : a.Nodup) : (union a b).Nodup := by
  simp only [union, List.nodup_append]
  refine ⟨ha, (nodup_dedup b).sublist List.filter_sublist, ?_⟩
  intro x hx y hy hxy
  simp only [List.mem_filter, decide_eq_true_eq] at hy
  exact hy.2 (hxy ▸ hx)

theorem mem_inter {x : α} {a b : List α} : x ∈ inter a b ↔ x ∈ a ∧ x ∈ b := by
  simp [inter]

theorem mem_diff {x : α} {a b : List α} : x ∈ diff a b ↔ x ∈ a ∧ x ∉ b := by
  simp [diff]

theorem mem_foldl_union {x : α} (ls : List (List α)) (acc : List α) :
    x ∈ ls.foldl union acc ↔ x ∈ acc ∨ ∃ l ∈ ls, x ∈ l := by
  induction ls generalizing acc with
  | nil => simp
  | cons l ls ih =>
    simp only [List.foldl_cons, ih, mem_union, List.mem_cons, exists_eq_or_imp]
    exact or_assoc

theorem nodup_foldl_union (ls : List (List α)) (acc : List α) (h : acc.Nodup) :
    (ls.foldl union acc).Nodup := by
  induction ls generalizing acc with
  | nil => simpa
  | cons l ls ih => exact ih _ (nodup_union h)

theorem mem_unionAll {x : α} {ls : List (List α)} : x ∈ unionAll ls ↔ ∃ l ∈ ls, x ∈ l := by
  simp [unionAll, mem_foldl_union]

theorem nodup_unionAll (ls : List (List α)) : (unionAll ls).Nodup :=
  nodup_foldl_union ls [] List.nodup_nil

omit [DecidableEq α] in
/-- injectivity of `f` on a list whose image has no duplicates -/
theorem eq_of_nodup_map {β : Type} {f : α → β} {l : List α} (h : (l.map f).Nodup)
    {a b : α} (ha : a ∈ l) (hb : b ∈ l) (hab : f a = f b) : a = b := by
  induction l with
  | nil => cases ha
  | cons c l ih =>
    simp only [List.map_cons, List.nodup_cons, List.mem_map, not_exists, not_and] at h
    rcases List.mem_cons.1 ha with rfl | ha' <;> rcases List.mem_cons.1 hb with rfl | hb'
    · rfl
    · exact absurd hab.symm (h.1 _ hb')
    · exact absurd hab (h.1 _ ha')
    · exact ih h.2 ha' hb'

/-- pigeonhole: a list containing every number below `n` has at least `n` entries -/
theorem length_ge_of_range_subset (n : Nat) (l : List Nat) (h : ∀ m, m < n → m ∈ l) : n ≤ l.length := by
  induction n generalizing l with
  | zero => omega
  | succ n ih =>
    have hn : n ∈ l := h n (by omega)
    have := ih (l.erase n) (fun m hm => (List.mem_erase_of_ne (by omega)).2 (h m (by omega)))
    rw [List.length_erase_of_mem hn] at this
    have : 0 < l.length := List.length_pos_of_mem hn
    omega

end Sets

/-! ## The `while nextSlotIndex in slotIds` loop -/

theorem le_listMax {x : Nat} {l : List Nat} (h : x ∈ l) : x ≤ listMax l := by
  induction l with
  | nil => cases h
  | cons a l ih =>
    simp only [listMax, List.foldr_cons] at *
    rcases List.mem_cons.1 h with rfl | h'
    · omega
    · have := ih h'; omega

theorem skipUsed_spec (used : List Nat) (fuel n : Nat) (hf : listMax used + 1 - n ≤ fuel) :
    skipUsed used fuel n ∉ used ∧ n ≤ skipUsed used fuel n ∧
      ∀ m, n ≤ m → m < skipUsed used fuel n → m ∈ used := by
  induction fuel generalizing n with
  | zero =>
    simp only [skipUsed]
    refine ⟨fun h => ?_, Nat.le_refl _, fun m h1 h2 => by omega⟩
    have := le_listMax h; omega
  | succ fuel ih =>
    simp only [skipUsed]
    by_cases h : n ∈ used
    · rw [if_pos h]
      have := ih (n + 1) (by have := le_listMax h; omega)
      refine ⟨this.1, by omega, fun m h1 h2 => ?_⟩
      by_cases hm : m = n
      · exact hm ▸ h
      · exact this.2.2 m (by omega) h2
    · rw [if_neg h]
      exact ⟨h, Nat.le_refl _, fun m h1 h2 => by omega⟩

/-- the `while` loop stops at the least number `≥ n` that is not in `slotIds` -/
theorem nextFree_spec (used : List Nat) (n : Nat) :
    nextFree used n ∉ used ∧ n ≤ nextFree used n ∧ ∀ m, n ≤ m → m < nextFree used n → m ∈ used :=
  skipUsed_spec used _ n (Nat.le_refl _)

/-! ## The numbering loop, for an arbitrary order of the slots -/

theorem numberGo_fst (next : Nat) (used : List Nat) (order : List Slot) :
    (numberGo next used order).map (·.1) = order := by
  induction order generalizing next used with
  | nil => rfl
  | cons s rest ih =>
    simp only [numberGo]
    split <;> simp [ih]

theorem numberGo_reserved {next : Nat} {used : List Nat} {order : List Slot} {s : Slot} {n : Nat}
    (h : (s, n) ∈ numberGo next used order) (hr : s.reserved = true) : n = s.id := by
  induction order generalizing next used with
  | nil => simp [numberGo] at h
  | cons t rest ih =>
    simp only [numberGo] at h
    split at h
    · rcases List.mem_cons.1 h with h | h
      · cases h; rfl
      · exact ih h
    · rename_i ht
      rcases List.mem_cons.1 h with h | h
      · cases h; exact absurd hr ht
      · exact ih h

theorem numberGo_auto_fresh {next : Nat} {used : List Nat} {order : List Slot} {s : Slot} {n : Nat}
    (h : (s, n) ∈ numberGo next used order) (hr : s.reserved = false) : n ∉ used := by
  induction order generalizing next used with
  | nil => simp [numberGo] at h
  | cons t rest ih =>
    simp only [numberGo] at h
    split at h
    · rename_i ht
      rcases List.mem_cons.1 h with h | h
      · cases h; simp [hr] at ht
      · exact ih h
    · rcases List.mem_cons.1 h with h | h
      · cases h; exact (nextFree_spec used next).1
      · exact fun hn => ih h (List.mem_cons_of_mem _ hn)

/-- distinct positions of the loop get distinct numbers, provided every requested id is in
    `slotIds` and requested ids do not repeat -/
theorem numberGo_nodup (next : Nat) (used : List Nat) (order : List Slot)
    (h1 : ∀ s ∈ order, s.reserved = true → s.id ∈ used)
    (h2 : order.Pairwise (fun a b => a.reserved = true → b.reserved = true → a.id ≠ b.id)) :
    ((numberGo next used order).map (·.2)).Nodup := by
  induction order generalizing next used with
  | nil => simp [numberGo]
  | cons s rest ih =>
    rw [List.pairwise_cons] at h2
    simp only [numberGo]
    split
    · rename_i hs
      simp only [List.map_cons, List.nodup_cons, List.mem_map, not_exists, not_and]
      refine ⟨?_, ih _ _ (fun t ht => h1 t (List.mem_cons_of_mem _ ht)) h2.2⟩
      rintro ⟨t, m⟩ hm heq
      simp only at heq
      subst heq
      cases htr : t.reserved with
      | true =>
        have := numberGo_reserved hm htr
        have hts : t ∈ rest := by
          have := List.mem_map_of_mem (f := (·.1)) hm
          rwa [numberGo_fst] at this
        exact h2.1 t hts hs htr this
      | false =>
        exact numberGo_auto_fresh hm htr (h1 s List.mem_cons_self hs)
    · simp only [List.map_cons, List.nodup_cons, List.mem_map, not_exists, not_and]
      refine ⟨?_, ih _ _ (fun t ht hr => List.mem_cons_of_mem _ (h1 t (List.mem_cons_of_mem _ ht) hr)) h2.2⟩
      rintro ⟨t, m⟩ hm heq
      simp only at heq
      subst heq
      cases htr : t.reserved with
      | true =>
        have hid := numberGo_reserved hm htr
        have hts : t ∈ rest := by
          have := List.mem_map_of_mem (f := (·.1)) hm
          rwa [numberGo_fst] at this
        have := h1 t (List.mem_cons_of_mem _ hts) htr
        exact (nextFree_spec used next).1 (hid ▸ this)
      | false =>
        exact numberGo_auto_fresh hm htr List.mem_cons_self

/-- every automatic number is below `bound` as long as `slotIds` plus the automatic slots still to
    number fit below `bound` -/
theorem numberGo_range (bound next : Nat) (used : List Nat) (order : List Slot)
    (h3 : ∀ m, m < next → m ∈ used)
    (h4 : used.length + order.countP (fun s => !s.reserved) ≤ bound)
    {s : Slot} {n : Nat} (h : (s, n) ∈ numberGo next used order) (hr : s.reserved = false) :
    n < bound := by
  induction order generalizing next used with
  | nil => simp [numberGo] at h
  | cons t rest ih =>
    have hsp := nextFree_spec used next
    have h3' : ∀ m, m < nextFree used next → m ∈ used := fun m hm => by
      by_cases hlt : m < next
      · exact h3 m hlt
      · exact hsp.2.2 m (by omega) hm
    simp only [numberGo] at h
    split at h
    · rename_i ht
      rcases List.mem_cons.1 h with h | h
      · cases h; simp [hr] at ht
      · refine ih _ _ h3' ?_ h
        simpa [List.countP_cons, ht] using h4
    · rename_i ht
      have hcount : used.length + (rest.countP (fun s => !s.reserved) + 1) ≤ bound := by
        simpa [List.countP_cons, ht] using h4
      rcases List.mem_cons.1 h with h | h
      · cases h
        -- pigeonhole: `used` has fewer than `bound` entries, so some number below `bound` is free
        apply Decidable.by_contra
        intro hge
        have : bound ≤ used.length :=
          length_ge_of_range_subset bound used (fun m hm => h3' m (by omega))
        omega
      · refine ih _ _ (fun m hm => List.mem_cons_of_mem _ (h3' m hm)) ?_ h
        simp only [List.length_cons]; omega


/-! ## The requested-id check -/

/-- the requested ids of a list of slot objects, one entry per object -/
def rids (l : List Slot) : List Nat := (l.filter (·.reserved)).map (·.id)

theorem reservedIdsCheck_err {l : List Slot} {ids : List Nat} {e : Err}
    (h : reservedIdsCheck l ids = .error e) : e = .dupRequested := by
  induction l generalizing ids with
  | nil => simp [reservedIdsCheck] at h
  | cons s rest ih =>
    simp only [reservedIdsCheck] at h
    split at h
    · exact ih h
    · split at h
      · cases h; rfl
      · exact ih h

theorem reservedIdsCheck_ok_iff (l : List Slot) (ids : List Nat) :
    (∃ out, reservedIdsCheck l ids = .ok out) ↔ (rids l).Nodup ∧ ∀ x ∈ rids l, x ∉ ids := by
  induction l generalizing ids with
  | nil => simp [reservedIdsCheck, rids]
  | cons s rest ih =>
    simp only [reservedIdsCheck]
    cases hs : s.reserved with
    | false =>
      simp only [Bool.not_false, if_true, ih]
      simp [rids, hs]
    | true =>
      simp only [Bool.not_true, Bool.false_eq_true, if_false]
      by_cases hin : s.id ∈ ids
      · simp only [hin, if_true]
        constructor
        · rintro ⟨out, h⟩; cases h
        · rintro ⟨_, h⟩
          exact absurd hin (h s.id (by simp [rids, hs]))
      · simp only [hin, if_false, ih]
        simp only [rids, List.filter_cons, hs, if_true, List.map_cons, List.nodup_cons, List.mem_cons,
          forall_eq_or_imp, not_or]
        constructor
        · rintro ⟨hn, hd⟩
          exact ⟨⟨fun hmem => (hd _ hmem).1 rfl, hn⟩, hin, fun x hx => (hd x hx).2⟩
        · rintro ⟨⟨hni, hn⟩, _, hd⟩
          exact ⟨hn, fun x hx => ⟨fun hxs => hni (hxs ▸ hx), hd x hx⟩⟩

theorem reservedIdsCheck_ok_spec {l : List Slot} {ids out : List Nat}
    (h : reservedIdsCheck l ids = .ok out) :
    (∀ x, x ∈ out ↔ x ∈ ids ∨ x ∈ rids l) ∧ out.length = ids.length + (rids l).length := by
  induction l generalizing ids with
  | nil => simp [reservedIdsCheck] at h; subst h; simp [rids]
  | cons s rest ih =>
    simp only [reservedIdsCheck] at h
    cases hs : s.reserved with
    | false =>
      simp only [hs, Bool.not_false, if_true] at h
      simpa [rids, List.filter_cons, hs] using ih h
    | true =>
      simp only [hs, Bool.not_true, Bool.false_eq_true, if_false] at h
      split at h
      · cases h
      · have := ih h
        simp only [rids, List.filter_cons, hs, if_true, List.map_cons, List.mem_cons, List.length_cons] at this ⊢
        refine ⟨fun x => ?_, by omega⟩
        rw [this.1 x]
        constructor
        · rintro ((h | h) | h)
          · exact Or.inr (Or.inl h)
          · exact Or.inl h
          · exact Or.inr (Or.inr h)
        · rintro (h | h | h)
          · exact Or.inl (Or.inr h)
          · exact Or.inl (Or.inl h)
          · exact Or.inr h

/-- requested ids pairwise distinct among distinct slot objects -/
def ReservedDistinct (l : List Slot) : Prop :=
  ∀ s₁ ∈ l, ∀ s₂ ∈ l, s₁.reserved = true → s₂.reserved = true → s₁.id = s₂.id → s₁ = s₂

theorem rids_nodup_iff {l : List Slot} (hl : l.Nodup) : (rids l).Nodup ↔ ReservedDistinct l := by
  induction l with
  | nil => simp [rids, ReservedDistinct]
  | cons a l ih =>
    rw [List.nodup_cons] at hl
    have ih := ih hl.2
    cases ha : a.reserved with
    | false =>
      simp only [rids, List.filter_cons, ha, Bool.false_eq_true, if_false] at ih ⊢
      rw [ih]
      constructor
      · intro h s₁ h₁ s₂ h₂ r₁ r₂ e
        rcases List.mem_cons.1 h₁ with rfl | h₁
        · simp [ha] at r₁
        rcases List.mem_cons.1 h₂ with rfl | h₂
        · simp [ha] at r₂
        exact h s₁ h₁ s₂ h₂ r₁ r₂ e
      · intro h s₁ h₁ s₂ h₂
        exact h s₁ (List.mem_cons_of_mem _ h₁) s₂ (List.mem_cons_of_mem _ h₂)
    | true =>
      simp only [rids, List.filter_cons, ha, if_true, List.map_cons, List.nodup_cons, List.mem_map,
        List.mem_filter, not_exists, not_and] at ih ⊢
      rw [ih]
      constructor
      · rintro ⟨hne, h⟩ s₁ h₁ s₂ h₂ r₁ r₂ e
        rcases List.mem_cons.1 h₁ with e₁ | m₁ <;> rcases List.mem_cons.1 h₂ with e₂ | m₂
        · rw [e₁, e₂]
        · exact absurd (e₁ ▸ e).symm (hne s₂ ⟨m₂, r₂⟩)
        · exact absurd (e₂ ▸ e) (hne s₁ ⟨m₁, r₁⟩)
        · exact h s₁ m₁ s₂ m₂ r₁ r₂ e
      · intro h
        refine ⟨fun t ht e => ?_, fun s₁ h₁ s₂ h₂ => h s₁ (List.mem_cons_of_mem _ h₁) s₂ (List.mem_cons_of_mem _ h₂)⟩
        have := h t (List.mem_cons_of_mem _ ht.1) a List.mem_cons_self ht.2 ha e
        exact hl.1 (this ▸ ht.1)

theorem pairwise_of_reservedDistinct {l : List Slot} (hl : l.Nodup) (h : ReservedDistinct l) :
    l.Pairwise (fun a b => a.reserved = true → b.reserved = true → a.id ≠ b.id) := by
  induction l with
  | nil => exact List.Pairwise.nil
  | cons a l ih =>
    rw [List.nodup_cons] at hl
    rw [List.pairwise_cons]
    refine ⟨fun b hb ra rb e => ?_, ih hl.2 (fun s₁ h₁ s₂ h₂ =>
      h s₁ (List.mem_cons_of_mem _ h₁) s₂ (List.mem_cons_of_mem _ h₂))⟩
    have := h a List.mem_cons_self b (List.mem_cons_of_mem _ hb) ra rb e
    exact hl.1 (this ▸ hb)

theorem reservedDistinct_perm {l₁ l₂ : List Slot} (h : l₁.Perm l₂) :
    ReservedDistinct l₁ ↔ ReservedDistinct l₂ := by
  simp only [ReservedDistinct, h.mem_iff]


/-! ## collectScratchSlots -/

/-- some op of the routine has the slot object `s` among its arguments (whatever the opcode) -/
def Uses (ops : List Op) (s : Slot) : Prop := ∃ op ∈ ops, Arg.slot s ∈ op.args

theorem mem_opSlots {op : Op} {s : Slot} : s ∈ op.slots ↔ Arg.slot s ∈ op.args := by
  simp only [Op.slots, List.mem_filterMap]
  constructor
  · rintro ⟨a, ha, h⟩
    cases a with
    | slot t => simp only [Option.some.injEq] at h; exact h ▸ ha
    | imm n => cases h
  · intro h; exact ⟨_, h, rfl⟩

theorem mem_routineSlots {ops : List Op} {s : Slot} : s ∈ routineSlots ops ↔ Uses ops s := by
  simp [routineSlots, mem_dedup, List.mem_flatMap, mem_opSlots, Uses]

abbrev Entry := Key × List Slot

theorem collectGo_keys (before rest : List Entry) (g : List Slot) :
    (collectGo before rest g).2.map (·.1) = rest.map (·.1) := by
  induction rest generalizing before g with
  | nil => rfl
  | cons x rest ih => obtain ⟨k, slots⟩ := x; simp [collectGo, ih]

theorem collectGo_global_nodup (before rest : List Entry) (g : List Slot) (hg : g.Nodup) :
    (collectGo before rest g).1.Nodup := by
  induction rest generalizing before g with
  | nil => simpa [collectGo]
  | cons x rest ih => obtain ⟨k, slots⟩ := x; simp only [collectGo]; exact ih _ _ (nodup_union hg)

theorem collectGo_global (before rest : List Entry) (g : List Slot) (s : Slot) :
    s ∈ (collectGo before rest g).1 ↔
      s ∈ g ∨ ∃ pre x post, rest = pre ++ x :: post ∧ s ∈ x.2 ∧ ∃ e ∈ before ++ pre ++ post, s ∈ e.2 := by
  induction rest generalizing before g with
  | nil => simp [collectGo]
  | cons x rest ih =>
    obtain ⟨k, slots⟩ := x
    simp only [collectGo, ih, mem_union, mem_inter, mem_unionAll, List.mem_map]
    constructor
    · rintro ((h | ⟨hs, l, ⟨e, he, rfl⟩, hl⟩) | ⟨pre, x, post, rfl, hx, e, he, hse⟩)
      · exact Or.inl h
      · exact Or.inr ⟨[], (k, slots), rest, rfl, hs, e, by simpa using he, hl⟩
      · refine Or.inr ⟨(k, slots) :: pre, x, post, rfl, hx, e, ?_, hse⟩
        simp only [List.mem_append, List.mem_cons, List.mem_nil_iff, or_false] at he ⊢
        rcases he with ((h | h) | h) | h
        · exact Or.inl (Or.inl h)
        · exact Or.inl (Or.inr (Or.inl h))
        · exact Or.inl (Or.inr (Or.inr h))
        · exact Or.inr h
    · rintro (h | ⟨pre, x, post, hrest, hx, e, he, hse⟩)
      · exact Or.inl (Or.inl h)
      · cases pre with
        | nil =>
          simp only [List.nil_append, List.cons.injEq] at hrest
          obtain ⟨rfl, rfl⟩ := hrest
          exact Or.inl (Or.inr ⟨hx, e.2, ⟨e, by simpa using he, rfl⟩, hse⟩)
        | cons y pre =>
          simp only [List.cons_append, List.cons.injEq] at hrest
          obtain ⟨rfl, rfl⟩ := hrest
          refine Or.inr ⟨pre, x, post, rfl, hx, e, ?_, hse⟩
          simp only [List.mem_append, List.mem_cons, List.mem_nil_iff, or_false] at he ⊢
          rcases he with (h | h | h) | h
          · exact Or.inl (Or.inl (Or.inl h))
          · exact Or.inl (Or.inl (Or.inr h))
          · exact Or.inl (Or.inr h)
          · exact Or.inr h

theorem collectGo_locals (rest before : List Entry) (g : List Slot)
    (hg : ∀ s ∈ g, ∃ e ∈ before, s ∈ e.2)
    (pre : List Entry) (k : Key) (slots : List Slot) (post : List Entry)
    (hrest : rest = pre ++ (k, slots) :: post) :
    ∃ L, (collectGo before rest g).2[pre.length]? = some (k, L) ∧
      ∀ s, s ∈ L ↔ s ∈ slots ∧ ∀ e ∈ before ++ pre ++ post, s ∉ e.2 := by
  induction rest generalizing before g pre with
  | nil => cases pre <;> simp at hrest
  | cons x rest ih =>
    obtain ⟨k', slots'⟩ := x
    cases pre with
    | nil =>
      simp only [List.nil_append, List.cons.injEq, Prod.mk.injEq] at hrest
      obtain ⟨⟨rfl, rfl⟩, rfl⟩ := hrest
      refine ⟨_, rfl, fun s => ?_⟩
      simp only [mem_diff, mem_union, mem_inter, mem_unionAll, List.mem_map, List.append_nil]
      constructor
      · rintro ⟨hs, hn⟩
        refine ⟨hs, fun e he hse => hn (Or.inr ⟨hs, e.2, ⟨e, he, rfl⟩, hse⟩)⟩
      · rintro ⟨hs, hn⟩
        refine ⟨hs, ?_⟩
        rintro (h | ⟨_, l, ⟨e, he, rfl⟩, hl⟩)
        · obtain ⟨e, he, hse⟩ := hg s h
          exact hn e (List.mem_append_left _ he) hse
        · exact hn e he hl
    | cons y pre =>
      simp only [List.cons_append, List.cons.injEq] at hrest
      obtain ⟨rfl, rfl⟩ := hrest
      have hg' : ∀ s ∈ union g (inter slots' (unionAll ((before ++ (pre ++ (k, slots) :: post)).map (·.2)))),
          ∃ e ∈ before ++ [(k', slots')], s ∈ e.2 := by
        intro s hs
        rcases mem_union.1 hs with h | h
        · obtain ⟨e, he, hse⟩ := hg s h
          exact ⟨e, List.mem_append_left _ he, hse⟩
        · exact ⟨(k', slots'), by simp, (mem_inter.1 h).1⟩
      obtain ⟨L, hL, hmem⟩ := ih (before ++ [(k', slots')]) _ hg' pre rfl
      refine ⟨L, by simpa [collectGo] using hL, fun s => ?_⟩
      rw [hmem s]
      simp only [List.mem_append, List.mem_cons, List.mem_nil_iff, or_false]
      constructor
      · rintro ⟨hs, hn⟩
        refine ⟨hs, fun e he => hn e ?_⟩
        rcases he with (h | h | h) | h
        · exact Or.inl (Or.inl (Or.inl h))
        · exact Or.inl (Or.inl (Or.inr h))
        · exact Or.inl (Or.inr h)
        · exact Or.inr h
      · rintro ⟨hs, hn⟩
        refine ⟨hs, fun e he => hn e ?_⟩
        rcases he with ((h | h) | h) | h
        · exact Or.inl (Or.inl h)
        · exact Or.inl (Or.inr (Or.inl h))
        · exact Or.inl (Or.inr (Or.inr h))
        · exact Or.inr h

theorem collectGo_local_sub (rest before : List Entry) (g : List Slot) {k : Key} {L : List Slot}
    (h : (k, L) ∈ (collectGo before rest g).2) : ∃ slots, (k, slots) ∈ rest ∧ ∀ s ∈ L, s ∈ slots := by
  induction rest generalizing before g with
  | nil => simp [collectGo] at h
  | cons x rest ih =>
    obtain ⟨k', slots'⟩ := x
    simp only [collectGo, List.mem_cons] at h
    rcases h with h | h
    · cases h
      exact ⟨slots', List.mem_cons_self, fun s hs => (mem_diff.1 hs).1⟩
    · obtain ⟨slots, hm, hs⟩ := ih _ _ h
      exact ⟨slots, List.mem_cons_of_mem _ hm, hs⟩

/-- the per-routine slot sets (first loop of `collectScratchSlots`) -/
def routineSets (p : Program) : List Entry := p.map (fun r => (r.1, routineSlots r.2))

theorem collectSlots_eq (p : Program) : collectSlots p = collectGo [] (routineSets p) [] := rfl

/-- `allSlots` is exactly the set of slot objects referenced by some op of some routine -/
theorem mem_allSlots {p : Program} {s : Slot} : s ∈ allSlots p ↔ ∃ r ∈ p, Uses r.2 s := by
  simp only [allSlots, mem_union, mem_unionAll, List.mem_map, collectSlots_eq]
  constructor
  · rintro (h | ⟨l, ⟨⟨k, L⟩, he, rfl⟩, hl⟩)
    · rcases (collectGo_global _ _ _ _).1 h with h | ⟨pre, x, post, hsplit, hx, _⟩
      · cases h
      · have : x ∈ routineSets p := by rw [hsplit]; simp
        obtain ⟨r, hr, rfl⟩ := List.mem_map.1 this
        exact ⟨r, hr, mem_routineSlots.1 hx⟩
    · obtain ⟨slots, hm, hsub⟩ := collectGo_local_sub _ _ _ he
      obtain ⟨r, hr, hreq⟩ := List.mem_map.1 hm
      cases hreq
      exact ⟨r, hr, mem_routineSlots.1 (hsub s hl)⟩
  · rintro ⟨r, hr, hu⟩
    have hx : (r.1, routineSlots r.2) ∈ routineSets p := List.mem_map.2 ⟨r, hr, rfl⟩
    obtain ⟨pre, post, hsplit⟩ := List.append_of_mem hx
    by_cases hother : ∃ e ∈ pre ++ post, s ∈ e.2
    · obtain ⟨e, he, hse⟩ := hother
      exact Or.inl ((collectGo_global _ _ _ _).2 (Or.inr ⟨pre, _, post, hsplit, mem_routineSlots.2 hu,
        e, by simpa using he, hse⟩))
    · obtain ⟨L, hL, hmem⟩ := collectGo_locals (routineSets p) [] [] (by simp) pre r.1 _ post hsplit
      refine Or.inr ⟨L, ⟨(r.1, L), List.mem_of_getElem? hL, rfl⟩, (hmem s).2 ⟨mem_routineSlots.2 hu, ?_⟩⟩
      intro e he hse
      exact hother ⟨e, by simpa using he, hse⟩

theorem nodup_allSlots (p : Program) : (allSlots p).Nodup :=
  nodup_union (collectGo_global_nodup _ _ _ List.nodup_nil)


/-! ## `slotAssignments[slot]` and the rewriting of the ops -/

theorem lookupSlot_ok_mem {asg : List (Slot × Nat)} {s : Slot} {n : Nat}
    (h : lookupSlot asg s = .ok n) : (s, n) ∈ asg := by
  unfold lookupSlot at h
  split at h
  · rename_i e he
    cases h
    have h1 := List.find?_some he
    have h2 := List.mem_of_find?_eq_some he
    simp only [decide_eq_true_eq] at h1
    rw [← h1]; exact h2
  · cases h

theorem lookupSlot_of_mem_keys {asg : List (Slot × Nat)} {s : Slot} (h : s ∈ asg.map (·.1)) :
    ∃ n, lookupSlot asg s = .ok n := by
  unfold lookupSlot
  split
  · exact ⟨_, rfl⟩
  · rename_i hnone
    obtain ⟨e, he, rfl⟩ := List.mem_map.1 h
    have := List.find?_eq_none.1 hnone e he
    simp at this

theorem number_eq_some {r : Result} {s : Slot} {n : Nat} :
    r.number s = some n ↔ lookupSlot r.assignment s = .ok n := by
  unfold Result.number lookupSlot
  cases r.assignment.find? (fun e => decide (e.1 = s)) with
  | none => simp
  | some e => simp

/-- the number of a slot object under an assignment (0 for objects the assignment does not know;
    never used for those, see `assign_rewrites_all_uses`) -/
def numOf (asg : List (Slot × Nat)) (s : Slot) : Nat :=
  match lookupSlot asg s with
  | .ok n => n
  | .error _ => 0

theorem numOf_eq {asg : List (Slot × Nat)} {s : Slot} {n : Nat} (h : lookupSlot asg s = .ok n) :
    numOf asg s = n := by simp [numOf, h]

/-- replace every slot-object argument by `f slot`, keep everything else -/
def substArg (f : Slot → Nat) : Arg → Arg
  | .slot s => .imm (f s)
  | .imm n => .imm n

def substOp (f : Slot → Nat) (op : Op) : Op := { kind := op.kind, args := op.args.map (substArg f) }

def substProgram (f : Slot → Nat) (p : Program) : Program := p.map (fun r => (r.1, r.2.map (substOp f)))

theorem rewriteArgs_ok (asg : List (Slot × Nat)) (args : List Arg)
    (h : ∀ s, Arg.slot s ∈ args → ∃ n, lookupSlot asg s = .ok n) :
    rewriteArgs asg args = .ok (args.map (substArg (numOf asg))) := by
  induction args with
  | nil => rfl
  | cons a rest ih =>
    have ih := ih (fun s hs => h s (List.mem_cons_of_mem _ hs))
    cases a with
    | imm n => simp [rewriteArgs, ih, substArg, bind, Except.bind, pure, Except.pure]
    | slot s =>
      obtain ⟨n, hn⟩ := h s List.mem_cons_self
      simp [rewriteArgs, ih, substArg, hn, numOf_eq hn, bind, Except.bind, pure, Except.pure]

theorem rewriteOps_ok (asg : List (Slot × Nat)) (ops : List Op)
    (h : ∀ s, Uses ops s → ∃ n, lookupSlot asg s = .ok n) :
    rewriteOps asg ops = .ok (ops.map (substOp (numOf asg))) := by
  induction ops with
  | nil => rfl
  | cons op rest ih =>
    have ih := ih (fun s ⟨o, ho, hs⟩ => h s ⟨o, List.mem_cons_of_mem _ ho, hs⟩)
    have ha := rewriteArgs_ok asg op.args (fun s hs => h s ⟨op, List.mem_cons_self, hs⟩)
    simp [rewriteOps, ih, ha, substOp, bind, Except.bind, pure, Except.pure]

theorem rewriteProgram_ok (asg : List (Slot × Nat)) (p : Program)
    (h : ∀ r ∈ p, ∀ s, Uses r.2 s → ∃ n, lookupSlot asg s = .ok n) :
    rewriteProgram asg p = .ok (substProgram (numOf asg) p) := by
  induction p with
  | nil => rfl
  | cons r rest ih =>
    obtain ⟨k, ops⟩ := r
    have ih := ih (fun r hr => h r (List.mem_cons_of_mem _ hr))
    have ho := rewriteOps_ok asg ops (h (k, ops) List.mem_cons_self)
    simp [rewriteProgram, ih, ho, substProgram, bind, Except.bind, pure, Except.pure] at *

theorem lookupAll_ok (asg : List (Slot × Nat)) (l : List Slot)
    (h : ∀ s ∈ l, ∃ n, lookupSlot asg s = .ok n) :
    lookupAll asg l = .ok (l.map (numOf asg)) := by
  induction l with
  | nil => rfl
  | cons s rest ih =>
    have ih := ih (fun t ht => h t (List.mem_cons_of_mem _ ht))
    obtain ⟨n, hn⟩ := h s List.mem_cons_self
    simp [lookupAll, ih, hn, numOf_eq hn, bind, Except.bind, pure, Except.pure]

/-- the returned dict: per routine the set of numbers of its local slots -/
def localNumbers (asg : List (Slot × Nat)) (locals : List Entry) : List (Key × List Nat) :=
  locals.map (fun e => (e.1, dedup (e.2.map (numOf asg))))

theorem assignedLocals_ok (asg : List (Slot × Nat)) (locals : List Entry)
    (h : ∀ e ∈ locals, ∀ s ∈ e.2, ∃ n, lookupSlot asg s = .ok n) :
    assignedLocals asg locals = .ok (localNumbers asg locals) := by
  induction locals with
  | nil => rfl
  | cons e rest ih =>
    obtain ⟨k, slots⟩ := e
    have ih := ih (fun e he => h e (List.mem_cons_of_mem _ he))
    have hl := lookupAll_ok asg slots (h (k, slots) List.mem_cons_self)
    simp [assignedLocals, ih, hl, localNumbers, bind, Except.bind, pure, Except.pure] at *

/-! ## assignScratchSlotsToSubroutines as a whole -/

/-- what is assumed of `sorted(allSlots, key=id)`: it returns the same objects -/
def IsReorder (sortf : List Slot → List Slot) : Prop := ∀ l, (sortf l).Perm l

theorem insertById_perm (x : Slot) (l : List Slot) : (insertById x l).Perm (x :: l) := by
  induction l with
  | nil => exact List.Perm.refl _
  | cons y l ih =>
    simp only [insertById]
    split
    · exact List.Perm.refl _
    · exact ((List.Perm.cons y ih).trans (List.Perm.swap x y l))

theorem sortById_isReorder : IsReorder sortById := fun l => by
  induction l with
  | nil => exact List.Perm.refl _
  | cons x l ih =>
    simp only [sortById, List.foldr_cons] at *
    exact (insertById_perm x _).trans (List.Perm.cons x ih)

theorem insertById_sorted (x : Slot) (l : List Slot) (h : l.Pairwise (fun a b => a.id ≤ b.id)) :
    (insertById x l).Pairwise (fun a b => a.id ≤ b.id) := by
  induction l with
  | nil => simp [insertById]
  | cons y l ih =>
    rw [List.pairwise_cons] at h
    simp only [insertById]
    split
    · rename_i hle
      refine List.pairwise_cons.2 ⟨fun b hb => ?_, List.pairwise_cons.2 h⟩
      rcases List.mem_cons.1 hb with rfl | hb
      · exact hle
      · exact Nat.le_trans hle (h.1 b hb)
    · rename_i hnle
      refine List.pairwise_cons.2 ⟨fun b hb => ?_, ih h.2⟩
      rcases List.mem_cons.1 ((insertById_perm x l).mem_iff.1 hb) with rfl | hb
      · omega
      · exact h.1 b hb

/-- the numbering loop visits the slots by increasing id -/
theorem sortById_sorted (l : List Slot) : (sortById l).Pairwise (fun a b => a.id ≤ b.id) := by
  induction l with
  | nil => simp [sortById]
  | cons x l ih => exact insertById_sorted x _ ih

theorem local_mem_allSlots {p : Program} {e : Entry} (he : e ∈ (collectSlots p).2) {s : Slot}
    (hs : s ∈ e.2) : s ∈ allSlots p := by
  obtain ⟨k, L⟩ := e
  obtain ⟨slots, hm, hsub⟩ := collectGo_local_sub _ _ _ he
  obtain ⟨r, hr, hreq⟩ := List.mem_map.1 hm
  cases hreq
  exact mem_allSlots.2 ⟨r, hr, mem_routineSlots.1 (hsub s hs)⟩

theorem resolvable {sortf : List Slot → List Slot} (hs : IsReorder sortf) (p : Program) (ids : List Nat)
    {s : Slot} (h : s ∈ allSlots p) :
    ∃ n, lookupSlot (numberLoop ids (sortf (allSlots p))) s = .ok n := by
  apply lookupSlot_of_mem_keys
  rw [numberLoop, numberGo_fst]
  exact (hs _).mem_iff.2 h

/-- the function unfolded: the checks in the order of the code, then the three results -/
theorem assignWith_ok_iff {sortf : List Slot → List Slot} (hs : IsReorder sortf) (p : Program) (r : Result) :
    assignWith sortf p = .ok r ↔
      ∃ ids, reservedIdsCheck (allSlots p) [] = .ok ids ∧ (allSlots p).length ≤ NUM_SLOTS ∧
        validateAll (collectSlots p).1 p = true ∧
        r = { assignment := numberLoop ids (sortf (allSlots p)),
              program := substProgram (numOf (numberLoop ids (sortf (allSlots p)))) p,
              localSets := localNumbers (numberLoop ids (sortf (allSlots p))) (collectSlots p).2 } := by
  cases hc : reservedIdsCheck (allSlots p) [] with
  | error e => simp [assignWith, hc]
  | ok ids =>
    have h1 := rewriteProgram_ok (numberLoop ids (sortf (allSlots p))) p
      (fun r hr s hu => resolvable hs p ids (mem_allSlots.2 ⟨r, hr, hu⟩))
    have h2 := assignedLocals_ok (numberLoop ids (sortf (allSlots p))) (collectSlots p).2
      (fun e he s hse => resolvable hs p ids (local_mem_allSlots he hse))
    simp only [assignWith, hc, h1, h2]
    by_cases hlen : (allSlots p).length > NUM_SLOTS
    · simp only [hlen, if_true]
      constructor
      · intro h; cases h
      · rintro ⟨ids', h, hle, _⟩; omega
    · simp only [hlen, if_false]
      cases hv : validateAll (collectSlots p).1 p with
      | false => simp
      | true =>
        simp only [Bool.true_eq_false, if_false, Except.ok.injEq]
        constructor
        · intro h; exact ⟨ids, rfl, by omega, trivial, h.symm⟩
        · rintro ⟨ids', h, _, _, hr⟩
          cases h; exact hr.symm

theorem assignWith_error {sortf : List Slot → List Slot} (hs : IsReorder sortf) (p : Program) (e : Err) :
    assignWith sortf p = .error e ↔
      (e = .dupRequested ∧ ¬ ReservedDistinct (allSlots p)) ∨
      (e = .tooMany (allSlots p).length ∧ ReservedDistinct (allSlots p) ∧ (allSlots p).length > NUM_SLOTS) ∨
      (e = .loadBeforeStore ∧ ReservedDistinct (allSlots p) ∧ (allSlots p).length ≤ NUM_SLOTS ∧
        validateAll (collectSlots p).1 p = false) := by
  have hdist : (∃ out, reservedIdsCheck (allSlots p) [] = .ok out) ↔ ReservedDistinct (allSlots p) := by
    rw [reservedIdsCheck_ok_iff, rids_nodup_iff (nodup_allSlots p)]
    simp
  cases hc : reservedIdsCheck (allSlots p) [] with
  | error e' =>
    have he' := reservedIdsCheck_err hc
    subst he'
    simp only [assignWith, hc]
    have hnd : ¬ ReservedDistinct (allSlots p) := fun h => by
      obtain ⟨out, ho⟩ := hdist.2 h
      rw [hc] at ho; cases ho
    simp only [Except.error.injEq]
    constructor
    · intro h; exact Or.inl ⟨h.symm, hnd⟩
    · rintro (⟨h, _⟩ | ⟨_, h, _⟩ | ⟨_, h, _⟩)
      · exact h.symm
      · exact absurd h hnd
      · exact absurd h hnd
  | ok ids =>
    have hd : ReservedDistinct (allSlots p) := hdist.1 ⟨ids, hc⟩
    have h1 := rewriteProgram_ok (numberLoop ids (sortf (allSlots p))) p
      (fun r hr s hu => resolvable hs p ids (mem_allSlots.2 ⟨r, hr, hu⟩))
    have h2 := assignedLocals_ok (numberLoop ids (sortf (allSlots p))) (collectSlots p).2
      (fun e he s hse => resolvable hs p ids (local_mem_allSlots he hse))
    simp only [assignWith, hc, h1, h2]
    by_cases hlen : (allSlots p).length > NUM_SLOTS
    · simp only [hlen, if_true, Except.error.injEq]
      constructor
      · intro h; exact Or.inr (Or.inl ⟨h.symm, hd, trivial⟩)
      · rintro (⟨_, h⟩ | ⟨h, _⟩ | ⟨_, _, h, _⟩)
        · exact absurd hd h
        · exact h.symm
        · omega
    · simp only [hlen, if_false]
      cases hv : validateAll (collectSlots p).1 p with
      | false =>
        simp only [if_true, Except.error.injEq]
        constructor
        · intro h; exact Or.inr (Or.inr ⟨h.symm, hd, by omega, trivial⟩)
        · rintro (⟨_, h⟩ | ⟨_, _, h⟩ | ⟨h, _⟩)
          · exact absurd hd h
          · exact h.elim
          · exact h.symm
      | true =>
        simp only [Bool.true_eq_false, if_false]
        constructor
        · intro h; cases h
        · rintro (⟨_, h⟩ | ⟨_, _, h⟩ | ⟨_, _, _, h⟩)
          · exact absurd hd h
          · exact h.elim
          · cases h


/-! ## validateSlots (straight-line routines) -/

/-- no `load` op reads a slot object that is neither in `inUse` nor the argument of an earlier
    `store` op of the same routine -/
def NoLoadBeforeStore (inUse : List Slot) (ops : List Op) : Prop :=
  ∀ pre op post, ops = pre ++ op :: post → op.kind = .load → ∀ s, Arg.slot s ∈ op.args →
    s ∈ inUse ∨ ∃ op' ∈ pre, op'.kind = .store ∧ Arg.slot s ∈ op'.args

theorem validateOps_eq_zero_iff (inUse : List Slot) (ops : List Op) :
    validateOps inUse ops = 0 ↔ NoLoadBeforeStore inUse ops := by
  induction ops generalizing inUse with
  | nil =>
    simp only [validateOps, NoLoadBeforeStore, true_iff]
    intro pre op post h; cases pre <;> simp at h
  | cons op rest ih =>
    simp only [validateOps, Nat.add_eq_zero_iff, ih]
    constructor
    · rintro ⟨herr, hrest⟩ pre op2 post hsplit hload s hs
      cases pre with
      | nil =>
        simp only [List.nil_append, List.cons.injEq] at hsplit
        obtain ⟨rfl, rfl⟩ := hsplit
        have hns : ¬ op.kind = .store := by rw [hload]; decide
        simp only [hload, if_true, List.length_eq_zero_iff, List.filter_eq_nil_iff,
          decide_eq_true_eq, Decidable.not_not] at herr
        exact Or.inl (herr s (mem_opSlots.2 hs))
      | cons y pre =>
        simp only [List.cons_append, List.cons.injEq] at hsplit
        obtain ⟨rfl, rfl⟩ := hsplit
        rcases hrest pre op2 post rfl hload s hs with h | ⟨op', hop', hk, ha⟩
        · by_cases hst : op.kind = .store
          · simp only [hst, if_true, List.mem_append, List.mem_reverse] at h
            rcases h with h | h
            · exact Or.inr ⟨op, List.mem_cons_self, hst, mem_opSlots.1 h⟩
            · exact Or.inl h
          · simp only [hst, if_false] at h
            exact Or.inl h
        · exact Or.inr ⟨op', List.mem_cons_of_mem _ hop', hk, ha⟩
    · intro h
      constructor
      · by_cases hload : op.kind = .load
        · have hns : ¬ op.kind = .store := by rw [hload]; decide
          simp only [hload, if_true, List.length_eq_zero_iff, List.filter_eq_nil_iff,
            decide_eq_true_eq, Decidable.not_not]
          intro s hs
          rcases h [] op rest rfl hload s (mem_opSlots.1 hs) with h | ⟨_, h, _⟩
          · exact h
          · cases h
        · simp [hload]
      · intro pre op2 post hsplit hload s hs
        rcases h (op :: pre) op2 post (by simp [hsplit]) hload s hs with h | ⟨op', hop', hk, ha⟩
        · left
          by_cases hst : op.kind = .store <;> simp [hst, h]
        · rcases List.mem_cons.1 hop' with rfl | hop'
          · left; simp [hk, mem_opSlots.2 ha]
          · exact Or.inr ⟨op', hop', hk, ha⟩

theorem validateAll_iff (g : List Slot) (p : Program) :
    validateAll g p = true ↔ ∀ r ∈ p, NoLoadBeforeStore g r.2 := by
  simp [validateAll, List.all_eq_true, validateOps_eq_zero_iff]

/-! ## The property theorems

  Everything below is about `assignSlots p` (`assignScratchSlotsToSubroutines` on the program
  `p`); the `assignWith_…` forms hold for any `sortf` that merely returns the same objects, which
  covers whatever order CPython iterates the set `allSlots` in. -/

/-- the slot object `s` is referenced by some op (load, store, int or other) of some routine -/
def Referenced (p : Program) (s : Slot) : Prop := ∃ r ∈ p, Uses r.2 s

theorem mem_allSlots_iff_referenced {p : Program} {s : Slot} : s ∈ allSlots p ↔ Referenced p s :=
  mem_allSlots

/-- `len(allSlots)` is the number of distinct slot objects referenced -/
theorem allSlots_count (p : Program) (l : List Slot) (hl : l.Nodup) (h : ∀ s, s ∈ l ↔ Referenced p s) :
    l.length = (allSlots p).length :=
  ((List.perm_ext_iff_of_nodup hl (nodup_allSlots p)).2 (fun s => by rw [h]; exact mem_allSlots.symm)).length_eq

section Main
variable {sortf : List Slot → List Slot} (hs : IsReorder sortf) {p : Program} {r : Result}
include hs

theorem ok_facts (h : assignWith sortf p = .ok r) :
    ∃ ids, reservedIdsCheck (allSlots p) [] = .ok ids ∧ (allSlots p).length ≤ NUM_SLOTS ∧
      r.assignment = numberGo 0 ids (sortf (allSlots p)) ∧
      r.program = substProgram (numOf r.assignment) p ∧
      r.localSets = localNumbers r.assignment (collectSlots p).2 := by
  obtain ⟨ids, h1, h2, _, rfl⟩ := (assignWith_ok_iff hs p r).1 h
  exact ⟨ids, h1, h2, rfl, rfl, rfl⟩

theorem number_mem (h : assignWith sortf p = .ok r) {s : Slot} {n : Nat} (hn : r.number s = some n) :
    s ∈ allSlots p := by
  obtain ⟨ids, _, _, hasg, _⟩ := ok_facts hs h
  have := List.mem_map_of_mem (f := (·.1)) (lookupSlot_ok_mem (number_eq_some.1 hn))
  rw [hasg, numberGo_fst] at this
  exact (hs _).mem_iff.1 this

/-- every referenced slot object gets a number, and only those -/
theorem assignWith_defined (h : assignWith sortf p = .ok r) (s : Slot) :
    Referenced p s ↔ ∃ n, r.number s = some n := by
  constructor
  · intro hr
    obtain ⟨ids, _, _, hasg, _⟩ := ok_facts hs h
    obtain ⟨n, hn⟩ := resolvable hs p ids (mem_allSlots.2 hr)
    exact ⟨n, number_eq_some.2 (by rw [hasg]; exact hn)⟩
  · rintro ⟨n, hn⟩
    exact mem_allSlots.1 (number_mem hs h hn)

theorem assignWith_injective (h : assignWith sortf p = .ok r) {s₁ s₂ : Slot} {n₁ n₂ : Nat}
    (h₁ : r.number s₁ = some n₁) (h₂ : r.number s₂ = some n₂) (hne : s₁ ≠ s₂) : n₁ ≠ n₂ := by
  obtain ⟨ids, hchk, _, hasg, _⟩ := ok_facts hs h
  have hperm := hs (allSlots p)
  have hnd : (sortf (allSlots p)).Nodup := hperm.nodup_iff.2 (nodup_allSlots p)
  have hdist : ReservedDistinct (allSlots p) := by
    have := (reservedIdsCheck_ok_iff (allSlots p) []).1 ⟨ids, hchk⟩
    exact (rids_nodup_iff (nodup_allSlots p)).1 this.1
  have hids : ∀ s ∈ sortf (allSlots p), s.reserved = true → s.id ∈ ids := by
    intro s hsm hr
    rw [(reservedIdsCheck_ok_spec hchk).1]
    right
    exact List.mem_map.2 ⟨s, List.mem_filter.2 ⟨hperm.mem_iff.1 hsm, hr⟩, rfl⟩
  have hnum := numberGo_nodup 0 ids (sortf (allSlots p)) hids
    (pairwise_of_reservedDistinct hnd ((reservedDistinct_perm hperm).2 hdist))
  have m₁ := lookupSlot_ok_mem (number_eq_some.1 h₁)
  have m₂ := lookupSlot_ok_mem (number_eq_some.1 h₂)
  rw [hasg] at m₁ m₂
  intro heq
  have := eq_of_nodup_map hnum m₁ m₂ heq
  exact hne (congrArg Prod.fst this)

theorem assignWith_respects_requested (h : assignWith sortf p = .ok r) {s : Slot}
    (href : Referenced p s) (hres : s.reserved = true) : r.number s = some s.id := by
  obtain ⟨n, hn⟩ := (assignWith_defined hs h s).1 href
  obtain ⟨ids, _, _, hasg, _⟩ := ok_facts hs h
  have m := lookupSlot_ok_mem (number_eq_some.1 hn)
  rw [hasg] at m
  rw [hn, numberGo_reserved m hres]

theorem assignWith_in_range (h : assignWith sortf p = .ok r)
    (hreq : ∀ s, Referenced p s → s.reserved = true → s.id < NUM_SLOTS)
    {s : Slot} {n : Nat} (hn : r.number s = some n) : n < NUM_SLOTS := by
  obtain ⟨ids, hchk, hlen, hasg, _⟩ := ok_facts hs h
  have hperm := hs (allSlots p)
  have m := lookupSlot_ok_mem (number_eq_some.1 hn)
  rw [hasg] at m
  cases hres : s.reserved with
  | true =>
    rw [numberGo_reserved m hres]
    exact hreq s (mem_allSlots.1 (number_mem hs h hn)) hres
  | false =>
    refine numberGo_range NUM_SLOTS 0 ids (sortf (allSlots p)) (fun m hm => by omega) ?_ m hres
    have hl := (reservedIdsCheck_ok_spec hchk).2
    simp only [List.length_nil, Nat.zero_add, rids, List.length_map] at hl
    rw [← List.countP_eq_length_filter] at hl
    rw [hperm.countP_eq]
    have := List.length_eq_countP_add_countP (fun s : Slot => s.reserved) (l := allSlots p)
    have heq : (allSlots p).countP (fun a => decide ¬a.reserved = true) =
        (allSlots p).countP (fun s => !s.reserved) := by
      congr 1; funext a; cases a.reserved <;> simp
    omega

theorem assignWith_total_iff :
    (∃ r, assignWith sortf p = .ok r) ↔
      (allSlots p).length ≤ NUM_SLOTS ∧ ReservedDistinct (allSlots p) ∧
        ∀ rt ∈ p, NoLoadBeforeStore (collectSlots p).1 rt.2 := by
  have hdist : (∃ out, reservedIdsCheck (allSlots p) [] = .ok out) ↔ ReservedDistinct (allSlots p) := by
    rw [reservedIdsCheck_ok_iff, rids_nodup_iff (nodup_allSlots p)]
    simp
  rw [← validateAll_iff, ← hdist]
  constructor
  · rintro ⟨r, h⟩
    obtain ⟨ids, h1, h2, h3, _⟩ := (assignWith_ok_iff hs p r).1 h
    exact ⟨h2, ⟨ids, h1⟩, h3⟩
  · rintro ⟨h2, ⟨ids, h1⟩, h3⟩
    exact ⟨_, (assignWith_ok_iff hs p _).2 ⟨ids, h1, h2, h3, rfl⟩⟩

theorem assignWith_rewrites_all_uses (h : assignWith sortf p = .ok r) :
    ∃ f : Slot → Nat, (∀ s, Referenced p s → r.number s = some (f s)) ∧ r.program = substProgram f p := by
  obtain ⟨ids, _, _, hasg, hprog, _⟩ := ok_facts hs h
  refine ⟨numOf r.assignment, fun s href => ?_, hprog⟩
  obtain ⟨n, hn⟩ := (assignWith_defined hs h s).1 href
  rw [hn, numOf_eq (number_eq_some.1 hn)]

theorem assignWith_local_sets_correct (h : assignWith sortf p = .ok r)
    (pre : Program) (k : Key) (ops : List Op) (post : Program) (hp : p = pre ++ (k, ops) :: post) :
    ∃ N, r.localSets[pre.length]? = some (k, N) ∧
      ∀ n, n ∈ N ↔ ∃ s, Uses ops s ∧ (∀ rt ∈ pre ++ post, ¬ Uses rt.2 s) ∧ r.number s = some n := by
  obtain ⟨ids, _, _, hasg, _, hloc⟩ := ok_facts hs h
  have hsplit : routineSets p = routineSets pre ++ (k, routineSlots ops) :: routineSets post := by
    simp [routineSets, hp]
  obtain ⟨L, hL, hmem⟩ := collectGo_locals (routineSets p) [] [] (by simp) _ k _ _ hsplit
  have hlen : (routineSets pre).length = pre.length := by simp [routineSets]
  rw [hlen, ← collectSlots_eq] at hL
  refine ⟨dedup (L.map (numOf r.assignment)), ?_, fun n => ?_⟩
  · rw [hloc, localNumbers, List.getElem?_map, hL]; rfl
  · have hothers : ∀ s, (∀ e ∈ [] ++ routineSets pre ++ routineSets post, s ∉ e.2) ↔
        ∀ rt ∈ pre ++ post, ¬ Uses rt.2 s := by
      intro s
      simp only [List.nil_append, routineSets, ← List.map_append, List.mem_map, forall_exists_index, and_imp]
      constructor
      · intro h rt hrt hu
        exact h _ rt hrt rfl (mem_routineSlots.2 hu)
      · rintro h e rt hrt rfl hse
        exact h rt hrt (mem_routineSlots.1 hse)
    simp only [mem_dedup, List.mem_map]
    constructor
    · rintro ⟨s, hsL, rfl⟩
      have hsm := (hmem s).1 hsL
      have href : Referenced p s := ⟨(k, ops), by simp [hp], mem_routineSlots.1 hsm.1⟩
      obtain ⟨n, hn⟩ := (assignWith_defined hs h s).1 href
      exact ⟨s, mem_routineSlots.1 hsm.1, (hothers s).1 hsm.2, by rw [hn, numOf_eq (number_eq_some.1 hn)]⟩
    · rintro ⟨s, hu, hno, hn⟩
      exact ⟨s, (hmem s).2 ⟨mem_routineSlots.2 hu, (hothers s).2 hno⟩, numOf_eq (number_eq_some.1 hn)⟩

/-- the returned dict has the keys of `subroutineBlocks`, in the same order -/
theorem assignWith_local_keys (h : assignWith sortf p = .ok r) :
    r.localSets.map (·.1) = p.map (·.1) := by
  obtain ⟨ids, _, _, _, _, hloc⟩ := ok_facts hs h
  rw [hloc, localNumbers, List.map_map]
  have := collectGo_keys [] (routineSets p) []
  rw [← collectSlots_eq] at this
  simp only [routineSets, List.map_map] at this
  simpa [Function.comp_def] using this

end Main

/-- a slot object is global iff two different entries of `subroutineBlocks` reference it -/
theorem global_sets_correct (p : Program) (s : Slot) :
    s ∈ (collectSlots p).1 ↔
      ∃ pre rt post, p = pre ++ rt :: post ∧ Uses rt.2 s ∧ ∃ rt' ∈ pre ++ post, Uses rt'.2 s := by
  rw [collectSlots_eq, collectGo_global]
  simp only [List.not_mem_nil, false_or, List.nil_append]
  constructor
  · rintro ⟨pre', x, post', hsplit, hx, e, he, hse⟩
    obtain ⟨pre, tl, rfl, rfl, htl⟩ := List.map_eq_append_iff.1 hsplit
    obtain ⟨rt, post, rfl, rfl, rfl⟩ := List.map_eq_cons_iff.1 htl
    rw [← List.map_append] at he
    obtain ⟨rt', hrt', rfl⟩ := List.mem_map.1 he
    exact ⟨pre, rt, post, rfl, mem_routineSlots.1 hx, rt', hrt', mem_routineSlots.1 hse⟩
  · rintro ⟨pre, rt, post, rfl, hu, rt', hrt', hu'⟩
    refine ⟨routineSets pre, (rt.1, routineSlots rt.2), routineSets post, by simp [routineSets],
      mem_routineSlots.2 hu, (rt'.1, routineSlots rt'.2), ?_, mem_routineSlots.2 hu'⟩
    simp only [routineSets, ← List.map_append]
    exact List.mem_map.2 ⟨rt', hrt', rfl⟩

/-! ### The statements for `assignScratchSlotsToSubroutines` itself -/

/-- the number of distinct slot objects the program references (`len(allSlots)`, see `allSlots_count`) -/
def slotCount (p : Program) : Nat := (allSlots p).length

/-- two *different* referenced slot objects never request the same id -/
def RequestedIdsDistinct (p : Program) : Prop :=
  ∀ s₁ s₂, Referenced p s₁ → Referenced p s₂ → s₁.reserved = true → s₂.reserved = true →
    s₁.id = s₂.id → s₁ = s₂

/-- in every routine, a `load` of a slot that only this routine references comes after a `store`
    to it in the same routine (`validateSlots`; slots referenced by two routines are exempt) -/
def StoresBeforeLoads (p : Program) : Prop := ∀ rt ∈ p, NoLoadBeforeStore (collectSlots p).1 rt.2

theorem reservedDistinct_iff (p : Program) : ReservedDistinct (allSlots p) ↔ RequestedIdsDistinct p := by
  simp only [ReservedDistinct, RequestedIdsDistinct, mem_allSlots, Referenced]
  constructor
  · intro h s₁ s₂ h₁ h₂; exact h s₁ h₁ s₂ h₂
  · intro h s₁ h₁ s₂ h₂; exact h s₁ s₂ h₁ h₂

variable {p : Program} {r : Result}

/-- every referenced slot object gets a number, nothing else does -/
theorem assign_defined (h : assignSlots p = .ok r) (s : Slot) :
    Referenced p s ↔ ∃ n, r.number s = some n := assignWith_defined sortById_isReorder h s

/-- C10: two different variables never share a slot — distinct slot objects get distinct numbers,
    for any number of routines and any mixture of requested and automatic ids -/
theorem assign_injective (h : assignSlots p = .ok r) {s₁ s₂ : Slot} {n₁ n₂ : Nat}
    (h₁ : r.number s₁ = some n₁) (h₂ : r.number s₂ = some n₂) (hne : s₁ ≠ s₂) : n₁ ≠ n₂ :=
  assignWith_injective sortById_isReorder h h₁ h₂ hne

/-- C10: an explicitly requested slot id is the slot actually used -/
theorem assign_respects_requested (h : assignSlots p = .ok r) {s : Slot}
    (href : Referenced p s) (hres : s.reserved = true) : r.number s = some s.id :=
  assignWith_respects_requested sortById_isReorder h href hres

/-- C10: every number is a real scratch slot.  Hypothesis: requested ids are below 256, which
    `ScratchSlot.__init__` enforces (TealInputError otherwise; checked by the harness). -/
theorem assign_in_range (h : assignSlots p = .ok r)
    (hreq : ∀ s, Referenced p s → s.reserved = true → s.id < NUM_SLOTS)
    {s : Slot} {n : Nat} (hn : r.number s = some n) : n < NUM_SLOTS :=
  assignWith_in_range sortById_isReorder h hreq hn

/-- C10, as the code really behaves: the assignment succeeds iff at most 256 slot objects are
    referenced, no two of them request the same id, **and** `validateSlots` finds no load before
    store of a routine-local slot (a third rejection the property text does not mention). -/
theorem assign_total_iff :
    (∃ r, assignSlots p = .ok r) ↔ slotCount p ≤ NUM_SLOTS ∧ RequestedIdsDistinct p ∧ StoresBeforeLoads p := by
  rw [← reservedDistinct_iff]
  exact assignWith_total_iff sortById_isReorder

theorem noLoadBeforeStore_mono {a b : List Slot} (hab : ∀ s ∈ a, s ∈ b) {ops : List Op}
    (h : NoLoadBeforeStore a ops) : NoLoadBeforeStore b ops := by
  intro pre op post hsplit hl s hs
  rcases h pre op post hsplit hl s hs with h | h
  · exact Or.inl (hab s h)
  · exact Or.inr h

/-- the statement of the property text: for programs that store to every variable before loading
    it (within each routine), success ⟺ (≤ 256 slots ∧ requested ids pairwise distinct) -/
theorem assign_total_iff_of_stores_first (hst : ∀ rt ∈ p, NoLoadBeforeStore [] rt.2) :
    (∃ r, assignSlots p = .ok r) ↔ slotCount p ≤ NUM_SLOTS ∧ RequestedIdsDistinct p := by
  rw [assign_total_iff]
  constructor
  · rintro ⟨h1, h2, _⟩; exact ⟨h1, h2⟩
  · rintro ⟨h1, h2⟩
    exact ⟨h1, h2, fun rt hrt => noLoadBeforeStore_mono (fun s hs => by cases hs) (hst rt hrt)⟩

/-- which error, in the order of the `raise` statements: duplicate requested id first, then the
    256 limit (reporting the number of slot objects), then load-before-store -/
theorem assign_error_iff (e : Err) :
    assignSlots p = .error e ↔
      (e = .dupRequested ∧ ¬ RequestedIdsDistinct p) ∨
      (e = .tooMany (slotCount p) ∧ RequestedIdsDistinct p ∧ slotCount p > NUM_SLOTS) ∨
      (e = .loadBeforeStore ∧ RequestedIdsDistinct p ∧ slotCount p ≤ NUM_SLOTS ∧ ¬ StoresBeforeLoads p) := by
  rw [← reservedDistinct_iff, StoresBeforeLoads, ← validateAll_iff, Bool.not_eq_true]
  exact assignWith_error sortById_isReorder p e

/-- `slotAssignments[slot]` never raises KeyError -/
theorem assign_no_keyError : assignSlots p ≠ .error .keyError := by
  intro h
  rcases (assign_error_iff _).1 h with ⟨h, _⟩ | ⟨h, _⟩ | ⟨h, _⟩ <;> cases h

/-- C10: every reference to the same slot object — `load`, `store` and the `int` op that
    `index()` / `DynamicScratchVar` use alike — is rewritten to the same number, which is the
    number of the assignment; nothing else in the program changes -/
theorem assign_rewrites_all_uses (h : assignSlots p = .ok r) :
    ∃ f : Slot → Nat, (∀ s, Referenced p s → r.number s = some (f s)) ∧ r.program = substProgram f p :=
  assignWith_rewrites_all_uses sortById_isReorder h

/-- the returned local sets: for the routine at any position of the dict, the reported numbers
    are exactly the numbers of the slot objects that this routine references and no other does -/
theorem local_sets_correct (h : assignSlots p = .ok r)
    (pre : Program) (k : Key) (ops : List Op) (post : Program) (hp : p = pre ++ (k, ops) :: post) :
    ∃ N, r.localSets[pre.length]? = some (k, N) ∧
      ∀ n, n ∈ N ↔ ∃ s, Uses ops s ∧ (∀ rt ∈ pre ++ post, ¬ Uses rt.2 s) ∧ r.number s = some n :=
  assignWith_local_sets_correct sortById_isReorder h pre k ops post hp

theorem local_keys_correct (h : assignSlots p = .ok r) : r.localSets.map (·.1) = p.map (·.1) :=
  assignWith_local_keys sortById_isReorder h

/-- consequence used by `spillLocalSlotsDuringRecursion`: local sets of different routines are disjoint -/
theorem local_sets_disjoint (h : assignSlots p = .ok r)
    (pre : Program) (k₁ : Key) (ops₁ : List Op) (mid : Program) (k₂ : Key) (ops₂ : List Op) (post : Program)
    (hp : p = pre ++ (k₁, ops₁) :: mid ++ (k₂, ops₂) :: post)
    {N₁ N₂ : List Nat} (h₁ : r.localSets[pre.length]? = some (k₁, N₁))
    (h₂ : r.localSets[pre.length + 1 + mid.length]? = some (k₂, N₂)) {n : Nat} (hn₁ : n ∈ N₁) : n ∉ N₂ := by
  intro hn₂
  obtain ⟨N₁', e₁, m₁⟩ := local_sets_correct h pre k₁ ops₁ (mid ++ (k₂, ops₂) :: post) (by simp [hp])
  obtain ⟨N₂', e₂, m₂⟩ := local_sets_correct h (pre ++ (k₁, ops₁) :: mid) k₂ ops₂ post (by simp [hp])
  have hl : (pre ++ (k₁, ops₁) :: mid).length = pre.length + 1 + mid.length := by simp; omega
  rw [hl] at e₂
  rw [h₁] at e₁; rw [h₂] at e₂
  cases e₁; cases e₂
  obtain ⟨s₁, hu₁, hno₁, hs₁⟩ := (m₁ n).1 hn₁
  obtain ⟨s₂, hu₂, _, hs₂⟩ := (m₂ n).1 hn₂
  by_cases hss : s₁ = s₂
  · subst hss
    exact hno₁ (k₂, ops₂) (by simp) hu₂
  · exact assign_injective h hs₁ hs₂ hss rfl

/-! ### alloc_abstract_var -/

/-- at most 128 frame locals, then scratch: the `i`-th of `m` successive allocations in a proto
    that already has `n` locals is frame local `n+i` while `n+i < 128`, a scratch variable after -/
theorem frame_local_cap (m n i : Nat) (hi : i < m) :
    (allocMany m (some n))[i]? =
      some (if n + i < MAX_FRAME_LOCAL_VARS then .frame (n + i) else .scratch) := by
  induction m generalizing n i with
  | zero => omega
  | succ m ih =>
    by_cases hn : n + 1 ≤ MAX_FRAME_LOCAL_VARS
    · cases i with
      | zero =>
        have : n < MAX_FRAME_LOCAL_VARS := by omega
        simp [allocMany, allocAbstractVar, hn, this]
      | succ i =>
        have := ih (n + 1) i (by omega)
        simp only [allocMany, allocAbstractVar, hn, if_true, List.getElem?_cons_succ, this]
        have e : n + 1 + i = n + (i + 1) := by omega
        rw [e]
    · cases i with
      | zero =>
        have : ¬ n < MAX_FRAME_LOCAL_VARS := by omega
        simp [allocMany, allocAbstractVar, hn, this]
      | succ i =>
        have := ih n i (by omega)
        have h1 : ¬ n + i < MAX_FRAME_LOCAL_VARS := by omega
        have h2 : ¬ n + (i + 1) < MAX_FRAME_LOCAL_VARS := by omega
        simp only [h1, if_false] at this
        simp only [allocMany, allocAbstractVar, hn, if_false, List.getElem?_cons_succ, this, h2]

/-- every frame index handed out fits the one-byte SIGNED immediate of `frame_dig` / `frame_bury` (at most 127), whatever number of
    cells the proto already holds (the reserved output cell of an ABI routine included) and however many allocations follow -/
theorem frame_index_fits (m n : Nat) (k : Nat) (h : VarAlloc.frame k ∈ allocMany m (some n)) : n ≤ k ∧ k ≤ 127 := by
  obtain ⟨i, hi, hget⟩ := List.getElem_of_mem h
  have hlen : i < m := by
    have : (allocMany m (some n)).length = m := by
      clear h hget hi
      induction m generalizing n with
      | zero => simp [allocMany]
      | succ m ih =>
        by_cases hn : n + 1 ≤ MAX_FRAME_LOCAL_VARS <;> simp [allocMany, allocAbstractVar, hn, ih]
    omega
  have := frame_local_cap m n i hlen
  rw [List.getElem?_eq_getElem hi, hget] at this
  by_cases hc : n + i < MAX_FRAME_LOCAL_VARS
  · simp only [hc, if_true, Option.some.injEq, VarAlloc.frame.injEq] at this
    subst this
    simp only [MAX_FRAME_LOCAL_VARS] at hc
    omega
  · simp [hc] at this

/-- outside a subroutine evaluation (no current proto) every allocation is a scratch variable -/
theorem alloc_without_proto (m i : Nat) (hi : i < m) : (allocMany m none)[i]? = some .scratch := by
  induction m generalizing i with
  | zero => omega
  | succ m ih =>
    cases i with
    | zero => simp [allocMany, allocAbstractVar]
    | succ i => simpa [allocMany, allocAbstractVar] using ih i (by omega)

/-! ### Non-vacuity: concrete programs -/

deriving instance DecidableEq for Except

/-- main + two subroutines; requested ids 0 and 5, automatic ids 256, 257, 300 (one shared by
    main and subroutine 0), an `index()` use and a two-slot op -/
def exProg : Program :=
  [ (some 0, [⟨.store, [.slot ⟨2, 300, false⟩]⟩, ⟨.load, [.slot ⟨2, 300, false⟩]⟩,
              ⟨.store, [.slot ⟨3, 0, true⟩]⟩, ⟨.store, [.slot ⟨4, 257, false⟩]⟩]),
    (none,   [⟨.store, [.slot ⟨0, 256, false⟩]⟩, ⟨.other, []⟩, ⟨.load, [.slot ⟨0, 256, false⟩]⟩,
              ⟨.store, [.slot ⟨1, 5, true⟩]⟩, ⟨.int, [.slot ⟨1, 5, true⟩]⟩, ⟨.int, [.imm 7]⟩,
              ⟨.load, [.slot ⟨2, 300, false⟩]⟩]),
    (some 1, [⟨.store, [.slot ⟨5, 1, false⟩, .slot ⟨6, 1, false⟩]⟩]) ]

theorem exProg_ok : assignSlots exProg = .ok
    { assignment := [(⟨3, 0, true⟩, 0), (⟨5, 1, false⟩, 1), (⟨6, 1, false⟩, 2), (⟨1, 5, true⟩, 5),
                     (⟨0, 256, false⟩, 3), (⟨4, 257, false⟩, 4), (⟨2, 300, false⟩, 6)],
      program :=
        [ (some 0, [⟨.store, [.imm 6]⟩, ⟨.load, [.imm 6]⟩, ⟨.store, [.imm 0]⟩, ⟨.store, [.imm 4]⟩]),
          (none,   [⟨.store, [.imm 3]⟩, ⟨.other, []⟩, ⟨.load, [.imm 3]⟩, ⟨.store, [.imm 5]⟩,
                    ⟨.int, [.imm 5]⟩, ⟨.int, [.imm 7]⟩, ⟨.load, [.imm 6]⟩]),
          (some 1, [⟨.store, [.imm 1, .imm 2]⟩]) ],
      localSets := [(some 0, [0, 4]), (none, [3, 5]), (some 1, [1, 2])] } := by decide

/-- the hypotheses of the theorems are satisfiable: the example succeeds, has requested and
    automatic slots, shared and local ones -/
example : (∃ r, assignSlots exProg = .ok r) ∧ slotCount exProg = 7 ∧
    (collectSlots exProg).1 = [⟨2, 300, false⟩] ∧
    (∀ s, Referenced exProg s → s.reserved = true → s.id < NUM_SLOTS) := by
  refine ⟨⟨_, exProg_ok⟩, by decide, by decide, fun s hs => ?_⟩
  have key : ∀ s ∈ allSlots exProg, s.reserved = true → s.id < NUM_SLOTS := by decide
  exact key s (mem_allSlots.2 hs)

/-- two different objects requesting id 5 (one per routine): rejected, and before the count check -/
example : assignSlots [(none, [⟨.store, [.slot ⟨0, 5, true⟩]⟩]), (some 0, [⟨.store, [.slot ⟨1, 5, true⟩]⟩])]
    = .error .dupRequested := by decide

/-- the *same* object requesting id 5 used twice is fine, and is global -/
example : (assignSlots [(none, [⟨.store, [.slot ⟨0, 5, true⟩]⟩]), (some 0, [⟨.load, [.slot ⟨0, 5, true⟩]⟩])]).toOption.map
    (·.assignment) = some [(⟨0, 5, true⟩, 5)] := by decide

/-- a routine-local load before any store -/
example : assignSlots [(none, [⟨.load, [.slot ⟨0, 256, false⟩]⟩])] = .error .loadBeforeStore := by decide

/-- `n` automatic slots stored in the main routine -/
def manySlots (n : Nat) : Program :=
  [(none, (List.range n).map (fun i => ⟨.store, [.slot ⟨i, 256 + i, false⟩]⟩))]

theorem referenced_manySlots (n : Nat) (s : Slot) :
    Referenced (manySlots n) s ↔ ∃ i, i < n ∧ s = ⟨i, 256 + i, false⟩ := by
  simp only [Referenced, Uses, manySlots, List.mem_cons, List.not_mem_nil, or_false, exists_eq_left,
    List.mem_map, List.mem_range]
  constructor
  · rintro ⟨op, ⟨i, hi, rfl⟩, hs⟩
    simp only [List.mem_cons, Arg.slot.injEq, List.not_mem_nil, or_false] at hs
    exact ⟨i, hi, hs⟩
  · rintro ⟨i, hi, rfl⟩
    exact ⟨_, ⟨i, hi, rfl⟩, by simp⟩

theorem slotCount_manySlots (n : Nat) : slotCount (manySlots n) = n := by
  have h := allSlots_count (manySlots n) ((List.range n).map (fun i => (⟨i, 256 + i, false⟩ : Slot)))
    (by
      rw [List.Nodup, List.pairwise_map]
      exact List.nodup_range.imp (fun hne heq => hne (congrArg Slot.obj heq)))
    (fun s => by
      rw [referenced_manySlots]
      simp only [List.mem_map, List.mem_range]
      exact ⟨fun ⟨i, hi, h⟩ => ⟨i, hi, h.symm⟩, fun ⟨i, hi, h⟩ => ⟨i, hi, h.symm⟩⟩)
  rw [slotCount, ← h]; simp

/-- the 256 boundary, exactly: `n` variables compile iff `n ≤ 256`; 257 are rejected with the
    count in the message -/
theorem manySlots_boundary (n : Nat) : (∃ r, assignSlots (manySlots n) = .ok r) ↔ n ≤ NUM_SLOTS := by
  rw [assign_total_iff_of_stores_first, slotCount_manySlots]
  · constructor
    · exact fun h => h.1
    · refine fun h => ⟨h, fun s₁ s₂ h₁ _ r₁ => ?_⟩
      obtain ⟨i, _, rfl⟩ := (referenced_manySlots n s₁).1 h₁
      cases r₁
  · intro rt hrt pre op post hsplit hload
    simp only [manySlots, List.mem_cons, List.not_mem_nil, or_false] at hrt
    subst hrt
    have : op ∈ (List.range n).map (fun i => (⟨.store, [.slot ⟨i, 256 + i, false⟩]⟩ : Op)) := by
      simp only at hsplit; rw [hsplit]; simp
    obtain ⟨i, _, rfl⟩ := List.mem_map.1 this
    cases hload

example : ∃ r, assignSlots (manySlots 256) = .ok r := (manySlots_boundary 256).2 (by decide)

example : assignSlots (manySlots 257) = .error (.tooMany 257) := by
  rw [assign_error_iff, slotCount_manySlots]
  refine Or.inr (Or.inl ⟨rfl, fun s₁ s₂ h₁ _ r₁ => ?_, by decide⟩)
  obtain ⟨i, _, rfl⟩ := (referenced_manySlots 257 s₁).1 h₁
  cases r₁

end PyTealV.Proofs.C10
