/-
  C06 — ABI values assembled in PyTeal encode exactly per ARC-4.
  Property theorems about `PyTealV.Models.AbiEncode` over the specification `PyTealV.Arc4`
  (helper lemmas: `Proofs/C06Lemmas.lean`).
-/
import PyTealV.Proofs.C06Lemmas
namespace PyTealV.Proofs.C06
open PyTealV.Arc4 PyTealV.Models.AbiEncode
set_option linter.unusedVariables false
set_option linter.unusedSimpArgs false


/-! ## descriptors -/

/-- **descr_agree** — signature string, dynamic-ness and static byte length of every TypeSpec
    agree with the ARC-4 reference (for all nested types).  Full statement:
    `∀ t, str t = signature ∧ is_dynamic t = isDynamic ∧ (¬dynamic → byte_length_static t = staticLen)`;
    additionally a dynamic type raises, and `_stride()` is the reference head length. -/
theorem descr_agree (t : PT) :
    pyStr t = signature (toTy t) ∧
    pyIsDynamic t = isDynamic (toTy t) ∧
    (pyIsDynamic t = false → pyByteLengthStatic t = .ok (staticLen (toTy t))) ∧
    (pyIsDynamic t = true → pyByteLengthStatic t = .error dynErr) :=
  ⟨by rw [pyStr, signature, str_agree], dyn_agree t, len_agree t, len_dynamic_raises t⟩

/-- `_stride()` = bytes one element occupies in the array's head -/
theorem stride_agree (e : PT) : pyStride e = .ok (headLen (toTy e)) := by
  unfold pyStride headLen
  rw [← dyn_agree]
  cases hd : pyIsDynamic e
  · simp [len_agree e hd]
  · simp; rfl

/-- non-vacuity: a nested type with bool runs of 1, 8 and 9 around dynamic members -/
example :
    let t : PT := .tuple [.bool, .string, .sarray .bool 9, .named [.uint .u16, .dynBytes],
      .bool, .bool, .bool, .bool, .bool, .bool, .bool, .bool, .darray (.sarray .bool 8), .address]
    pyStr t = "(bool,string,bool[9],(uint16,byte[]),bool,bool,bool,bool,bool,bool,bool,bool,bool[8][],address)" ∧
    pyIsDynamic t = true ∧ pyByteLengthStatic t = .error dynErr := ⟨by decide, by decide, by rfl⟩

example : pyByteLengthStatic (.tuple [.bool, .bool, .uint .u16, .sarray .bool 9, .address,
    .sarray (.tuple [.bool, .bool, .bool, .bool, .bool, .bool, .bool, .bool, .bool]) 3]) = .ok 43 := by
  rfl

/-! ## integers -/

/-- **uintSet_range** — Python ints: rejected at build time exactly when they do not fit;
    expressions: the program fails exactly when the value does not fit (`uint64`: every stack
    value fits, no check is emitted); what is stored is the value itself. -/
theorem uintSet_range (k : UK) (v : Nat) :
    (uintSetInt k v = (if v < 2 ^ k.bits then .ok v
      else .error "TealInputError: Value exceeds uint maximum")) ∧
    (v < 2 ^ 64 → uintSetExpr k v = (if v < 2 ^ k.bits then some v else none)) := by
  constructor
  · unfold uintSetInt
    by_cases h : v < 2 ^ k.bits
    · have : ¬ v ≥ 2 ^ k.bits := by omega
      simp [h, this]; rfl
    · have : v ≥ 2 ^ k.bits := by omega
      simp [h, this]; rfl
  · intro h64
    unfold uintSetExpr
    cases k <;> simp [UK.bits, h64]

/-- the check in `set` is what makes `encode` right: `Suffix(Itob(v), 6)` alone truncates -/
theorem uintEncode_truncates_example :
    uintEncode .u16 65536 = some [0, 0] ∧ uintEncode .u32 (2 ^ 32 + 7) = some [0, 0, 0, 7] ∧
    uintEncode .u8 256 = none := by decide


/-! ## `_encode_tuple` -/

/-- **encodeTuple_correct** (the algorithm of `_encode_tuple`, one level).
    For members whose slots hold what `set` stores (`goodMember`, `LenOk`):
    * the value computed is `Arc4.assemble` of the members' parts – bool runs packed, static
      members in the head, dynamic members as uint16 offsets + tails – whenever that exists, and
      there is **no result** (never a wrapped offset) when it does not;
    * the failure is a *build-time* exception exactly when the static head before a dynamic
      member is ≥ 2¹⁶ bytes, otherwise (a later offset ≥ 2¹⁶) the program fails at run time. -/
theorem encodeTuple_correct (ms : List Member) (hgood : ∀ m ∈ ms, goodMember m = true)
    (hlen : LenOk ms) :
    (encodeTuple ms).toOption = assemble (ms.map partD) ∧
    ((∃ e, encodeTuple ms = .buildError e) ↔
      (ms.any (fun m => pyIsDynamic m.spec) = true ∧ 2 ^ 16 ≤ segHeadLen (group (ms.map partD)))) := by
  have hhl := headLenStatic_ok ms hgood hlen
  have hb := tupleBuildCheck_eq _ _ hhl
  simp only [List.any_map, Function.comp_def] at hb
  by_cases hc : ms.any (fun m => pyIsDynamic m.spec) = true ∧ 2 ^ 16 ≤ segHeadLen (group (ms.map partD))
  · simp only [hc, and_self, ↓reduceIte] at hb
    constructor
    · simp only [encodeTuple, hb, Res.of, Res.toOption, Except.map]
      exact (assemble_none_of_big ms hgood hc.1 (by simpa [lim16] using hc.2)).symm
    · simp only [encodeTuple, hb, Res.of, Except.map]
      exact ⟨fun _ => hc, fun _ => ⟨_, rfl⟩⟩
  · simp only [hc, ↓reduceIte] at hb
    have hrun := encodeTupleRun_eq ms hgood hlen (by
      intro hd
      have : ¬ (2 ^ 16 ≤ segHeadLen (group (ms.map partD))) := fun h => hc ⟨hd, h⟩
      simp only [lim16]; omega)
    constructor
    · simp only [encodeTuple, hb, Res.of, Except.map]
      rw [hrun]
      cases assemble (ms.map partD) <;> rfl
    · simp only [encodeTuple, hb, Res.of, Except.map]
      constructor
      · rintro ⟨e, he⟩
        cases hr : encodeTupleRun ms <;> rw [hr] at he <;> cases he
      · intro h; exact absurd h hc

/-! ## leaves of nested values -/

theorem uintEncode_some (k : UK) (n : Nat) (h : n < 2 ^ k.bits) : ∃ bs, uintEncode k n = some bs := by
  cases k <;> simp [uintEncode, setByte, UK.bits] at h ⊢ <;> omega

theorem encode_uint_none (k : UK) (n : Nat) (h : ¬ n < 2 ^ k.bits) :
    encode (toTy (.uint k)) (.uint n) = none := by
  cases k <;> simp [toTy, encode, UK.bits] at h ⊢ <;> omega

theorem leaf_uint_ok (k : UK) (n : Nat) (hn : n < 2 ^ k.bits) :
    ∃ bs, memberEncode ⟨.uint k, .u n⟩ = some bs ∧ encode (toTy (.uint k)) (.uint n) = some bs ∧
      partD ⟨.uint k, .u n⟩ = toPart (toTy (.uint k)) (.uint n) bs := by
  obtain ⟨bs, hbs⟩ := uintEncode_some k n hn
  have hm : memberEncode ⟨.uint k, .u n⟩ = some bs := by simp [memberEncode, hbs]
  exact ⟨bs, hm, by rw [← uintEncode_correct k n hn, hbs], partD_eq_toPart _ _ _ _ rfl hm⟩

theorem leaf_uint (k : UK) (x : In) (h : WT (.uint k) x = true) : LeafOK (.uint k) x := by
  cases x <;> simp [WT] at h
  · rename_i n
    by_cases hn : n < 2 ^ k.bits
    · have h1 : uintSetInt k n = .ok n := by simp [(uintSet_range k n).1, hn]
      simp only [LeafOK, buildCheck, h1, Except.map, runSet, denote]
      exact leaf_uint_ok k n hn
    · have h1 : uintSetInt k n = .error "TealInputError: Value exceeds uint maximum" := by
        simp [(uintSet_range k n).1, hn]
      simp only [LeafOK, buildCheck, h1, Except.map, denote]
      exact encode_uint_none k n hn
  · rename_i n
    have h2 := (uintSet_range k n).2 h
    by_cases hn : n < 2 ^ k.bits
    · simp only [hn, ↓reduceIte] at h2
      simp only [LeafOK, buildCheck, pure_ok, runSet, h2, Option.map_some, denote]
      exact leaf_uint_ok k n hn
    · simp only [hn, ↓reduceIte] at h2
      simp only [LeafOK, buildCheck, pure_ok, runSet, h2, Option.map_none, denote]
      exact encode_uint_none k n hn

/-! byte strings given as Python constants or as expressions -/

theorem leaf_bytes_ok (t : PT) (v : V) (bs : Bytes) (hb : isBoolSpec t = false)
    (hu : ∀ k, t ≠ .uint k) (he : encode (toTy t) v = some bs) :
    ∃ bs', memberEncode ⟨t, .b bs⟩ = some bs' ∧ encode (toTy t) v = some bs' ∧
      partD ⟨t, .b bs⟩ = toPart (toTy t) v bs' := by
  have hm : memberEncode ⟨t, .b bs⟩ = some bs := by
    cases t <;> simp_all [memberEncode, isBoolSpec]
  exact ⟨bs, hm, he, partD_eq_toPart _ _ _ _ hb hm⟩

theorem lim16_eq : lim16 = 2 ^ 16 := rfl

theorem leaf_address (x : In) (h : WT .address x = true) (hx : ∀ xs, x ≠ .seq xs) :
    LeafOK .address x := by
  cases x <;> simp [WT] at h
  · rename_i bs
    by_cases hl : bs.length = 32
    · simp only [LeafOK, buildCheck, constFixedBytes, hl, ↓reduceIte, pure_ok, Except.map, runSet, denote]
      exact leaf_bytes_ok .address _ bs rfl (by simp) (by simp [toTy, encode_address_bytes, hl])
    · simp only [LeafOK, buildCheck, constFixedBytes, hl, ↓reduceIte, throw_err, Except.map, denote, toTy,
        encode_address_bytes]
  · rename_i bs
    by_cases hl : bs.length = 32
    · simp only [LeafOK, buildCheck, pure_ok, runSet, exprFixedBytes, hl, ↓reduceIte, Option.map_some, denote]
      exact leaf_bytes_ok .address _ bs rfl (by simp) (by simp [toTy, encode_address_bytes, hl])
    · simp only [LeafOK, buildCheck, pure_ok, runSet, exprFixedBytes, hl, ↓reduceIte, Option.map_none, denote,
        toTy, encode_address_bytes]
  · exact absurd rfl (hx _)

theorem leaf_staticBytes (n : Nat) (x : In) (h : WT (.staticBytes n) x = true) (hx : ∀ xs, x ≠ .seq xs)
    (hn : n < lim16) : LeafOK (.staticBytes n) x := by
  cases x <;> simp [WT] at h
  · rename_i bs
    by_cases hl : bs.length = n
    · simp only [LeafOK, buildCheck, constFixedBytes, hl, ↓reduceIte, pure_ok, Except.map, runSet, denote]
      exact leaf_bytes_ok (.staticBytes n) _ bs rfl (by simp) (by simp [toTy, encode_sbytes_bytes, hl, hn])
    · simp only [LeafOK, buildCheck, constFixedBytes, hl, ↓reduceIte, throw_err, Except.map, denote, toTy,
        encode_sbytes_bytes, false_and]
  · rename_i bs
    by_cases hl : bs.length = n
    · simp only [LeafOK, buildCheck, pure_ok, runSet, exprFixedBytes, hl, ↓reduceIte, Option.map_some, denote]
      exact leaf_bytes_ok (.staticBytes n) _ bs rfl (by simp) (by simp [toTy, encode_sbytes_bytes, hl, hn])
    · simp only [LeafOK, buildCheck, pure_ok, runSet, exprFixedBytes, hl, ↓reduceIte, Option.map_none, denote,
        toTy, encode_sbytes_bytes, false_and]
  · exact absurd rfl (hx _)

theorem leaf_string (x : In) (h : WT .string x = true) (hx : ∀ xs, x ≠ .seq xs) :
    LeafOK .string x := by
  cases x <;> simp [WT] at h
  · rename_i bs
    by_cases hl : bs.length < 2 ^ 16
    · simp only [LeafOK, buildCheck, constByteString, hl, ↓reduceIte, pure_ok, Except.map, runSet, denote]
      exact leaf_bytes_ok .string _ _ rfl (by simp) (by simp [toTy, encode_string_bytes, hl, lim16_eq])
    · simp only [LeafOK, buildCheck, constByteString, hl, ↓reduceIte, throw_err, Except.map, denote, toTy,
        encode_string_bytes, lim16_eq]
  · rename_i bs
    have hl : bs.length < 2 ^ 16 := by simp [avmMaxBytes] at h; omega
    simp only [LeafOK, buildCheck, pure_ok, runSet, exprByteString_eq, denote]
    exact leaf_bytes_ok .string _ _ rfl (by simp) (by simp [toTy, encode_string_bytes, hl, lim16_eq])
  · exact absurd rfl (hx _)

theorem leaf_dynBytes (x : In) (h : WT .dynBytes x = true) (hx : ∀ xs, x ≠ .seq xs) :
    LeafOK .dynBytes x := by
  cases x <;> simp [WT] at h
  · rename_i bs
    by_cases hl : bs.length < 2 ^ 16
    · simp only [LeafOK, buildCheck, constByteString, hl, ↓reduceIte, pure_ok, Except.map, runSet, denote]
      exact leaf_bytes_ok .dynBytes _ _ rfl (by simp) (by simp [toTy, encode_dbytes_bytes, hl, lim16_eq])
    · simp only [LeafOK, buildCheck, constByteString, hl, ↓reduceIte, throw_err, Except.map, denote, toTy,
        encode_dbytes_bytes, lim16_eq]
  · rename_i bs
    have hl : bs.length < 2 ^ 16 := by simp [avmMaxBytes] at h; omega
    simp only [LeafOK, buildCheck, pure_ok, runSet, exprByteString_eq, denote]
    exact leaf_bytes_ok .dynBytes _ _ rfl (by simp) (by simp [toTy, encode_dbytes_bytes, hl, lim16_eq])
  · exact absurd rfl (hx _)

/-! containers -/

theorem tuple_core (ts : List PT) (xs : List In) (h : FieldsOK ts xs) :
    (∀ e, buildFields ts xs = .error e → (encodeFields (toTys ts) (denotes xs)).bind assemble = none) ∧
    (buildFields ts xs = .ok () → ∀ e, tupleBuildCheck ts = .error e →
      (encodeFields (toTys ts) (denotes xs)).bind assemble = none) ∧
    (buildFields ts xs = .ok () → ∀ hl, tupleBuildCheck ts = .ok hl →
      (runFields ts xs).bind encodeTupleRun = (encodeFields (toTys ts) (denotes xs)).bind assemble) := by
  unfold FieldsOK at h
  cases hb : buildFields ts xs with
  | error e =>
    rw [hb] at h
    simp only at h
    exact ⟨fun _ _ => (by rw [h]; rfl), fun h' => (by cases h'), fun h' => (by cases h')⟩
  | ok u =>
    rw [hb] at h
    simp only at h
    cases hr : runFields ts xs with
    | none =>
      rw [hr] at h
      simp only at h
      exact ⟨fun _ h' => (by cases h'), fun _ _ _ => (by rw [h]; rfl), fun _ _ _ => (by rw [h]; rfl)⟩
    | some ms =>
      rw [hr] at h
      obtain ⟨hgood, hlen, hspec, henc⟩ := h
      have hhl := headLenStatic_ok ms hgood hlen
      have hbc := tupleBuildCheck_eq _ _ hhl
      rw [hspec] at hbc
      have hany : ts.any pyIsDynamic = ms.any (fun m => pyIsDynamic m.spec) := by
        rw [← hspec, List.any_map]; rfl
      rw [hany] at hbc
      refine ⟨fun _ h' => (by cases h'), ?_, ?_⟩
      · intro _ e he
        rw [henc, Option.bind_some]
        by_cases hc : ms.any (fun m => pyIsDynamic m.spec) = true ∧ 2 ^ 16 ≤ segHeadLen (group (ms.map partD))
        · exact assemble_none_of_big ms hgood hc.1 (by simpa [lim16] using hc.2)
        · simp only [hc, ↓reduceIte] at hbc
          rw [hbc] at he; cases he
      · intro _ hl he
        rw [henc, Option.bind_some, Option.bind_some]
        by_cases hc : ms.any (fun m => pyIsDynamic m.spec) = true ∧ 2 ^ 16 ≤ segHeadLen (group (ms.map partD))
        · simp only [hc, and_self, ↓reduceIte] at hbc
          rw [hbc] at he; cases he
        · exact encodeTupleRun_eq ms hgood hlen (by
            intro hd
            have : ¬ (2 ^ 16 ≤ segHeadLen (group (ms.map partD))) := fun h => hc ⟨hd, h⟩
            simp only [lim16]; omega)

theorem toTys_replicate (n : Nat) (e : PT) : toTys (List.replicate n e) = List.replicate n (toTy e) := by
  induction n with
  | zero => rfl
  | succ n ih => simp [List.replicate_succ, toTys, ih]

theorem toTys_length (ts : List PT) : (toTys ts).length = ts.length := by
  induction ts with
  | nil => rfl
  | cons t ts ih => simp [toTys, ih]

theorem denotes_length (xs : List In) : (denotes xs).length = xs.length := by
  induction xs with
  | nil => rfl
  | cons x xs ih => simp [denotes, ih]

theorem optMap_eq_encodeFields (e : Ty) (vs : List V) :
    optMap (fun v => (encode e v).map (toPart e v)) vs = encodeFields (List.replicate vs.length e) vs := by
  induction vs with
  | nil => rfl
  | cons v vs ih =>
    simp only [optMap, ih, List.length_cons, List.replicate_succ, encodeFields]
    cases encode e v <;> cases encodeFields (List.replicate vs.length e) vs <;> rfl

theorem buildElems_eq (e : PT) (xs : List In) :
    buildElems e xs = buildFields (List.replicate xs.length e) xs := by
  induction xs with
  | nil => rfl
  | cons x xs ih => simp [buildElems, buildFields, List.replicate_succ, ih]

theorem runElems_eq (e : PT) (xs : List In) :
    runElems e xs = runFields (List.replicate xs.length e) xs := by
  induction xs with
  | nil => rfl
  | cons x xs ih => simp [runElems, runFields, List.replicate_succ, ih]

theorem wtElems_eq (e : PT) (xs : List In) :
    wtElems e xs = wtFields (List.replicate xs.length e) xs := by
  induction xs with
  | nil => rfl
  | cons x xs ih => simp [wtElems, wtFields, List.replicate_succ, ih]

theorem wfList_replicate (n : Nat) (t : Ty) (h : t.wf = true) : wfList (List.replicate n t) = true := by
  induction n with
  | zero => rfl
  | succ n ih => simp [List.replicate_succ, wfList, h, ih]

theorem arrayBuildCheck_false (specs : List PT) :
    arrayBuildCheck false specs = (tupleBuildCheck specs).map (fun _ => ()) := by
  unfold arrayBuildCheck
  cases tupleBuildCheck specs <;> rfl

theorem arraySetRun_false (ms : List Member) : arraySetRun false ms = encodeTupleRun ms := by
  unfold arraySetRun
  cases encodeTupleRun ms <;> rfl

theorem arraySetRun_true (ms : List Member) :
    arraySetRun true ms = (encodeTupleRun ms).map (u16 ms.length ++ ·) := by
  unfold arraySetRun
  cases encodeTupleRun ms <;> simp [u16Encode]

theorem runFields_length (ts : List PT) (xs : List In) (ms : List Member)
    (h : runFields ts xs = some ms) : ms.length = xs.length := by
  induction ts generalizing xs ms with
  | nil =>
    cases xs with
    | nil => simp [runFields] at h; subst h; rfl
    | cons x xs => simp [runFields] at h
  | cons t ts ih =>
    cases xs with
    | nil => simp [runFields] at h
    | cons x xs =>
      simp only [runFields] at h
      cases hs : runSet t x with
      | none => simp [hs] at h
      | some s =>
        cases hr : runFields ts xs with
        | none => simp [hs, hr] at h
        | some ms' =>
          simp only [hs, hr, Option.some.injEq] at h
          subst h
          simp [ih xs ms' hr]

/-- `StaticArray.set(values)` (also `Address` / `StaticBytes` given a sequence of `Byte`s) -/
theorem sarray_core (e : PT) (n : Nat) (xs : List In) (msg : String)
    (hf : FieldsOK (List.replicate xs.length e) xs) (hn : n < lim16) :
    match (do buildElems e xs
              if xs.length ≠ n then throw msg
              arrayBuildCheck false (List.replicate xs.length e) : Except String Unit) with
    | .error _ => encode (.sarray (toTy e) n) (.seq (denotes xs)) = none
    | .ok _ => (runElems e xs).bind (arraySetRun false) = encode (.sarray (toTy e) n) (.seq (denotes xs)) := by
  obtain ⟨c1, c2, c3⟩ := tuple_core _ _ hf
  have henc : encode (.sarray (toTy e) n) (.seq (denotes xs)) =
      if xs.length = n then (encodeFields (toTys (List.replicate xs.length e)) (denotes xs)).bind assemble
      else none := by
    simp only [encode, denotes_length, hn, and_true, optMap_eq_encodeFields, toTys_replicate]
  rw [henc, buildElems_eq, runElems_eq, arrayBuildCheck_false,
    show arraySetRun false = encodeTupleRun from funext arraySetRun_false]
  simp only [bind, Except.bind]
  cases hb : buildFields (List.replicate xs.length e) xs with
  | error m => simp only [c1 m hb]; split <;> rfl
  | ok u =>
    simp only
    by_cases hl : xs.length = n
    · subst hl
      simp only [ne_eq, not_true_eq_false, ↓reduceIte, pure_ok]
      cases ht : tupleBuildCheck (List.replicate xs.length e) with
      | error m =>
        simp only [Except.map]
        exact c2 hb m ht
      | ok v =>
        simp only [Except.map]
        exact c3 hb v ht
    · simp only [ne_eq, hl, not_false_eq_true, ↓reduceIte, throw_err]

/-- `DynamicArray.set(values)` (also `String` / `DynamicBytes` given a sequence of `Byte`s) -/
theorem darray_core (e : PT) (xs : List In) (hf : FieldsOK (List.replicate xs.length e) xs) :
    match (do buildElems e xs
              arrayBuildCheck true (List.replicate xs.length e) : Except String Unit) with
    | .error _ => encode (.darray (toTy e)) (.seq (denotes xs)) = none
    | .ok _ => (runElems e xs).bind (arraySetRun true) = encode (.darray (toTy e)) (.seq (denotes xs)) := by
  obtain ⟨c1, c2, c3⟩ := tuple_core _ _ hf
  have henc : encode (.darray (toTy e)) (.seq (denotes xs)) =
      if xs.length < lim16 then
        ((encodeFields (toTys (List.replicate xs.length e)) (denotes xs)).bind assemble).map
          (u16 xs.length ++ ·)
      else none := by
    simp only [encode, denotes_length, optMap_eq_encodeFields, toTys_replicate]
  rw [henc, buildElems_eq, runElems_eq]
  simp only [bind, Except.bind, arrayBuildCheck]
  cases hb : buildFields (List.replicate xs.length e) xs with
  | error m => simp only [c1 m hb]; split <;> rfl
  | ok u =>
    simp only
    cases ht : tupleBuildCheck (List.replicate xs.length e) with
    | error m => simp only [c2 hb m ht]; split <;> rfl
    | ok v =>
      simp only [List.length_replicate, Bool.true_and, decide_eq_true_eq]
      by_cases hl : xs.length < lim16
      · have : ¬ xs.length ≥ 2 ^ 16 := by simp only [lim16] at hl; omega
        simp only [this, ↓reduceIte, pure_ok, hl, ← c3 hb v ht]
        cases hr : runFields (List.replicate xs.length e) xs with
        | none => rfl
        | some ms =>
          simp only [Option.bind_some, arraySetRun_true, runFields_length _ _ _ hr]
      · have : xs.length ≥ 2 ^ 16 := by simp only [lim16] at hl; omega
        simp only [this, ↓reduceIte, throw_err, hl]

theorem leaf_of_cont (t : PT) (x : In) (r : Option Bytes) (hb : isBoolSpec t = false)
    (hu : ∀ k, t ≠ .uint k) (hrun : runSet t x = r.map .b)
    (h : match buildCheck t x with
      | .error _ => encode (toTy t) (denote x) = none
      | .ok _ => r = encode (toTy t) (denote x)) : LeafOK t x := by
  unfold LeafOK
  cases hbc : buildCheck t x with
  | error m => rw [hbc] at h; exact h
  | ok u =>
    rw [hbc] at h
    simp only at h ⊢
    rw [hrun]
    cases r with
    | none => exact h.symm
    | some bs => exact leaf_bytes_ok t _ bs hb hu h.symm

theorem encode_address_seq (vs : List V) :
    encode .address (.seq vs) = encode (.sarray .byte 32) (.seq vs) := by
  simp only [encode, encode_byte_elems, lim16]
  by_cases h : vs.length = 32 <;> simp [h]

theorem encode_string_seq (vs : List V) :
    encode .string (.seq vs) = encode (.darray .byte) (.seq vs) := by
  simp only [encode, encode_byte_elems]

theorem goodMember_of_encode (t : PT) (s : Stored) (bs : Bytes)
    (h : memberEncode ⟨t, s⟩ = some bs) : goodMember ⟨t, s⟩ = true := by
  unfold goodMember
  split
  · rename_i hb
    have : t = .bool := by cases t <;> simp_all [isBoolSpec]
    subst this
    cases s with
    | b x => simp [memberEncode] at h
    | u n =>
      simp only [goodBool, decide_eq_true_eq]
      simp only [memberEncode, setBit] at h
      by_cases hn : n > 1
      · simp [hn] at h
      · omega
  · simp [h]

/-- one more member in front -/
theorem fields_cons (t : PT) (ts : List PT) (x : In) (xs : List In)
    (hp : LeafOK t x) (hq : FieldsOK ts xs) : FieldsOK (t :: ts) (x :: xs) := by
  unfold FieldsOK
  unfold LeafOK at hp
  unfold FieldsOK at hq
  simp only [buildFields, bind, Except.bind, runFields, toTys, denotes, encodeFields]
  cases hb : buildCheck t x with
  | error m =>
    rw [hb] at hp
    simp only at hp ⊢
    rw [hp]
  | ok u =>
    rw [hb] at hp
    simp only at hp ⊢
    cases hbf : buildFields ts xs with
    | error m =>
      rw [hbf] at hq
      simp only at hq ⊢
      rw [hq]
      cases encode (toTy t) (denote x) <;> rfl
    | ok u' =>
      rw [hbf] at hq
      simp only at hq ⊢
      cases hs : runSet t x with
      | none =>
        rw [hs] at hp
        simp only at hp ⊢
        rw [hp]
      | some s =>
        rw [hs] at hp
        obtain ⟨bs, hm, he, hpart⟩ := hp
        cases hr : runFields ts xs with
        | none =>
          rw [hr] at hq
          simp only at hq ⊢
          rw [hq, he]
        | some ms =>
          rw [hr] at hq
          obtain ⟨hgood, hlen, hspec, henc⟩ := hq
          simp only [he, henc]
          refine ⟨?_, ?_, ?_, ?_⟩
          · intro m hmem
            rcases List.mem_cons.1 hmem with rfl | hmem
            · exact goodMember_of_encode t s bs hm
            · exact hgood m hmem
          · intro m hmem hnb hnd bs' hbs'
            rcases List.mem_cons.1 hmem with rfl | hmem
            · simp only at hnb hnd hbs' ⊢
              rw [hm] at hbs'
              cases hbs'
              rw [len_agree t hnd]
              rw [dyn_agree] at hnd
              rw [encode_len_static _ _ _ he hnd]
            · exact hlen m hmem hnb hnd bs' hbs'
          · simp [hspec]
          · simp [hpart]

theorem tuple_case (ts : List PT) (xs : List In) (hf : FieldsOK ts xs) (hlen : xs.length = ts.length)
    (hn : ts.length < lim16) :
    match (do buildFields ts xs
              if xs.length ≠ ts.length then throw "TealInputError: Incorrect length for values"
              (tupleBuildCheck ts).map (fun _ => ()) : Except String Unit) with
    | .error _ => encode (.tuple (toTys ts)) (.seq (denotes xs)) = none
    | .ok _ => (runFields ts xs).bind encodeTupleRun = encode (.tuple (toTys ts)) (.seq (denotes xs)) := by
  obtain ⟨c1, c2, c3⟩ := tuple_core _ _ hf
  have henc : encode (.tuple (toTys ts)) (.seq (denotes xs)) =
      (encodeFields (toTys ts) (denotes xs)).bind assemble := by
    simp only [encode, toTys_length, hn, ↓reduceIte]
  rw [henc]
  simp only [bind, Except.bind, hlen, ne_eq, not_true_eq_false, ↓reduceIte, pure_ok]
  cases hb : buildFields ts xs with
  | error m => exact c1 m hb
  | ok u =>
    simp only
    cases ht : tupleBuildCheck ts with
    | error m => exact c2 hb m ht
    | ok v => exact c3 hb v ht

theorem wtFields_length (ts : List PT) (xs : List In) (h : wtFields ts xs = true) :
    xs.length = ts.length := by
  induction ts generalizing xs with
  | nil => cases xs <;> simp_all [wtFields]
  | cons t ts ih =>
    cases xs with
    | nil => simp [wtFields] at h
    | cons x xs =>
      simp only [wtFields, Bool.and_eq_true] at h
      simp [ih xs h.2]

mutual
  /-- the induction over nested inputs -/
  theorem leafOK (t : PT) (x : In) (hwt : WT t x = true) (hwf : (toTy t).wf = true) : LeafOK t x := by
    match x with
    | .seq xs =>
      match t with
      | .tuple ts =>
        simp only [WT] at hwt
        simp only [toTy, Ty.wf, Bool.and_eq_true, decide_eq_true_eq, toTys_length] at hwf
        exact leaf_of_cont _ _ ((runFields ts xs).bind encodeTupleRun) rfl (by simp) (by simp [runSet])
          (tuple_case ts xs (fieldsOK ts xs hwt hwf.2) (wtFields_length ts xs hwt) hwf.1)
      | .named ts =>
        simp only [WT] at hwt
        simp only [toTy, Ty.wf, Bool.and_eq_true, decide_eq_true_eq, toTys_length] at hwf
        exact leaf_of_cont _ _ ((runFields ts xs).bind encodeTupleRun) rfl (by simp) (by simp [runSet])
          (tuple_case ts xs (fieldsOK ts xs hwt hwf.2) (wtFields_length ts xs hwt) hwf.1)
      | .sarray e n =>
        simp only [WT, wtElems_eq] at hwt
        simp only [toTy, Ty.wf, Bool.and_eq_true, decide_eq_true_eq] at hwf
        exact leaf_of_cont _ _ ((runElems e xs).bind (arraySetRun false)) rfl (by simp) (by simp [runSet])
          (sarray_core e n xs _ (fieldsOK _ xs hwt (by rw [toTys_replicate]; exact wfList_replicate _ _ hwf.2)) hwf.1)
      | .darray e =>
        simp only [WT, wtElems_eq] at hwt
        simp only [toTy, Ty.wf] at hwf
        exact leaf_of_cont _ _ ((runElems e xs).bind (arraySetRun true)) rfl (by simp) (by simp [runSet])
          (darray_core e xs (fieldsOK _ xs hwt (by rw [toTys_replicate]; exact wfList_replicate _ _ hwf)))
      | .staticBytes n =>
        simp only [WT, wtElems_eq] at hwt
        simp only [toTy, Ty.wf, Bool.and_eq_true, decide_eq_true_eq] at hwf
        exact leaf_of_cont _ _ ((runElems (.uint .byte) xs).bind (arraySetRun false)) rfl (by simp)
          (by simp [runSet])
          (sarray_core (.uint .byte) n xs _ (fieldsOK _ xs hwt (by rw [toTys_replicate]; exact wfList_replicate _ _ rfl)) hwf.1)
      | .address =>
        simp only [WT, wtElems_eq] at hwt
        have := sarray_core (.uint .byte) 32 xs "TealInputError: Got bytes with wrong length"
          (fieldsOK _ xs hwt (by rw [toTys_replicate]; exact wfList_replicate _ _ rfl)) (by decide)
        refine leaf_of_cont _ _ ((runElems (.uint .byte) xs).bind (arraySetRun false)) rfl (by simp)
          (by simp [runSet]) ?_
        simp only [toTy, denote, encode_address_seq]
        exact this
      | .string =>
        simp only [WT, wtElems_eq] at hwt
        have := darray_core (.uint .byte) xs
          (fieldsOK _ xs hwt (by rw [toTys_replicate]; exact wfList_replicate _ _ rfl))
        refine leaf_of_cont _ _ ((runElems (.uint .byte) xs).bind (arraySetRun true)) rfl (by simp)
          (by simp [runSet]) ?_
        simp only [toTy, denote, encode_string_seq]
        exact this
      | .dynBytes =>
        simp only [WT, wtElems_eq] at hwt
        exact leaf_of_cont _ _ ((runElems (.uint .byte) xs).bind (arraySetRun true)) rfl (by simp)
          (by simp [runSet])
          (darray_core (.uint .byte) xs (fieldsOK _ xs hwt (by rw [toTys_replicate]; exact wfList_replicate _ _ rfl)))
      | .bool => simp [WT] at hwt
      | .uint k => simp [WT] at hwt
    | .boolC b =>
      cases t <;> first | exact leaf_bool _ hwt | (simp [WT] at hwt)
    | .boolE n =>
      cases t <;> first | exact leaf_bool _ hwt | (simp [WT] at hwt)
    | .intC n =>
      cases t <;> first | exact leaf_uint _ _ hwt | (simp [WT] at hwt)
    | .intE n =>
      cases t <;> first | exact leaf_uint _ _ hwt | (simp [WT] at hwt)
    | .bytesC bs =>
      cases t <;> first
        | exact leaf_address _ hwt (by intro xs h; cases h)
        | exact leaf_string _ hwt (by intro xs h; cases h)
        | exact leaf_dynBytes _ hwt (by intro xs h; cases h)
        | exact leaf_staticBytes _ _ hwt (by intro xs h; cases h) (by simp [toTy, Ty.wf] at hwf; exact hwf)
        | (simp [WT] at hwt)
    | .bytesE bs =>
      cases t <;> first
        | exact leaf_address _ hwt (by intro xs h; cases h)
        | exact leaf_string _ hwt (by intro xs h; cases h)
        | exact leaf_dynBytes _ hwt (by intro xs h; cases h)
        | exact leaf_staticBytes _ _ hwt (by intro xs h; cases h) (by simp [toTy, Ty.wf] at hwf; exact hwf)
        | (simp [WT] at hwt)
  theorem fieldsOK (ts : List PT) (xs : List In) (hwt : wtFields ts xs = true)
      (hwf : wfList (toTys ts) = true) : FieldsOK ts xs := by
    match ts, xs with
    | [], [] =>
      unfold FieldsOK
      simp [buildFields, pure_ok, runFields, toTys, denotes, encodeFields, LenOk]
    | t :: ts, x :: xs =>
      simp only [wtFields, Bool.and_eq_true] at hwt
      simp only [toTys, wfList, Bool.and_eq_true] at hwf
      exact fields_cons t ts x xs (leafOK t x hwt.1 hwf.1) (fieldsOK ts xs hwt.2 hwf.2)
    | [], _ :: _ => simp [wtFields] at hwt
    | _ :: _, [] => simp [wtFields] at hwt
end

/-! ## the property -/

/-- **pySet_correct** — for every nested TypeSpec `t` (a legal ARC-4 type: arities and static
    lengths < 2¹⁶) and every input tree of the right form (leaves given as Python constants or as
    expressions, containers assembled bottom-up from already-set instances), building the
    program, running `x.set(…)` and evaluating `x.encode()` yields **exactly** the reference
    encoding `Arc4.encode (toTy t) (denote x)` whenever that exists, and no result (a Python
    exception or a failing program – never different bytes) when it does not: an integer that
    does not fit, a byte string of the wrong length, an array of the wrong length, a head/tail
    offset or a length prefix that does not fit a uint16. -/
theorem pySet_correct (t : PT) (x : In) (hwt : WT t x = true) (hwf : (toTy t).wf = true) :
    (pySet t x).toOption = encode (toTy t) (denote x) := by
  have h := leafOK t x hwt hwf
  unfold LeafOK at h
  unfold pySet
  cases hb : buildCheck t x with
  | error m => rw [hb] at h; simp only at h; rw [h]; rfl
  | ok u =>
    rw [hb] at h
    simp only at h
    cases hr : runSet t x with
    | none => rw [hr] at h; simp only at h; rw [h]; rfl
    | some s =>
      rw [hr] at h
      obtain ⟨bs, hm, he, _⟩ := h
      simp [Res.of, hm, he, Res.toOption]

/-- the two kinds of failure are what the documentation promises -/
theorem pySet_failure (t : PT) (x : In) :
    (∀ e, pySet t x = .buildError e ↔ buildCheck t x = .error e) ∧
    (pySet t x = .runFail ↔ (buildCheck t x = .ok () ∧ (runSet t x).bind (fun s => memberEncode ⟨t, s⟩) = none)) := by
  unfold pySet
  cases hb : buildCheck t x with
  | error m => simp [Res.of]
  | ok u =>
    cases hr : (runSet t x).bind (fun s => memberEncode ⟨t, s⟩) <;> simp [Res.of]

/-- **tupleSet_correct** (`encodeTuple_correct` in typed form): `Tuple.set(*values)` / a
    `NamedTuple` – `∀ ts vs`, the emitted `_encode_tuple` computes `Arc4.encode (.tuple ts) vs`. -/
theorem tupleSet_correct (ts : List PT) (xs : List In) (hwt : wtFields ts xs = true)
    (hwf : ts.length < lim16 ∧ wfList (toTys ts) = true) :
    (pySet (.tuple ts) (.seq xs)).toOption = encode (.tuple (toTys ts)) (.seq (denotes xs)) ∧
    (pySet (.named ts) (.seq xs)).toOption = encode (.tuple (toTys ts)) (.seq (denotes xs)) := by
  have hw : (toTy (.tuple ts)).wf = true := by
    simp [toTy, Ty.wf, toTys_length, hwf.1, hwf.2]
  exact ⟨pySet_correct (.tuple ts) (.seq xs) (by simpa [WT] using hwt) hw,
    pySet_correct (.named ts) (.seq xs) (by simpa [WT] using hwt) hw⟩

/-- arrays: `StaticArray.set(values)` checks the length while the program is built;
    `DynamicArray.set(values)` prepends the uint16 element count -/
theorem arraySet_correct (e : PT) (n : Nat) (xs : List In) (hwt : wtElems e xs = true)
    (hwf : (toTy e).wf = true) (hn : n < lim16) :
    (pySet (.sarray e n) (.seq xs)).toOption = encode (.sarray (toTy e) n) (.seq (denotes xs)) ∧
    (pySet (.darray e) (.seq xs)).toOption = encode (.darray (toTy e)) (.seq (denotes xs)) ∧
    (xs.length ≠ n → ∃ m, pySet (.sarray e n) (.seq xs) = .buildError m) := by
  refine ⟨pySet_correct (.sarray e n) (.seq xs) (by simpa [WT] using hwt) (by simp [toTy, Ty.wf, hn, hwf]),
    pySet_correct (.darray e) (.seq xs) (by simpa [WT] using hwt) (by simp [toTy, Ty.wf, hwf]), ?_⟩
  intro hl
  have hnone : encode (.sarray (toTy e) n) (.seq (denotes xs)) = none := by
    simp [encode, denotes_length, hl]
  cases hb : buildElems e xs with
  | error m => exact ⟨m, by simp [pySet, buildCheck, hb, bind, Except.bind, Res.of]⟩
  | ok u =>
    exact ⟨"TealInputError: Incorrect length for values",
      by simp [pySet, buildCheck, hb, bind, Except.bind, hl, throw_err, Res.of]⟩

/-- integers inside a program: a Python int that does not fit is rejected when the program is
    built; an expression that does not fit makes the program fail; otherwise both give the
    big-endian encoding -/
theorem uintSet_program (k : UK) (n : Nat) :
    (n < 2 ^ k.bits → pySet (.uint k) (.intC n) = pySet (.uint k) (.intE n) ∧
      (pySet (.uint k) (.intE n)).toOption = encode (toTy (.uint k)) (.uint n) ∧
      (pySet (.uint k) (.intE n)).toOption ≠ none) ∧
    (¬ n < 2 ^ k.bits → ∃ m, pySet (.uint k) (.intC n) = .buildError m) ∧
    (¬ n < 2 ^ k.bits → n < 2 ^ 64 → pySet (.uint k) (.intE n) = .runFail) := by
  refine ⟨?_, ?_, ?_⟩
  · intro hn
    obtain ⟨bs, hm, he, _⟩ := leaf_uint_ok k n hn
    have h1 : uintSetInt k n = .ok n := by simp [(uintSet_range k n).1, hn]
    have h2 : uintSetExpr k n = some n := by
      unfold uintSetExpr; split
      · rfl
      · simp [hn]
    simp [pySet, buildCheck, runSet, h1, h2, Except.map, pure_ok, Res.of, hm, he, Res.toOption]
  · intro hn
    have h1 : uintSetInt k n = .error "TealInputError: Value exceeds uint maximum" := by
      simp [(uintSet_range k n).1, hn]
    exact ⟨"TealInputError: Value exceeds uint maximum", by simp [pySet, buildCheck, h1, Except.map, Res.of]⟩
  · intro hn h64
    have h2 := (uintSet_range k n).2 h64
    simp only [hn, ↓reduceIte] at h2
    simp [pySet, buildCheck, runSet, h2, pure_ok, Res.of]

/-- strings: a Python `str`/`bytes` gets its length prefix in Python (≥ 2¹⁶ bytes: algosdk raises
    while the program is built); an expression gets `Suffix(Itob(Len(x)), 6)` -/
theorem stringSet_correct (bs : Bytes) :
    (bs.length < 2 ^ 16 → pySet .string (.bytesC bs) = .ok (u16 bs.length ++ bs)) ∧
    (¬ bs.length < 2 ^ 16 → ∃ m, pySet .string (.bytesC bs) = .buildError m) ∧
    (bs.length ≤ avmMaxBytes → pySet .string (.bytesE bs) = .ok (u16 bs.length ++ bs)) ∧
    pySet .string (.bytesE bs) = .ok (beBytes 2 bs.length ++ bs) := by
  refine ⟨?_, ?_, ?_, ?_⟩
  · intro h
    simp [pySet, buildCheck, constByteString, h, pure_ok, Except.map, runSet, memberEncode, Res.of]
  · intro h
    exact ⟨"ABIEncodingError: value is too big to fit in size 16",
      by simp [pySet, buildCheck, constByteString, h, throw_err, Except.map, Res.of]⟩
  · intro _
    simp [pySet, buildCheck, pure_ok, runSet, memberEncode, Res.of, exprByteString_eq]
  · simp [pySet, buildCheck, pure_ok, runSet, memberEncode, Res.of, exprByteString_eq, u16]

/-- the length prefix of `String.set(expr)` carries no assertion: in the unbounded model it
    wraps at 2¹⁶ (prefix `00 00` for a 65536-byte string).  Unreachable on the AVM, whose byte
    strings have at most 4096 bytes – this is the only place where `pySet_correct` needs that
    bound (`WT`). -/
theorem stringSet_expr_wraps (bs : Bytes) (h : bs.length = 65536) :
    pySet .string (.bytesE bs) = .ok (0 :: 0 :: bs) ∧ encode .string (V.ofBytes bs) = none := by
  refine ⟨?_, by simp [encode_string_bytes, h, lim16]⟩
  rw [(stringSet_correct bs).2.2.2, h]
  rfl

/-- addresses: 32 bytes, checked in Python for constants and by `Assert(Len(x) == 32)` for
    expressions -/
theorem addressSet_correct (bs : Bytes) :
    (bs.length = 32 → pySet .address (.bytesC bs) = .ok bs ∧ pySet .address (.bytesE bs) = .ok bs) ∧
    (bs.length ≠ 32 → (∃ m, pySet .address (.bytesC bs) = .buildError m) ∧
      pySet .address (.bytesE bs) = .runFail) := by
  refine ⟨?_, ?_⟩
  · intro h
    simp [pySet, buildCheck, constFixedBytes, exprFixedBytes, h, pure_ok, Except.map, runSet,
      memberEncode, Res.of]
  · intro h
    refine ⟨⟨"TealInputError: Got bytes with wrong length",
      by simp [pySet, buildCheck, constFixedBytes, h, throw_err, Except.map, Res.of]⟩, ?_⟩
    simp [pySet, buildCheck, exprFixedBytes, h, pure_ok, runSet, Res.of]

/-! ## non-vacuity -/

/-- bool runs of 9 / 1 / 0 bools around dynamic members, leaves from constants and expressions:
    the hypotheses of `pySet_correct` hold and the bytes are the expected ones -/
example :
    let t : PT := .tuple [.string, .bool, .bool, .bool, .bool, .bool, .bool, .bool, .bool, .bool,
      .dynBytes, .bool, .uint .u16, .darray .bool]
    let x : In := .seq [.bytesE [104, 105], .boolC true, .boolE 7, .boolC false, .boolC false,
      .boolC false, .boolC false, .boolC false, .boolE 1, .boolC true,
      .bytesC [1], .boolE 0, .intE 513, .seq [.boolC true, .boolE 2]]
    WT t x = true ∧ (toTy t).wf = true ∧
    pySet t x = .ok [0, 11, 0xc1, 0x80, 0, 15, 0, 2, 1, 0, 18, 0, 2, 104, 105, 0, 1, 1, 0, 2, 0xc0] := by
  decide

/-- a run of exactly 8 bools between two dynamic members, inside a named tuple inside an array -/
example :
    let t : PT := .sarray (.named [.dynBytes, .bool, .bool, .bool, .bool, .bool, .bool, .bool, .bool, .string]) 1
    let x : In := .seq [.seq [.bytesC [], .boolC true, .boolC true, .boolC true, .boolC true, .boolC true,
      .boolC true, .boolC true, .boolE 9, .bytesE [33]]]
    WT t x = true ∧ (toTy t).wf = true ∧
    pySet t x = .ok [0, 2, 0, 5, 0xff, 0, 7, 0, 0, 0, 1, 33] := by
  decide

/-- no bools at all; out-of-range leaves: Python int → build error, expression → run-time failure,
    and a build error wins over a run-time failure elsewhere in the same value -/
example :
    pySet (.tuple [.uint .u8, .uint .u16]) (.seq [.intE 256, .intC 5]) = .runFail ∧
    pySet (.tuple [.uint .u8, .uint .u16]) (.seq [.intE 256, .intC 65536]) =
      .buildError "TealInputError: Value exceeds uint maximum" ∧
    pySet (.tuple [.uint .u8, .uint .u16]) (.seq [.intE 255, .intC 65535]) = .ok [255, 255, 255] := by
  decide

/-- a later tail offset that does not fit a uint16: the `Assert` on the accumulator fails -/
example (x : Bytes) (hx : x.length = 65532) :
    encodeTuple [⟨.string, .b x⟩, ⟨.string, .b []⟩] = .runFail := by
  have h1 : tupleBuildCheck [.string, .string] = .ok 4 := by rfl
  simp [encodeTuple, h1, Except.map, encodeTupleRun, headLenStatic, pyItems, isBoolSpec, headLenItems,
    pyIsDynamic, bind, Except.bind, pure_ok, headsLoop, dynHead, dynItem, memberEncode, hx, Res.of]

/-- a static head of 2¹⁶ bytes in front of a dynamic member: rejected while the program is built -/
example (x : Bytes) :
    encodeTuple [⟨.staticBytes 65534, .b x⟩, ⟨.string, .b []⟩] =
      .buildError "TealInputError: Value exceeds uint16 maximum" := by
  have h1 : tupleBuildCheck [.staticBytes 65534, .string] =
      .error "TealInputError: Value exceeds uint16 maximum" := by rfl
  simp [encodeTuple, h1, Except.map, Res.of]

end PyTealV.Proofs.C06
