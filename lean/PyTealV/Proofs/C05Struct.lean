/-
  C05, part 3: `tableT` and the structural opcodes against `execPrim`; `primT_sound`.
-/
import PyTealV.Proofs.C05Lemmas
namespace PyTealV.Proofs.C05
open PyTealV PyTealV.Avm PyTealV.Check.StackCheck

/-- What one straight-line opcode may do, seen from the routine: on success the routine's segment
    `own` is replaced by `own'` typed by `tys'`, the part `rest` below the routine's base is
    untouched, and the scratch invariant is kept; a failure is `Mild` (no underflow, no control
    failure), and a type error
    only if one of the inspected operands has abstract type `any`. -/
def StepRes (c : Cert) (rest : List Val) (tys' : List ATy) (ops : List ATy) : M (List Val × World) → Prop
  | .ok (st', w') => ∃ own', st' = own' ++ rest ∧ TysOK own' tys' ∧ SlotsOK c w'.scratch
  | .error e => Mild e ∧ ∀ m, e = .typeErr m → ops.any ATy.isAny = true

theorem lookupS_mem {α} : ∀ {l : List (String × α)} {k : String} {v : α}, lookupS l k = some v → (k, v) ∈ l
  | [], _, _, h => by simp [lookupS] at h
  | (k', v') :: l, k, v, h => by
    simp only [lookupS] at h
    split at h
    · simp only [Option.some.injEq] at h; subst h; subst_vars; simp
    · exact List.mem_cons_of_mem _ (lookupS_mem h)

theorem sig_ok {cx : Ctx} (hc : CtxOK cx) {op : String} {imms : List String} {pops pushes : List ATy}
    (hcov : ((lookupS coveredTable op).isSome || (sigImm op imms).isSome) = true)
    (h : sig op imms = some (pops, pushes)) : PrimOK cx op imms pops pushes := by
  unfold sig sigDoc at h
  cases h1 : lookupS coveredTable op with
  | some s =>
    simp only [h1, Option.map_some, Option.some.injEq, Prod.mk.injEq] at h
    obtain ⟨rfl, rfl⟩ := h
    exact coveredTable_ok cx (op, s) (lookupS_mem h1) imms
  | none =>
    cases h2 : sigImm op imms with
    | some s =>
      simp only [h1, h2, Option.map_some, Option.some.injEq, Prod.mk.injEq] at h
      obtain ⟨rfl, rfl⟩ := h
      exact sigImm_ok hc h2
    | none => simp [h1, h2] at hcov

theorem tableT_sound {c : Cert} {cx : Ctx} (hc : CtxOK cx) {op : String} {imms : List String}
    (hcov : ((lookupS coveredTable op).isSome || (sigImm op imms).isSome) = true)
    {tys tys' : List ATy} {w : World} {own rest : List Val}
    (h : tableT op imms tys = .ok tys') (hown : TysOK own tys) (hs : SlotsOK c w.scratch) :
    StepRes c rest tys'
      (match sig op imms with
        | some (pops, _) => tys.take pops.length
        | none => [])
      (execPrim cx op imms w (own ++ rest)) := by
  unfold tableT at h
  cases hsig : sig op imms with
  | none => simp [hsig] at h
  | some pp =>
    obtain ⟨pops, pushes⟩ := pp
    simp only [hsig] at h ⊢
    cases hp : popCompat tys pops with
    | error e => simp [hp, bind, Except.bind] at h
    | ok r =>
      simp only [hp, bind, Except.bind, Except.ok.injEq] at h
      subst h
      obtain ⟨ts, rfl, hcl⟩ := popCompat_ok hp
      obtain ⟨vs, own2, rfl, hvs, hown2⟩ := TysOK_split hown
      have hlen : vs.length = pops.length := (TysOK_length hvs).trans (compatL_length hcl)
      have hP := sig_ok hc hcov hsig w vs (own2 ++ rest) hlen
      have htake : (ts ++ r).take pops.length = ts := by
        rw [← compatL_length hcl]; simp
      rw [List.append_assoc]
      generalize execPrim cx op imms w (vs ++ (own2 ++ rest)) = res at hP
      cases res with
      | ok p =>
        obtain ⟨st', w'⟩ := p
        obtain ⟨h1, h2, h3⟩ := hP
        refine ⟨st'.take pushes.length ++ own2, ?_, TysOK_append h1 hown2, ?_⟩
        · rw [List.append_assoc, ← h2, List.take_append_drop]
        · rw [h3]; exact hs
      | error e =>
        refine ⟨hP.1, fun m hm => ?_⟩
        rw [htake]
        cases hany : ts.any ATy.isAny with
        | true => rfl
        | false => exact absurd hm (hP.2 (TysOK_of_compat hvs hcl hany) m)

/-! ### Structural opcodes -/

def StructSound (c : Cert) (cx : Ctx) (op : String) : Prop :=
  ∀ (imms : List String) (tys tys' : List ATy) (w : World) (own rest : List Val),
    structT c op imms tys = .ok tys' → TysOK own tys → SlotsOK c w.scratch →
    StepRes c rest tys' (structOperands op tys) (execPrim cx op imms w (own ++ rest))

theorem immN_immNat {op : String} {imms : List String} {i n : Nat} (h : immN imms i = .ok n) :
    immNat op imms i = .ok n := by
  unfold immN at h; unfold immNat
  split at h
  · split at h
    · simp only [Except.ok.injEq] at h; subst h; simp [*]
    · simp at h
  · simp at h

theorem getElem?_append_own {own rest : List Val} {n : Nat} {v : Val} (hv : own[n]? = some v) :
    (own ++ rest)[n]? = some v := by
  rw [List.getElem?_append_left (List.getElem?_eq_some_iff.mp hv).1]; exact hv

macro "exec_whnf" : tactic => `(tactic| (conv => arg 5; whnf))

theorem ss_pop (c cx) : StructSound c cx "pop" := by
  intro imms tys tys' w own rest h hown hs
  match tys, own, hown, h with
  | t :: ts, v :: vs, hown, h =>
    simp only [structT] at h
    cases h
    exec_whnf
    exact ⟨vs, rfl, hown.2, hs⟩
  | [], [], _, h => simp [structT] at h

theorem ss_dup (c cx) : StructSound c cx "dup" := by
  intro imms tys tys' w own rest h hown hs
  match tys, own, hown, h with
  | t :: ts, v :: vs, hown, h =>
    simp only [structT] at h
    cases h
    exec_whnf
    exact ⟨v :: v :: vs, rfl, ⟨hown.1, hown.1, hown.2⟩, hs⟩
  | [], [], _, h => simp [structT] at h

theorem ss_dup2 (c cx) : StructSound c cx "dup2" := by
  intro imms tys tys' w own rest h hown hs
  match tys, own, hown, h with
  | t1 :: t2 :: ts, v1 :: v2 :: vs, hown, h =>
    simp only [structT] at h
    cases h
    exec_whnf
    exact ⟨v1 :: v2 :: v1 :: v2 :: vs, rfl, ⟨hown.1, hown.2.1, hown.1, hown.2.1, hown.2.2⟩, hs⟩
  | [], [], _, h => simp [structT] at h
  | [_], [_], _, h => simp [structT] at h

theorem ss_swap (c cx) : StructSound c cx "swap" := by
  intro imms tys tys' w own rest h hown hs
  match tys, own, hown, h with
  | t1 :: t2 :: ts, v1 :: v2 :: vs, hown, h =>
    simp only [structT] at h
    cases h
    exec_whnf
    exact ⟨v2 :: v1 :: vs, rfl, ⟨hown.2.1, hown.1, hown.2.2⟩, hs⟩
  | [], [], _, h => simp [structT] at h
  | [_], [_], _, h => simp [structT] at h

theorem ss_select (c cx) : StructSound c cx "select" := by
  intro imms tys tys' w own rest h hown hs
  match tys, own, hown, h with
  | tz :: ty :: tx :: ts, vz :: vy :: vx :: vs, hown, h =>
    simp only [structT] at h
    split at h
    · rename_i hz
      cases h
      cases vz with
      | u n =>
        exec_whnf
        refine ⟨(if n ≠ 0 then vy else vx) :: vs, rfl, ⟨?_, hown.2.2.2⟩, hs⟩
        split
        · exact hasTy_join_right hown.2.1
        · exact hasTy_join_left hown.2.2.1
      | b x =>
        exec_whnf
        refine ⟨by simp [Mild], fun m _ => ?_⟩
        simp only [structOperands, List.take, List.any_cons, List.any_nil, Bool.or_false]
        exact any_of_b_compat_u hown.1 hz
    · cases h
  | [], [], _, h => simp [structT] at h
  | [_], [_], _, h => simp [structT] at h
  | [_, _], [_, _], _, h => simp [structT] at h

theorem ss_dig (c cx) : StructSound c cx "dig" := by
  intro imms tys tys' w own rest h hown hs
  simp only [structT, bind, Except.bind] at h
  split at h
  · simp at h
  · rename_i n hn
    split at h
    · rename_i t ht
      cases h
      obtain ⟨v, hv, hvt⟩ := TysOK_get hown ht
      exec_whnf
      rw [immN_immNat hn]
      simp only [getElem?_append_own hv]
      exact ⟨v :: own, rfl, ⟨hvt, hown⟩, hs⟩
    · cases h

theorem ss_uncover (c cx) : StructSound c cx "uncover" := by
  intro imms tys tys' w own rest h hown hs
  simp only [structT, bind, Except.bind] at h
  split at h
  · simp at h
  · rename_i n hn
    split at h
    · rename_i t ht
      cases h
      obtain ⟨v, hv, hvt⟩ := TysOK_get hown ht
      have hlt : n < own.length := (List.getElem?_eq_some_iff.mp hv).1
      exec_whnf
      rw [immN_immNat hn]
      simp only [getElem?_append_own hv]
      refine ⟨v :: (own.take n ++ own.drop (n + 1)), ?_, ⟨hvt, TysOK_append (TysOK_take n hown) (TysOK_drop (n + 1) hown)⟩, hs⟩
      rw [List.take_append_of_le_length (Nat.le_of_lt hlt), List.drop_append_of_le_length hlt]
      simp
    · cases h

theorem ss_bury (c cx) : StructSound c cx "bury" := by
  intro imms tys tys' w own rest h hown hs
  simp only [structT, bind, Except.bind] at h
  split at h
  · cases h
  · rename_i n hn
    split at h
    · cases h
    · rename_i hn0
      match tys, own, hown, h with
      | t :: ts, v :: vs, hown, h =>
        simp only at h
        split at h
        · rename_i hlt
          cases h
          have hlt' : n - 1 < vs.length := by rw [TysOK_length hown.2]; exact hlt
          exec_whnf
          rw [immN_immNat hn]
          simp only [hn0, if_false, ok_bind, pop1, bind_eq, pure_eq, throw_eq, List.cons_append]
          have : n - 1 < (vs ++ rest).length := by simp; omega
          simp only [this, if_true]
          refine ⟨vs.set (n - 1) v, ?_, TysOK_set (n - 1) hown.2 hown.1, hs⟩
          rw [List.set_append_left _ _ hlt']
        · cases h
      | [], [], _, h => cases h

theorem ss_cover (c cx) : StructSound c cx "cover" := by
  intro imms tys tys' w own rest h hown hs
  simp only [structT, bind, Except.bind] at h
  split at h
  · cases h
  · rename_i n hn
    match tys, own, hown, h with
    | t :: ts, v :: vs, hown, h =>
      simp only at h
      split at h
      · rename_i hle
        cases h
        have hle' : n ≤ vs.length := by rw [TysOK_length hown.2]; exact hle
        exec_whnf
        rw [immN_immNat hn]
        simp only [ok_bind, pop1, bind_eq, pure_eq, throw_eq, List.cons_append]
        have : n ≤ (vs ++ rest).length := by simp; omega
        simp only [this, if_true]
        refine ⟨vs.take n ++ v :: vs.drop n, ?_,
          TysOK_append (TysOK_take n hown.2) ⟨hown.1, TysOK_drop n hown.2⟩, hs⟩
        rw [List.take_append_of_le_length hle', List.drop_append_of_le_length hle']
        simp
      · cases h
    | [], [], _, h => cases h

theorem ss_popn (c cx) : StructSound c cx "popn" := by
  intro imms tys tys' w own rest h hown hs
  simp only [structT, bind, Except.bind] at h
  split at h
  · cases h
  · rename_i n hn
    split at h
    · rename_i hle
      cases h
      have hle' : n ≤ own.length := by rw [TysOK_length hown]; exact hle
      exec_whnf
      rw [immN_immNat hn]
      have : n ≤ (own ++ rest).length := by simp; omega
      simp only [ok_bind, bind_eq, pure_eq, throw_eq, this, if_true]
      refine ⟨own.drop n, ?_, TysOK_drop n hown, hs⟩
      rw [List.drop_append_of_le_length hle']
    · cases h

theorem ss_dupn (c cx) : StructSound c cx "dupn" := by
  intro imms tys tys' w own rest h hown hs
  simp only [structT, bind, Except.bind] at h
  split at h
  · cases h
  · rename_i n hn
    match tys, own, hown, h with
    | t :: ts, v :: vs, hown, h =>
      simp only at h
      cases h
      exec_whnf
      rw [immN_immNat hn]
      simp only [ok_bind, pop1, bind_eq, pure_eq, List.cons_append]
      exact ⟨List.replicate (n + 1) v ++ vs, by simp, TysOK_append (TysOK_replicate hown.1 _) hown.2, hs⟩
    | [], [], _, h => cases h

theorem ss_eq (c cx) : StructSound c cx "==" := by
  intro imms tys tys' w own rest h hown hs
  match tys, own, hown, h with
  | ty :: tx :: ts, vy :: vx :: vs, hown, h =>
    simp only [structT] at h
    split at h
    · rename_i hxy
      cases h
      cases vx <;> cases vy <;> exec_whnf
      · exact ⟨_ :: vs, rfl, ⟨trivial, hown.2.2⟩, hs⟩
      · refine ⟨by simp [Mild], fun m _ => ?_⟩
        have h1 := hown.1; have h2 := hown.2.1
        cases tx <;> cases ty <;> simp_all [hasTy, ATy.compat, structOperands, ATy.isAny]
      · refine ⟨by simp [Mild], fun m _ => ?_⟩
        have h1 := hown.1; have h2 := hown.2.1
        cases tx <;> cases ty <;> simp_all [hasTy, ATy.compat, structOperands, ATy.isAny]
      · exact ⟨_ :: vs, rfl, ⟨trivial, hown.2.2⟩, hs⟩
    · cases h
  | [], [], _, h => simp [structT] at h
  | [_], [_], _, h => simp [structT] at h

theorem ss_ne (c cx) : StructSound c cx "!=" := by
  intro imms tys tys' w own rest h hown hs
  match tys, own, hown, h with
  | ty :: tx :: ts, vy :: vx :: vs, hown, h =>
    simp only [structT] at h
    split at h
    · rename_i hxy
      cases h
      cases vx <;> cases vy <;> exec_whnf
      · exact ⟨_ :: vs, rfl, ⟨trivial, hown.2.2⟩, hs⟩
      · refine ⟨by simp [Mild], fun m _ => ?_⟩
        have h1 := hown.1; have h2 := hown.2.1
        cases tx <;> cases ty <;> simp_all [hasTy, ATy.compat, structOperands, ATy.isAny]
      · refine ⟨by simp [Mild], fun m _ => ?_⟩
        have h1 := hown.1; have h2 := hown.2.1
        cases tx <;> cases ty <;> simp_all [hasTy, ATy.compat, structOperands, ATy.isAny]
      · exact ⟨_ :: vs, rfl, ⟨trivial, hown.2.2⟩, hs⟩
    · cases h
  | [], [], _, h => simp [structT] at h
  | [_], [_], _, h => simp [structT] at h

theorem ss_setbit (c cx) : StructSound c cx "setbit" := by
  intro imms tys tys' w own rest h hown hs
  match tys, own, hown, h with
  | tz :: ty :: tx :: ts, vz :: vy :: vx :: vs, hown, h =>
    simp only [structT] at h
    split at h
    · rename_i hzy
      simp only [Bool.and_eq_true] at hzy
      cases h
      cases vy with
      | b y =>
        exec_whnf
        refine ⟨by simp [Mild], fun m _ => ?_⟩
        have := any_of_b_compat_u hown.2.1 hzy.2
        simp [structOperands, this]
      | u i =>
        cases vz with
        | b z =>
          exec_whnf
          refine ⟨by simp [Mild], fun m _ => ?_⟩
          have := any_of_b_compat_u hown.1 hzy.1
          simp [structOperands, this]
        | u v =>
          cases vx with
          | u x =>
            exec_whnf
            prim_norm
            repeat' split
            all_goals first
              | exact ⟨_ :: vs, rfl, ⟨hasTy_u_of_u hown.2.2.1, hown.2.2.2⟩, hs⟩
              | exact ⟨by simp [Mild], fun m hm => by simp at hm⟩
          | b x =>
            exec_whnf
            prim_norm
            repeat' split
            all_goals first
              | exact ⟨_ :: vs, rfl, ⟨hasTy_b_of_b hown.2.2.1, hown.2.2.2⟩, hs⟩
              | exact ⟨by simp [Mild], fun m hm => by simp at hm⟩
    · cases h
  | [], [], _, h => simp [structT] at h
  | [_], [_], _, h => simp [structT] at h
  | [_, _], [_, _], _, h => simp [structT] at h

theorem allSlotsAccept_le {c : Cert} {t : ATy} (h : allSlotsAccept c t = true) {n : Nat} (hn : n < 256) :
    t.le (c.slotTy n) = true := by
  unfold allSlotsAccept at h
  rw [List.all_eq_true] at h
  exact h n (List.mem_range.mpr hn)

theorem ss_stores (c cx) : StructSound c cx "stores" := by
  intro imms tys tys' w own rest h hown hs
  match tys, own, hown, h with
  | ty :: tx :: ts, vy :: vx :: vs, hown, h =>
    simp only [structT] at h
    split at h
    · rename_i hx
      split at h
      · rename_i hall
        cases h
        cases vx with
        | b x =>
          exec_whnf
          refine ⟨by simp [Mild], fun m _ => ?_⟩
          have := any_of_b_compat_u hown.2.1 hx
          simp [structOperands, this]
        | u s =>
          exec_whnf
          prim_norm
          split
          · rename_i hs256
            exact ⟨vs, rfl, hown.2.2, SlotsOK_set hs (hasTy_le hown.1 (allSlotsAccept_le hall hs256))⟩
          · exact ⟨by simp [Mild], fun m hm => by simp at hm⟩
      · cases h
    · cases h
  | [], [], _, h => simp [structT] at h
  | [_], [_], _, h => simp [structT] at h

theorem structT_sound (c : Cert) (cx : Ctx) {op : String} (h : structOps.contains op = true) :
    StructSound c cx op := by
  simp only [structOps, List.contains_eq_mem, List.mem_cons, List.not_mem_nil, or_false,
    decide_eq_true_eq] at h
  rcases h with rfl | rfl | rfl | rfl | rfl | rfl | rfl | rfl | rfl | rfl | rfl | rfl | rfl | rfl | rfl
  · exact ss_pop c cx
  · exact ss_dup c cx
  · exact ss_dup2 c cx
  · exact ss_swap c cx
  · exact ss_select c cx
  · exact ss_dig c cx
  · exact ss_bury c cx
  · exact ss_cover c cx
  · exact ss_uncover c cx
  · exact ss_popn c cx
  · exact ss_dupn c cx
  · exact ss_eq c cx
  · exact ss_ne c cx
  · exact ss_setbit c cx
  · exact ss_stores c cx

/-- **abstract `primT` is sound for `execPrim`** on every covered opcode -/
theorem primT_sound {c : Cert} {cx : Ctx} (hc : CtxOK cx) {op : String} {imms : List String}
    (hcov : coveredPrim op imms = true) {tys tys' : List ATy} {w : World} {own rest : List Val}
    (h : primT c op imms tys = .ok tys') (hown : TysOK own tys) (hs : SlotsOK c w.scratch) :
    StepRes c rest tys' (operandTys (.prim op imms) tys) (execPrim cx op imms w (own ++ rest)) := by
  unfold primT at h
  unfold operandTys
  by_cases hst : structOps.contains op = true
  · simp only [hst, if_true] at h ⊢
    exact structT_sound c cx hst imms tys tys' w own rest h hown hs
  · simp only [hst, if_false] at h ⊢
    unfold coveredPrim at hcov
    simp only [Bool.not_eq_true] at hst
    simp only [hst, Bool.false_or] at hcov
    exact tableT_sound hc hcov h hown hs

end PyTealV.Proofs.C05
