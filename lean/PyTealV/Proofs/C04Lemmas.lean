/-
  C04 helper lemmas: which failures the opcode semantics `execPrim` can raise.
-/
import PyTealV.Avm.Sem
namespace PyTealV.Proofs.C04L
open PyTealV PyTealV.Avm PyTealV.Util

/-- every failure `x` can raise satisfies `S` -/
structure Errs {α : Type} (S : Fail → Prop) (x : M α) : Prop where
  out : ∀ e, x = .error e → S e

/-- `S` admits the data failures (stack underflow, type, arithmetic/range, unmodelled) -/
structure DataOK (S : Fail → Prop) : Prop where
  underflow : S .underflow
  typeErr : ∀ m, S (.typeErr m)
  logic : ∀ m, S (.logic m)
  unmodelled : ∀ m, S (.unmodelled m)

variable {S : Fail → Prop} {α β : Type}

theorem Errs.ok (a : α) : Errs S (Except.ok a : M α) := ⟨fun _ h => by cases h⟩
theorem Errs.pure (a : α) : Errs S (Pure.pure a : M α) := ⟨fun _ h => by cases h⟩
theorem Errs.error {e : Fail} (h : S e) : Errs S (Except.error e : M α) := ⟨fun _ h' => by cases h'; exact h⟩
theorem Errs.throw {e : Fail} (h : S e) : Errs S (throw e : M α) := ⟨fun _ h' => by cases h'; exact h⟩
theorem Errs.bind {x : M α} {f : α → M β} (hx : Errs S x) (hf : ∀ a, Errs S (f a)) : Errs S (x >>= f) := by
  constructor
  intro e h
  cases x with
  | error e' => cases h; exact hx.out _ rfl
  | ok a => exact (hf a).out e h
theorem Errs.ite {c : Prop} [Decidable c] {a b : M α} (ha : c → Errs S a) (hb : ¬c → Errs S b) :
    Errs S (if c then a else b) := by split <;> simp_all
theorem Errs.dite {c : Prop} [Decidable c] {a : c → M α} {b : ¬c → M α} (ha : ∀ h, Errs S (a h)) (hb : ∀ h, Errs S (b h)) :
    Errs S (if h : c then a h else b h) := by split <;> simp_all

section leaves
variable (D : DataOK S)
include D

theorem Errs.pop1 (st : List Val) : Errs S (pop1 st) := by
  unfold Avm.pop1; split
  · exact .ok _
  · exact .error D.underflow
theorem Errs.pop2 (st : List Val) : Errs S (pop2 st) := by
  unfold Avm.pop2; split
  · exact .ok _
  · exact .error D.underflow
theorem Errs.pop3 (st : List Val) : Errs S (pop3 st) := by
  unfold Avm.pop3; split
  · exact .ok _
  · exact .error D.underflow
theorem Errs.pop4 (st : List Val) : Errs S (pop4 st) := by
  unfold Avm.pop4; split
  · exact .ok _
  · exact .error D.underflow
theorem Errs.asU (v : Val) : Errs S (asU v) := by
  unfold Avm.asU; split
  · exact .ok _
  · exact .error (D.typeErr _)
theorem Errs.asB (v : Val) : Errs S (asB v) := by
  unfold Avm.asB; split
  · exact .ok _
  · exact .error (D.typeErr _)
theorem Errs.mkU (n : Nat) : Errs S (mkU n) := by
  unfold Avm.mkU; split
  · exact .ok _
  · exact .error (D.logic _)
theorem Errs.mkB (b : Bytes) : Errs S (mkB b) := by
  unfold Avm.mkB; split
  · exact .ok _
  · exact .error (D.logic _)
theorem Errs.sliceB (b : Bytes) (s e : Nat) : Errs S (sliceB b s e) := by
  unfold Avm.sliceB; split
  · exact .ok _
  · exact .error (D.logic _)
theorem Errs.expNat (a b l : Nat) : Errs S (expNat a b l) := by
  unfold Avm.expNat
  dsimp only
  repeat' split
  all_goals first | exact .ok _ | exact .error (D.logic _)
theorem Errs.getBitB (b : Bytes) (i : Nat) : Errs S (getBitB b i) := by
  unfold Avm.getBitB; split
  · exact .ok _
  · exact .error (D.logic _)
theorem Errs.setBitB (b : Bytes) (i v : Nat) : Errs S (setBitB b i v) := by
  unfold Avm.setBitB; split
  · exact .ok _
  · exact .error (D.logic _)
theorem Errs.bcmp (a b : Bytes) (f : Nat → Nat → Bool) : Errs S (bcmp a b f) := by
  unfold Avm.bcmp; split
  · exact .error (D.logic _)
  · exact .ok _
omit D in
theorem Errs.bbit (a b : Bytes) (f : UInt8 → UInt8 → UInt8) : Errs S (bbit a b f) := by
  unfold Avm.bbit; exact .ok _
theorem Errs.bmath (a b : Bytes) (f : Nat → Nat → M Nat) (hf : ∀ m n, Errs S (f m n)) : Errs S (bmath a b f) := by
  unfold Avm.bmath
  dsimp only
  split
  · exact Errs.bind (Errs.throw (D.logic _)) (fun _ => Errs.bind (hf _ _) (fun _ => Errs.mkB D _))
  · exact Errs.bind (hf _ _) (fun _ => Errs.mkB D _)
theorem Errs.fieldLookup (fl : List (String × List Val)) (f : String) (i : Option Nat) : Errs S (fieldLookup fl f i) := by
  unfold Avm.fieldLookup
  repeat' split
  all_goals first | exact .ok _ | exact .error (D.logic _) | exact .error (D.unmodelled _)
theorem Errs.txnLookup (cx : Ctx) (t : Nat) (f : String) (i : Option Nat) : Errs S (txnLookup cx t f i) := by
  unfold Avm.txnLookup; split
  · exact Errs.fieldLookup D _ _ _
  · exact .error (D.logic _)
end leaves

theorem Errs.immNat (hI : ∀ m, S (.illegal m)) (op : String) (imms : List String) (i : Nat) : Errs S (immNat op imms i) := by
  unfold Avm.immNat
  repeat' split
  all_goals first | exact .ok _ | exact .error (hI _)
theorem Errs.immStr (hI : ∀ m, S (.illegal m)) (op : String) (imms : List String) (i : Nat) : Errs S (immStr op imms i) := by
  unfold Avm.immStr
  repeat' split
  all_goals first | exact .ok _ | exact .error (hI _)


/-- one step of the syntax-directed proof that a `do` block raises only failures in `S` -/
macro "errs_step" D:term : tactic => `(tactic| first
  | (refine Errs.bind ?_ (fun _ => ?_))
  | exact Errs.pure _
  | exact Errs.ok _
  | exact Errs.pop1 $D _ | exact Errs.pop2 $D _ | exact Errs.pop3 $D _ | exact Errs.pop4 $D _
  | exact Errs.asU $D _ | exact Errs.asB $D _ | exact Errs.mkU $D _ | exact Errs.mkB $D _
  | exact Errs.sliceB $D _ _ _ | exact Errs.expNat $D _ _ _ | exact Errs.getBitB $D _ _
  | exact Errs.setBitB $D _ _ _ | exact Errs.bcmp $D _ _ _ | exact Errs.bbit _ _ _
  | exact Errs.txnLookup $D _ _ _ _
  | exact Errs.throw (DataOK.underflow $D) | exact Errs.throw (DataOK.logic $D _)
  | exact Errs.throw (DataOK.typeErr $D _) | exact Errs.throw (DataOK.unmodelled $D _)
  | exact Errs.error (DataOK.underflow $D) | exact Errs.error (DataOK.logic $D _)
  | exact Errs.error (DataOK.typeErr $D _) | exact Errs.error (DataOK.unmodelled $D _)
  | (refine Errs.ite (fun _ => ?_) (fun _ => ?_))
  | (refine Errs.bmath $D _ _ _ (fun _ _ => ?_))
  | split)

macro "errs_auto" D:term : tactic => `(tactic| repeat' (errs_step $D))

/-! ### The sites where `execPrim` can raise `.illegal` -/

/-- (opcode, position) of the immediates that `execPrim` reads as decimal numbers -/
def natSiteList : List (String × Nat) := [
  ("substring", 0), ("substring", 1), ("extract", 0), ("extract", 1), ("replace2", 0), ("dig", 0), ("bury", 0),
  ("cover", 0), ("uncover", 0), ("popn", 0), ("dupn", 0), ("gtxn", 0), ("gtxnas", 0), ("arg", 0),
  ("txna", 1), ("gtxnsa", 1), ("gtxna", 0), ("gtxna", 2)]

/-- (opcode, position) of the immediates that `execPrim` reads as names -/
def strSiteList : List (String × Nat) := [
  ("base64_decode", 0), ("txn", 0), ("txna", 0), ("txnas", 0), ("gtxns", 0), ("gtxnsa", 0),
  ("gtxnsas", 0), ("global", 0), ("itxn_field", 0), ("itxn", 0),
  ("gtxn", 1), ("gtxna", 1), ("gtxnas", 1)]

/-- the run mode `execPrim` insists on -/
def modeSiteList : List (String × Mode) := [
  ("arg", .sig), ("arg_0", .sig), ("arg_1", .sig), ("arg_2", .sig), ("arg_3", .sig), ("args", .sig),
  ("app_global_get", .app), ("app_global_get_ex", .app), ("app_global_put", .app), ("app_global_del", .app),
  ("app_local_get", .app), ("app_local_get_ex", .app), ("app_local_put", .app), ("app_local_del", .app),
  ("app_opted_in", .app), ("balance", .app), ("min_balance", .app), ("asset_holding_get", .app),
  ("asset_params_get", .app), ("app_params_get", .app), ("acct_params_get", .app), ("log", .app),
  ("box_create", .app), ("box_put", .app), ("box_get", .app), ("box_len", .app), ("box_del", .app),
  ("box_extract", .app), ("box_replace", .app), ("itxn_begin", .app), ("itxn_next", .app),
  ("itxn_field", .app), ("itxn_submit", .app), ("itxn", .app)]

/-- list membership by position (no evaluation of string equality: literals unify syntactically) -/
macro "mem_tac" : tactic => `(tactic| repeat (first | exact List.Mem.head _ | apply List.Mem.tail))

theorem mode_ne_of_not_beq {a b : Mode} (h : ¬ (a == b) = true) : a ≠ b := by
  intro hab; subst hab; cases a <;> exact h (by decide)
theorem mode_ne_of_bne {a b : Mode} (h : (a != b) = true) : a ≠ b := by
  intro hab; subst hab; cases a <;> exact absurd h (by decide)

set_option maxHeartbeats 4000000 in
/-- **The traversal of `execPrim`.**  Every failure it can raise is a data failure (underflow,
    type, arithmetic/range/limit, unmodelled) — or `.illegal`, and that only at the sites listed
    by `natSiteList`/`strSiteList` (a missing or malformed immediate) and `modeSiteList` (wrong run mode). -/
theorem execPrim_errs {S : Fail → Prop} (D : DataOK S)
    (cx : Ctx) (op : String) (imms : List String) (w : World) (st : List Val)
    (hN : ∀ i, (op, i) ∈ natSiteList → Errs S (immNat op imms i))
    (hS : ∀ i, (op, i) ∈ strSiteList → Errs S (immStr op imms i))
    (hM : ∀ m, (op, m) ∈ modeSiteList → cx.mode ≠ m → ∀ msg, S (.illegal msg)) :
    Errs S (execPrim cx op imms w st) := by
  unfold execPrim
  dsimp only
  split
  all_goals (errs_auto D)
  all_goals first
    | exact hN _ (by mem_tac)
    | exact hS _ (by mem_tac)
    | exact Errs.throw (hM .app (by mem_tac) (mode_ne_of_not_beq ‹_›) _)
    | exact Errs.throw (hM .sig (by mem_tac) (mode_ne_of_bne ‹_›) _)

end PyTealV.Proofs.C04L
