/-
  C02Gen (part 7): from "the generator succeeded on a program of the fragment" to the facts
  `ProgOK` about the routine graphs (closing lemmas for `genSub`, `genMainR`, `genProg`).
-/
import PyTealV.Proofs.C02GenCall
namespace PyTealV.Proofs.C02Gen
open PyTealV PyTealV.Avm PyTealV.Src PyTealV.Comp PyTealV.Models.Fragment PyTealV.Models.FragmentR
open PyTealV.Check (isSimple)
open PyTealV.Proofs.Shape (ovf Blk isUnm retOut bind_ok emit_ok opBlock_ok Ext noP Spec)

/-! ### model labels -/

theorem toString_nat_inj {a b : Nat} (h : toString a = toString b) : a = b := by
  have h1 := PyTealV.Proofs.C02Spill.parseNat_toString a
  have h2 := PyTealV.Proofs.C02Spill.parseNat_toString b
  rw [h] at h1
  rw [h1] at h2
  exact Option.some.inj h2

theorem subLabel_inj {a b : Nat} (h : subLabel a = subLabel b) : a = b := by
  unfold subLabel at h
  have := congrArg String.toList h
  simp only [String.toList_append, List.append_cancel_left_eq] at this
  exact toString_nat_inj (String.toList_inj.mp this)

/-! ### one subroutine -/

theorem genSub_spec {version : Nat} {p : Prog} {sd : SubDef} {slots : List Nat} {r : Routine}
    (h : genSub version false false p sd slots = .ok r) :
    ∃ bs, Blk r.G r.start (sd.params.reverse.map (fun kv => Instr.store kv.2)) (.next bs) ∧
      ShapeR r.G { version := version, inSub := true, framePointers := false, frameParams := [],
                   callees := calleesOf p, reenters := sd.reenters, localSlots := slots, markIndex := false }
        (wrapBody sd) bs 0 none := by
  unfold genSub at h
  simp only [StateT.run, Bool.false_eq_true, if_false] at h
  split at h
  · rename_i s' g' hrun
    cases h
    obtain ⟨exitB, g2, h1, h2⟩ := bind_ok hrun
    cases emit_ok h1
    obtain ⟨bs, g3, h3, h4⟩ := bind_ok h2
    cases opBlock_ok h4
    have spec := genR_spec _ _ _ _ _ _ h3
    refine ⟨bs, ?_, ?_⟩
    · unfold Blk
      simp
    · have := spec.2 _ noP (fun i f => f.elim) (Ext.push g3 { ops := List.map (fun x => Instr.store x.snd) sd.params.reverse, succ := Succ.next bs })
      exact this
  · cases h

/-- the same under the frame-pointer convention (by-value parameters only): the prologue is
    `proto`, parameters are read with `frame_dig` -/
theorem genSub_spec_fp {version : Nat} {p : Prog} {sd : SubDef} {slots : List Nat} {r : Routine}
    (h : genSub version true false p sd slots = .ok r) :
    ∃ bs, Blk r.G r.start (.proto sd.params.length (if sd.hasRet then 1 else 0) :: refCopies sd) (.next bs) ∧
      ShapeR r.G { version := version, inSub := true, framePointers := true, frameParams := fpParams sd,
                   callees := calleesOf p, reenters := sd.reenters, localSlots := slots, markIndex := false }
        (wrapBody sd) bs 0 none := by
  unfold genSub at h
  simp only [StateT.run, if_true] at h
  split at h
  · rename_i s' g' hrun
    cases h
    obtain ⟨exitB, g2, h1, h2⟩ := bind_ok hrun
    cases emit_ok h1
    obtain ⟨bs, g3, h3, h4⟩ := bind_ok h2
    cases opBlock_ok h4
    have spec := genR_spec _ _ _ _ _ _ h3
    refine ⟨bs, ?_, ?_⟩
    · unfold Blk
      simp only [Array.getElem?_push_size, Option.some.injEq]
      rfl
    · exact spec.2 _ noP (fun i f => f.elim) (Ext.push g3 _)
  · cases h

/-- the main routine: block 0 is the exit; the tree (wrapped into `Return` when it has no return
    on every path) starts at the entry block and continues at block 0 -/
theorem genMainR_spec {version : Nat} {p : Prog} {r : Routine} (h : genMainR version false p = .ok r) :
    r.G[0]? = some ({} : Block) ∧
    ShapeR r.G { version := version, inSub := false, callees := calleesOf p, markIndex := false }
      (if hasReturn p.main then p.main else .ret (some p.main)) r.start 0 none := by
  unfold genMainR at h
  simp only [StateT.run] at h
  split at h
  · rename_i s' g' hrun
    cases h
    obtain ⟨exitB, g2, h1, h2⟩ := bind_ok hrun
    cases emit_ok h1
    have spec := genR_spec _ _ _ _ _ _ h2
    refine ⟨?_, ?_⟩
    · show g'[0]? = _
      rw [spec.1.get (by simp) (fun f => f.elim)]
      simp
    · have := spec.2 g' noP (fun i f => f.elim) (.refl _ _)
      exact this
  · cases h

/-! ### the table of subroutine graphs -/

theorem genSubs_lookup {version : Nat} {fp : Bool} {p : Prog} : ∀ (l : List SubDef) (rs : List (String × Graph × Nat)),
    genSubs version fp p l = .ok rs → ∀ f sd, l.find? (·.id == f) = some sd →
      ∃ r, genSub version fp false p sd (spillSlotsC fp sd) = .ok r ∧ rs.lookup (subLabel f) = some (r.G, r.start)
  | [], rs, _, f, sd, hfind => by cases hfind
  | sd0 :: rest, rs, h, f, sd, hfind => by
    simp only [genSubs] at h
    split at h
    · rename_i r rs' hr hrs
      cases h
      simp only [List.find?_cons] at hfind
      split at hfind
      · rename_i hid
        cases hfind
        simp only [beq_iff_eq] at hid
        subst hid
        exact ⟨r, hr, by simp⟩
      · rename_i hid
        obtain ⟨r', hr', hl⟩ := genSubs_lookup rest rs' hrs f sd hfind
        refine ⟨r', hr', ?_⟩
        have hne : (subLabel f == subLabel sd0.id) = false := by
          simp only [beq_eq_false_iff_ne, ne_eq]
          intro hh
          have := subLabel_inj hh
          simp [this] at hid
        simp only [List.lookup_cons, hne]
        exact hl
    · cases h
    · cases h

/-! ### the program -/

theorem nodupB_nodup : ∀ (l : List Nat), nodupB l = true → l.Nodup
  | [], _ => List.nodup_nil
  | x :: xs, h => by
    simp only [nodupB, Bool.and_eq_true, Bool.not_eq_true', List.contains_eq_mem, decide_eq_false_iff_not] at h
    exact List.nodup_cons.mpr ⟨h.1, nodupB_nodup xs h.2⟩

/-- the main-routine part of a successful `genProg` -/
theorem genProg_main {version : Nat} {fp : Bool} {p : Prog} {Pg : PProg} (h : genProg version fp p = .ok Pg) :
    Pg.main[0]? = some ({} : Block) ∧
    ShapeR Pg.main { version := version, inSub := false, callees := calleesOf p, markIndex := false }
      (if hasReturn p.main then p.main else .ret (some p.main)) Pg.start 0 none := by
  unfold genProg at h
  split at h
  · rename_i m subs hm hs
    cases h
    exact genMainR_spec hm
  · cases h
  · cases h

theorem genProg_subs {version : Nat} {fp : Bool} {p : Prog} {Pg : PProg} (h : genProg version fp p = .ok Pg) :
    genSubs version fp p p.subs = .ok Pg.subs := by
  unfold genProg at h
  split at h
  · rename_i m subs hm hs
    cases h
    exact hs
  · cases h
  · cases h

theorem beq_eqv (kv : ParamKind × Var) (h : (kv.1 == ParamKind.val) = true) : kv.1 = ParamKind.val := by
  cases hk : kv.1 with
  | val => rfl
  | ref => rw [hk] at h; exact absurd h (by decide)

theorem mem_allParamSlots {p : Prog} {sd : SubDef} (hm : sd ∈ p.subs) {kv : ParamKind × Var} (hk : kv ∈ sd.params) :
    kv.2 ∈ allParamSlots p := by
  unfold allParamSlots
  exact List.mem_flatMap.mpr ⟨sd, hm, List.mem_map.mpr ⟨kv, hk, rfl⟩⟩

/-- from one successful `genSub` (stored under the model label of the routine) and the
    per-routine fragment conditions to `SubOK` -/
theorem subOK_of_genSub {P : PCtx} {f : Nat} {sd : SubDef} {r : Routine}
    (hr : genSub P.version P.fp false P.p sd (spillSlotsC P.fp sd) = .ok r)
    (hl : P.Pg.subs.lookup (subLabel f) = some (r.G, r.start))
    (hmem : sd ∈ P.p.subs)
    (hok : subOkC P.fp P.p sd P.dyn P.strict = true) : SubOK P f sd := by
  simp only [subOkC, Bool.and_eq_true, List.all_eq_true, decide_eq_true_eq, Bool.or_eq_true, Bool.not_eq_true',
    List.contains_eq_mem, decide_eq_false_iff_not, beq_iff_eq] at hok
  obtain ⟨⟨⟨⟨⟨⟨⟨⟨hwt, hpar⟩, hnd⟩, hloc⟩, hsnd⟩, hs1⟩, hs2⟩, hpl⟩, hstr⟩ := hok
  have hlook : ∃ G sf bs, P.Pg.subs.lookup (subLabel f) = some (G, sf) ∧ Blk G sf (prologue P.fp sd) (.next bs) ∧
      ShapeR G (subCfg P sd) (wrapBody sd) bs 0 none := by
    cases hfp : P.fp with
    | false =>
      rw [hfp] at hr
      obtain ⟨bs, hb, hsh⟩ := genSub_spec hr
      refine ⟨r.G, r.start, bs, hl, ?_, ?_⟩
      · simp only [prologue, Bool.false_eq_true, if_false]
        rw [List.map_map]
        exact hb
      · simp only [subCfg, hfp, Bool.false_eq_true, if_false]
        exact hsh
    | true =>
      rw [hfp] at hr
      obtain ⟨bs, hb, hsh⟩ := genSub_spec_fp hr
      refine ⟨r.G, r.start, bs, hl, ?_, ?_⟩
      · simp only [prologue, if_true]
        exact hb
      · simp only [subCfg, hfp, if_true]
        exact hsh
  refine ⟨hlook, hwt, nodupB_nodup _ hnd, ?_, ?_, ?_, ?_, ?_,
    nodupB_nodup _ hsnd, ?_, ?_, ?_⟩
  · -- p256
    intro hfp kv hkv
    rcases (hpar kv hkv).2 with h | h
    · rw [hfp] at h; cases h.1
    · exact h
  · -- pval
    intro hfp hs kv hkv
    rcases (hpar kv hkv).1 with (h | h) | h
    · exact beq_eqv kv h
    · rw [hfp] at h; cases h
    · rw [hs] at h; cases h
  · -- pign
    intro hfp kv hkv hk
    simp only [PCtx.ign, ignOf, hfp, if_true]
    split
    · refine List.mem_flatMap.mpr ⟨sd, hmem, ?_⟩
      unfold valSlots
      exact List.mem_map.mpr ⟨kv, List.mem_filter.mpr ⟨hkv, by rw [hk]; rfl⟩, rfl⟩
    · exact mem_allParamSlots hmem hkv
  · -- pref
    intro hfp kv hkv hk
    refine ⟨?_, ?_⟩
    · rcases (hpar kv hkv).2 with h | h
      · rw [hk] at h; exact absurd h.2 (by decide)
      · exact h
    · simp only [PCtx.ign, ignOf, hfp, if_true]
      rcases hstr with hs | hs
      · -- without the discipline every parameter is by value
        rcases (hpar kv hkv).1 with (h | h) | h
        · rw [hk] at h; exact absurd h (by decide)
        · rw [hfp] at h; cases h
        · rw [hs] at h; cases h
      · have hsT : P.strict = true := by
          cases hst : P.strict with
          | true => rfl
          | false =>
            rcases (hpar kv hkv).1 with (h | h) | h
            · rw [hk] at h; exact absurd h (by decide)
            · rw [hfp] at h; cases h
            · rw [hst] at h; cases h
        rw [hsT]
        simp only [if_true]
        refine hs.2 kv.2 ?_
        unfold refSlots
        exact List.mem_map.mpr ⟨kv, List.mem_filter.mpr ⟨hkv, by rw [hk]; rfl⟩, rfl⟩
  · -- plocal
    intro hfp kv hkv
    rcases hpl with h | h
    · rw [hfp] at h; cases h
    · exact h kv hkv
  · -- s256
    intro s hs
    rcases hloc s (hs1 s hs).1 with h | h
    · exact absurd h (hs1 s hs).2
    · exact h
  · -- sset
    intro x hx
    refine ⟨fun h => ?_, fun h => (hs1 x h).1⟩
    rcases hs2 x h with h' | h'
    · exact absurd h' hx
    · exact h'
  · -- snign
    intro x hx
    exact (hs1 x hx).2

/-- **Closing lemma for whole programs**: a successful `genProg` on a program of the fragment
    yields routine graphs with the properties the semantic half needs. -/
theorem progOK_of_gen {version : Nat} {fp dyn strict : Bool} {p : Prog} {Pg : PProg} (cx : Ctx)
    (hg : genProg version fp p = .ok Pg) (hf : inFragmentC fp p dyn strict = true) :
    ProgOK ⟨cx, p, Pg, version, fp, dyn, strict⟩ := by
  intro f sd hsd _
  have hsubs := genProg_subs hg
  obtain ⟨r, hr, hl⟩ := genSubs_lookup p.subs Pg.subs hsubs f sd hsd
  have hmem : sd ∈ p.subs := List.mem_of_find?_eq_some hsd
  simp only [inFragmentC, Bool.and_eq_true, List.all_eq_true] at hf
  exact subOK_of_genSub (P := ⟨cx, p, Pg, version, fp, dyn, strict⟩) hr hl hmem (hf.1.1.2 sd hmem)

/-- `genProg` generates a graph for every declared routine -/
theorem callPresent_of_gen {version : Nat} {fp dyn strict : Bool} {p : Prog} {Pg : PProg} (cx : Ctx)
    (hg : genProg version fp p = .ok Pg) : CallPresent ⟨cx, p, Pg, version, fp, dyn, strict⟩ := by
  intro X cfg K cur hR f ce cb k hf _
  rw [hR.callees, callees_find] at hf
  cases hsd : findSub p f with
  | none => rw [hsd] at hf; cases hf
  | some sd =>
    obtain ⟨r, _, hl⟩ := genSubs_lookup p.subs Pg.subs (genProg_subs hg) f sd hsd
    simp only [Present, hl, Option.isSome_some]

end PyTealV.Proofs.C02Gen
