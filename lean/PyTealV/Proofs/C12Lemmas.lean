/-
  C12 helper lemmas: Python-dict / stable-sort facts, decoding of the assembled forms.
-/
import PyTealV.Models.Constants
set_option linter.unusedSectionVars false
namespace PyTealV.Proofs.C12
open PyTealV PyTealV.Util PyTealV.Models.Constants

/-! ### lists -/
section Lists
variable {α : Type} [DecidableEq α]

theorem idxOf_get {v : α} : ∀ {l : List α}, v ∈ l → l[idxOf v l]? = some v
  | [], h => by simp at h
  | x :: r, h => by
    unfold idxOf
    by_cases hx : x = v
    · simp [hx]
    · have : v ∈ r := by
        rcases List.mem_cons.mp h with h | h
        · exact absurd h.symm hx
        · exact h
      simp [hx, idxOf_get this]

theorem idxOf_lt {v : α} : ∀ {l : List α}, v ∈ l → idxOf v l < l.length
  | [], h => by simp at h
  | x :: r, h => by
    unfold idxOf
    by_cases hx : x = v
    · simp [hx]
    · have : v ∈ r := by
        rcases List.mem_cons.mp h with h | h
        · exact absurd h.symm hx
        · exact h
      have := idxOf_lt this
      simp [hx]; omega

theorem getCount_bump (k v : α) : ∀ d : List (α × Nat),
    getCount (bump k d) v = getCount d v + (if k = v then 1 else 0)
  | [] => by
    by_cases h : k = v <;> simp [bump, getCount, h]
  | (k', c) :: r => by
    unfold bump
    by_cases h1 : k' = k
    · subst h1
      by_cases h2 : k' = v <;> simp [getCount, h2]
    · by_cases h2 : k' = v
      · subst h2
        have : ¬ k = k' := fun e => h1 e.symm
        simp [getCount, h1, this]
      · simp [getCount, h1, h2, getCount_bump k v r]

theorem getCount_foldl (v : α) : ∀ (vs : List α) (d : List (α × Nat)),
    getCount (vs.foldl (fun d x => bump x d) d) v = getCount d v + vs.count v
  | [], d => by simp
  | x :: r, d => by
    rw [List.foldl_cons, getCount_foldl v r, getCount_bump, List.count_cons]
    by_cases h : x = v <;> simp [h] <;> omega

theorem getCount_freqs (vs : List α) (v : α) : getCount (freqs vs) v = vs.count v := by
  simp [freqs, getCount_foldl, getCount]


def keys (d : List (α × Nat)) : List α := d.map (·.1)

theorem keys_bump (k : α) : ∀ d : List (α × Nat),
    keys (bump k d) = if k ∈ keys d then keys d else keys d ++ [k]
  | [] => by simp [bump, keys]
  | (k', c) :: r => by
    unfold bump
    by_cases h1 : k' = k
    · subst h1; simp [keys]
    · have h1' : ¬ k = k' := fun e => h1 e.symm
      have ih := keys_bump k r
      simp only [keys] at ih ⊢
      simp only [h1, if_false, List.map_cons, List.mem_cons, h1', false_or, ih]
      split <;> simp [*]

theorem nodup_bump (k : α) (d : List (α × Nat)) (h : (keys d).Nodup) : (keys (bump k d)).Nodup := by
  rw [keys_bump]
  split
  · exact h
  · rename_i hk
    rw [List.nodup_append]
    refine ⟨h, by simp, ?_⟩
    intro a ha b hb
    simp at hb; subst hb
    intro e; subst e; exact hk ha

theorem nodup_foldl : ∀ (vs : List α) (d : List (α × Nat)), (keys d).Nodup →
    (keys (vs.foldl (fun d x => bump x d) d)).Nodup
  | [], _, h => h
  | x :: r, d, h => by
    rw [List.foldl_cons]; exact nodup_foldl r _ (nodup_bump x d h)

theorem nodup_freqs (vs : List α) : (keys (freqs vs)).Nodup := by
  unfold freqs; exact nodup_foldl vs [] (by simp [keys])

/-- in a dict every item carries the count a lookup returns -/
theorem getCount_of_mem : ∀ {d : List (α × Nat)}, (keys d).Nodup → ∀ {k c}, (k, c) ∈ d → getCount d k = c
  | [], _, _, _, h => by simp at h
  | (k', c') :: r, hn, k, c, h => by
    simp only [keys, List.map_cons, List.nodup_cons] at hn
    rcases List.mem_cons.mp h with h | h
    · cases h; simp [getCount]
    · have hne : k' ≠ k := by
        intro e; subst e
        exact hn.1 (List.mem_map.mpr ⟨(k', c), h, rfl⟩)
      simp [getCount, hne, getCount_of_mem (d := r) hn.2 h]

theorem mem_keys_of_getCount_pos : ∀ {d : List (α × Nat)} {k}, 0 < getCount d k → ∃ c, (k, c) ∈ d
  | [], _, h => by simp [getCount] at h
  | (k', c') :: r, k, h => by
    by_cases e : k' = k
    · subst e; exact ⟨c', by simp⟩
    · simp [getCount, e] at h
      obtain ⟨c, hc⟩ := mem_keys_of_getCount_pos h
      exact ⟨c, by simp [hc]⟩

theorem mem_insertDesc (x y : α × Nat) : ∀ l, y ∈ insertDesc x l ↔ y = x ∨ y ∈ l
  | [] => by simp [insertDesc]
  | z :: r => by
    unfold insertDesc
    split
    · simp
    · simp only [List.mem_cons, mem_insertDesc x y r]
      exact or_left_comm

theorem mem_sortDesc (y : α × Nat) : ∀ d, y ∈ sortDesc d ↔ y ∈ d
  | [] => by simp [sortDesc]
  | x :: r => by
    have := mem_sortDesc y r
    simp only [sortDesc, List.foldr_cons] at this ⊢
    rw [mem_insertDesc, this]; simp

def Desc (l : List (α × Nat)) : Prop := l.Pairwise (fun a b => b.2 ≤ a.2)

theorem desc_insertDesc (x : α × Nat) : ∀ l, Desc l → Desc (insertDesc x l)
  | [], _ => by simp [insertDesc, Desc]
  | z :: r, h => by
    unfold insertDesc
    unfold Desc at h ⊢
    rw [List.pairwise_cons] at h
    split
    · rename_i hz
      rw [List.pairwise_cons]
      refine ⟨?_, List.pairwise_cons.mpr h⟩
      intro a ha
      rcases List.mem_cons.mp ha with e | e
      · subst e; exact hz
      · exact Nat.le_trans (h.1 a e) hz
    · rename_i hz
      rw [List.pairwise_cons]
      refine ⟨?_, desc_insertDesc x r h.2⟩
      intro a ha
      rcases (mem_insertDesc x a r).mp ha with e | e
      · subst e; omega
      · exact h.1 a e

theorem desc_sortDesc : ∀ d : List (α × Nat), Desc (sortDesc d)
  | [] => by simp [sortDesc, Desc]
  | x :: r => by
    have := desc_sortDesc r
    simp only [sortDesc, List.foldr_cons] at this ⊢
    exact desc_insertDesc x _ this

/-- the entries with count > 1 are a prefix of a descending list: an index taken in the whole
    list is the index in the filtered list -/
theorem idxOf_filter_desc (v : α) : ∀ (l : List (α × Nat)), Desc l → (∀ c, (v, c) ∈ l → 1 < c) →
    v ∈ keys l →
    idxOf v (keys (l.filter (fun p => p.2 > 1))) = idxOf v (keys l) ∧
    v ∈ keys (l.filter (fun p => p.2 > 1))
  | [], _, _, hm => by simp [keys] at hm
  | (k, c) :: r, hd, hc, hm => by
    unfold Desc at hd
    rw [List.pairwise_cons] at hd
    by_cases e : k = v
    · subst e
      have : 1 < c := hc c (by simp)
      simp [List.filter, this, keys, idxOf]
    · have hm' : v ∈ keys r := by
        simp only [keys, List.map_cons, List.mem_cons] at hm ⊢
        rcases hm with h | h
        · exact absurd h.symm e
        · exact h
      obtain ⟨⟨v', c'⟩, hmem, hv⟩ := List.mem_map.mp hm'
      simp only at hv; subst hv
      have h1 : 1 < c' := hc c' (by simp [hmem])
      have h2 : c' ≤ c := hd.1 _ hmem
      have hk : 1 < c := by omega
      have ih := idxOf_filter_desc v' r hd.2 (fun c'' h => hc c'' (by simp [h])) hm'
      simp only [keys] at ih ⊢
      simp [List.filter, hk, idxOf, e, ih.1]
      exact Or.inr (by simpa using ih.2)

end Lists

section
variable {α : Type} [DecidableEq α]

theorem perm_insertDesc (x : α × Nat) : ∀ l, (insertDesc x l).Perm (x :: l)
  | [] => by simp [insertDesc]
  | y :: r => by
    unfold insertDesc
    split
    · exact List.Perm.refl _
    · exact ((perm_insertDesc x r).cons y).trans (List.Perm.swap x y r)

theorem perm_sortDesc : ∀ d : List (α × Nat), (sortDesc d).Perm d
  | [] => by simp [sortDesc]
  | x :: r => by
    have := perm_sortDesc r
    simp only [sortDesc, List.foldr_cons] at this ⊢
    exact (perm_insertDesc x _).trans (this.cons x)

theorem nodup_keys_sortDesc (d : List (α × Nat)) (h : (keys d).Nodup) : (keys (sortDesc d)).Nodup :=
  ((perm_sortDesc d).map (fun p : α × Nat => p.1)).nodup_iff.mpr h

theorem idxOf_of_get : ∀ {l : List α} {k : Nat} {v : α}, l.Nodup → l[k]? = some v → idxOf v l = k
  | [], k, v, _, h => by simp at h
  | x :: r, 0, v, _, h => by simp at h; simp [idxOf, h]
  | x :: r, k + 1, v, hn, h => by
    simp at h
    rw [List.nodup_cons] at hn
    have hm : v ∈ r := List.mem_of_getElem? h
    have : x ≠ v := fun e => hn.1 (e ▸ hm)
    simp [idxOf, this, idxOf_of_get hn.2 h]
end

section
variable {α : Type} [DecidableEq α]

theorem bump_notin (k : α) : ∀ d : List (α × Nat), k ∉ keys d → bump k d = d ++ [(k, 1)]
  | [], _ => rfl
  | (k', c) :: r, h => by
    simp only [keys, List.map_cons, List.mem_cons, not_or] at h
    have h1 : ¬ k' = k := fun e => h.1 e.symm
    simp [bump, h1, bump_notin k r h.2]

theorem bump_append_notin (k : α) (B : List (α × Nat)) : ∀ A : List (α × Nat), k ∉ keys A →
    bump k (A ++ B) = A ++ bump k B
  | [], _ => rfl
  | (k', c) :: r, h => by
    simp only [keys, List.map_cons, List.mem_cons, not_or] at h
    have h1 : ¬ k' = k := fun e => h.1 e.symm
    simp [bump, h1, bump_append_notin k B r h.2]

theorem keys_map_const (l : List α) (c : Nat) : keys (l.map (fun v => (v, c))) = l := by
  simp [keys, Function.comp_def]

theorem foldl_bump_fresh : ∀ (rest pre : List α), (pre ++ rest).Nodup →
    rest.foldl (fun d x => bump x d) (pre.map (fun v => (v, 1))) = (pre ++ rest).map (fun v => (v, 1))
  | [], pre, _ => by simp
  | x :: r, pre, h => by
    have hx : x ∉ pre := by
      intro hm
      have := (List.nodup_append.mp h).2.2 x hm x (by simp)
      exact this rfl
    rw [List.foldl_cons, bump_notin x _ (by rw [keys_map_const]; exact hx)]
    have : pre.map (fun v => (v, 1)) ++ [(x, 1)] = (pre ++ [x]).map (fun v => (v, 1)) := by simp
    rw [this, foldl_bump_fresh r (pre ++ [x]) (by simpa using h)]
    simp

theorem foldl_bump_second : ∀ (rest pre : List α), (pre ++ rest).Nodup →
    rest.foldl (fun d x => bump x d) (pre.map (fun v => (v, 2)) ++ rest.map (fun v => (v, 1))) =
      (pre ++ rest).map (fun v => (v, 2))
  | [], pre, _ => by simp
  | x :: r, pre, h => by
    have hx : x ∉ pre := by
      intro hm
      have := (List.nodup_append.mp h).2.2 x hm x (by simp)
      exact this rfl
    rw [List.foldl_cons, List.map_cons, bump_append_notin x _ _ (by rw [keys_map_const]; exact hx)]
    have : pre.map (fun v => (v, 2)) ++ bump x ((x, 1) :: r.map (fun v => (v, 1))) =
        (pre ++ [x]).map (fun v => (v, 2)) ++ r.map (fun v => (v, 1)) := by simp [bump]
    rw [this, foldl_bump_second r (pre ++ [x]) (by simpa using h)]
    simp

/-- distinct values, each seen twice (all of them, then all of them again) -/
theorem freqs_doubled (vs : List α) (h : vs.Nodup) : freqs (vs ++ vs) = vs.map (fun v => (v, 2)) := by
  unfold freqs
  rw [List.foldl_append]
  have h1 := foldl_bump_fresh vs [] (by simpa using h)
  simp only [List.map_nil, List.nil_append] at h1
  rw [h1]
  have h2 := foldl_bump_second vs [] (by simpa using h)
  simpa using h2

theorem sortDesc_const (c : Nat) : ∀ l : List (α × Nat), (∀ p ∈ l, p.2 = c) → sortDesc l = l
  | [], _ => rfl
  | x :: r, h => by
    have ih := sortDesc_const c r (fun p hp => h p (by simp [hp]))
    simp only [sortDesc, List.foldr_cons] at ih ⊢
    rw [ih]
    cases r with
    | nil => rfl
    | cons y r' =>
      have h1 := h x (by simp)
      have h2 := h y (by simp)
      simp [insertDesc, h1, h2]
end


theorem nthArg_nat (l : List Arg) (k : Nat) : nthArg l (k : Int) = l[k]? := by
  have : ¬ ((k : Int) < 0) := by omega
  simp [nthArg, this]

theorem valueAt_intRef (ib bb : List Arg) (k : Nat) (args : List Arg) :
    valueAt ib bb (intRef k args) = (ib[k]?).map (fun a => Site.int (argIVal a)) := by
  unfold intRef
  split
  · subst_vars; simp [valueAt, nthArg]
  split
  · subst_vars; simp [valueAt, nthArg]
  split
  · subst_vars; simp [valueAt, nthArg]
  split
  · subst_vars; simp [valueAt, nthArg]
  · simp [valueAt, nthArg_nat]

theorem valueAt_byteRef (ib bb : List Arg) (k : Nat) (args : List Arg) :
    valueAt ib bb (byteRef k args) = (bb[k]?).bind (fun a => (argBVal a).map Site.byt) := by
  unfold byteRef
  split
  · subst_vars; simp [valueAt, nthArg]
  split
  · subst_vars; simp [valueAt, nthArg]
  split
  · subst_vars; simp [valueAt, nthArg]
  split
  · subst_vars; simp [valueAt, nthArg]
  · simp [valueAt, nthArg_nat]

theorem nib : ∀ n, n < 16 → hexVal (hexDigit n) = some n := by decide

theorem unhex_hex : ∀ b : Bytes, unhexChars (b.flatMap hexOfByte) = some b
  | [] => by simp [unhexChars]
  | x :: r => by
    have h1 := nib (x.toNat / 16) (by have := x.toNat_lt; omega)
    have h2 := nib (x.toNat % 16) (by omega)
    have h3 : UInt8.ofNat (x.toNat / 16 * 16 + x.toNat % 16) = x := by
      rw [Nat.div_add_mod']; simp
    simp [List.flatMap_cons, hexOfByte, unhexChars, h1, h2, h3, unhex_hex r]

/-- the only Python `str` values a byte constant takes: a template name or the empty string -/
def BVal.wf : BVal → Prop
  | .bytes _ => True
  | .str s => isTmpl s = true ∨ s.toList = []

theorem argBVal_encode (v : BVal) (h : BVal.wf v) : argBVal (.str v.encode) = some v := by
  cases v with
  | bytes b =>
    have : ("0x" ++ hex b).toList = '0' :: 'x' :: b.flatMap hexOfByte := by simp [hex]
    simp [argBVal, BVal.encode, this, unhex_hex]
  | str s =>
    simp only [argBVal, BVal.encode]
    split
    · rename_i h' hs
      rcases h with h | h
      · simp [isTmpl, hs, tmplPrefix] at h
      · simp [hs] at h
    · rfl

end PyTealV.Proofs.C12
