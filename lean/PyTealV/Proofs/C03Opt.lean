/-
  C03 — the scratch-slot optimiser (`Models/Optimizer.lean`) against the graph semantics
  `Comp.grunAt / grun`.

  FULL STATEMENT (believed FALSE of the unchanged code, see `optimizer_counterexample`):
    for every routine graph `G`, entry `start`, skip set, context, fuel and start state, `grun` of
    `slotToStack skip G start` has the same outcome as `grun` of `G` (verdict, return value,
    effects, every scratch slot except the removed ones) and the same operand stack whenever the
    routine is left.
  It fails because `_remove_extraneous_slot_access` deletes EVERY store of a cancelled slot:
  a second, dead store (`s.store(7); Pop(s.load()); s.store(9)`) is deleted as well and its
  value stays on the stack (known finding C03-dead-store-optimised; pinned by
  pyteal/compiler/optimizer/optimizer_test.py).

  Proved here
  * `optimizer_counterexample`, `optimizer_counterexample_verdict` (by `decide`);
  * `slot_to_stack_sound_partial`: under `pairsOnly` (every access to a removed slot belongs to
    an adjacent `store s; load s` pair) the optimised routine is equivalent, in both directions,
    modulo the scratch contents of the removed slots — except that a run of the UNoptimised
    routine that dies of stack underflow (a `store` on an empty stack) need not be matched;
  * `optimizer_only_removes`: the pass deletes loads / stores of slots outside the skip set and
    changes nothing else.
-/
import PyTealV.Proofs.C03OptLemmas
import PyTealV.Proofs.C03OptFrame
namespace PyTealV.Models.Optimizer
open PyTealV PyTealV.Avm PyTealV.Comp

/-! ### equivalence modulo the removed slots -/

/-- worlds that agree on everything except the scratch contents of the slots in `S` -/
structure EqExcept (S : List Nat) (w w' : World) : Prop where
  globals : w'.globals = w.globals
  locals : w'.locals = w.locals
  boxes : w'.boxes = w.boxes
  effects : w'.effects = w.effects
  itxnB : w'.itxnB = w.itxnB
  lastItxn : w'.lastItxn = w.lastItxn
  scratch : ∀ s, s ∉ S → getSlot w'.scratch s = getSlot w.scratch s

/-- machine states with equal stacks and constant blocks, worlds `EqExcept S`, stack within the
    AVM limit -/
structure MRel (S : List Nat) (m m' : MS) : Prop where
  stack : m'.stack = m.stack
  intc : m'.intc = m.intc
  bytec : m'.bytec = m.bytec
  world : EqExcept S m.world m'.world
  bound : m.stack.length ≤ maxStack

def OutEq (S : List Nat) : Outcome → Outcome → Prop
  | .done v w, .done v' w' => v' = v ∧ EqExcept S w w'
  | .fail f, .fail f' => f' = f
  | .outOfFuel, .outOfFuel => True
  | _, _ => False

/-- corresponding results of two routine runs: the same kind of halt with equal verdict / return
    value / failure and worlds `EqExcept S`; or both left the routine with equal stacks -/
def GOutEq (S : List Nat) : GOut → GOut → Prop
  | .halt o, .halt o' => OutEq S o o'
  | .fell m, .fell m' => MRel S m m'
  | .fuel, .fuel => True
  | _, _ => False

theorem EqExcept.refl (S : List Nat) (w : World) : EqExcept S w w :=
  ⟨rfl, rfl, rfl, rfl, rfl, rfl, fun _ _ => rfl⟩

theorem MRel.refl (S : List Nat) (m : MS) (h : m.stack.length ≤ maxStack) : MRel S m m :=
  ⟨rfl, rfl, rfl, EqExcept.refl S _, h⟩

/-! ### scratch -/

theorem find?_filter_ne (sc : List (Nat × Val)) (n s : Nat) (h : s ≠ n) :
    (sc.filter (fun p => p.1 != n)).find? (fun p => p.1 == s) = sc.find? (fun p => p.1 == s) := by
  induction sc with
  | nil => rfl
  | cons a sc ih =>
    by_cases ha : a.1 = n
    · have h1 : (a.1 != n) = false := by simp [ha]
      have h2 : (a.1 == s) = false := by
        rw [ha]; exact beq_false_of_ne (fun e => h e.symm)
      rw [List.filter_cons, h1, List.find?_cons, h2]
      exact ih
    · have h1 : (a.1 != n) = true := by simpa using ha
      rw [List.filter_cons, h1]
      simp only [if_true, List.find?_cons]
      cases (a.1 == s)
      · exact ih
      · rfl

theorem getSlot_setSlot (sc : List (Nat × Val)) (n s : Nat) (v : Val) :
    getSlot (setSlot sc n v) s = if s = n then v else getSlot sc s := by
  unfold getSlot setSlot
  by_cases h : s = n
  · subst h; simp
  · have hne : (n == s) = false := beq_false_of_ne (fun e => h e.symm)
    simp only [List.find?_cons, hne, h, if_false]
    rw [find?_filter_ne sc n s h]

/-! ### one instruction on related states -/

def SRRel (S : List Nat) : Option SR → Option SR → Prop
  | none, none => True
  | some (.ok a), some (.ok a') => MRel S a a'
  | some (.halt o), some (.halt o') => OutEq S o o'
  | _, _ => False

theorem world_eq_of_eqExcept {S : List Nat} {w w' : World} (h : EqExcept S w w') :
    w' = { w with scratch := w'.scratch } := by
  obtain ⟨h1, h2, h3, h4, h5, h6, _⟩ := h
  cases w; cases w'
  simp only at h1 h2 h3 h4 h5 h6
  subst h1 h2 h3 h4 h5 h6
  rfl

/-- `execPrim` of an opcode of `framedOps` does the same on worlds that differ in scratch only -/
theorem execPrim_rel (S : List Nat) (cx : Ctx) (op : String) (imms : List String) (w w' : World)
    (st : List Val) (hd : framedOps.contains op = true) (hw : EqExcept S w w') :
    match execPrim cx op imms w st, execPrim cx op imms w' st with
    | .ok r, .ok r' => r'.1 = r.1 ∧ EqExcept S r.2 r'.2
    | .error e, .error e' => e' = e
    | _, _ => False := by
  have hself : execPrim cx op imms w st = (execPrim cx op imms w st).map (setSc w.scratch) := by
    have := execPrim_frame cx op imms w w.scratch st hd
    have e : ({ w with scratch := w.scratch } : World) = w := by cases w; rfl
    rw [e] at this; exact this
  rw [world_eq_of_eqExcept hw, execPrim_frame cx op imms w w'.scratch st hd]
  cases hr : execPrim cx op imms w st with
  | error e => simp [Except.map]
  | ok r =>
    rw [hr] at hself
    simp only [Except.map, Except.ok.injEq] at hself
    have hsc : r.2.scratch = w.scratch := by
      have := congrArg (fun x => x.2.scratch) hself
      simpa [setSc] using this
    simp only [Except.map, setSc, true_and]
    obtain ⟨_, _, _, _, _, _, h7⟩ := hw
    refine ⟨rfl, rfl, rfl, rfl, rfl, rfl, ?_⟩
    intro s hs
    simp only
    rw [hsc]; exact h7 s hs

theorem pushV_rel (S : List Nat) (m m' : MS) (v : Val) (h : MRel S m m') :
    SRRel S (some (pushV m v)) (some (pushV m' v)) := by
  obtain ⟨h1, h2, h3, h4, h5⟩ := h
  unfold pushV
  rw [h1]
  by_cases hl : m.stack.length < maxStack
  · simp only [hl, if_true, SRRel]
    exact ⟨rfl, h2, h3, h4, by simp only [List.length_cons]; omega⟩
  · simp only [hl, if_false, SRRel, OutEq]

/-- an instruction the pass keeps (not a load / store of a removed slot) whose opcode is framed
    does the same on related states -/
theorem execSimple_rel (S : List Nat) (cx : Ctx) (x : Instr) (m m' : MS)
    (hk : keepOp S x = true) (hd : isFramed x = true) (h : MRel S m m') :
    SRRel S (execSimple cx x m) (execSimple cx x m') := by
  have h' := h
  obtain ⟨h1, h2, h3, h4, h5⟩ := h
  cases x with
  | label l => simpa [execSimple, SRRel] using h'
  | pragma a b => simpa [execSimple, SRRel] using h'
  | intcblock vs => simp only [execSimple, SRRel]; exact ⟨h1, rfl, h3, h4, h5⟩
  | bytecblock vs => simp only [execSimple, SRRel]; exact ⟨h1, h2, rfl, h4, h5⟩
  | intc i =>
    simp only [execSimple, h2]
    cases m.intc[i]? with
    | none => simp [SRRel, OutEq]
    | some v => exact pushV_rel S m m' _ h'
  | bytec i =>
    simp only [execSimple, h3]
    cases m.bytec[i]? with
    | none => simp [SRRel, OutEq]
    | some v => exact pushV_rel S m m' _ h'
  | pushInt n => exact pushV_rel S m m' _ h'
  | pushBytes b => exact pushV_rel S m m' _ h'
  | tmpl a b => simp [execSimple, SRRel, OutEq]
  | ret =>
    simp only [execSimple, h1]
    cases m.stack with
    | nil => simp [SRRel, OutEq]
    | cons v r => cases v <;> simp [SRRel, OutEq, h4]
  | err => simp [execSimple, SRRel, OutEq]
  | load n =>
    have hn : n ∉ S := by simpa [keepOp] using hk
    simp only [execSimple]
    by_cases hlt : n < 256
    · simp only [hlt, if_true]
      rw [h4.scratch n hn]
      exact pushV_rel S m m' _ h'
    · simp [hlt, SRRel, OutEq]
  | store n =>
    have hn : n ∉ S := by simpa [keepOp] using hk
    simp only [execSimple, h1]
    cases hst : m.stack with
    | nil => simp [SRRel, OutEq]
    | cons v r =>
      by_cases hlt : n < 256
      · simp only [hlt, if_true, SRRel]
        obtain ⟨e1, e2, e3, e4, e5, e6, e7⟩ := h4
        refine ⟨rfl, h2, h3, ⟨e1, e2, e3, e4, e5, e6, ?_⟩, ?_⟩
        · intro s hs
          simp only [getSlot_setSlot]
          split
          · rfl
          · exact e7 s hs
        · rw [hst] at h5; simp only [List.length_cons] at h5; show r.length ≤ maxStack; omega
      · simp [hlt, SRRel, OutEq]
  | prim op imms =>
    have hd' : framedOps.contains op = true := by simpa [isFramed] using hd
    have := execPrim_rel S cx op imms m.world m'.world m.stack hd' h4
    simp only [execSimple, h1]
    cases hr : execPrim cx op imms m.world m.stack with
    | error e =>
      cases hr' : execPrim cx op imms m'.world m.stack with
      | error e' => rw [hr, hr'] at this; simp only at this; simp [SRRel, OutEq, this]
      | ok r' => rw [hr, hr'] at this; exact this.elim
    | ok r =>
      cases hr' : execPrim cx op imms m'.world m.stack with
      | error e' => rw [hr, hr'] at this; exact this.elim
      | ok r' =>
        rw [hr, hr'] at this
        obtain ⟨a, b⟩ := this
        obtain ⟨s1, w1⟩ := r
        obtain ⟨s1', w1'⟩ := r'
        simp only at a b
        subst a
        simp only
        by_cases hl : s1'.length ≤ maxStack
        · simp only [hl, if_true, SRRel]
          exact ⟨rfl, h2, h3, b, hl⟩
        · simp [hl, SRRel, OutEq]
  | b l => simp [execSimple, SRRel]
  | bz l => simp [execSimple, SRRel]
  | bnz l => simp [execSimple, SRRel]
  | callsub l => simp [execSimple, SRRel]
  | retsub => simp [execSimple, SRRel]
  | proto a r => simp [execSimple, SRRel]
  | frameDig i => simp [execSimple, SRRel]
  | frameBury i => simp [execSimple, SRRel]

/-! ### one step of the two routines -/

/-- what the soundness proof needs to know about the removed slots `S` and the blocks `order` -/
structure Hyp (G : Graph) (S order : List Nat) : Prop where
  closed : ∀ b ∈ order, ∀ c ∈ gsuccs G b, c ∈ order
  pairs : ∀ b ∈ order, pairsOK S (blk G b).ops = true
  framed : ∀ b ∈ order, ∀ x ∈ (blk G b).ops, isFramed x = true
  small : ∀ s ∈ S, s < 256

/-- corresponding program points: same block; the optimised point has skipped exactly the deleted
    ops before it; the rest of the block is still made of whole pairs -/
def PosRel (G : Graph) (S order : List Nat) (p p' : GPt) : Prop :=
  p'.b = p.b ∧ ∀ B, G[p.b]? = some B → p.b ∈ order ∧
    ∃ pre post, B.ops = pre ++ post ∧ p.i = pre.length ∧
      p'.i = (pre.filter (keepOp S)).length ∧ pairsOK S post = true

def GStepRel (G : Graph) (S order : List Nat) : GStep → GStep → Prop
  | .next q a, .next q' a' => PosRel G S order q q' ∧ MRel S a a'
  | .halt o, .halt o' => OutEq S o o'
  | .fell a, .fell a' => MRel S a a'
  | _, _ => False

theorem pairsOK_cons (S : List Nat) (x : Instr) (rest : List Instr) (h : pairsOK S (x :: rest) = true) :
    (keepOp S x = true ∧ pairsOK S rest = true) ∨
    (∃ a rest', a ∈ S ∧ x = .store a ∧ rest = .load a :: rest' ∧ pairsOK S rest' = true) := by
  cases x with
  | store a =>
    unfold pairsOK at h
    simp only at h
    by_cases ha : S.contains a = true
    · right
      simp only [ha, if_true] at h
      cases rest with
      | nil => simp at h
      | cons y rest' =>
        cases y with
        | load b =>
          simp only [Bool.and_eq_true, beq_iff_eq] at h
          obtain ⟨hab, hr⟩ := h
          subst hab
          exact ⟨a, rest', by simpa using ha, rfl, rfl, hr⟩
        | _ => simp at h
    · left
      simp only [ha] at h
      exact ⟨by simpa [keepOp] using ha, h⟩
  | load b =>
    unfold pairsOK at h
    simp only [Bool.and_eq_true] at h
    exact Or.inl ⟨by simpa [keepOp] using h.1, h.2⟩
  | _ => exact Or.inl ⟨rfl, by unfold pairsOK at h; exact h⟩

theorem posRel_entry (G : Graph) (S order : List Nat) (hy : Hyp G S order) (c : Nat) (hc : c ∈ order) :
    PosRel G S order ⟨c, 0⟩ ⟨c, 0⟩ := by
  refine ⟨rfl, ?_⟩
  intro B hB
  refine ⟨hc, [], B.ops, rfl, rfl, rfl, ?_⟩
  have := hy.pairs c hc
  unfold blk at this
  simp only at hB
  rw [hB] at this
  exact this

theorem getElem?_append_length {α} (pre post : List α) : (pre ++ post)[pre.length]? = post[0]? := by
  rw [List.getElem?_append_right (Nat.le_refl _), Nat.sub_self]

theorem removeAccess_block (G : Graph) (S order : List Nat) (b : Nat) (B : Block)
    (hB : G[b]? = some B) (hb : b ∈ order) :
    (removeAccess S order G)[b]? = some { B with ops := B.ops.filter (keepOp S) } := by
  rw [removeAccess_getElem?, hB]
  simp [filterBlock, hb]

/-- One step from corresponding points.  Either both routines make the corresponding step, or
    the unoptimised routine is at a deleted `store s; load s` pair: it underflows, or executes
    the pair and arrives — with the same stack — at a point that still corresponds. -/
theorem step_cases (cx : Ctx) (G : Graph) (S order : List Nat) (hy : Hyp G S order)
    (p p' : GPt) (m m' : MS) (hp : PosRel G S order p p') (hm : MRel S m m') :
    GStepRel G S order (gstep cx G p m) (gstep cx (removeAccess S order G) p' m') ∨
    (gstep cx G p m = .halt (.fail .underflow)) ∨
    (∃ B m1 m2, G[p.b]? = some B ∧ p.i + 2 ≤ B.ops.length ∧
      gstep cx G p m = .next ⟨p.b, p.i + 1⟩ m1 ∧
      gstep cx G ⟨p.b, p.i + 1⟩ m1 = .next ⟨p.b, p.i + 2⟩ m2 ∧
      PosRel G S order ⟨p.b, p.i + 2⟩ p' ∧ MRel S m2 m') := by
  obtain ⟨b, i⟩ := p
  obtain ⟨b', i'⟩ := p'
  obtain ⟨hb, hp⟩ := hp
  simp only at hb hp
  have hb2 := hb.symm
  subst hb2
  cases hG : G[b]? with
  | none =>
    left
    have hG' : (removeAccess S order G)[b]? = none := by rw [removeAccess_getElem?, hG]; rfl
    simp only [gstep, hG, hG', GStepRel, OutEq]
  | some B =>
    obtain ⟨hord, pre, post, hops, hi, hi', hpk⟩ := hp B hG
    have hG' := removeAccess_block G S order b B hG hord
    have hblk : blk G b = B := by unfold blk; rw [hG]; rfl
    have hfilt : B.ops.filter (keepOp S) = pre.filter (keepOp S) ++ post.filter (keepOp S) := by
      rw [hops, List.filter_append]
    cases post with
    | nil =>
      -- end of the block in both routines
      left
      have h1 : B.ops[i]? = none := by
        rw [hops, hi]; simp
      have h2 : (B.ops.filter (keepOp S))[i']? = none := by
        rw [hfilt, hi']; simp
      simp only [gstep, hG, hG', h1, h2]
      cases hs : B.succ with
      | none => simp only [GStepRel]; exact hm
      | next c =>
        simp only [GStepRel]
        refine ⟨posRel_entry G S order hy c ?_, hm⟩
        apply hy.closed b hord
        unfold gsuccs; rw [hblk, hs]; simp [targets]
      | cond t f =>
        simp only
        rw [hm.stack]
        have ht : t ∈ order := by
          apply hy.closed b hord; unfold gsuccs; rw [hblk, hs]; simp [targets]
        have hf : f ∈ order := by
          apply hy.closed b hord; unfold gsuccs; rw [hblk, hs]; simp [targets]
        cases hst : m.stack with
        | nil => simp [GStepRel, OutEq]
        | cons v r =>
          have hbound : r.length ≤ maxStack := by
            have := hm.bound; rw [hst] at this; simp only [List.length_cons] at this; omega
          cases v with
          | b bs => simp [GStepRel, OutEq]
          | u n =>
            cases n with
            | zero =>
              simp only [GStepRel]
              exact ⟨posRel_entry G S order hy f hf, ⟨rfl, hm.intc, hm.bytec, hm.world, hbound⟩⟩
            | succ n =>
              simp only [GStepRel]
              exact ⟨posRel_entry G S order hy t ht, ⟨rfl, hm.intc, hm.bytec, hm.world, hbound⟩⟩
    | cons x rest =>
      have hx : B.ops[i]? = some x := by
        rw [hops, hi, getElem?_append_length]; rfl
      have hxmem : x ∈ (blk G b).ops := by
        rw [hblk, hops]; simp
      rcases pairsOK_cons S x rest hpk with ⟨hk, hrest⟩ | ⟨a, rest', haS, hxa, hrest, hpk'⟩
      · -- an op that is kept: both routines execute it
        left
        have hx' : (B.ops.filter (keepOp S))[i']? = some x := by
          rw [hfilt, hi', getElem?_append_length, List.filter_cons, hk]; rfl
        have hrel := execSimple_rel S cx x m m' hk (hy.framed b hord x hxmem) hm
        simp only [gstep, hG, hG', hx, hx']
        cases h1 : execSimple cx x m with
        | none =>
          cases h2 : execSimple cx x m' with
          | none => simp [GStepRel, OutEq]
          | some r' => rw [h1, h2] at hrel; exact hrel.elim
        | some r =>
          cases h2 : execSimple cx x m' with
          | none => rw [h1, h2] at hrel; cases r <;> exact hrel.elim
          | some r' =>
            rw [h1, h2] at hrel
            cases r with
            | ok a =>
              cases r' with
              | ok a' =>
                simp only [GStepRel]
                refine ⟨⟨rfl, ?_⟩, hrel⟩
                intro B2 hB2
                simp only at hB2
                rw [hG] at hB2
                cases hB2
                refine ⟨hord, pre ++ [x], rest, by rw [hops]; simp, by simp [hi], ?_, hrest⟩
                simp [List.filter_append, hk, hi']
              | halt o' => exact hrel.elim
            | halt o =>
              cases r' with
              | ok a' => exact hrel.elim
              | halt o' => simp only [GStepRel]; exact hrel
      · -- a deleted pair
        right
        subst hxa hrest
        have ha : a < 256 := hy.small a haS
        cases hst : m.stack with
        | nil =>
          left
          simp only [gstep, hG, hx, execSimple, hst]
        | cons v r =>
          right
          have hlen : (v :: r).length ≤ maxStack := by have := hm.bound; rw [hst] at this; exact this
          have hr : r.length < maxStack := by simp only [List.length_cons] at hlen; omega
          have hy1 : B.ops[i + 1]? = some (.load a) := by
            rw [hops, hi, List.getElem?_append_right (by omega)]
            have : pre.length + 1 - pre.length = 1 := by omega
            rw [this]; rfl
          refine ⟨B, { m with stack := r, world := { m.world with scratch := setSlot m.world.scratch a v } },
            { m with stack := getSlot (setSlot m.world.scratch a v) a :: r,
                     world := { m.world with scratch := setSlot m.world.scratch a v } }, rfl, ?_, ?_, ?_, ?_, ?_⟩
          · rw [hops, hi]; simp
          · simp only [gstep, hG, hx, execSimple, hst, ha, if_true]
          · simp only [gstep, hG, hy1, execSimple, ha, if_true, pushV, hr]
          · refine ⟨rfl, ?_⟩
            intro B2 hB2
            simp only at hB2
            rw [hG] at hB2
            cases hB2
            refine ⟨hord, pre ++ [.store a, .load a], rest', by rw [hops]; simp, by simp [hi], ?_, hpk'⟩
            simp [List.filter_append, keepOp, haS, hi']
          · refine ⟨?_, hm.intc, hm.bytec, ?_, ?_⟩
            · simp only [getSlot_setSlot, if_true]; rw [hm.stack, hst]
            · obtain ⟨e1, e2, e3, e4, e5, e6, e7⟩ := hm.world
              refine ⟨e1, e2, e3, e4, e5, e6, ?_⟩
              intro s hs
              simp only [getSlot_setSlot]
              have : s ≠ a := fun e => hs (e ▸ haS)
              simp only [this, if_false]
              exact e7 s hs
            · simp only [getSlot_setSlot, if_true]; exact hlen

/-! ### simulation in both directions -/

theorem grunAt_step (cx : Ctx) (G : Graph) (n : Nat) (p : GPt) (m : MS) :
    grunAt cx G (n + 1) p m =
      (match gstep cx G p m with
       | .next p' m' => grunAt cx G n p' m'
       | .halt o => .halt o
       | .fell m' => .fell m') := rfl

/-- forward: a finished run of the unoptimised routine is an underflow or is matched by the
    optimised routine within the same fuel -/
theorem sim_forward (cx : Ctx) (G : Graph) (S order : List Nat) (hy : Hyp G S order) :
    ∀ (n : Nat) (p : GPt) (m : MS) (p' : GPt) (m' : MS), PosRel G S order p p' → MRel S m m' →
      grunAt cx G n p m ≠ .fuel →
      grunAt cx G n p m = .halt (.fail .underflow) ∨
      ∃ n', n' ≤ n ∧ GOutEq S (grunAt cx G n p m) (grunAt cx (removeAccess S order G) n' p' m') := by
  intro n
  induction n using Nat.strongRecOn with
  | ind n ih =>
    intro p m p' m' hp hm hne
    cases n with
    | zero => exact absurd rfl hne
    | succ k =>
      rcases step_cases cx G S order hy p p' m m' hp hm with hsync | hunder | ⟨B, m1, m2, _, _, hs1, hs2, hp2, hm2⟩
      · rw [grunAt_step] at hne ⊢
        cases h1 : gstep cx G p m with
        | next q a =>
          cases h2 : gstep cx (removeAccess S order G) p' m' with
          | next q' a' =>
            rw [h1, h2] at hsync
            rw [h1] at hne
            simp only at hne ⊢
            rcases ih k (Nat.lt_succ_self k) q a q' a' hsync.1 hsync.2 hne with h | ⟨n', hle, h⟩
            · exact Or.inl h
            · refine Or.inr ⟨n' + 1, by omega, ?_⟩
              rw [grunAt_step, h2]; exact h
          | halt o' => rw [h1, h2] at hsync; exact hsync.elim
          | fell a' => rw [h1, h2] at hsync; exact hsync.elim
        | halt o =>
          cases h2 : gstep cx (removeAccess S order G) p' m' with
          | next q' a' => rw [h1, h2] at hsync; exact hsync.elim
          | halt o' =>
            rw [h1, h2] at hsync
            refine Or.inr ⟨1, by omega, ?_⟩
            rw [grunAt_step, h2]; exact hsync
          | fell a' => rw [h1, h2] at hsync; exact hsync.elim
        | fell a =>
          cases h2 : gstep cx (removeAccess S order G) p' m' with
          | next q' a' => rw [h1, h2] at hsync; exact hsync.elim
          | halt o' => rw [h1, h2] at hsync; exact hsync.elim
          | fell a' =>
            rw [h1, h2] at hsync
            refine Or.inr ⟨1, by omega, ?_⟩
            rw [grunAt_step, h2]; exact hsync
      · left
        rw [grunAt_step, hunder]
      · rw [grunAt_step, hs1] at hne ⊢
        simp only at hne ⊢
        cases k with
        | zero => exact absurd rfl hne
        | succ j =>
          rw [grunAt_step, hs2] at hne ⊢
          simp only at hne ⊢
          rcases ih j (by omega) _ m2 p' m' hp2 hm2 hne with h | ⟨n', hle, h⟩
          · exact Or.inl h
          · exact Or.inr ⟨n', by omega, h⟩

/-- backward: a finished run of the optimised routine is matched by the unoptimised routine
    (with some fuel), unless that one underflows -/
theorem sim_backward (cx : Ctx) (G : Graph) (S order : List Nat) (hy : Hyp G S order) :
    ∀ (n' : Nat) (p : GPt) (m : MS) (p' : GPt) (m' : MS), PosRel G S order p p' → MRel S m m' →
      grunAt cx (removeAccess S order G) n' p' m' ≠ .fuel →
      ∃ n, grunAt cx G n p m = .halt (.fail .underflow) ∨
        GOutEq S (grunAt cx G n p m) (grunAt cx (removeAccess S order G) n' p' m') := by
  intro n'
  induction n' with
  | zero => intro p m p' m' _ _ hne; exact absurd rfl hne
  | succ k ih =>
    intro p m p' m' hp hm hne
    -- inner induction: the unoptimised routine first executes the deleted pairs in front of it
    have inner : ∀ (d : Nat) (p : GPt) (m : MS), PosRel G S order p p' → MRel S m m' →
        (∀ B, G[p.b]? = some B → B.ops.length - p.i ≤ d) →
        ∃ n, grunAt cx G n p m = .halt (.fail .underflow) ∨
          GOutEq S (grunAt cx G n p m) (grunAt cx (removeAccess S order G) (k + 1) p' m') := by
      intro d
      induction d with
      | zero =>
        intro p m hp hm hd
        rcases step_cases cx G S order hy p p' m m' hp hm with hsync | hunder | ⟨B, m1, m2, hB, hlen, _, _, _, _⟩
        · rw [grunAt_step] at hne ⊢
          cases h1 : gstep cx G p m with
          | next q a =>
            cases h2 : gstep cx (removeAccess S order G) p' m' with
            | next q' a' =>
              rw [h1, h2] at hsync
              rw [h2] at hne
              simp only at hne ⊢
              obtain ⟨n, h⟩ := ih q a q' a' hsync.1 hsync.2 hne
              exact ⟨n + 1, by rw [grunAt_step, h1]; exact h⟩
            | halt o' => rw [h1, h2] at hsync; exact hsync.elim
            | fell a' => rw [h1, h2] at hsync; exact hsync.elim
          | halt o =>
            cases h2 : gstep cx (removeAccess S order G) p' m' with
            | next q' a' => rw [h1, h2] at hsync; exact hsync.elim
            | halt o' =>
              rw [h1, h2] at hsync
              exact ⟨1, Or.inr (by rw [grunAt_step, h1]; exact hsync)⟩
            | fell a' => rw [h1, h2] at hsync; exact hsync.elim
          | fell a =>
            cases h2 : gstep cx (removeAccess S order G) p' m' with
            | next q' a' => rw [h1, h2] at hsync; exact hsync.elim
            | halt o' => rw [h1, h2] at hsync; exact hsync.elim
            | fell a' =>
              rw [h1, h2] at hsync
              exact ⟨1, Or.inr (by rw [grunAt_step, h1]; exact hsync)⟩
        · exact ⟨1, Or.inl (by rw [grunAt_step, hunder])⟩
        · have := hd B hB; omega
      | succ d ihd =>
        intro p m hp hm hd
        rcases step_cases cx G S order hy p p' m m' hp hm with hsync | hunder | ⟨B, m1, m2, hB, hlen, hs1, hs2, hp2, hm2⟩
        · rw [grunAt_step] at hne ⊢
          cases h1 : gstep cx G p m with
          | next q a =>
            cases h2 : gstep cx (removeAccess S order G) p' m' with
            | next q' a' =>
              rw [h1, h2] at hsync
              rw [h2] at hne
              simp only at hne ⊢
              obtain ⟨n, h⟩ := ih q a q' a' hsync.1 hsync.2 hne
              exact ⟨n + 1, by rw [grunAt_step, h1]; exact h⟩
            | halt o' => rw [h1, h2] at hsync; exact hsync.elim
            | fell a' => rw [h1, h2] at hsync; exact hsync.elim
          | halt o =>
            cases h2 : gstep cx (removeAccess S order G) p' m' with
            | next q' a' => rw [h1, h2] at hsync; exact hsync.elim
            | halt o' =>
              rw [h1, h2] at hsync
              exact ⟨1, Or.inr (by rw [grunAt_step, h1]; exact hsync)⟩
            | fell a' => rw [h1, h2] at hsync; exact hsync.elim
          | fell a =>
            cases h2 : gstep cx (removeAccess S order G) p' m' with
            | next q' a' => rw [h1, h2] at hsync; exact hsync.elim
            | halt o' => rw [h1, h2] at hsync; exact hsync.elim
            | fell a' =>
              rw [h1, h2] at hsync
              exact ⟨1, Or.inr (by rw [grunAt_step, h1]; exact hsync)⟩
        · exact ⟨1, Or.inl (by rw [grunAt_step, hunder])⟩
        · have hd2 : ∀ B2, G[(⟨p.b, p.i + 2⟩ : GPt).b]? = some B2 → B2.ops.length - (⟨p.b, p.i + 2⟩ : GPt).i ≤ d := by
            intro B2 hB2
            simp only at hB2 ⊢
            have := hd B2 hB2
            rw [hB] at hB2; cases hB2
            omega
          obtain ⟨n, h⟩ := ihd ⟨p.b, p.i + 2⟩ m2 hp2 hm2 hd2
          refine ⟨n + 2, ?_⟩
          rw [grunAt_step, hs1]
          simp only
          rw [grunAt_step, hs2]
          exact h
    exact inner (((G[p.b]?).map (fun B => B.ops.length)).getD 0) p m hp hm (by
      intro B hB; rw [hB]; simp)

/-! ### the theorems -/

theorem hyp_of_checks (G : Graph) (start : Nat) (S : List Nat)
    (hp : pairsOnly G start S = true) (hd : primsFramed G start = true) (hS : ∀ s ∈ S, s < 256) :
    Hyp G S (reach G start) := by
  refine ⟨(reach_closed G start).2, ?_, ?_, hS⟩
  · intro b hb
    unfold pairsOnly at hp
    rw [List.all_eq_true] at hp
    exact hp b hb
  · intro b hb x hx
    unfold primsFramed at hd
    rw [List.all_eq_true] at hd
    have := hd b hb
    rw [List.all_eq_true] at this
    exact this x hx

/-- **slot_to_stack_sound_partial.**  Let `S` be the slots whose accesses the pass removes from
    the routine `G` (entry `start`, skip set `skip`).  Assume (all decidable)
    * `pairsOnly`: every access to a slot of `S` in the routine is the `store s` of an adjacent
      `store s; load s` pair inside one block, or the `load s` of such a pair;
    * `primsFramed`: every `prim` op of the routine is in `framedOps`, the opcodes proved not to
      touch scratch space (`execPrim_frame`): all opcodes of the AVM model except `loads` / `stores`
      (they can address any slot);
    * the slots of `S` are legal slot numbers (`< 256`: after slot assignment).
    Then for every context and every start state whose stack respects the AVM limit:
    (1) whenever the unoptimised routine finishes (halts, or is left through a block without
        successor) within `fuel` steps, either it died of stack underflow, or the optimised
        routine finishes within `fuel` steps with the corresponding result: the same kind of
        halt, equal verdict / return value / failure, worlds equal except for the scratch contents
        of `S` (`EqExcept S`: globals, locals, boxes, effects incl. logs and inner transactions,
        all other slots), and — when the routine is left — equal stacks and constant blocks;
    (2) conversely, whenever the optimised routine finishes, the unoptimised routine finishes
        (with some fuel) with the corresponding result, or dies of stack underflow. -/
theorem slot_to_stack_sound_partial (skip : List Nat) (G : Graph) (start : Nat)
    (hp : pairsOnly G start (removedSlots skip G start) = true)
    (hd : primsFramed G start = true)
    (hS : ∀ s ∈ removedSlots skip G start, s < 256)
    (cx : Ctx) (m : MS) (hm : m.stack.length ≤ maxStack) :
    (∀ fuel, grun cx G fuel start m ≠ .fuel →
      grun cx G fuel start m = .halt (.fail .underflow) ∨
      ∃ fuel', fuel' ≤ fuel ∧
        GOutEq (removedSlots skip G start) (grun cx G fuel start m)
          (grun cx (slotToStack skip G start) fuel' start m)) ∧
    (∀ fuel', grun cx (slotToStack skip G start) fuel' start m ≠ .fuel →
      ∃ fuel, grun cx G fuel start m = .halt (.fail .underflow) ∨
        GOutEq (removedSlots skip G start) (grun cx G fuel start m)
          (grun cx (slotToStack skip G start) fuel' start m)) := by
  have hy := hyp_of_checks G start _ hp hd hS
  have hpos := posRel_entry G _ _ hy start (reach_closed G start).1
  have hrel := MRel.refl (removedSlots skip G start) m hm
  rw [(slotToStackS_spec skip G start).1]
  unfold grun
  exact ⟨fun fuel h => sim_forward cx G _ _ hy fuel _ m _ m hpos hrel h,
         fun fuel' h => sim_backward cx G _ _ hy fuel' _ m _ m hpos hrel h⟩

/-- **optimizer_only_removes.**  The pass changes nothing except deleting `load s` / `store s`
    ops of the removed slots, none of which is in the skip set: same number of blocks, block `b`
    of the result is block `b` of the input with — if it belongs to the routine — the ops
    `load s` / `store s`, `s` removed, filtered out (order of the others kept), successor
    untouched; blocks outside the routine are untouched. -/
theorem optimizer_only_removes (skip : List Nat) (G : Graph) (start : Nat) :
    (∀ s ∈ removedSlots skip G start, s ∉ skip) ∧
    (slotToStack skip G start).size = G.size ∧
    (∀ b, (slotToStack skip G start)[b]? =
      (G[b]?).map (fun B =>
        if b ∈ reach G start then { B with ops := B.ops.filter (keepOp (removedSlots skip G start)) } else B)) ∧
    (∀ (b : Nat) (B' : Block), (slotToStack skip G start)[b]? = some B' →
      ∃ B : Block, G[b]? = some B ∧ B'.succ = B.succ ∧ B'.ops.Sublist B.ops ∧
      ∀ x ∈ B.ops, x ∉ B'.ops →
        ∃ s, s ∈ removedSlots skip G start ∧ s ∉ skip ∧ (x = Instr.load s ∨ x = Instr.store s)) := by
  obtain ⟨h1, h2⟩ := slotToStackS_spec skip G start
  have h3 : ∀ b, (slotToStack skip G start)[b]? =
      (G[b]?).map (fun B =>
        if b ∈ reach G start then { B with ops := B.ops.filter (keepOp (removedSlots skip G start)) } else B) := by
    intro b
    rw [h1, removeAccess_getElem?]
    cases G[b]? with
    | none => rfl
    | some B => simp [filterBlock]
  refine ⟨h2, by rw [h1, removeAccess_size], h3, ?_⟩
  intro b B' hB'
  rw [h3 b] at hB'
  cases hG : G[b]? with
  | none => rw [hG] at hB'; cases hB'
  | some B =>
    rw [hG] at hB'
    simp only [Option.map_some, Option.some.injEq] at hB'
    refine ⟨B, rfl, ?_⟩
    by_cases hb : b ∈ reach G start
    · simp only [hb, if_true] at hB'
      subst hB'
      refine ⟨rfl, List.filter_sublist, ?_⟩
      intro x hx hnx
      have : keepOp (removedSlots skip G start) x = false := by
        cases hk : keepOp (removedSlots skip G start) x with
        | false => rfl
        | true => exact absurd (List.mem_filter.2 ⟨hx, hk⟩) hnx
      obtain ⟨s, hs, hxs⟩ := keepOp_false _ x this
      exact ⟨s, hs, h2 s hs, hxs⟩
    · simp only [hb, if_false] at hB'
      subst hB'
      exact ⟨rfl, List.Sublist.refl _, fun x hx hnx => absurd hx hnx⟩

/-! ### the full statement is false: counterexamples -/

deriving instance DecidableEq for Block

/-- the operand stack with which a routine is left -/
def leftStack : GOut → Option (List Val)
  | .fell m => some m.stack
  | _ => none

/-- return value of a halted routine -/
def retVal : GOut → Option Val
  | .halt (.done v _) => some v
  | _ => none

/-- `s.store(7); Pop(s.load()); s.store(9)` -/
def cexGraph : Graph := #[{ ops := [.pushInt 7, .store 0, .load 0, .prim "pop" [], .pushInt 9, .store 0] }]

/-- **optimizer_counterexample.**  The pass turns `int 7; store 0; load 0; pop; int 9; store 0`
    into `int 7; pop; int 9`: the dead second store is deleted too, and the routine is left with
    `9` on the stack instead of an empty stack (`pairsOnly` fails for this routine). -/
theorem optimizer_counterexample :
    slotToStack [] cexGraph 0 = #[{ ops := [.pushInt 7, .prim "pop" [], .pushInt 9] }] ∧
    removedSlots [] cexGraph 0 = [0] ∧
    pairsOnly cexGraph 0 [0] = false ∧
    leftStack (grun {} cexGraph 10 0 {}) = some [] ∧
    leftStack (grun {} (slotToStack [] cexGraph 0) 10 0 {}) = some [.u 9] := by
  decide

/-- the body of the subroutine variant inlined: `3 - (f(); 3)` with `f = s.store(7);
    Pop(s.load()); s.store(9)` -/
def cexVerdict : Graph :=
  #[{ ops := [.pushInt 3, .pushInt 7, .store 0, .load 0, .prim "pop" [], .pushInt 9, .store 0,
              .pushInt 3, .prim "-" [], .ret] }]

/-- **optimizer_counterexample_verdict.**  The value left behind is consumed by the next
    operation: `3 - 3 = 0` (reject) becomes `9 - 3 = 6` (approve). -/
theorem optimizer_counterexample_verdict :
    retVal (grun {} cexVerdict 20 0 {}) = some (.u 0) ∧
    retVal (grun {} (slotToStack [] cexVerdict 0) 20 0 {}) = some (.u 6) := by
  decide

/-- a `store` on an empty stack: the unoptimised routine dies of underflow, the optimised one
    does not (the reason for the underflow clause of `slot_to_stack_sound_partial`; PyTeal builds
    such a store only from `ScratchSlot.store()` without a value) -/
def cexUnderflow : Graph := #[{ ops := [.store 0, .load 0] }]

theorem optimizer_masks_underflow :
    removedSlots [] cexUnderflow 0 = [0] ∧
    pairsOnly cexUnderflow 0 (removedSlots [] cexUnderflow 0) = true ∧
    primsFramed cexUnderflow 0 = true ∧
    slotToStack [] cexUnderflow 0 = #[{ ops := [] }] ∧
    (match grun {} cexUnderflow 10 0 {} with | .halt (.fail .underflow) => true | _ => false) = true ∧
    leftStack (grun {} (slotToStack [] cexUnderflow 0) 10 0 {}) = some [] := by
  decide

/-! ### the hypotheses are satisfiable (non-vacuity) -/

/-- two blocks, a loop, a slot in the skip set, a cancelled pair, a slot with a second load -/
def okGraph : Graph :=
  #[{ ops := [.pushInt 7, .store 0, .load 0, .store 1, .pushInt 5, .store 2, .load 2, .prim "pop" [],
              .pushInt 4, .store 3, .load 3], succ := .cond 1 0 },
    { ops := [.load 1, .load 2, .prim "+" [], .ret] }]

example :
    removedSlots [3] okGraph 0 = [0] ∧
    pairsOnly okGraph 0 (removedSlots [3] okGraph 0) = true ∧
    primsFramed okGraph 0 = true ∧
    (removedSlots [3] okGraph 0).all (· < 256) = true ∧
    slotToStack [3] okGraph 0 =
      #[{ ops := [.pushInt 7, .store 1, .pushInt 5, .store 2, .load 2, .prim "pop" [],
                  .pushInt 4, .store 3, .load 3], succ := .cond 1 0 },
        { ops := [.load 1, .load 2, .prim "+" [], .ret] }] ∧
    retVal (grun {} okGraph 40 0 {}) = some (.u 12) ∧
    retVal (grun {} (slotToStack [3] okGraph 0) 40 0 {}) = some (.u 12) := by
  decide

end PyTealV.Models.Optimizer
