/-
  C02 (part): the recursion spill / restore code of `spillLocalSlotsDuringRecursion`
  preserves the caller's local slots and the operand stack around a re-entrant `callsub`.

  Model: `PyTealV.Models.Spill.spillBefore / spillAfter`.
  Semantics: the shared AVM opcode semantics `Avm.execSimple` / `Comp.execOps`.
-/
import PyTealV.Models.Spill
import PyTealV.Comp.Graph
namespace PyTealV.Proofs.C02Spill
open PyTealV PyTealV.Avm PyTealV.Comp PyTealV.Models.Spill

/-! ### Numeric immediates survive the text round trip -/

theorem parseFold_digits (l : List Char) (h : ∀ c ∈ l, c.isDigit = true) (a : Nat) :
    l.foldl (fun (acc : Option Nat) c => match acc with
      | none => none
      | some a => if '0' ≤ c ∧ c ≤ '9' then some (a * 10 + (c.toNat - '0'.toNat)) else none) (some a)
    = some (Nat.ofDigitChars 10 l a) := by
  induction l generalizing a with
  | nil => simp
  | cons c t ih =>
    have hc : c.isDigit = true := h c (by simp)
    have hc' : '0' ≤ c ∧ c ≤ '9' := by
      simp [Char.isDigit] at hc
      exact ⟨hc.1, hc.2⟩
    simp only [List.foldl_cons, Nat.ofDigitChars_cons]
    rw [if_pos hc', ih (fun c hc => h c (by simp [hc]))]
    congr 2
    omega

theorem parseNat_toString (n : Nat) : Util.parseNat (toString n) = some n := by
  unfold Util.parseNat
  have h1 : (toString n).toList = Nat.toDigits 10 n := by
    rw [Nat.toString_eq_repr]; exact Nat.toList_repr
  have h2 : (toString n).isEmpty = false := by
    rw [Nat.toString_eq_repr]
    have := @Nat.repr_ne_empty n
    simp [this]
  rw [h2, h1]
  simp only [Bool.false_eq_true, ↓reduceIte]
  refine (parseFold_digits _
    (fun c hc => Nat.isDigit_of_mem_toDigits (by decide) (by decide) hc) 0).trans ?_
  simp

theorem immNat_toString (op : String) (n : Nat) : immNat op [toString n] 0 = .ok n := by
  unfold immNat
  rw [show ([toString n] : List String)[0]? = some (toString n) from rfl]
  simp only [parseNat_toString]

/-! ### The five stack opcodes used (unfolded once from `execPrim`) -/

theorem prim_swap (cx : Ctx) (w : World) (a b : Val) (r : List Val) :
    execPrim cx "swap" [] w (a :: b :: r) = .ok (b :: a :: r, w) := rfl

theorem prim_pop (cx : Ctx) (w : World) (a : Val) (r : List Val) :
    execPrim cx "pop" [] w (a :: r) = .ok (r, w) := rfl

theorem prim_cover_eq (cx : Ctx) (w : World) (st : List Val) (imms : List String) :
    execPrim cx "cover" imms w st = (do
      let n ← immNat "cover" imms 0
      let (a, r) ← pop1 st
      if n ≤ r.length then pure (r.take n ++ a :: r.drop n, w) else throw .underflow) := rfl

theorem prim_uncover_eq (cx : Ctx) (w : World) (st : List Val) (imms : List String) :
    execPrim cx "uncover" imms w st = (do
      let n ← immNat "uncover" imms 0
      match st[n]? with
      | some v => pure (v :: (st.take n ++ st.drop (n + 1)), w)
      | none => throw .underflow) := rfl

theorem prim_dig_eq (cx : Ctx) (w : World) (st : List Val) (imms : List String) :
    execPrim cx "dig" imms w st = (do
      let n ← immNat "dig" imms 0
      match st[n]? with
      | some v => pure (v :: st, w)
      | none => throw .underflow) := rfl

/-! ### Machine states: only the stack and the scratch space move -/

abbrev Scratch := List (Nat × Val)

/-- `m` with stack `st` and scratch `sc`; every other component (constant blocks, ledger
    part of the world, effects) as in `m`. -/
def withSS (m : MS) (st : List Val) (sc : Scratch) : MS :=
  { m with stack := st, world := { m.world with scratch := sc } }

@[simp] theorem withSS_withSS (m : MS) (a c : List Val) (b d : Scratch) :
    withSS (withSS m a b) c d = withSS m c d := rfl
@[simp] theorem withSS_stack (m : MS) (a : List Val) (b : Scratch) : (withSS m a b).stack = a := rfl
@[simp] theorem withSS_scratch (m : MS) (a : List Val) (b : Scratch) :
    (withSS m a b).world.scratch = b := rfl
theorem withSS_self (m : MS) : withSS m m.stack m.world.scratch = m := rfl

theorem step_load (cx : Ctx) (m : MS) (st : List Val) (sc : Scratch) (s : Nat)
    (hs : s < 256) (hl : st.length < maxStack) :
    execSimple cx (.load s) (withSS m st sc) = some (.ok (withSS m (getSlot sc s :: st) sc)) := by
  simp [execSimple, withSS, hs, pushV, hl]

theorem step_store (cx : Ctx) (m : MS) (v : Val) (st : List Val) (sc : Scratch) (s : Nat)
    (hs : s < 256) :
    execSimple cx (.store s) (withSS m (v :: st) sc) = some (.ok (withSS m st (setSlot sc s v))) := by
  simp [execSimple, withSS, hs]

theorem step_swap (cx : Ctx) (m : MS) (a b : Val) (st : List Val) (sc : Scratch)
    (hl : st.length + 2 ≤ maxStack) :
    execSimple cx swapI (withSS m (a :: b :: st) sc) = some (.ok (withSS m (b :: a :: st) sc)) := by
  simp only [swapI, execSimple, withSS, prim_swap]
  simp [hl]

theorem step_pop (cx : Ctx) (m : MS) (a : Val) (st : List Val) (sc : Scratch)
    (hl : st.length ≤ maxStack) :
    execSimple cx popI (withSS m (a :: st) sc) = some (.ok (withSS m st sc)) := by
  simp only [popI, execSimple, withSS, prim_pop]
  simp [hl]

/-- `cover |P|` moves the top value below the `|P|` values under it -/
theorem step_cover (cx : Ctx) (m : MS) (a : Val) (P τ : List Val) (sc : Scratch)
    (hl : P.length + τ.length + 1 ≤ maxStack) :
    execSimple cx (opN "cover" P.length) (withSS m (a :: (P ++ τ)) sc)
      = some (.ok (withSS m (P ++ a :: τ) sc)) := by
  simp only [opN, execSimple, withSS, prim_cover_eq, immNat_toString]
  simp [pop1, bind, Except.bind, pure, Except.pure]
  omega

/-- `uncover |P|` (emitted as `swap` when `|P| = 1`) brings the value under `P` to the top -/
theorem step_uncover (cx : Ctx) (m : MS) (x : Val) (P τ : List Val) (sc : Scratch) (D : Nat)
    (hD : P.length = D) (hl : P.length + τ.length + 1 ≤ maxStack) :
    execSimple cx (if D == 1 then swapI else opN "uncover" D) (withSS m (P ++ x :: τ) sc)
      = some (.ok (withSS m (x :: (P ++ τ)) sc)) := by
  subst hD
  by_cases h1 : P.length = 1
  · match P, h1 with
    | [p], _ =>
      simp only [List.length_singleton, beq_self_eq_true, ↓reduceIte, List.singleton_append]
      exact step_swap cx m p x τ sc (by simp at hl; omega)
  · have : (P.length == 1) = false := by simp [h1]
    rw [this]
    simp only [Bool.false_eq_true, ↓reduceIte, opN, execSimple, withSS, prim_uncover_eq,
      immNat_toString]
    simp [bind, Except.bind, pure, Except.pure]
    omega

theorem step_dig (cx : Ctx) (m : MS) (x : Val) (P τ : List Val) (sc : Scratch)
    (hl : P.length + τ.length + 2 ≤ maxStack) :
    execSimple cx (opN "dig" P.length) (withSS m (P ++ x :: τ) sc)
      = some (.ok (withSS m (x :: (P ++ x :: τ)) sc)) := by
  simp only [opN, execSimple, withSS, prim_dig_eq, immNat_toString]
  simp [bind, Except.bind, pure, Except.pure]
  omega

/-! ### Straight-line execution -/

theorem execOps_cons_ok {cx : Ctx} {i : Instr} {is : List Instr} {m m' : MS}
    (h : execSimple cx i m = some (.ok m')) : execOps cx (i :: is) m = execOps cx is m' := by
  simp [execOps, h]

theorem execOps_append_ok {cx : Ctx} : ∀ {a b : List Instr} {m m' : MS},
    execOps cx a m = .ok m' → execOps cx (a ++ b) m = execOps cx b m'
  | [], b, m, m', h => by
    simp only [execOps, SR.ok.injEq] at h
    simp [h]
  | i :: a, b, m, m', h => by
    simp only [List.cons_append, execOps] at h ⊢
    cases hi : execSimple cx i m with
    | none => simp [hi] at h
    | some r =>
      cases r with
      | halt o => simp [hi] at h
      | ok m1 =>
        simp only [hi] at h ⊢
        exact execOps_append_ok h

/-! ### The loops of `before` -/

/-- `for slot in slots: load slot` -/
theorem loads_plain (cx : Ctx) (m : MS) (sc : Scratch) : ∀ (slots : List Nat) (τ : List Val),
    (∀ s ∈ slots, s < 256) → τ.length + slots.length ≤ maxStack →
    execOps cx (slots.map Instr.load) (withSS m τ sc)
      = .ok (withSS m ((slots.map (getSlot sc)).reverse ++ τ) sc)
  | [], τ, _, _ => by simp [execOps]
  | s :: t, τ, h, hl => by
    have hl' : (getSlot sc s :: τ).length + t.length ≤ maxStack := by
      simp only [List.length_cons] at hl ⊢; omega
    have ih := loads_plain cx m sc t (getSlot sc s :: τ) (fun x hx => h x (by simp [hx])) hl'
    rw [List.map_cons, execOps_cons_ok (step_load cx m τ sc s (h s (by simp))
      (by simp only [List.length_cons] at hl; omega)), ih]
    simp

/-- `for slot in slots: load slot; cover numArgs` -/
theorem loads_cover (cx : Ctx) (m : MS) (sc : Scratch) (A : List Val) :
    ∀ (slots : List Nat) (τ : List Val),
    (∀ s ∈ slots, s < 256) → A.length + τ.length + slots.length ≤ maxStack →
    execOps cx (slots.flatMap (fun s => [Instr.load s, opN "cover" A.length])) (withSS m (A ++ τ) sc)
      = .ok (withSS m (A ++ ((slots.map (getSlot sc)).reverse ++ τ)) sc)
  | [], τ, _, _ => by simp [execOps]
  | s :: t, τ, h, hl => by
    simp only [List.length_cons] at hl
    have ih := loads_cover cx m sc A t (getSlot sc s :: τ) (fun x hx => h x (by simp [hx]))
      (by simp only [List.length_cons]; omega)
    rw [List.flatMap_cons, List.cons_append, List.cons_append, List.nil_append,
      execOps_cons_ok (step_load cx m (A ++ τ) sc s (h s (by simp)) (by simp; omega)),
      execOps_cons_ok (step_cover cx m _ A τ sc (by omega)), ih]
    simp

/-- `for _ in range(numArgs): uncover stackDistance` (or `swap`) -/
theorem uncover_loop (cx : Ctx) (m : MS) (sc : Scratch) (V σ : List Val) (D : Nat) :
    ∀ (args Q : List Val), D + 1 = Q.length + V.length + args.length →
    Q.length + V.length + args.length + σ.length ≤ maxStack →
    execOps cx (List.replicate args.length (if D == 1 then swapI else opN "uncover" D))
        (withSS m (Q ++ (V ++ (args.reverse ++ σ))) sc)
      = .ok (withSS m (args.reverse ++ (Q ++ (V ++ σ))) sc)
  | [], Q, _, _ => by simp [execOps]
  | x :: t, Q, hD, hl => by
    simp only [List.length_cons] at hD hl
    have ih := uncover_loop cx m sc V σ D t (x :: Q) (by simp only [List.length_cons]; omega)
      (by simp only [List.length_cons]; omega)
    have hst : Q ++ (V ++ ((x :: t).reverse ++ σ)) = (Q ++ (V ++ t.reverse)) ++ x :: σ := by simp
    rw [List.length_cons, List.replicate_succ, hst,
      execOps_cons_ok (step_uncover cx m x (Q ++ (V ++ t.reverse)) σ sc D (by simp; omega)
        (by simp; omega))]
    have h2 : x :: (Q ++ (V ++ t.reverse) ++ σ) = (x :: Q) ++ (V ++ (t.reverse ++ σ)) := by simp
    rw [h2, ih]
    simp

/-- `for _ in range(numArgs): dig stackDistance` -/
theorem dig_loop (cx : Ctx) (m : MS) (sc : Scratch) (V : List Val) (D : Nat) :
    ∀ (args Q τ : List Val), D + 1 = Q.length + V.length + args.length →
    Q.length + V.length + args.length + τ.length + args.length ≤ maxStack →
    execOps cx (List.replicate args.length (opN "dig" D))
        (withSS m (Q ++ (V ++ (args.reverse ++ τ))) sc)
      = .ok (withSS m (args.reverse ++ (Q ++ (V ++ (args.reverse ++ τ)))) sc)
  | [], Q, τ, _, _ => by simp [execOps]
  | x :: t, Q, τ, hD, hl => by
    simp only [List.length_cons] at hD hl
    have ih := dig_loop cx m sc V D t (x :: Q) (x :: τ) (by simp only [List.length_cons]; omega)
      (by simp only [List.length_cons]; omega)
    have hst : Q ++ (V ++ ((x :: t).reverse ++ τ)) = (Q ++ (V ++ t.reverse)) ++ x :: τ := by simp
    have hP : (Q ++ (V ++ t.reverse)).length = D := by simp; omega
    rw [List.length_cons, List.replicate_succ, hst, ← hP,
      execOps_cons_ok (step_dig cx m x (Q ++ (V ++ t.reverse)) τ sc (by simp; omega))]
    have h2 : x :: (Q ++ (V ++ t.reverse) ++ x :: τ) = (x :: Q) ++ (V ++ (t.reverse ++ x :: τ)) := by
      simp
    rw [h2, hP, ih]
    simp


theorem flatten_replicate_singleton {α} (n : Nat) (x : α) :
    (List.replicate n [x]).flatten = List.replicate n x := by
  induction n with
  | zero => rfl
  | succ n ih => simp [List.replicate_succ, ih]

theorem flatMap_eq_map_of {α β} (g : α → List β) (h : α → β) :
    ∀ (L : List α), (∀ x ∈ L, g x = [h x]) → L.flatMap g = L.map h
  | [], _ => rfl
  | a :: t, hg => by
    rw [List.flatMap_cons, hg a (by simp), flatMap_eq_map_of g h t (fun x hx => hg x (by simp [hx]))]
    rfl

/-- What `before` does: the arguments stay on top (in order), the slot values sit under them
    (`slots[-1]` uppermost); in the `dig` flavour the original arguments remain below. -/
theorem before_ok (cx : Ctx) (m : MS) (sc : Scratch) (slots : List Nat) (cov : Bool)
    (args σ : List Val) (hne : slots ≠ []) (h256 : ∀ s ∈ slots, s < 256)
    (hl : σ.length + args.length + slots.length + (if cov then 0 else args.length) ≤ maxStack) :
    execOps cx (spillBefore slots args.length cov) (withSS m (args.reverse ++ σ) sc)
      = .ok (withSS m (args.reverse ++ ((slots.map (getSlot sc)).reverse ++
              ((if cov then [] else args.reverse) ++ σ))) sc) := by
  have hemp : slots.isEmpty = false := by cases slots <;> simp_all
  have hk : 1 ≤ slots.length := by cases slots <;> simp_all
  cases cov with
  | false =>
    simp only [Bool.false_eq_true, ↓reduceIte] at hl ⊢
    have hshape : spillBefore slots args.length false
        = slots.map Instr.load ++ List.replicate args.length (opN "dig" (slots.length + args.length - 1)) := by
      simp [spillBefore, hemp, flatMap_eq_map_of _ Instr.load slots (fun _ _ => rfl)]
    have h1 := loads_plain cx m sc slots (args.reverse ++ σ) h256 (by simp; omega)
    have h2 := dig_loop cx m sc (slots.map (getSlot sc)).reverse (slots.length + args.length - 1)
      args [] σ (by simp; omega) (by simp; omega)
    rw [hshape, execOps_append_ok h1]
    simpa using h2
  | true =>
    simp only [↓reduceIte, Nat.add_zero, List.nil_append] at hl ⊢
    by_cases hlt : slots.length < args.length
    · have hshape : spillBefore slots args.length true
          = slots.flatMap (fun s => [Instr.load s, opN "cover" args.length]) := by
        simp [spillBefore, hemp, hlt]
      have h1 := loads_cover cx m sc args.reverse slots σ h256 (by simp; omega)
      rw [hshape]
      simpa using h1
    · have hshape : spillBefore slots args.length true
          = slots.map Instr.load ++ List.replicate args.length
              (if slots.length + args.length - 1 == 1 then swapI
               else opN "uncover" (slots.length + args.length - 1)) := by
        simp [spillBefore, hemp, hlt, flatMap_eq_map_of _ Instr.load slots (fun _ _ => rfl)]
      have h1 := loads_plain cx m sc slots (args.reverse ++ σ) h256 (by simp; omega)
      have h2 := uncover_loop cx m sc (slots.map (getSlot sc)).reverse σ
        (slots.length + args.length - 1) args [] (by simp; omega) (by simp; omega)
      rw [hshape, execOps_append_ok h1]
      simpa using h2


/-! ### Scratch space algebra -/

theorem getSlot_setSlot (sc : Scratch) (s x : Nat) (v : Val) :
    getSlot (setSlot sc s v) x = if x = s then v else getSlot sc x := by
  unfold getSlot setSlot
  by_cases h : x = s
  · subst h; simp
  · have h' : (s == x) = false := by simp; omega
    rw [List.find?_cons]
    simp only [h', if_neg h, List.find?_filter]
    have : (fun (a : Nat × Val) => decide (a.1 != s ∧ a.1 == x)) = (fun a => a.1 == x) := by
      funext a
      by_cases ha : a.1 = x
      · simp [ha, h]
      · simp [ha]
    simp only [Bool.decide_and, Bool.decide_eq_true] at this ⊢
    rw [this]

/-- storing `f s` into every `s` of `L` -/
def storeAll (f : Nat → Val) (L : List Nat) (sc : Scratch) : Scratch :=
  L.foldl (fun sc s => setSlot sc s (f s)) sc

theorem getSlot_storeAll (f : Nat → Val) : ∀ (L : List Nat) (sc : Scratch) (x : Nat),
    getSlot (storeAll f L sc) x = if x ∈ L then f x else getSlot sc x
  | [], sc, x => by simp [storeAll]
  | s :: t, sc, x => by
    have ih := getSlot_storeAll f t (setSlot sc s (f s)) x
    simp only [storeAll, List.foldl_cons] at ih ⊢
    rw [ih, getSlot_setSlot]
    by_cases h1 : x ∈ t
    · simp [h1]
    · by_cases h2 : x = s
      · subst h2; simp
      · simp [h1, h2]

/-! ### The loops of `after` -/

/-- `for slot in L: store slot`, the stack holding the values in the same order -/
theorem stores (cx : Ctx) (m : MS) (f : Nat → Val) : ∀ (L : List Nat) (τ : List Val) (sc : Scratch),
    (∀ s ∈ L, s < 256) →
    execOps cx (L.map Instr.store) (withSS m (L.map f ++ τ) sc) = .ok (withSS m τ (storeAll f L sc))
  | [], τ, sc, _ => by simp [execOps, storeAll]
  | s :: t, τ, sc, h => by
    have ih := stores cx m f t τ (setSlot sc s (f s)) (fun x hx => h x (by simp [hx]))
    rw [List.map_cons, List.map_cons, List.cons_append,
      execOps_cons_ok (step_store cx m (f s) _ sc s (h s (by simp))), ih]
    rfl

/-- `for _ in range(numArgs): swap; pop` under a return value -/
theorem pops_swap (cx : Ctx) (m : MS) (sc : Scratch) (r : Val) (σ : List Val) : ∀ (A : List Val),
    A.length + σ.length + 1 ≤ maxStack →
    execOps cx (List.replicate A.length [swapI, popI]).flatten (withSS m (r :: (A ++ σ)) sc)
      = .ok (withSS m (r :: σ) sc)
  | [], _ => by simp [execOps]
  | a :: t, hl => by
    simp only [List.length_cons] at hl
    have ih := pops_swap cx m sc r σ t (by omega)
    rw [List.length_cons, List.replicate_succ, List.flatten_cons, List.cons_append,
      List.cons_append, List.nil_append, List.cons_append,
      execOps_cons_ok (step_swap cx m r a (t ++ σ) sc (by simp; omega)),
      execOps_cons_ok (step_pop cx m a (r :: (t ++ σ)) sc (by simp; omega)), ih]

/-- `for _ in range(numArgs): pop` -/
theorem pops_plain (cx : Ctx) (m : MS) (sc : Scratch) (σ : List Val) : ∀ (A : List Val),
    A.length + σ.length ≤ maxStack →
    execOps cx (List.replicate A.length [popI]).flatten (withSS m (A ++ σ) sc)
      = .ok (withSS m σ sc)
  | [], _ => by simp [execOps]
  | a :: t, hl => by
    simp only [List.length_cons] at hl
    have ih := pops_plain cx m sc σ t (by omega)
    rw [List.length_cons, List.replicate_succ, List.flatten_cons, List.cons_append,
      List.nil_append, List.cons_append,
      execOps_cons_ok (step_pop cx m a (t ++ σ) sc (by simp; omega)), ih]

/-- the scratch space after the restore: the caller's slots hold `f`, every other slot is as
    the callee left it (`sc'`) -/
def Restored (f : Nat → Val) (slots : List Nat) (sc' sc'' : Scratch) : Prop :=
  (∀ s ∈ slots, getSlot sc'' s = f s) ∧ (∀ s, s ∉ slots → getSlot sc'' s = getSlot sc' s)

theorem restored_storeAll (f : Nat → Val) (slots : List Nat) (sc' : Scratch) :
    Restored f slots sc' (storeAll f slots.reverse sc') := by
  constructor
  · intro s hs; rw [getSlot_storeAll]; simp [hs]
  · intro s hs; rw [getSlot_storeAll]; simp [hs]

/-- the ops of the `hideReturnValueInFirstSlot` restore loop -/
theorem restore_hide_shape (s0 : Nat) (t : List Nat) (hs0 : s0 ∉ t) :
    (s0 :: t).reverse.flatMap (fun slot =>
      (if true && slot == s0 then [Instr.load slot, swapI] else []) ++ [Instr.store slot])
    = t.reverse.map Instr.store ++ [Instr.load s0, swapI, Instr.store s0] := by
  rw [List.reverse_cons, List.flatMap_append]
  congr 1
  · apply flatMap_eq_map_of
    intro x hx
    have : (x == s0) = false := by
      simp only [beq_eq_false_iff_ne, ne_eq]
      intro h; subst h; exact hs0 (by simpa using hx)
    simp [this]
  · simp

theorem ite_not_cov (cov : Bool) (X : List Instr) :
    (if (!cov) = true then X else []) = (if cov = true then [] else X) := by
  cases cov <;> rfl

/-- `keep ++ restore` of `after`, followed by the pops: from `rets ++ values ++ τ` the restore
    part reaches `rets ++ τ` with the slots restored.  `rets` is the callee's result (one value
    iff `crv`). -/
theorem restore_ok (cx : Ctx) (m : MS) (f : Nat → Val) (slots : List Nat) (crv cov : Bool)
    (numArgs : Nat) (rets τ : List Val) (sc' : Scratch)
    (hne : slots ≠ []) (hnd : slots.Nodup) (h256 : ∀ s ∈ slots, s < 256)
    (hr : rets.length = if crv then 1 else 0)
    (hl : rets.length + slots.length + τ.length ≤ maxStack) :
    ∃ sc'', Restored f slots sc' sc'' ∧
        execOps cx (spillAfter slots numArgs crv cov)
            (withSS m (rets ++ ((slots.map f).reverse ++ τ)) sc')
          = execOps cx (if cov then [] else
              (List.replicate numArgs ((if crv then [swapI] else []) ++ [popI])).flatten)
              (withSS m (rets ++ τ) sc'') := by
  match slots, hne with
  | s0 :: t, _ =>
  have h256r : ∀ s ∈ (s0 :: t).reverse, s < 256 := fun s hs => h256 s (List.mem_reverse.mp hs)
  cases crv with
  | false =>
    -- no value on the stack: plain restore
    have hrets : rets = [] := by simpa using hr
    subst hrets
    refine ⟨storeAll f (s0 :: t).reverse sc', restored_storeAll f _ sc', ?_⟩
    have hshape : spillAfter (s0 :: t) numArgs false cov
        = (s0 :: t).reverse.map Instr.store ++ (if cov then [] else
              (List.replicate numArgs (([] : List Instr) ++ [popI])).flatten) := by
      simp only [spillAfter, Bool.false_and, Bool.false_eq_true, ↓reduceIte, List.nil_append,
        ite_not_cov]
      rw [flatMap_eq_map_of _ Instr.store _ (fun _ _ => rfl)]
    have h1 := stores cx m f (s0 :: t).reverse τ sc' h256r
    rw [hshape, List.nil_append, ← List.map_reverse]
    simp only [Bool.false_eq_true, ↓reduceIte, List.nil_append]
    exact execOps_append_ok h1
  | true =>
    obtain ⟨r, hrets⟩ : ∃ r, rets = [r] := by
      match rets, hr with
      | [r], _ => exact ⟨r, rfl⟩
    subst hrets
    simp only [List.length_cons, List.length_nil] at hl
    simp only [↓reduceIte, List.singleton_append]
    by_cases ht : t = []
    · -- one slot: `swap; store`
      subst ht
      refine ⟨storeAll f [s0].reverse sc', restored_storeAll f _ sc', ?_⟩
      have hshape : spillAfter [s0] numArgs true cov
          = [swapI, Instr.store s0] ++ (if cov then [] else
                (List.replicate numArgs ([swapI] ++ [popI])).flatten) := by
        cases cov <;> simp [spillAfter]
      rw [hshape]
      apply execOps_append_ok
      simp only [List.map_cons, List.map_nil, List.reverse_cons, List.reverse_nil, List.nil_append,
        List.singleton_append]
      rw [execOps_cons_ok (step_swap cx m r (f s0) τ sc' (by omega)),
        execOps_cons_ok (step_store cx m (f s0) (r :: τ) sc' s0 (h256 s0 (by simp)))]
      rfl
    · have hk : ((s0 :: t).length == 1) = false := by
        cases t with
        | nil => exact absurd rfl ht
        | cons a b => simp
      cases cov with
      | true =>
        -- `cover len(slots)` then plain restore
        refine ⟨storeAll f (s0 :: t).reverse sc', restored_storeAll f _ sc', ?_⟩
        have hshape : spillAfter (s0 :: t) numArgs true true
            = opN "cover" (s0 :: t).length :: (s0 :: t).reverse.map Instr.store ++ [] := by
          simp only [spillAfter, hk, Bool.not_true, Bool.and_false, Bool.false_and,
            Bool.false_eq_true, ↓reduceIte, List.singleton_append, Bool.not_false, Bool.and_true,
            List.nil_append, List.append_nil, List.cons.injEq, true_and]
          rw [flatMap_eq_map_of _ Instr.store _ (fun _ _ => rfl)]
        have hlen : ((s0 :: t).reverse.map f).length = (s0 :: t).length := by simp
        have h0 := step_cover cx m r ((s0 :: t).reverse.map f) τ sc' (by rw [hlen]; simp; omega)
        rw [hlen] at h0
        have h1 := stores cx m f (s0 :: t).reverse (r :: τ) sc' h256r
        rw [hshape, ← List.map_reverse]
        apply execOps_append_ok
        rw [execOps_cons_ok h0, h1]
      | false =>
        -- version 4: hide the return value in slots[0]
        have hs0 : s0 ∉ t := (List.nodup_cons.mp hnd).1
        have hshape : spillAfter (s0 :: t) numArgs true false
            = (Instr.store s0 :: t.reverse.map Instr.store ++ [Instr.load s0, swapI, Instr.store s0])
              ++ (List.replicate numArgs ([swapI] ++ [popI])).flatten := by
          have := restore_hide_shape s0 t hs0
          simp only [spillAfter, hk, Bool.not_false, Bool.and_true, Bool.true_and, ↓reduceIte,
            List.cons_append, List.append_assoc] at this ⊢
          rw [this]
          simp
        let sc1 := setSlot sc' s0 r
        let sc2 := storeAll f t.reverse sc1
        have hget : getSlot sc2 s0 = r := by
          simp only [sc2, sc1, getSlot_storeAll, getSlot_setSlot]
          simp [hs0]
        refine ⟨setSlot sc2 s0 (f s0), ⟨?_, ?_⟩, ?_⟩
        · intro s hs
          rw [getSlot_setSlot]
          by_cases h : s = s0
          · simp [h]
          · have : s ∈ t := by simpa [h] using hs
            simp only [h, ↓reduceIte, sc2, getSlot_storeAll]
            simp [this]
        · intro s hs
          have h1 : s ≠ s0 := fun h => hs (by simp [h])
          have h2 : s ∉ t := fun h => hs (by simp [h])
          simp only [getSlot_setSlot, h1, ↓reduceIte, sc2, sc1, getSlot_storeAll]
          simp [h2]
        · rw [hshape]
          simp only [Bool.false_eq_true, ↓reduceIte]
          apply execOps_append_ok
          have h1 := stores cx m f t.reverse (f s0 :: τ) sc1
            (fun s hs => h256 s (by simp at hs; simp [hs]))
          rw [List.map_cons, List.reverse_cons, List.append_assoc, List.singleton_append,
            ← List.map_reverse, List.cons_append,
            execOps_cons_ok (step_store cx m r _ sc' s0 (h256 s0 (by simp))),
            execOps_append_ok h1,
            execOps_cons_ok (step_load cx m (f s0 :: τ) sc2 s0 (h256 s0 (by simp))
              (by simp only [List.length_cons]; omega)),
            hget,
            execOps_cons_ok (step_swap cx m r (f s0) τ sc2 (by omega)),
            execOps_cons_ok (step_store cx m (f s0) (r :: τ) sc2 s0 (h256 s0 (by simp)))]
          rfl


/-- the pops that remove the dug-up argument copies (version 4 only) -/
theorem pops_ok (cx : Ctx) (m : MS) (sc : Scratch) (crv cov : Bool) (args rets σ : List Val)
    (hr : rets.length = if crv then 1 else 0)
    (hl : rets.length + (if cov then 0 else args.length) + σ.length ≤ maxStack) :
    execOps cx (if cov then [] else
        (List.replicate args.length ((if crv then [swapI] else []) ++ [popI])).flatten)
        (withSS m (rets ++ ((if cov then [] else args.reverse) ++ σ)) sc)
      = .ok (withSS m (rets ++ σ) sc) := by
  cases cov with
  | true => simp [execOps]
  | false =>
    simp only [Bool.false_eq_true, ↓reduceIte] at hl ⊢
    cases crv with
    | false =>
      have hrets : rets = [] := by simpa using hr
      subst hrets
      have := pops_plain cx m sc σ args.reverse (by simp at hl ⊢; omega)
      simpa using this
    | true =>
      obtain ⟨r, hrets⟩ : ∃ r, rets = [r] := by
        match rets, hr with
        | [r], _ => exact ⟨r, rfl⟩
      subst hrets
      have := pops_swap cx m sc r σ args.reverse (by simp at hl ⊢; omega)
      simpa using this

/-! ## The property -/

/--
**Spill/restore correctness (`spill_correct`).**

For every non-empty duplicate-free list `slots` of scratch slots (< 256), every `numArgs`, both
flavours (`cov = false`: version 4 `dig`; `cov = true`: version ≥ 5 `cover`/`uncover`), both
`crv` (does the callee leave a value), every machine state `m` whose stack is the `numArgs`
arguments (last argument on top) over an arbitrary `σ`:

* `spillBefore` runs to `.ok`, changes nothing but the stack, and leaves the arguments on top in
  the same order (that is what the callee pops), over some `rest`;
* for **every** state `m2` the callee may come back with — the arguments replaced by its `rets`
  (one value iff `crv`) on the unchanged `rest`, scratch space, ledger and everything else
  arbitrary — `spillAfter` runs to `.ok`, leaves exactly `rets ++ σ` on the stack, every slot of
  `slots` holds the value it had in `m`, every other slot and every other machine component is
  as the callee left it.

Hypotheses that are resource conditions of the emitted code (an AVM run exceeding them fails with
stack overflow, also in the real machine): `hdepth` — the spilled values (and, in version 4, the
dug argument copies) must fit under the 1000-entry stack limit; `hm2` — the state the callee
returns is a legal machine state (stack ≤ 1000).  Sortedness of `slots` is not needed.
-/
theorem spill_correct (cx : Ctx) (slots : List Nat) (numArgs : Nat) (crv cov : Bool)
    (hne : slots ≠ []) (hnd : slots.Nodup) (h256 : ∀ s ∈ slots, s < 256)
    (m : MS) (args σ : List Val) (hargs : args.length = numArgs)
    (hst : m.stack = args.reverse ++ σ)
    (hdepth : σ.length + numArgs + slots.length + (if cov then 0 else numArgs) ≤ maxStack) :
    ∃ rest : List Val,
      execOps cx (spillBefore slots numArgs cov) m
        = .ok (withSS m (args.reverse ++ rest) m.world.scratch) ∧
      ∀ (m2 : MS) (rets : List Val),
        rets.length = (if crv then 1 else 0) →
        m2.stack = rets ++ rest →
        m2.stack.length ≤ maxStack →
        ∃ sc'' : Scratch,
          execOps cx (spillAfter slots numArgs crv cov) m2 = .ok (withSS m2 (rets ++ σ) sc'') ∧
          (∀ s ∈ slots, getSlot sc'' s = getSlot m.world.scratch s) ∧
          (∀ s, s ∉ slots → getSlot sc'' s = getSlot m2.world.scratch s) := by
  subst hargs
  refine ⟨(slots.map (getSlot m.world.scratch)).reverse ++
      ((if cov then [] else args.reverse) ++ σ), ?_, ?_⟩
  · have := before_ok cx m m.world.scratch slots cov args σ hne h256 hdepth
    rw [← hst, withSS_self] at this
    exact this
  · intro m2 rets hr hst2 hm2
    have hlen : rets.length + slots.length + ((if cov then 0 else args.length) + σ.length)
        ≤ maxStack := by
      rw [hst2] at hm2
      cases cov <;> simp at hm2 ⊢ <;> omega
    obtain ⟨sc'', hres, hrun⟩ := restore_ok cx m2 (getSlot m.world.scratch) slots crv cov
      args.length rets ((if cov then [] else args.reverse) ++ σ) m2.world.scratch
      hne hnd h256 hr (by cases cov <;> simp at hlen ⊢ <;> omega)
    refine ⟨sc'', ?_, hres.1, hres.2⟩
    rw [← hst2, withSS_self] at hrun
    rw [hrun]
    exact pops_ok cx m2 sc'' crv cov args rets σ hr (by omega)

/-- the same for the lists the Python code produces (`sorted(set)`: strictly increasing) -/
theorem spill_correct_sorted (cx : Ctx) (slots : List Nat) (numArgs : Nat) (crv cov : Bool)
    (hne : slots ≠ []) (hsorted : slots.Pairwise (· < ·)) (h256 : ∀ s ∈ slots, s < 256)
    (m : MS) (args σ : List Val) (hargs : args.length = numArgs)
    (hst : m.stack = args.reverse ++ σ)
    (hdepth : σ.length + numArgs + slots.length + (if cov then 0 else numArgs) ≤ maxStack) :
    ∃ rest : List Val,
      execOps cx (spillBefore slots numArgs cov) m
        = .ok (withSS m (args.reverse ++ rest) m.world.scratch) ∧
      ∀ (m2 : MS) (rets : List Val),
        rets.length = (if crv then 1 else 0) →
        m2.stack = rets ++ rest →
        m2.stack.length ≤ maxStack →
        ∃ sc'' : Scratch,
          execOps cx (spillAfter slots numArgs crv cov) m2 = .ok (withSS m2 (rets ++ σ) sc'') ∧
          (∀ s ∈ slots, getSlot sc'' s = getSlot m.world.scratch s) ∧
          (∀ s, s ∉ slots → getSlot sc'' s = getSlot m2.world.scratch s) :=
  spill_correct cx slots numArgs crv cov hne
    (hsorted.imp (fun h => Nat.ne_of_lt h)) h256 m args σ hargs hst hdepth

/-- `before; callee; after` as one run, the callee being an arbitrary state transformer -/
def runAround (cx : Ctx) (before after : List Instr) (callee : MS → MS) (m : MS) : SR :=
  match execOps cx before m with
  | .ok m1 => execOps cx after (callee m1)
  | .halt o => .halt o

/-- A callee "pops `numArgs` arguments and pushes `rets`" on whatever lies below. -/
def CalleeEffect (callee : MS → MS) (args rets : List Val) : Prop :=
  ∀ (m1 : MS) (rest : List Val), m1.stack = args.reverse ++ rest →
    (callee m1).stack = rets ++ rest ∧ (callee m1).stack.length ≤ maxStack

theorem spill_correct_run (cx : Ctx) (slots : List Nat) (numArgs : Nat) (crv cov : Bool)
    (hne : slots ≠ []) (hnd : slots.Nodup) (h256 : ∀ s ∈ slots, s < 256)
    (m : MS) (args σ rets : List Val) (hargs : args.length = numArgs)
    (hst : m.stack = args.reverse ++ σ)
    (hdepth : σ.length + numArgs + slots.length + (if cov then 0 else numArgs) ≤ maxStack)
    (callee : MS → MS) (hrets : rets.length = if crv then 1 else 0)
    (hcallee : CalleeEffect callee args rets) :
    ∃ m3, runAround cx (spillBefore slots numArgs cov) (spillAfter slots numArgs crv cov) callee m
        = .ok m3 ∧
      m3.stack = rets ++ σ ∧
      (∀ s ∈ slots, getSlot m3.world.scratch s = getSlot m.world.scratch s) ∧
      (∀ s, s ∉ slots → ∃ m1, execOps cx (spillBefore slots numArgs cov) m = .ok m1 ∧
          getSlot m3.world.scratch s = getSlot (callee m1).world.scratch s) := by
  obtain ⟨rest, hb, ha⟩ := spill_correct cx slots numArgs crv cov hne hnd h256 m args σ hargs hst hdepth
  have hc := hcallee (withSS m (args.reverse ++ rest) m.world.scratch) rest rfl
  obtain ⟨sc'', hrun, h1, h2⟩ := ha _ rets hrets hc.1 hc.2
  refine ⟨withSS (callee (withSS m (args.reverse ++ rest) m.world.scratch)) (rets ++ σ) sc'',
    ?_, ?_, ?_, ?_⟩
  · simp only [runAround, hb]; exact hrun
  · rfl
  · exact h1
  · intro s hs; exact ⟨_, hb, h2 s hs⟩


/-! ### Immediates stay within one byte -/

/-- what the assembler accepts: slot numbers and stack-op immediates are one byte -/
def immLe255 : Instr → Bool
  | .prim _ [s] => match Util.parseNat s with
    | some n => decide (n ≤ 255)
    | none => false
  | .prim _ [] => true
  | .load s => decide (s < 256)
  | .store s => decide (s < 256)
  | _ => false

theorem immLe255_opN (nm : String) (n : Nat) : immLe255 (opN nm n) = decide (n ≤ 255) := by
  simp only [opN, immLe255, parseNat_toString]

theorem before_imms (slots : List Nat) (numArgs : Nat) (cov : Bool)
    (h256 : ∀ s ∈ slots, s < 256) (hsz : numArgs + slots.length ≤ 255) :
    ∀ i ∈ spillBefore slots numArgs cov, immLe255 i = true := by
  intro i hi
  unfold spillBefore at hi
  split at hi
  · simp at hi
  · simp only [List.mem_append, List.mem_flatMap, List.mem_flatten, List.mem_replicate,
      List.mem_cons] at hi
    rcases hi with ⟨s, hs, rfl | hi⟩ | ⟨l, ⟨_, rfl⟩, hi⟩
    · simp [immLe255, h256 s hs]
    · split at hi
      · simp only [List.mem_cons, List.not_mem_nil, or_false] at hi
        subst hi; rw [immLe255_opN]; simp; omega
      · simp at hi
    · simp only [List.mem_append] at hi
      rcases hi with hi | hi
      · split at hi
        · simp only [List.mem_cons, List.not_mem_nil, or_false] at hi
          subst hi
          split
          · rfl
          · rw [immLe255_opN]; simp; omega
        · simp at hi
      · split at hi
        · simp only [List.mem_cons, List.not_mem_nil, or_false] at hi
          subst hi; rw [immLe255_opN]; simp; omega
        · simp at hi

theorem after_imms (slots : List Nat) (numArgs : Nat) (crv cov : Bool)
    (h256 : ∀ s ∈ slots, s < 256) (hsz : numArgs + slots.length ≤ 255) :
    ∀ i ∈ spillAfter slots numArgs crv cov, immLe255 i = true := by
  intro i hi
  unfold spillAfter at hi
  split at hi
  · simp at hi
  · rename_i s0 t
    simp only [List.mem_append, List.mem_flatMap, List.mem_cons, List.mem_reverse] at hi
    rcases hi with (hi | ⟨s, hs, hi⟩) | hi
    · split at hi
      · split at hi
        · simp only [List.mem_cons, List.not_mem_nil, or_false] at hi; subst hi; rfl
        · split at hi
          · simp only [List.mem_cons, List.not_mem_nil, or_false] at hi
            subst hi; rw [immLe255_opN]; simp at hsz ⊢; omega
          · simp only [List.mem_cons, List.not_mem_nil, or_false] at hi
            subst hi; simp [immLe255, h256 s0 (by simp)]
      · simp at hi
    · have hs' : s < 256 := h256 s (by simpa using hs)
      rcases hi with hi | hi
      · split at hi
        · simp only [List.mem_cons, List.not_mem_nil, or_false] at hi
          rcases hi with rfl | rfl
          · simp [immLe255, hs']
          · rfl
        · simp at hi
      · simp only [List.not_mem_nil, or_false] at hi
        subst hi; simp [immLe255, hs']
    · split at hi
      · simp only [List.mem_flatten, List.mem_replicate] at hi
        obtain ⟨l, ⟨_, rfl⟩, hi⟩ := hi
        simp only [List.mem_append, List.mem_cons, List.not_mem_nil, or_false] at hi
        rcases hi with hi | rfl
        · split at hi
          · simp only [List.mem_cons, List.not_mem_nil, or_false] at hi; subst hi; rfl
          · simp at hi
        · rfl
      · simp at hi

/-- **`spill_immediates_le_255`**: if `numArgs + len(slots) ≤ 255`, every emitted immediate
    fits the one-byte encoding.  PyTeal does not check this (see the `example` below: one slot
    and 256 arguments yield `cover 256`, which the assembler rejects) — that is a
    target-legality matter (C04), not a run-time one. -/
theorem spill_immediates_le_255 (slots : List Nat) (numArgs : Nat) (crv cov : Bool)
    (h256 : ∀ s ∈ slots, s < 256) (hsz : numArgs + slots.length ≤ 255) :
    ∀ i ∈ spillBefore slots numArgs cov ++ spillAfter slots numArgs crv cov, immLe255 i = true := by
  intro i hi
  rcases List.mem_append.mp hi with h | h
  · exact before_imms slots numArgs cov h256 hsz i h
  · exact after_imms slots numArgs crv cov h256 hsz i h

example : (spillBefore [0] 256 true).all immLe255 = false := by decide

/-! ### Non-vacuity and concrete runs -/

/-- observation of a result: the stack and the contents of `slots` -/
def observe (slots : List Nat) : SR → Option (List Val × List Val)
  | .ok m => some (m.stack, slots.map (getSlot m.world.scratch))
  | .halt _ => none

/-- a hostile callee: pops `numArgs`, pushes `rets`, overwrites every scratch slot -/
def clobber (numArgs : Nat) (rets : List Val) (m1 : MS) : MS :=
  { m1 with stack := rets ++ m1.stack.drop numArgs,
            world := { m1.world with scratch := (List.range 256).map (fun s => (s, Val.u 4242)) } }

def m0 : MS :=
  { stack := [.u 2, .u 1, .u 50], world := { scratch := [(3, .u 33), (7, .b [1, 2])] } }

/-- the hypotheses of `spill_correct` are satisfiable (two slots, two arguments, a pending
    operand, both flavours, a value-returning callee) … -/
example : True := by
  have _h := spill_correct {} [3, 7] 2 true false (by decide) (by decide) (by decide) m0
    [.u 1, .u 2] [.u 50] rfl rfl (by decide)
  trivial

/-- … and the concrete runs give what the theorem says, version ≥ 5 … -/
example : observe [3, 7] (runAround {} (spillBefore [3, 7] 2 true) (spillAfter [3, 7] 2 true true)
      (clobber 2 [.u 99]) m0) = some ([.u 99, .u 50], [.u 33, .b [1, 2]]) := by decide

/-- … version 4 (`dig`, return value hidden in `slots[0]`) … -/
example : observe [3, 7] (runAround {} (spillBefore [3, 7] 2 false) (spillAfter [3, 7] 2 true false)
      (clobber 2 [.u 99]) m0) = some ([.u 99, .u 50], [.u 33, .b [1, 2]]) := by decide

/-- … and more arguments than slots (`cover` per slot), no value returned. -/
example : observe [7] (runAround {} (spillBefore [7] 2 true) (spillAfter [7] 2 false true)
      (clobber 2 []) m0) = some ([.u 50], [.b [1, 2]]) := by decide

/-! ### Regression witness: the code before the fix

  Before the fix the restore sequence was chosen from the **caller's** `return_type`
  (`if subroutine.return_type != TealType.none`), i.e. `spillAfter slots numArgs callerRet cov`
  whatever the callee leaves on the stack. -/

/-- the pre-fix `after` list -/
def spillAfterOld (slots : List Nat) (numArgs : Nat) (callerReturnTypeNotNone : Bool)
    (coverAvailable : Bool) : List Instr :=
  spillAfter slots numArgs callerReturnTypeNotNone coverAvailable

def m0' : MS := { stack := [.u 1, .u 50], world := { scratch := [(3, .u 33)] } }

/-- **`spill_old_counterexample`**: a `none`-returning caller (or an ABI-output routine, whose
    `return_type` is `none`) with local slot 3 (= 33) calls a routine that returns 99: the old
    restore `store 3` puts the *return value* into the slot and leaves the slot's old value on
    the stack in its place.  The fixed sequence is correct on the same input. -/
theorem spill_old_counterexample :
    observe [3] (runAround {} (spillBefore [3] 1 true) (spillAfterOld [3] 1 false true)
      (clobber 1 [.u 99]) m0') = some ([.u 33, .u 50], [.u 99])
    ∧ observe [3] (runAround {} (spillBefore [3] 1 true) (spillAfter [3] 1 true true)
      (clobber 1 [.u 99]) m0') = some ([.u 99, .u 50], [.u 33]) := by decide

/-- the opposite mismatch of the old code: a `uint64`-returning caller calls a `none`-returning
    routine: `swap; store 3` stores the pending operand 50 into the slot. -/
theorem spill_old_counterexample_rev :
    observe [3] (runAround {} (spillBefore [3] 1 true) (spillAfterOld [3] 1 true true)
      (clobber 1 []) m0') = some ([.u 33], [.u 50])
    ∧ observe [3] (runAround {} (spillBefore [3] 1 true) (spillAfter [3] 1 false true)
      (clobber 1 []) m0') = some ([.u 50], [.u 33]) := by decide

end PyTealV.Proofs.C02Spill
