/-
  C02 (part): `graph_search` / `findRecursionPoints` decide reachability.

  Model: `PyTealV.Models.Spill.searchLoop / graphSearch / recursionPoints`.
  For a call graph in which every callee is itself a key (PyTeal's `subroutineGraph` always is),
  `graphSearch g a b` terminates within its fuel, never raises, and answers `true` exactly when
  there is a path of at least one edge from `a` to `b`; hence `recursionPoints` keeps callee `c`
  of routine `f` exactly when `f` can be reached again from `c`.
-/
import PyTealV.Models.Spill
namespace PyTealV.Proofs.C02RecPoints
open PyTealV.Models.Spill

/-- `b` is a callee of `a` -/
def Edge (g : CallGraph) (a b : Nat) : Prop := ∃ ss, succs g a = some ss ∧ b ∈ ss

/-- a path of at least one edge -/
inductive Path (g : CallGraph) : Nat → Nat → Prop
  | single {a b : Nat} : Edge g a b → Path g a b
  | cons {a c b : Nat} : Edge g a c → Path g c b → Path g a b

/-- every callee is a key of the graph -/
def Closed (g : CallGraph) : Prop := ∀ p ∈ g, ∀ c ∈ p.2, (succs g c).isSome = true

theorem succs_mem {g : CallGraph} {a : Nat} {ss : List Nat} (h : succs g a = some ss) :
    ∃ p ∈ g, p.1 = a ∧ p.2 = ss := by
  unfold succs at h
  cases hf : g.find? (·.1 == a) with
  | none => simp [hf] at h
  | some p =>
    simp only [hf, Option.map_some, Option.some.injEq] at h
    refine ⟨p, List.mem_of_find?_eq_some hf, ?_, h⟩
    have := List.find?_some hf
    simpa using this

/-! ### Soundness: `true` only if reachable -/

theorem searchLoop_true (g : CallGraph) (end_ : Nat) : ∀ (fuel : Nat) (V S : List Nat),
    searchLoop g end_ fuel V S = some true → ∃ x ∈ S, x = end_ ∨ Path g x end_
  | _, _, [], h => by simp [searchLoop] at h
  | 0, _, _ :: _, h => by simp [searchLoop] at h
  | fuel + 1, V, current :: stack, h => by
    simp only [searchLoop] at h
    split at h
    · obtain ⟨x, hx, hp⟩ := searchLoop_true g end_ fuel V stack h
      exact ⟨x, by simp [hx], hp⟩
    · split at h
      · rename_i he
        have hec : end_ = current := by simpa using he
        exact ⟨current, by simp, Or.inl hec.symm⟩
      · split at h
        · simp at h
        · rename_i ss hs
          obtain ⟨x, hx, hp⟩ := searchLoop_true g end_ fuel (current :: V) (ss.reverse ++ stack) h
          rcases List.mem_append.mp hx with hx | hx
          · have hedge : Edge g current x := ⟨ss, hs, by simpa using hx⟩
            refine ⟨current, by simp, Or.inr ?_⟩
            rcases hp with rfl | hp
            · exact Path.single hedge
            · exact Path.cons hedge hp
          · exact ⟨x, by simp [hx], hp⟩

/-! ### Completeness: `false` only if unreachable -/

/-- loop invariant: visited nodes are not the target and all their callees are visited or
    on the work list -/
def Inv (g : CallGraph) (end_ : Nat) (V S : List Nat) : Prop :=
  ∀ v ∈ V, v ≠ end_ ∧ ∀ w, Edge g v w → w ∈ V ∨ w ∈ S

theorem searchLoop_false (g : CallGraph) (end_ : Nat) : ∀ (fuel : Nat) (V S : List Nat),
    Inv g end_ V S → searchLoop g end_ fuel V S = some false →
    ∃ V' : List Nat, (∀ x ∈ S, x ∈ V') ∧ (∀ v ∈ V, v ∈ V') ∧
      (∀ v ∈ V', v ≠ end_ ∧ ∀ w, Edge g v w → w ∈ V')
  | _, V, [], hI, _ => by
    refine ⟨V, by simp, fun v hv => hv, fun v hv => ⟨(hI v hv).1, fun w hw => ?_⟩⟩
    rcases (hI v hv).2 w hw with h | h
    · exact h
    · simp at h
  | 0, _, _ :: _, _, h => by simp [searchLoop] at h
  | fuel + 1, V, current :: stack, hI, h => by
    simp only [searchLoop] at h
    split at h
    · rename_i hc
      have hcV : current ∈ V := by simpa using hc
      have hI' : Inv g end_ V stack := by
        intro v hv
        refine ⟨(hI v hv).1, fun w hw => ?_⟩
        rcases (hI v hv).2 w hw with h1 | h1
        · exact Or.inl h1
        · rcases List.mem_cons.mp h1 with rfl | h2
          · exact Or.inl hcV
          · exact Or.inr h2
      obtain ⟨V', h1, h2, h3⟩ := searchLoop_false g end_ fuel V stack hI' h
      refine ⟨V', ?_, h2, h3⟩
      intro x hx
      rcases List.mem_cons.mp hx with rfl | hx
      · exact h2 _ hcV
      · exact h1 x hx
    · split at h
      · simp at h
      · rename_i hne
        split at h
        · simp at h
        · rename_i ss hs
          have hI' : Inv g end_ (current :: V) (ss.reverse ++ stack) := by
            intro v hv
            rcases List.mem_cons.mp hv with rfl | hv
            · refine ⟨fun he => hne (by simp [he]), fun w hw => ?_⟩
              obtain ⟨ss', hs', hw'⟩ := hw
              rw [hs] at hs'
              cases hs'
              exact Or.inr (by simp [hw'])
            · refine ⟨(hI v hv).1, fun w hw => ?_⟩
              rcases (hI v hv).2 w hw with h1 | h1
              · exact Or.inl (by simp [h1])
              · rcases List.mem_cons.mp h1 with rfl | h2
                · exact Or.inl (by simp)
                · exact Or.inr (by simp [h2])
          obtain ⟨V', h1, h2, h3⟩ :=
            searchLoop_false g end_ fuel (current :: V) (ss.reverse ++ stack) hI' h
          refine ⟨V', ?_, fun v hv => h2 v (by simp [hv]), h3⟩
          intro x hx
          rcases List.mem_cons.mp hx with rfl | hx
          · exact h2 _ (by simp)
          · exact h1 x (by simp [hx])

theorem closed_no_path (g : CallGraph) (end_ : Nat) (V' : List Nat)
    (hV : ∀ v ∈ V', v ≠ end_ ∧ ∀ w, Edge g v w → w ∈ V') :
    ∀ {x : Nat}, Path g x end_ → x ∈ V' → False := by
  intro x hp
  generalize hb : end_ = b at hp
  induction hp with
  | single he =>
    intro hx
    subst hb
    exact (hV _ ((hV _ hx).2 _ he)).1 rfl
  | cons he _ ih =>
    intro hx
    exact ih hb ((hV _ hx).2 _ he)

/-! ### Termination within the fuel -/

/-- work still to do: the entries of unvisited keys (one unit per entry and per edge) -/
def W (V : List Nat) : CallGraph → Nat
  | [] => 0
  | p :: g => (if V.contains p.1 then 0 else p.2.length + 1) + W V g

theorem W_nil (g : CallGraph) : W [] g = weight g := by
  induction g with
  | nil => rfl
  | cons p g ih => simp [W, weight, ih]

theorem W_mono (c : Nat) (V : List Nat) (g : CallGraph) : W (c :: V) g ≤ W V g := by
  induction g with
  | nil => simp [W]
  | cons p g ih =>
    simp only [W]
    by_cases h : V.contains p.1 = true
    · have : (c :: V).contains p.1 = true := by
        simp only [List.contains_eq_mem, List.mem_cons, decide_eq_true_eq] at h ⊢
        exact Or.inr h
      simp only [h, this, ↓reduceIte]; omega
    · simp only [h]
      split <;> simp <;> omega

theorem W_visit (c : Nat) (V : List Nat) (hc : V.contains c = false) :
    ∀ (g : CallGraph) (ss : List Nat), succs g c = some ss → W (c :: V) g + ss.length + 1 ≤ W V g
  | [], ss, h => by simp [succs] at h
  | p :: g, ss, h => by
    unfold succs at h
    rw [List.find?_cons] at h
    by_cases hp : (p.1 == c) = true
    · simp only [hp, Option.map_some, Option.some.injEq] at h
      have hpc : p.1 = c := by simpa using hp
      have h1 : (c :: V).contains p.1 = true := by simp [hpc]
      have h2 : V.contains p.1 = false := by rw [hpc]; exact hc
      have := W_mono c V g
      simp only [W, h1, h2, ↓reduceIte, Bool.false_eq_true, h]
      omega
    · simp only [hp] at h
      have ih := W_visit c V hc g ss (by unfold succs; exact h)
      simp only [W]
      have hterm : (if (c :: V).contains p.1 = true then 0 else p.2.length + 1)
          ≤ (if V.contains p.1 = true then 0 else p.2.length + 1) := by
        by_cases h3 : V.contains p.1 = true
        · have : (c :: V).contains p.1 = true := by
            simp only [List.contains_eq_mem, List.mem_cons, decide_eq_true_eq] at h3 ⊢
            exact Or.inr h3
          rw [if_pos h3, if_pos this]
          exact Nat.le_refl 0
        · rw [if_neg h3]
          split <;> omega
      omega

theorem searchLoop_total (g : CallGraph) (end_ : Nat) (hcl : Closed g) :
    ∀ (fuel : Nat) (V S : List Nat), (∀ x ∈ S, (succs g x).isSome = true) →
    S.length + W V g ≤ fuel → (searchLoop g end_ fuel V S).isSome = true
  | _, _, [], _, _ => by simp [searchLoop]
  | 0, _, _ :: _, _, h => by simp at h
  | fuel + 1, V, current :: stack, hS, h => by
    simp only [List.length_cons] at h
    simp only [searchLoop]
    split
    · exact searchLoop_total g end_ hcl fuel V stack (fun x hx => hS x (by simp [hx])) (by omega)
    · rename_i hc
      split
      · rfl
      · have hk := hS current (by simp)
        cases hs : succs g current with
        | none => simp [hs] at hk
        | some ss =>
          simp only
          obtain ⟨p, hp, _, hp2⟩ := succs_mem hs
          have hv := W_visit current V (by simpa using hc) g ss hs
          apply searchLoop_total g end_ hcl fuel (current :: V) (ss.reverse ++ stack)
          · intro x hx
            rcases List.mem_append.mp hx with hx | hx
            · exact hcl p hp x (by rw [hp2]; simpa using hx)
            · exact hS x (by simp [hx])
          · simp only [List.length_append, List.length_reverse]
            omega

theorem length_le_weight {g : CallGraph} {p : Nat × List Nat} (hp : p ∈ g) :
    p.2.length + 1 ≤ weight g := by
  induction g with
  | nil => simp at hp
  | cons q g ih =>
    simp only [weight]
    rcases List.mem_cons.mp hp with rfl | h
    · omega
    · have := ih h; omega

/-! ## `graph_search` decides reachability -/

/-- **`graphSearch_total`**: on a closed graph, from a key, the search answers (no `KeyError`,
    the fuel `searchFuel` is never exhausted). -/
theorem graphSearch_total (g : CallGraph) (hcl : Closed g) (a b : Nat)
    (ha : (succs g a).isSome = true) : (graphSearch g a b).isSome = true := by
  unfold graphSearch
  cases hs : succs g a with
  | none => simp [hs] at ha
  | some ss =>
    simp only
    obtain ⟨p, hp, _, hp2⟩ := succs_mem hs
    apply searchLoop_total g b hcl
    · intro x hx
      exact hcl p hp x (by rw [hp2]; simpa using hx)
    · have := length_le_weight hp
      rw [hp2] at this
      simp only [List.length_reverse, W_nil, searchFuel]
      omega

/-- **`graphSearch_true_iff`**: `graph_search(graph, a, b)` is `True` iff `b` is reachable from
    `a` by at least one edge (so `a = b` only through a cycle). -/
theorem graphSearch_true_iff (g : CallGraph) (hcl : Closed g) (a b : Nat)
    (ha : (succs g a).isSome = true) : graphSearch g a b = some true ↔ Path g a b := by
  constructor
  · intro h
    unfold graphSearch at h
    cases hs : succs g a with
    | none => simp [hs] at h
    | some ss =>
      simp only [hs] at h
      obtain ⟨x, hx, hp⟩ := searchLoop_true g b _ _ _ h
      have hedge : Edge g a x := ⟨ss, hs, by simpa using hx⟩
      rcases hp with rfl | hp
      · exact Path.single hedge
      · exact Path.cons hedge hp
  · intro hpath
    have htot := graphSearch_total g hcl a b ha
    cases hr : graphSearch g a b with
    | none => simp [hr] at htot
    | some r =>
      cases r with
      | true => rfl
      | false =>
        exfalso
        unfold graphSearch at hr
        cases hs : succs g a with
        | none => simp [hs] at hr
        | some ss =>
          simp only [hs] at hr
          obtain ⟨V', h1, _, h3⟩ := searchLoop_false g b _ [] ss.reverse
            (fun v hv => by simp at hv) hr
          have first : ∀ {x}, Edge g a x → x ∈ V' := by
            intro x ⟨ss', hs', hx⟩
            rw [hs] at hs'; cases hs'
            exact h1 x (by simpa using hx)
          cases hpath with
          | single he => exact (h3 _ (first he)).1 rfl
          | cons he hp => exact closed_no_path g b V' h3 hp (first he)

/-- **`recursion_points_exact`**: on a closed graph `findRecursionPoints` raises nothing, keeps
    the keys in order, and keeps callee `c` of routine `p.1` exactly when `p.1` can be reached
    again from `c`. -/
theorem recursion_points_exact (g : CallGraph) (hcl : Closed g) :
    recursionPoints g
      = some (g.map (fun p => (p.1, p.2.filter (fun c => graphSearch g c p.1 == some true))))
    ∧ ∀ p ∈ g, ∀ c ∈ p.2, (graphSearch g c p.1 = some true ↔ Path g c p.1) := by
  constructor
  · unfold recursionPoints
    rw [if_pos]
    simp only [List.all_eq_true]
    intro p hp c hc
    exact graphSearch_total g hcl c p.1 (hcl p hp c hc)
  · intro p hp c hc
    exact graphSearch_true_iff g hcl c p.1 (hcl p hp c hc)

/-- non-vacuity: a closed graph with mutual recursion (0 ↔ 1), a self loop (2) and a leaf (3) -/
example : Closed [(0, [1, 3]), (1, [0]), (2, [2, 3]), (3, [])] := by
  intro p hp c hc
  simp only [List.mem_cons, List.not_mem_nil, or_false] at hp
  rcases hp with rfl | rfl | rfl | rfl <;> simp at hc <;> rcases hc with rfl | rfl <;> rfl

example : recursionPoints [(0, [1, 3]), (1, [0]), (2, [2, 3]), (3, [])]
    = some [(0, [1]), (1, [0]), (2, [2]), (3, [])] := by decide

/-- a callee that is not a key: `KeyError` -/
example : recursionPoints [(0, [5])] = none := by decide

end PyTealV.Proofs.C02RecPoints
