/-
  Soundness of the whole-program certificate check `Check.checkCert` (Check/SimR.lean):
  one `closedAt` relation per routine (main from pc 0, every subroutine from the pc of its label)
  and a routine ↦ label map.  If the check accepts, the multi-routine graph machine
  (Comp/ProgGraph.lean) and the AVM on the flat TEAL program have the same terminating outcomes on
  every context and every initial machine state (`simR_sound_forward`, `simR_sound_backward`).
  The simulation relates the two call stacks frame by frame: same `height`, same `proto`, and the
  graph return point is related to `retPc` through the relation of the calling routine.
-/
import PyTealV.Check.ValidateProg
import PyTealV.Proofs.Sim
namespace PyTealV.Check
open PyTealV PyTealV.Avm PyTealV.Comp

/-! ### fuel -/

theorem grunP_succ (cx : Ctx) (Pg : PProg) (n : Nat) (s : GSt) :
    grunP cx Pg (n + 1) s = (match gstepP cx Pg s with | .next s' => grunP cx Pg n s' | .halt o => o) := rfl

theorem grunP_mono (cx : Ctx) (Pg : PProg) : ∀ (n n' : Nat) (s : GSt),
    grunP cx Pg n s ≠ .outOfFuel → n ≤ n' → grunP cx Pg n' s = grunP cx Pg n s := by
  intro n
  induction n with
  | zero => intro n' s h _; exact absurd rfl h
  | succ n ih =>
    intro n' s h hle
    cases n' with
    | zero => omega
    | succ n' =>
      rw [grunP_succ] at h ⊢
      rw [grunP_succ]
      split
      · rename_i s' hs
        rw [hs] at h
        exact ih n' s' h (by omega)
      · rfl

/-! ### the per-pair condition of `closedAt`, in the form of `localOk` -/

def localOkR (eqv : Instr → Instr → Bool) (G : Graph) (P : Program) (V : Rel) (gp : GPos) (pc : Nat) : Bool :=
  let F := skipFuel G P
  match gp with
  | .op b i =>
    (match G[b]?, P[pc]? with
     | some blk, some ln =>
       (match blk.ops[i]? with
        | some x =>
          eqv x ln.instr && isMatchable ln.instr &&
          (isTerminalR ln.instr || relHas V (gskip G F b (i + 1)) (pskip P F (pc + 1)))
        | none => false)
     | _, _ => false)
  | .br b =>
    (match G[b]?, P[pc]? with
     | some blk, some ln =>
       (match blk.succ, ln.instr with
        | .cond t f, .bnz l =>
          (match findLabel P l with
           | some tgt => relHas V (gskip G F t 0) (pskip P F tgt) && relHas V (gskip G F f 0) (pskip P F (pc + 1))
           | none => false)
        | .cond t f, .bz l =>
          (match findLabel P l with
           | some tgt => relHas V (gskip G F f 0) (pskip P F tgt) && relHas V (gskip G F t 0) (pskip P F (pc + 1))
           | none => false)
        | _, _ => false)
     | _, _ => false)
  | .fell _ => pc == P.size

theorem demandsR_localOkR {eqv : Instr → Instr → Bool} {G : Graph} {P : Program} {V : Rel} {gp : GPos} {pc : Nat}
    {ds : List (GPos × Nat)} (h : demandsR eqv G P gp pc = some ds) (hds : ∀ d ∈ ds, d ∈ V) :
    localOkR eqv G P V gp pc = true := by
  cases gp with
  | op b i =>
    simp only [demandsR] at h
    split at h
    · rename_i blk ln hb hl
      split at h
      · rename_i x hx
        split at h
        · rename_i hc
          simp only [localOkR, hb, hl, hx, hc, Bool.true_and]
          split at h
          · rename_i ht; simp [ht]
          · generalize gskip G (skipFuel G P) b (i + 1) = g at h ⊢
            generalize pskip P (skipFuel G P) (pc + 1) = q at h ⊢
            cases g <;> cases q <;> simp at h
            subst h
            simp [relHas, hds]
        · cases h
      · cases h
    · cases h
  | br b =>
    simp only [demandsR] at h
    split at h
    · rename_i blk ln hb hl
      split at h
      · rename_i t f l hs hi
        split at h
        · rename_i tgt hfl
          simp only [localOkR, hb, hl, hs, hi, hfl]
          generalize gskip G (skipFuel G P) t 0 = g1 at h ⊢
          generalize pskip P (skipFuel G P) tgt = q1 at h ⊢
          generalize gskip G (skipFuel G P) f 0 = g2 at h ⊢
          generalize pskip P (skipFuel G P) (pc + 1) = q2 at h ⊢
          cases g1 <;> cases q1 <;> cases g2 <;> cases q2 <;> simp [bind, Option.bind, pure] at h
          subst h
          simp [relHas, hds]
        · cases h
      · rename_i t f l hs hi
        split at h
        · rename_i tgt hfl
          simp only [localOkR, hb, hl, hs, hi, hfl]
          generalize gskip G (skipFuel G P) f 0 = g1 at h ⊢
          generalize pskip P (skipFuel G P) tgt = q1 at h ⊢
          generalize gskip G (skipFuel G P) t 0 = g2 at h ⊢
          generalize pskip P (skipFuel G P) (pc + 1) = q2 at h ⊢
          cases g1 <;> cases q1 <;> cases g2 <;> cases q2 <;> simp [bind, Option.bind, pure] at h
          subst h
          simp [relHas, hds]
        · cases h
      · cases h
    · cases h
  | fell b =>
    simp only [demandsR] at h
    simp only [localOkR]
    split at h
    · assumption
    · cases h

theorem closedAt_elim {eqv : Instr → Instr → Bool} {G : Graph} {s : Nat} {P : Program} {p0 : Nat} {V : Rel}
    (h : closedAt eqv G s P p0 V = true) :
    relHas V (gskip G (skipFuel G P) s 0) (pskip P (skipFuel G P) p0) = true ∧
    ∀ gp pc, (gp, pc) ∈ V → localOkR eqv G P V gp pc = true := by
  simp only [closedAt, Bool.and_eq_true, List.all_eq_true] at h
  refine ⟨h.1, fun gp pc hm => ?_⟩
  have := h.2 (gp, pc) hm
  simp only at this
  split at this
  · rename_i ds hds
    exact demandsR_localOkR hds (fun d hd => by simpa using List.all_eq_true.mp this d hd)
  · cases this

/-! ### instruction matching -/

theorem strictEqR_elim {labels : List (String × String)} {x y : Instr} (h : strictEqR labels x y = true) :
    (x = y ∧ ∀ a, x ≠ .callsub a) ∨ (∃ a b, x = .callsub a ∧ y = .callsub b ∧ (a, b) ∈ labels) := by
  cases x
  case callsub a =>
    cases y <;> simp [strictEqR] at h
    case callsub b => exact Or.inr ⟨a, b, rfl, rfl, h⟩
  all_goals
    left
    simp [strictEqR] at h
    exact ⟨h, by intro a; simp⟩

theorem matchable_cases {x : Instr} (h : isMatchable x = true) :
    isSimple x = true ∨ (∃ l, x = .callsub l) ∨ x = .retsub ∨ (∃ a r, x = .proto a r) ∨
    (∃ i, x = .frameDig i) ∨ (∃ i, x = .frameBury i) := by
  cases x <;> simp [isMatchable, isSimple] at h ⊢

theorem isTerminalR_exec (cx : Ctx) (x : Instr) (m m' : MS) (h : isTerminalR x = true) :
    execSimple cx x m ≠ some (.ok m') := by
  cases x <;> simp [isTerminalR] at h
  · simp [execSimple]
  · exact isTerminal_exec cx .ret m m' rfl
  · exact isTerminal_exec cx .err m m' rfl

theorem noFell_elim {V : Rel} {b pc : Nat} (h : noFell V = true) (hm : (GPos.fell b, pc) ∈ V) : False := by
  simp only [noFell, List.all_eq_true] at h
  have := h _ hm
  simp at this

/-! ### the simulation relation -/

section
variable (cx : Ctx) (P : Program) (Pg : PProg) (labels : List (String × String))

/-- every pair of the label map names a certified subroutine -/
def SubsOk : Prop :=
  ∀ a b, (a, b) ∈ labels → ∃ G s p0 V, Pg.subs.lookup a = some (G, s) ∧ findLabel P b = some p0 ∧
    closedAt (strictEqR labels) G s P p0 V = true ∧ noFell V = true

/-- routine `r` has graph `G` and a locally consistent relation `V` -/
def RInfo (r : RId) (G : Graph) (V : Rel) : Prop :=
  Pg.graphOf r = some G ∧ (∀ gp pc, (gp, pc) ∈ V → localOkR (strictEqR labels) G P V gp pc = true) ∧
  (r ≠ none → noFell V = true)

/-- graph point `p` of routine `r` and `pc` normalise to a pair of the routine's relation -/
def RetOk (r : RId) (p : GPt) (pc : Nat) : Prop :=
  ∃ G V, RInfo P Pg labels r G V ∧
    relHas V (gskip G (skipFuel G P) p.b p.i) (pskip P (skipFuel G P) pc) = true

/-- frames correspond: same height, same proto, return points related through the caller -/
def FrameRel (gf : GFrame) (f : Frame) : Prop :=
  gf.height = f.height ∧ gf.proto = f.proto ∧ RetOk P Pg labels gf.ret gf.pt f.retPc

/-- call stacks correspond frame by frame -/
inductive CallsRel : List GFrame → List Frame → Prop
  | nil : CallsRel [] []
  | cons {gf : GFrame} {f : Frame} {gcs : List GFrame} {cs : List Frame} :
      FrameRel P Pg labels gf f → CallsRel gcs cs → CallsRel (gf :: gcs) (f :: cs)

/-- relation right after a visible step (before the silent steps) -/
def PreSim (gs : GSt) (st : St) : Prop :=
  gs.ms = st.ms ∧ CallsRel P Pg labels gs.calls st.calls ∧ RetOk P Pg labels gs.r gs.p st.pc

/-- the simulation relation: at a pair of the current routine's relation, same machine state,
    call stacks related frame by frame -/
def SimAt (gs : GSt) (st : St) : Prop :=
  gs.ms = st.ms ∧ CallsRel P Pg labels gs.calls st.calls ∧
  ∃ G V gp, RInfo P Pg labels gs.r G V ∧ (gp, st.pc) ∈ V ∧ GAt G gp gs.p

def StepRel : PStep → StepR → Prop
  | .halt o, .halt o' => o = o'
  | .next gs, .next st => PreSim P Pg labels gs st
  | _, _ => False

theorem StepRel.mk_next {g : PStep} {s : StepR} (gs : GSt) (st : St) (hg : g = .next gs) (hs : s = .next st)
    (h : PreSim P Pg labels gs st) : StepRel P Pg labels g s := by
  subst hg hs; exact h

theorem StepRel.mk_halt {g : PStep} {s : StepR} (o : Outcome) (hg : g = .halt o) (hs : s = .halt o) :
    StepRel P Pg labels g s := by
  subst hg hs; rfl

/-! ### silent steps of the graph machine -/

theorem gskip_silP (G : Graph) (r : RId) (hG : Pg.graphOf r = some G) :
    ∀ (f b i : Nat) (gp : GPos), gskip G f b i = some gp →
    ∃ p k, GAt G gp p ∧ ∀ (c : List GFrame) (m : MS) (n : Nat),
      grunP cx Pg (n + k) ⟨r, ⟨b, i⟩, c, m⟩ = grunP cx Pg n ⟨r, p, c, m⟩ := by
  intro f
  induction f with
  | zero => intro b i gp h; simp [gskip] at h
  | succ f ih =>
    intro b i gp h
    unfold gskip at h
    split at h
    · cases h
    · rename_i blk hb
      split at h
      · cases h
        exact ⟨⟨b, i⟩, 0, rfl, fun _ _ _ => rfl⟩
      · rename_i hlt
        have hnone : blk.ops[i]? = none := by
          rw [List.getElem?_eq_none_iff]; omega
        split at h
        · rename_i c' hs
          obtain ⟨p, k, hat, hk⟩ := ih _ _ _ h
          refine ⟨p, k + 1, hat, fun c m n => ?_⟩
          have hst : gstepP cx Pg ⟨r, ⟨b, i⟩, c, m⟩ = .next ⟨r, ⟨c', 0⟩, c, m⟩ := by
            simp [gstepP, hG, hb, hnone, hs]
          rw [← Nat.add_assoc, grunP_succ, hst]
          exact hk c m n
        · cases h
          exact ⟨⟨b, i⟩, 0, ⟨rfl, blk, hb, hnone⟩, fun _ _ _ => rfl⟩
        · rename_i hs
          cases h
          exact ⟨⟨b, i⟩, 0, ⟨rfl, blk, hb, hnone, hs⟩, fun _ _ _ => rfl⟩

/-- after a visible step both sides reach a pair of the relation by silent steps -/
theorem presim_sil (gs : GSt) (st : St) (h : PreSim P Pg labels gs st) :
    ∃ gs' st' kg kp, SimAt P Pg labels gs' st' ∧
      (∀ n, grunP cx Pg (n + kg) gs = grunP cx Pg n gs') ∧
      (∀ n, runFrom cx P (n + kp) st = runFrom cx P n st') := by
  obtain ⟨r, ⟨b, i⟩, gc, gm⟩ := gs
  obtain ⟨pc, c, m⟩ := st
  obtain ⟨hms, hcalls, G, V, hinfo, hrel⟩ := h
  simp only at hms hcalls hinfo hrel
  subst hms
  obtain ⟨gp', pc', hgs, hps, hmem⟩ := relHas_elim V hrel
  obtain ⟨p', kg, hat, hkg⟩ := gskip_silP cx Pg G r hinfo.1 _ _ _ _ hgs
  obtain ⟨kp, hkp⟩ := pskip_sil cx P _ _ _ hps
  exact ⟨⟨r, p', gc, gm⟩, ⟨pc', c, gm⟩, kg, kp, ⟨rfl, hcalls, G, V, gp', hinfo, hmem, hat⟩,
    fun n => hkg gc gm n, fun n => hkp c gm n⟩

/-! ### one visible step -/

set_option linter.unusedSimpArgs false in
theorem one_step (hsub : SubsOk P Pg labels) (gs : GSt) (st : St) (h : SimAt P Pg labels gs st) :
    StepRel P Pg labels (gstepP cx Pg gs) (step cx P st) := by
  obtain ⟨r, p, gc, gm⟩ := gs
  obtain ⟨pc, c, m⟩ := st
  obtain ⟨hms, hcalls, G, V, gp, hinfo, hmem, hat⟩ := h
  simp only at hms hcalls hinfo hmem hat
  subst hms
  obtain ⟨hG, hV, hnf⟩ := hinfo
  have hok := hV gp pc hmem
  cases gp with
  | op b i =>
    simp only [GAt] at hat
    subst hat
    simp only [localOkR] at hok
    split at hok
    · rename_i blk ln hb hl
      split at hok
      · rename_i x hx
        simp only [Bool.and_eq_true, Bool.or_eq_true] at hok
        obtain ⟨⟨heq, hmat⟩, hrest⟩ := hok
        obtain ⟨raw, y⟩ := ln
        simp only at heq hmat hrest
        have hret : isTerminalR y ≠ true → RetOk P Pg labels r ⟨b, i + 1⟩ (pc + 1) := fun hnt =>
          ⟨G, V, ⟨hG, hV, hnf⟩, by
            rcases hrest with ht | hr
            · exact absurd ht hnt
            · exact hr⟩
        rcases strictEqR_elim heq with ⟨hxy, hnc⟩ | ⟨a, lb, hxa, hyb, hab⟩
        · subst hxy
          rcases matchable_cases hmat with hs | ⟨l, hl'⟩ | hr | ⟨a, rr, hp⟩ | ⟨k, hd⟩ | ⟨k, hbury⟩
          · -- straight-line instruction
            obtain ⟨res, hres⟩ := isSimple_exec cx x gm hs
            cases res with
            | ok m' =>
              refine StepRel.mk_next P Pg labels ⟨r, ⟨b, i + 1⟩, gc, m'⟩ ⟨pc + 1, c, m'⟩ ?_ ?_
                ⟨rfl, hcalls, hret (fun ht => isTerminalR_exec cx x gm m' ht hres)⟩
              · simp [gstepP, hG, hb, hx, hres]
              · simp [step, hl, hres]
            | halt o =>
              refine StepRel.mk_halt P Pg labels o ?_ ?_
              · simp [gstepP, hG, hb, hx, hres]
              · simp [step, hl, hres]
          · exact absurd hl' (hnc l)
          · -- retsub
            subst hr
            cases hcalls with
            | nil =>
              refine StepRel.mk_halt P Pg labels (.fail (.frame "retsub with empty call stack")) ?_ ?_
              · simp [gstepP, hG, hb, hx, execSimple]
              · simp [step, hl, execSimple]
            | cons hf htl =>
              rename_i gf f gcs cs
              obtain ⟨gret, gpt, gh, gpr⟩ := gf
              obtain ⟨rpc, fh, fpr⟩ := f
              obtain ⟨hh, hpr, hro⟩ := hf
              simp only at hh hpr hro
              subst hh hpr
              cases gpr with
              | none =>
                refine StepRel.mk_next P Pg labels ⟨gret, gpt, gcs, gm⟩ ⟨rpc, cs, gm⟩ ?_ ?_ ⟨rfl, htl, hro⟩
                · simp [gstepP, hG, hb, hx, execSimple]
                · simp [step, hl, execSimple]
              | some ar =>
                obtain ⟨a, rr⟩ := ar
                by_cases h1 : gm.stack.length < gh + rr
                · refine StepRel.mk_halt P Pg labels (.fail (.frame "retsub: stack below declared returns")) ?_ ?_
                  · simp [gstepP, hG, hb, hx, execSimple, h1]
                  · simp [step, hl, execSimple, h1]
                · by_cases h2 : gh < a
                  · refine StepRel.mk_halt P Pg labels (.fail (.frame "retsub: frame below args")) ?_ ?_
                    · simp [gstepP, hG, hb, hx, execSimple, h1, h2]
                    · simp [step, hl, execSimple, h1, h2]
                  · refine StepRel.mk_next P Pg labels
                      ⟨gret, gpt, gcs, { gm with stack :=
                        (gm.stack.reverse.take (gh - a) ++ (gm.stack.reverse.drop gh).take rr).reverse }⟩
                      ⟨rpc, cs, { gm with stack :=
                        (gm.stack.reverse.take (gh - a) ++ (gm.stack.reverse.drop gh).take rr).reverse }⟩
                      ?_ ?_ ⟨rfl, htl, hro⟩
                    · simp [gstepP, hG, hb, hx, execSimple, h1, h2]
                    · simp [step, hl, execSimple, h1, h2]
          · -- proto
            subst hp
            cases hcalls with
            | nil =>
              refine StepRel.mk_halt P Pg labels (.fail (.frame "proto with empty call stack")) ?_ ?_
              · simp [gstepP, hG, hb, hx, execSimple]
              · simp [step, hl, execSimple]
            | cons hf htl =>
              rename_i gf f gcs cs
              obtain ⟨gret, gpt, gh, gpr⟩ := gf
              obtain ⟨rpc, fh, fpr⟩ := f
              obtain ⟨hh, hpr, hro⟩ := hf
              simp only at hh hpr hro
              subst hh hpr
              by_cases h1 : gpr.isSome = true
              · refine StepRel.mk_halt P Pg labels (.fail (.frame "proto twice")) ?_ ?_
                · simp [gstepP, hG, hb, hx, execSimple, h1]
                · simp [step, hl, execSimple, h1]
              · by_cases h2 : gm.stack.length < a
                · refine StepRel.mk_halt P Pg labels (.fail (.frame "proto: fewer values than args")) ?_ ?_
                  · simp [gstepP, hG, hb, hx, execSimple, h1, h2]
                  · simp [step, hl, execSimple, h1, h2]
                · refine StepRel.mk_next P Pg labels
                    ⟨r, ⟨b, i + 1⟩, { ret := gret, pt := gpt, height := gh, proto := some (a, rr) } :: gcs, gm⟩
                    ⟨pc + 1, { retPc := rpc, height := gh, proto := some (a, rr) } :: cs, gm⟩ ?_ ?_
                    ⟨rfl, .cons ⟨rfl, rfl, hro⟩ htl, hret (by simp [isTerminalR])⟩
                  · simp [gstepP, hG, hb, hx, execSimple, h1, h2]
                  · simp [step, hl, execSimple, h1, h2]
          · -- frame_dig
            subst hd
            have hret' := hret (by simp [isTerminalR])
            cases hcalls with
            | nil =>
              refine StepRel.mk_halt P Pg labels (.fail (.frame "frame_dig with empty call stack")) ?_ ?_
              · simp [gstepP, hG, hb, hx, execSimple]
              · simp [step, hl, execSimple]
            | cons hf htl =>
              rename_i gf f gcs cs
              obtain ⟨gret, gpt, gh, gpr⟩ := gf
              obtain ⟨rpc, fh, fpr⟩ := f
              obtain ⟨hh, hpr, hro⟩ := hf
              simp only at hh hpr hro
              subst hh hpr
              have hcalls' : CallsRel P Pg labels (⟨gret, gpt, gh, gpr⟩ :: gcs) (⟨rpc, gh, gpr⟩ :: cs) :=
                .cons ⟨rfl, rfl, hro⟩ htl
              have hba : belowArgsG ⟨gret, gpt, gh, gpr⟩ k = belowArgs ⟨rpc, gh, gpr⟩ k := rfl
              simp only [gstepP, step, hG, hb, hx, hl, execSimple, hba]
              split
              · rfl
              split
              · rfl
              split
              · rfl
              generalize gm.stack[fromBottom gm.stack ((gh : Int) + k).toNat]? = ov
              cases ov with
              | none => rfl
              | some v =>
                simp only
                generalize pushV gm v = sr
                cases sr with
                | ok m' => exact ⟨rfl, hcalls', hret'⟩
                | halt o => rfl
          · -- frame_bury
            subst hbury
            have hret' := hret (by simp [isTerminalR])
            cases hcalls with
            | nil =>
              refine StepRel.mk_halt P Pg labels (.fail (.frame "frame_bury with empty call stack")) ?_ ?_
              · simp [gstepP, hG, hb, hx, execSimple]
              · simp [step, hl, execSimple]
            | cons hf htl =>
              rename_i gf f gcs cs
              obtain ⟨gret, gpt, gh, gpr⟩ := gf
              obtain ⟨rpc, fh, fpr⟩ := f
              obtain ⟨hh, hpr, hro⟩ := hf
              simp only at hh hpr hro
              subst hh hpr
              have hcalls' : CallsRel P Pg labels (⟨gret, gpt, gh, gpr⟩ :: gcs) (⟨rpc, gh, gpr⟩ :: cs) :=
                .cons ⟨rfl, rfl, hro⟩ htl
              have hba : belowArgsG ⟨gret, gpt, gh, gpr⟩ k = belowArgs ⟨rpc, gh, gpr⟩ k := rfl
              obtain ⟨stack, intc, bytec, world⟩ := gm
              cases stack with
              | nil =>
                refine StepRel.mk_halt P Pg labels (.fail .underflow) ?_ ?_
                · simp [gstepP, hG, hb, hx, execSimple]
                · simp [step, hl, execSimple]
              | cons v rst =>
                simp only [gstepP, step, hG, hb, hx, hl, execSimple, hba]
                split
                · rfl
                split
                · rfl
                split
                · rfl
                exact ⟨rfl, hcalls', hret'⟩
        · -- callsub
          subst hxa hyb
          obtain ⟨G', s', p0, V', hlk, hfl, hcl, hnf'⟩ := hsub a lb hab
          obtain ⟨hentry, hV'⟩ := closedAt_elim hcl
          refine StepRel.mk_next P Pg labels
            ⟨some a, ⟨s', 0⟩, { ret := r, pt := ⟨b, i + 1⟩, height := gm.stack.length } :: gc, gm⟩
            ⟨p0, { retPc := pc + 1, height := gm.stack.length } :: c, gm⟩ ?_ ?_
            ⟨rfl, .cons ⟨rfl, rfl, hret (by simp [isTerminalR])⟩ hcalls,
              G', V', ⟨by simp [PProg.graphOf, hlk], hV', fun _ => hnf'⟩, hentry⟩
          · simp [gstepP, hG, hb, hx, execSimple, hlk]
          · simp [step, hl, execSimple, jump, hfl]
      · cases hok
    · cases hok
  | br b =>
    obtain ⟨hpb, blk', hb', hnone⟩ := hat
    obtain ⟨pb, pi⟩ := p
    simp only at hpb hnone
    subst hpb
    simp only [localOkR] at hok
    split at hok
    · rename_i blk ln hb hl
      rw [hb'] at hb
      cases hb
      split at hok
      · -- bnz
        rename_i t f l hs hi
        split at hok
        · rename_i tgt hfl
          simp only [Bool.and_eq_true] at hok
          obtain ⟨hrt, hrf⟩ := hok
          obtain ⟨stack, intc, bytec, world⟩ := gm
          match stack with
          | [] =>
            refine StepRel.mk_halt P Pg labels (.fail .underflow) ?_ ?_
            · simp [gstepP, hG, hb', hnone, hs]
            · simp [step, hl, hi, execSimple]
          | .b bs :: rst =>
            refine StepRel.mk_halt P Pg labels (.fail (.typeErr "branch on bytes")) ?_ ?_
            · simp [gstepP, hG, hb', hnone, hs]
            · simp [step, hl, hi, execSimple]
          | .u 0 :: rst =>
            refine StepRel.mk_next P Pg labels ⟨r, ⟨f, 0⟩, gc, ⟨rst, intc, bytec, world⟩⟩
              ⟨pc + 1, c, ⟨rst, intc, bytec, world⟩⟩ ?_ ?_ ⟨rfl, hcalls, G, V, ⟨hG, hV, hnf⟩, hrf⟩
            · simp [gstepP, hG, hb', hnone, hs]
            · simp [step, hl, hi, execSimple, jump, hfl]
          | .u (k + 1) :: rst =>
            refine StepRel.mk_next P Pg labels ⟨r, ⟨t, 0⟩, gc, ⟨rst, intc, bytec, world⟩⟩
              ⟨tgt, c, ⟨rst, intc, bytec, world⟩⟩ ?_ ?_ ⟨rfl, hcalls, G, V, ⟨hG, hV, hnf⟩, hrt⟩
            · simp [gstepP, hG, hb', hnone, hs]
            · simp [step, hl, hi, execSimple, jump, hfl]
        · cases hok
      · -- bz
        rename_i t f l hs hi
        split at hok
        · rename_i tgt hfl
          simp only [Bool.and_eq_true] at hok
          obtain ⟨hrf, hrt⟩ := hok
          obtain ⟨stack, intc, bytec, world⟩ := gm
          match stack with
          | [] =>
            refine StepRel.mk_halt P Pg labels (.fail .underflow) ?_ ?_
            · simp [gstepP, hG, hb', hnone, hs]
            · simp [step, hl, hi, execSimple]
          | .b bs :: rst =>
            refine StepRel.mk_halt P Pg labels (.fail (.typeErr "branch on bytes")) ?_ ?_
            · simp [gstepP, hG, hb', hnone, hs]
            · simp [step, hl, hi, execSimple]
          | .u 0 :: rst =>
            refine StepRel.mk_next P Pg labels ⟨r, ⟨f, 0⟩, gc, ⟨rst, intc, bytec, world⟩⟩
              ⟨tgt, c, ⟨rst, intc, bytec, world⟩⟩ ?_ ?_ ⟨rfl, hcalls, G, V, ⟨hG, hV, hnf⟩, hrf⟩
            · simp [gstepP, hG, hb', hnone, hs]
            · simp [step, hl, hi, execSimple, jump, hfl]
          | .u (k + 1) :: rst =>
            refine StepRel.mk_next P Pg labels ⟨r, ⟨t, 0⟩, gc, ⟨rst, intc, bytec, world⟩⟩
              ⟨pc + 1, c, ⟨rst, intc, bytec, world⟩⟩ ?_ ?_ ⟨rfl, hcalls, G, V, ⟨hG, hV, hnf⟩, hrt⟩
            · simp [gstepP, hG, hb', hnone, hs]
            · simp [step, hl, hi, execSimple, jump, hfl]
        · cases hok
      · cases hok
    · cases hok
  | fell b =>
    obtain ⟨hpb, blk, hb, hnone, hs⟩ := hat
    obtain ⟨pb, pi⟩ := p
    simp only at hpb hnone
    subst hpb
    simp only [localOkR, beq_iff_eq] at hok
    subst hok
    cases r with
    | none =>
      refine StepRel.mk_halt P Pg labels (finish gm) ?_ ?_
      · simp [gstepP, hG, hb, hnone, hs]
      · simp [step]
    | some a => exact (noFell_elim (hnf (by simp)) hmem).elim

/-! ### induction on the fuel of the terminating side -/

theorem fwdP (hsub : SubsOk P Pg labels) :
    ∀ (n : Nat) (gs : GSt) (st : St), SimAt P Pg labels gs st → grunP cx Pg n gs ≠ .outOfFuel →
      ∃ n', runFrom cx P n' st = grunP cx Pg n gs := by
  intro n
  induction n using Nat.strongRecOn with
  | _ n ih =>
    intro gs st hsim hne
    have hstep := one_step cx P Pg labels hsub gs st hsim
    cases n with
    | zero => exact absurd rfl hne
    | succ n =>
      rw [grunP_succ] at hne ⊢
      match hg : gstepP cx Pg gs, hp : step cx P st with
      | .halt o, .halt o' =>
        rw [hg, hp] at hstep
        have : o = o' := hstep
        subst this
        exact ⟨1, by rw [runFrom_succ, hp]⟩
      | .halt o, .next st1 => rw [hg, hp] at hstep; exact hstep.elim
      | .next gs1, .halt o => rw [hg, hp] at hstep; exact hstep.elim
      | .next gs1, .next st1 =>
        rw [hg, hp] at hstep
        rw [hg] at hne
        simp only at hne ⊢
        obtain ⟨gs2, st2, kg, kp, hsim2, hkg, hkp⟩ := presim_sil cx P Pg labels gs1 st1 hstep
        obtain ⟨n0, hn0, he⟩ := fuel_split (fun N => grunP cx Pg N gs1) (fun N => grunP cx Pg N gs2) kg n
          (fun a b => grunP_mono cx Pg a b gs1) (fun a => hkg a) rfl hne
        have hne' : grunP cx Pg n0 gs2 ≠ .outOfFuel := by rw [he]; exact hne
        obtain ⟨n', hn'⟩ := ih n0 (by omega) gs2 st2 hsim2 hne'
        refine ⟨n' + kp + 1, ?_⟩
        rw [runFrom_succ, hp]
        simp only
        rw [hkp n', hn', he]

theorem bwdP (hsub : SubsOk P Pg labels) :
    ∀ (n : Nat) (gs : GSt) (st : St), SimAt P Pg labels gs st → runFrom cx P n st ≠ .outOfFuel →
      ∃ n', grunP cx Pg n' gs = runFrom cx P n st := by
  intro n
  induction n using Nat.strongRecOn with
  | _ n ih =>
    intro gs st hsim hne
    have hstep := one_step cx P Pg labels hsub gs st hsim
    cases n with
    | zero => exact absurd rfl hne
    | succ n =>
      rw [runFrom_succ] at hne ⊢
      match hg : gstepP cx Pg gs, hp : step cx P st with
      | .halt o, .halt o' =>
        rw [hg, hp] at hstep
        have : o = o' := hstep
        subst this
        exact ⟨1, by rw [grunP_succ, hg]⟩
      | .halt o, .next st1 => rw [hg, hp] at hstep; exact hstep.elim
      | .next gs1, .halt o => rw [hg, hp] at hstep; exact hstep.elim
      | .next gs1, .next st1 =>
        rw [hg, hp] at hstep
        rw [hp] at hne
        simp only at hne ⊢
        obtain ⟨gs2, st2, kg, kp, hsim2, hkg, hkp⟩ := presim_sil cx P Pg labels gs1 st1 hstep
        obtain ⟨n0, hn0, he⟩ := fuel_split (fun N => runFrom cx P N st1) (fun N => runFrom cx P N st2) kp n
          (fun a b => runFrom_mono cx P a b st1) (fun a => hkp a) rfl hne
        have hne' : runFrom cx P n0 st2 ≠ .outOfFuel := by rw [he]; exact hne
        obtain ⟨n', hn'⟩ := ih n0 (by omega) gs2 st2 hsim2 hne'
        refine ⟨n' + kg + 1, ?_⟩
        rw [grunP_succ, hg]
        simp only
        rw [hkg n', hn', he]

/-! ### soundness from the explicit hypotheses -/

/-- the initial states are related (before the silent steps) -/
theorem init_presim {Vm : Rel} (hmain : closedAt (strictEqR labels) Pg.main Pg.start P 0 Vm = true) (m : MS) :
    PreSim P Pg labels (Pg.init m) { pc := 0, calls := [], ms := m } := by
  obtain ⟨hentry, hV⟩ := closedAt_elim hmain
  exact ⟨rfl, .nil, Pg.main, Vm, ⟨rfl, hV, fun h => absurd rfl h⟩, hentry⟩

/-- Whole-program soundness, forward: the main relation `Vm` is closed from pc 0, and every pair
    `(a, b)` of the label map names a subroutine graph `a` of `Pg` whose relation is closed from
    the pc of the real label `b` and never reaches the end of the subroutine graph.  Then every
    terminating run of the graph machine is matched by the AVM on `P`. -/
theorem simR_core_forward {Vm : Rel}
    (hmain : closedAt (strictEqR labels) Pg.main Pg.start P 0 Vm = true) (hsub : SubsOk P Pg labels)
    (m : MS) (n : Nat) (o : Outcome) (hrun : runP cx Pg n m = o) (hne : o ≠ .outOfFuel) :
    ∃ n', runFrom cx P n' { pc := 0, calls := [], ms := m } = o := by
  obtain ⟨gs, st, kg, kp, hsim, hkg, hkp⟩ := presim_sil cx P Pg labels _ _ (init_presim P Pg labels hmain m)
  have hrun' : grunP cx Pg n (Pg.init m) = o := hrun
  obtain ⟨n0, hn0, he⟩ := fuel_split (fun N => grunP cx Pg N (Pg.init m)) (fun N => grunP cx Pg N gs) kg n
    (fun a b => grunP_mono cx Pg a b _) (fun a => hkg a) rfl (by rw [hrun']; exact hne)
  obtain ⟨n', hn'⟩ := fwdP cx P Pg labels hsub n0 gs st hsim (by rw [he, hrun']; exact hne)
  exact ⟨n' + kp, by rw [hkp, hn', he, hrun']⟩

theorem simR_core_backward {Vm : Rel}
    (hmain : closedAt (strictEqR labels) Pg.main Pg.start P 0 Vm = true) (hsub : SubsOk P Pg labels)
    (m : MS) (n : Nat) (o : Outcome)
    (hrun : runFrom cx P n { pc := 0, calls := [], ms := m } = o) (hne : o ≠ .outOfFuel) :
    ∃ n', runP cx Pg n' m = o := by
  obtain ⟨gs, st, kg, kp, hsim, hkg, hkp⟩ := presim_sil cx P Pg labels _ _ (init_presim P Pg labels hmain m)
  obtain ⟨n0, hn0, he⟩ := fuel_split (fun N => runFrom cx P N ⟨0, [], m⟩) (fun N => runFrom cx P N st) kp n
    (fun a b => runFrom_mono cx P a b _) (fun a => hkp a) rfl (by rw [hrun]; exact hne)
  obtain ⟨n', hn'⟩ := bwdP cx P Pg labels hsub n0 gs st hsim (by rw [he, hrun]; exact hne)
  refine ⟨n' + kg, ?_⟩
  show grunP cx Pg (n' + kg) (Pg.init m) = o
  rw [hkg, hn', he, hrun]

end

/-! ### the packaged certificate check is sound -/

theorem lookup_map_subs (subs : List RoutineCert) (a : String) :
    (subs.map (fun r => (r.ml, r.G, r.start))).lookup a =
      (subs.find? (fun r => r.ml == a)).map (fun r => (r.G, r.start)) := by
  induction subs with
  | nil => rfl
  | cons r rs ih =>
    simp only [List.map_cons, List.lookup_cons, List.find?_cons]
    by_cases h : r.ml = a
    · simp [h]
    · have h1 : (a == r.ml) = false := by
        simp only [beq_eq_false_iff_ne, ne_eq]
        exact fun h' => h h'.symm
      have h2 : (r.ml == a) = false := by simpa using h
      simp only [h1, h2, ih]

/-- `checkCert` implies the hypotheses of `simR_core_forward/backward` for the program `c.prog` -/
theorem checkCert_elim {P : Program} {c : ProgCert} (h : checkCert P c = true) :
    closedAt (strictEqR c.labels) c.prog.main c.prog.start P 0 c.Vm = true ∧ SubsOk P c.prog c.labels := by
  simp only [checkCert, Bool.and_eq_true, List.all_eq_true] at h
  obtain ⟨⟨hm, hs⟩, hl⟩ := h
  refine ⟨hm, fun a b hab => ?_⟩
  have := hl (a, b) hab
  simp only at this
  split at this
  · rename_i r hr
    have hr' := hs r (List.mem_of_find?_eq_some hr)
    simp only [beq_iff_eq] at hr' this
    refine ⟨r.G, r.start, r.p0, r.V, ?_, ?_, hr'.1.2, hr'.2⟩
    · simp [ProgCert.prog, lookup_map_subs, hr]
    · rw [← this]; exact hr'.1.1
  · cases this

/-- **Soundness of the whole-program certificate, forward.**  If `checkCert` accepts the
    certificate `c` against the TEAL program `P`, every terminating run of the multi-routine graph
    machine on `c.prog` (main graph + subroutine graphs of the certificate) is matched by the AVM
    running `P` from pc 0 with an empty call stack: same outcome, on every context and every
    initial machine state. -/
theorem simR_sound_forward (P : Program) (c : ProgCert) (h : checkCert P c = true)
    (cx : Ctx) (m : MS) (n : Nat) (o : Outcome)
    (hrun : runP cx c.prog n m = o) (hne : o ≠ .outOfFuel) :
    ∃ n', runFrom cx P n' { pc := 0, calls := [], ms := m } = o :=
  simR_core_forward cx P c.prog c.labels (checkCert_elim h).1 (checkCert_elim h).2 m n o hrun hne

/-- **Soundness of the whole-program certificate, backward.**  Every terminating run of the AVM
    on `P` is matched by the graph machine on `c.prog`. -/
theorem simR_sound_backward (P : Program) (c : ProgCert) (h : checkCert P c = true)
    (cx : Ctx) (m : MS) (n : Nat) (o : Outcome)
    (hrun : runFrom cx P n { pc := 0, calls := [], ms := m } = o) (hne : o ≠ .outOfFuel) :
    ∃ n', runP cx c.prog n' m = o :=
  simR_core_backward cx P c.prog c.labels (checkCert_elim h).1 (checkCert_elim h).2 m n o hrun hne

/-! ### non-vacuity: a program with one subroutine (frame-pointer convention) and one call -/

namespace SimRExample

/-- main: `int 5 ; callsub @0 ; return` -/
def Gm : Graph := #[{ ops := [.pushInt 5, .callsub "@0", .ret], succ := .none }]

/-- subroutine `@0` (one by-value argument, one local, one result):
    `proto 1 1 ; int 0 ; frame_dig -1 ; int 1 ; + ; frame_bury 0 ; retsub`, in two blocks -/
def G0 : Graph := #[
  { ops := [.proto 1 1, .pushInt 0, .frameDig (-1), .pushInt 1], succ := .next 1 },
  { ops := [.prim "+" [], .frameBury 0, .retsub], succ := .none }]

def P : Program := #[
  ⟨⟨"int", ["5"]⟩, .pushInt 5⟩,
  ⟨⟨"callsub", ["inc_0"]⟩, .callsub "inc_0"⟩,
  ⟨⟨"return", []⟩, .ret⟩,
  ⟨⟨"inc_0:", []⟩, .label "inc_0"⟩,
  ⟨⟨"proto", ["1", "1"]⟩, .proto 1 1⟩,
  ⟨⟨"int", ["0"]⟩, .pushInt 0⟩,
  ⟨⟨"frame_dig", ["-1"]⟩, .frameDig (-1)⟩,
  ⟨⟨"int", ["1"]⟩, .pushInt 1⟩,
  ⟨⟨"+", []⟩, .prim "+" []⟩,
  ⟨⟨"frame_bury", ["0"]⟩, .frameBury 0⟩,
  ⟨⟨"retsub", []⟩, .retsub⟩]

def cert : ProgCert :=
  { Gm := Gm, sm := 0, Vm := [(.op 0 0, 0), (.op 0 1, 1), (.op 0 2, 2)],
    labels := [("@0", "inc_0")],
    subs := [{ ml := "@0", rl := "inc_0", G := G0, start := 0, p0 := 3,
               V := [(.op 0 0, 4), (.op 0 1, 5), (.op 0 2, 6), (.op 0 3, 7),
                     (.op 1 0, 8), (.op 1 1, 9), (.op 1 2, 10)] }] }

theorem cert_ok : checkCert P cert = true := by decide +kernel

/-- the side conditions bite: a certificate without the subroutine, or with the wrong entry pc,
    is rejected -/
example : checkCert P { cert with subs := [] } = false := by decide +kernel
example : checkCert P { cert with subs := cert.subs.map (fun r => { r with p0 := 4 }) } = false := by
  decide +kernel

/-- the graph machine computes `5 + 1` through the call, on every context -/
theorem run_graph (cx : Ctx) : runP cx cert.prog 20 {} = .done (.u 6) {} := by rfl

/-- hence so does the AVM on `P` (through the soundness theorem, without running it) -/
example (cx : Ctx) : ∃ n, runFrom cx P n { pc := 0, calls := [], ms := {} } = .done (.u 6) {} :=
  simR_sound_forward P cert cert_ok cx {} 20 _ (run_graph cx) (by simp)

end SimRExample

/-! ### the multi-routine machine extends `Comp.gstep` / `Comp.grun` conservatively -/

/-- on a main graph made of straight-line instructions the multi-routine machine is `Comp.gstep` -/
theorem gstepP_gstep (cx : Ctx) (Pg : PProg)
    (hs : ∀ (b : Nat) (blk : Block), Pg.main[b]? = some blk → ∀ x ∈ blk.ops, isSimple x = true)
    (p : GPt) (c : List GFrame) (m : MS) :
    gstepP cx Pg ⟨none, p, c, m⟩ =
      (match gstep cx Pg.main p m with
       | .next p' m' => .next ⟨none, p', c, m'⟩
       | .halt o => .halt o
       | .fell m' => .halt (finish m')) := by
  simp only [gstepP, gstep, PProg.graphOf]
  cases hb : Pg.main[p.b]? with
  | none => rfl
  | some blk =>
    simp only
    cases hx : blk.ops[p.i]? with
    | some x =>
      obtain ⟨r, hr⟩ := isSimple_exec cx x m (hs p.b blk hb x (List.mem_of_getElem? hx))
      simp only [hr]
      cases r <;> rfl
    | none =>
      simp only
      cases blk.succ with
      | none => rfl
      | next c' => rfl
      | cond t f =>
        simp only
        obtain ⟨stack, intc, bytec, world⟩ := m
        match stack with
        | [] => rfl
        | .b _ :: _ => rfl
        | .u 0 :: _ => rfl
        | .u (_ + 1) :: _ => rfl

theorem grunP_grunAt (cx : Ctx) (Pg : PProg)
    (hs : ∀ (b : Nat) (blk : Block), Pg.main[b]? = some blk → ∀ x ∈ blk.ops, isSimple x = true) :
    ∀ (n : Nat) (p : GPt) (c : List GFrame) (m : MS),
      grunP cx Pg n ⟨none, p, c, m⟩ = (grunAt cx Pg.main n p m).toOutcome := by
  intro n
  induction n with
  | zero => intro p c m; rfl
  | succ n ih =>
    intro p c m
    rw [grunP_succ, gstepP_gstep cx Pg hs, grunAt_succ]
    cases gstep cx Pg.main p m with
    | next p' m' => exact ih p' c m'
    | halt o => rfl
    | fell m' => rfl

/-- for a call-free main routine the whole-program outcome is the outcome of `Comp.grun`
    (the notion of `sim_sound_forward/backward`) -/
theorem runP_eq_grun (cx : Ctx) (Pg : PProg)
    (hs : ∀ (b : Nat) (blk : Block), Pg.main[b]? = some blk → ∀ x ∈ blk.ops, isSimple x = true) (n : Nat) (m : MS) :
    runP cx Pg n m = (grun cx Pg.main n Pg.start m).toOutcome :=
  grunP_grunAt cx Pg hs n ⟨Pg.start, 0⟩ [] m

/-! ### `validateProg` ends by evaluating `checkCert` -/

theorem validateProgCert_ok_checkCert {version : Nat} {fp : Bool} {p : Src.Prog} {P : Program}
    {c : ProgCert} {v : ValidatedProg} (h : validateProgCert version fp p P = .ok (c, v)) :
    checkCert P c = true := by
  unfold validateProgCert at h
  split at h
  · cases h
  · rename_i c' v' hb
    split at h
    · rename_i hc
      cases h
      exact hc
    · cases h

theorem validateProg_ok_checkCert {version : Nat} {fp : Bool} {p : Src.Prog} {P : Program}
    {v : ValidatedProg} (h : validateProg version fp p P = .ok v) :
    ∃ c, validateProgCert version fp p P = .ok (c, v) ∧ checkCert P c = true := by
  unfold validateProg at h
  cases hc : validateProgCert version fp p P with
  | error e => rw [hc] at h; cases h
  | ok cv =>
    obtain ⟨c, v'⟩ := cv
    rw [hc] at h
    cases h
    exact ⟨c, rfl, validateProgCert_ok_checkCert hc⟩

/-- what `validateProg = .ok` guarantees: the graph machine on the certified program and the AVM
    on the compiled TEAL have the same terminating outcomes -/
theorem validateProg_sound {version : Nat} {fp : Bool} {p : Src.Prog} {P : Program}
    {v : ValidatedProg} (h : validateProg version fp p P = .ok v) :
    ∃ c, validateProgCert version fp p P = .ok (c, v) ∧
      ∀ (cx : Ctx) (m : MS) (o : Outcome), o ≠ .outOfFuel →
        ((∃ n, runP cx c.prog n m = o) ↔ (∃ n, runFrom cx P n { pc := 0, calls := [], ms := m } = o)) := by
  obtain ⟨c, hc, hk⟩ := validateProg_ok_checkCert h
  refine ⟨c, hc, fun cx m o hne => ⟨?_, ?_⟩⟩
  · rintro ⟨n, hn⟩; exact simR_sound_forward P c hk cx m n o hn hne
  · rintro ⟨n, hn⟩; exact simR_sound_backward P c hk cx m n o hn hne

end PyTealV.Check
