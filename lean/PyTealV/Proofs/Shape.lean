/-
  Correctness of the code-generation model (`Comp.gen`, main routine) with respect to the source
  semantics (`Src.eval`): final composition of
    * the semantic half  (`ShapeSem.sound_all`: `Shape` ⇒ the graph machine matches `Src.eval`),
    * the closing lemma  (`ShapeGen.gen_spec`: the graph produced by `gen` satisfies `Shape`).
-/
import PyTealV.Proofs.ShapeSem
import PyTealV.Proofs.ShapeGen
namespace PyTealV.Proofs.Shape
open PyTealV PyTealV.Avm PyTealV.Src PyTealV.Comp PyTealV.Models.Fragment

/-- the run of the whole routine graph ends with outcome `o`, unless the operand stack overflows -/
def OutO (cx : Ctx) (G : Graph) (s : Nat) (m : MS) (o : Outcome) : Prop :=
  ∃ n, (grun cx G n s m).toOutcome = o ∨ (grun cx G n s m).toOutcome = .fail (.logic "stack overflow")

def FailsO (cx : Ctx) (G : Graph) (s : Nat) (m : MS) : Prop :=
  ∃ n f, (grun cx G n s m).toOutcome = .fail f

theorem OutO.of_haltO {cx G s m o} (h : HaltO cx G ⟨s, 0⟩ m o) : OutO cx G s m o := by
  rcases h with ⟨n, h⟩ | ⟨n, h⟩
  · exact ⟨n, .inr (by simp only [grun, h, GOut.toOutcome, ovf])⟩
  · exact ⟨n, .inl (by simp only [grun, h, GOut.toOutcome])⟩

theorem FailsO.of_fails {cx G s m} (h : Fails cx G ⟨s, 0⟩ m) : FailsO cx G s m := by
  obtain ⟨f, n, h⟩ := h
  exact ⟨n, f, by simp only [grun, h, GOut.toOutcome]⟩

theorem OutO.failsO {cx G s m f} (h : OutO cx G s m (.fail f)) : FailsO cx G s m := by
  obtain ⟨n, h | h⟩ := h
  · exact ⟨n, _, h⟩
  · exact ⟨n, _, h⟩

/-- reaching the exit block (no ops, no successor) ends the program with `finish` -/
theorem OutO.of_exit {cx G s m m'} (hexit : G[0]? = some ({} : Block)) (h : ReachO cx G ⟨s, 0⟩ m ⟨0, 0⟩ m') :
    OutO cx G s m (finish m') := by
  rcases h with ⟨n, h⟩ | ⟨n, h⟩
  · exact ⟨n, .inr (by simp only [grun, h, GOut.toOutcome, ovf])⟩
  · refine ⟨n + 1, .inl ?_⟩
    have : grunAt cx G 1 ⟨0, 0⟩ m' = .fell m' := by
      simp only [grunAt, gstep, hexit, List.getElem?_nil]
    simp only [grun, h, this, GOut.toOutcome]

/-- a returned value: a `uint64` ends the program successfully, bytes are a failure -/
def OutV (cx : Ctx) (G : Graph) (s : Nat) (m : MS) (v : Val) (w' : World) : Prop :=
  match v with
  | .u _ => OutO cx G s m (.done v w')
  | .b _ => FailsO cx G s m

theorem OutV.of_haltO {cx G s m v w'} (h : HaltO cx G ⟨s, 0⟩ m (retOut v w')) : OutV cx G s m v w' := by
  cases v with
  | u n => exact OutO.of_haltO h
  | b x => exact (OutO.of_haltO h).failsO

/-- what the routine graph does for each result of the source evaluation of the main tree -/
def FinalGoal (cx : Ctx) (G : Graph) (s : Nat) (m : MS) : Res → World → Prop
  | .vals [v], w' => OutV cx G s m v w'
  | .vals _, _ => FailsO cx G s m
  | .ret (some v), w' => OutV cx G s m v w'
  | .exit v, w' => OutV cx G s m v w'
  | .ret none, _ => False
  | .brk, _ => False
  | .cont, _ => False
  | .fail f, _ => isUnm f ∨ FailsO cx G s m

theorem main_graph {cfg : GenCfg} (hsub : cfg.inSub = false) (hmark : cfg.markIndex = false) {e : Expr}
    (hf : inFragment e = true) {G : Graph} {s : Nat} (hg : genMain cfg e = .ok (G, s))
    (env : Env) (w0 : World) (fuel : Nat) {r : Res} {w' : World} (hev : eval env fuel e w0 = (r, w')) :
    FinalGoal env.cx G s { world := w0 } r w' := by
  -- unpack the generator run
  unfold genMain at hg
  simp only [StateT.run] at hg
  split at hg
  · rename_i s' g' hrun
    cases hg
    obtain ⟨exitB, g2, h1, h2⟩ := bind_ok hrun
    cases emit_ok h1
    have spec := gen_spec (cfg := cfg) _ _ _ _ _ _ hsub h2
    have hexit : G[0]? = some ({} : Block) := by
      rw [spec.1.get (by simp) (fun f => f.elim)]
      simp
    have hshape := spec.2 G noP (fun i f => f.elim) (.refl _ _)
    have all := sound_all (G := G) (cfg := cfg) (env := env) hsub hmark fuel
    simp only [Array.size_empty] at hshape
    simp only [inFragment, Bool.or_eq_true] at hf
    by_cases hret : hasReturn e = true
    · -- the tree is compiled as it is; normal completion falls out of the graph
      simp only [hret, if_true] at hshape
      have key : ∀ n, wt false n e = true → n ≤ 1 → FinalGoal env.cx G s { world := w0 } r w' := by
        intro n hw hn
        have g1 := all.ev _ _ _ _ _ _ [] [] [] _ _ _ hshape hw hev
        cases r with
        | vals vs =>
          obtain ⟨hlen, hr⟩ := g1
          have hfin := OutO.of_exit hexit hr
          simp only [List.append_nil] at hfin
          match vs, n, hlen, hn with
          | [], _, _, _ => exact hfin.failsO
          | [.u m], _, _, _ => exact hfin
          | [.b x], _, _, _ => exact hfin.failsO
          | _ :: _ :: _, n, hlen, hn => simp only [List.length_cons] at hlen; omega
        | brk => obtain ⟨_, l, hl, _⟩ := g1; cases hl
        | cont => obtain ⟨_, l, hl, _⟩ := g1; cases hl
        | ret v =>
          cases v with
          | none => exact g1
          | some v => exact OutV.of_haltO g1
        | exit v => exact OutV.of_haltO g1
        | fail f => exact g1.imp id FailsO.of_fails
      rcases hf with hf | hf
      · exact key 0 hf (by omega)
      · exact key 1 hf (by omega)
    · -- the tree is wrapped into `Return(ast)`
      simp only [hret] at hshape
      cases hshape with
      | ret hb he =>
        rw [hsub] at hb
        have key : ∀ n, wt false n e = true → n ≤ 1 → FinalGoal env.cx G s { world := w0 } r w' := by
          intro n hw hn
          have g1 := all.ev _ _ _ _ _ _ [] [] [] _ _ _ he hw hev
          cases r with
          | vals vs =>
            obtain ⟨hlen, hr⟩ := g1
            simp only [List.append_nil] at hr
            match vs, n, hlen, hn with
            | [], _, _, _ =>
              refine FailsO.of_fails (hr.fails ⟨.underflow, block_halt hb ?_⟩)
              rfl
            | [v], _, _, _ => exact OutV.of_haltO (hr.haltO (.inr (ret_block hb)))
            | _ :: _ :: _, n, hlen, hn => simp only [List.length_cons] at hlen; omega
          | brk => obtain ⟨_, l, hl, _⟩ := g1; cases hl
          | cont => obtain ⟨_, l, hl, _⟩ := g1; cases hl
          | ret v =>
            cases v with
            | none => exact g1
            | some v => exact OutV.of_haltO g1
          | exit v => exact OutV.of_haltO g1
          | fail f => exact g1.imp id FailsO.of_fails
        rcases hf with hf | hf
        · exact key 0 hf (by omega)
        · exact key 1 hf (by omega)
  · cases hg

/-- **Correctness of code generation (main routine).**  For every tree of the fragment, every
    generator configuration of the main routine, every context and initial world: when the
    source evaluation terminates, the routine graph produced by the model terminates with the
    same verdict, the same return value and the same final world — the only permitted deviation
    is the AVM's 1000-deep operand-stack limit, which the source semantics does not have; when
    the source evaluation fails, the graph fails.

    Hypotheses beyond the requested statement:
    * `hmark : cfg.markIndex = false` — with `markIndex` the generator emits the pseudo opcode
      `__index`, which only slot discovery looks at and which does not execute
      (`gen_markIndex_counterexample` below). -/
theorem gen_correct (cfg : GenCfg) (hsub : cfg.inSub = false) (hmark : cfg.markIndex = false)
    (e : Expr) (hf : inFragment e = true)
    (G : Graph) (s : Nat) (hg : genMain cfg e = .ok (G, s))
    (cx : Ctx) (w0 : World) (fuel : Nat) :
    match Src.runProg cx { subs := [], main := e } fuel w0 with
    | .done v w => ∃ n, (grun cx G n s { world := w0 }).toOutcome = .done v w
                    ∨ (grun cx G n s { world := w0 }).toOutcome = .fail (.logic "stack overflow")
    | .fail (.unmodelled _) => True
    | .fail _ => ∃ n f, (grun cx G n s { world := w0 }).toOutcome = .fail f
    | .outOfFuel => True := by
  rcases hev : eval { cx := cx, prog := { subs := [], main := e } } fuel e w0 with ⟨r, w'⟩
  have key := main_graph hsub hmark hf hg { cx := cx, prog := { subs := [], main := e } } w0 fuel hev
  cases r with
  | vals vs =>
    simp only [Src.runProg, hev]
    match vs with
    | [] => exact key
    | [.u n] => exact key
    | [.b x] => exact key
    | _ :: _ :: _ => exact key
  | brk => exact key.elim
  | cont => exact key.elim
  | ret v =>
    simp only [Src.runProg, hev]
    cases v with
    | none => exact key.elim
    | some v => cases v <;> exact key
  | exit v =>
    simp only [Src.runProg, hev]
    cases v <;> exact key
  | fail f =>
    cases f with
    | unmodelled msg =>
      have hrp : Src.runProg cx { subs := [], main := e } fuel w0 = .outOfFuel ∨
          Src.runProg cx { subs := [], main := e } fuel w0 = .fail (.unmodelled msg) := by
        simp only [Src.runProg, hev]
        split <;> simp_all
        rename_i h1 h2
        exact h1 _ h2.1.symm
      rcases hrp with h | h <;> rw [h] <;> trivial
    | _ =>
      simp only [Src.runProg, hev]
      rcases key with ⟨msg, hm⟩ | key
      · cases hm
      · exact key

/-! ### Non-vacuity: a non-trivial tree satisfies all hypotheses -/

/-- `x := 1 + 2; while x < 10 { x := x + 1; if x == 7 break }; return x` -/
def exampleTree : Expr :=
  .seq [.store 0 (.prim "+" [] [.int 1, .int 2]),
        .while_ (.prim "<" [] [.load 0, .int 10])
          (.seq [.store 0 (.prim "+" [] [.load 0, .int 1]),
                 .ite (.prim "==" [] [.load 0, .int 7]) .brk none]),
        .ret (some (.load 0))]

example : inFragment exampleTree = true := by decide
example : ∃ G s, genMain {} exampleTree = .ok (G, s) := ⟨_, _, rfl⟩
example : Src.runProg {} { subs := [], main := exampleTree } 100 = .done (.u 7) { scratch := [(0, .u 7)] } := rfl
example (G : Graph) (s : Nat) (hg : genMain {} exampleTree = .ok (G, s)) :
    ∃ n, (grun {} G n s {}).toOutcome = .done (.u 7) { scratch := [(0, .u 7)] }
      ∨ (grun {} G n s {}).toOutcome = .fail (.logic "stack overflow") :=
  gen_correct {} rfl rfl exampleTree (by decide) G s hg {} {} 100

/-! ### Why the hypotheses are needed: concrete trees outside the fragment for which the
    statement of `gen_correct` is false (each checked by evaluation). -/

/-- `markIndex` (slot discovery mode) emits the non-executable pseudo opcode `__index`. -/
theorem gen_markIndex_counterexample :
    ∃ G s f, genMain { markIndex := true } (.index 5) = .ok (G, s) ∧
      Src.runProg {} { subs := [], main := .index 5 } 10 = .done (.u 5) {} ∧
      (grun {} G 10 s {}).toOutcome = .fail (.unmodelled f) := ⟨_, _, _, rfl, rfl, rfl⟩

/-- slot ids `≥ 256` are abstract cells for the source semantics, but the graph is executed
    before slot assignment and the machine rejects them. -/
theorem gen_slot_counterexample :
    ∃ G s f, genMain {} (.load 300) = .ok (G, s) ∧
      Src.runProg {} { subs := [], main := .load 300 } 10 = .done (.u 0) {} ∧
      (grun {} G 10 s {}).toOutcome = .fail f := ⟨_, _, _, rfl, rfl, rfl⟩

/-- a main tree that yields two values: the source semantics rejects it, `return` on the machine
    only looks at the top of the stack. -/
theorem gen_arity_counterexample :
    ∃ G s f, genMain {} (.prim "mulw" [] [.int 1, .int 2]) = .ok (G, s) ∧
      Src.runProg {} { subs := [], main := .prim "mulw" [] [.int 1, .int 2] } 10 = .fail f ∧
      (grun {} G 10 s {}).toOutcome = .done (.u 2) {} := ⟨_, _, _, rfl, rfl, rfl⟩

/-- an operator with too few operands: the source semantics applies it to its own operands only
    (underflow), the machine finds the operands of the enclosing expression underneath. -/
theorem gen_underflow_counterexample :
    ∃ G s, genMain {} (.seq [.prim "pop" [] [.int 7, .prim "+" [] [.int 1]], .int 1]) = .ok (G, s) ∧
      Src.runProg {} { subs := [], main := .seq [.prim "pop" [] [.int 7, .prim "+" [] [.int 1]], .int 1] } 10
        = .fail .underflow ∧
      (grun {} G 20 s {}).toOutcome = .done (.u 1) {} := ⟨_, _, rfl, rfl, rfl⟩

/-- a discarded value (non-last `seq` element yielding a value) is dropped by the source
    semantics but stays on the machine stack, where an ill-typed `store` then finds it. -/
theorem gen_discard_counterexample :
    ∃ G s f w, genMain {} (.seq [.int 5, .store 0 (.seq []), .int 1]) = .ok (G, s) ∧
      Src.runProg {} { subs := [], main := .seq [.int 5, .store 0 (.seq []), .int 1] } 10 = .fail (.typeErr f) ∧
      (grun {} G 20 s {}).toOutcome = .done (.u 1) w := ⟨_, _, _, _, rfl, rfl, rfl⟩

/-- `Continue` in the init *and* in the step part of a `For`: `Src.eval` hands the second
    `.cont` to the enclosing loop (which here terminates), the generated code (as PyTeal's
    `for_.py`) jumps to the step start again and never terminates.  (After 120 steps the graph is
    still running; it is in the cycle `step → Continue → step`.)  This is why `brk/cont` are
    excluded from the init/cond/step parts of loops. -/
def forContTree : Expr :=
  .seq [.while_ (.prim "!" [] [.load 1])
          (.seq [.store 1 (.int 1), .store 0 (.int 1),
                 .for_ .cont (.int 0) (.ite (.load 0) .cont none) (.seq [])]),
        .int 9]

set_option maxRecDepth 20000 in
theorem gen_forContinue_example :
    ∃ G s w, genMain {} forContTree = .ok (G, s) ∧
      Src.runProg {} { subs := [], main := forContTree } 30 = .done (.u 9) w ∧
      (grun {} G 120 s {}).toOutcome = .outOfFuel := ⟨_, _, _, rfl, rfl, rfl⟩

end PyTealV.Proofs.Shape
