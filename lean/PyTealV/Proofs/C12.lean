/-
  C12 — `assembleConstants=True` changes how constants load, not their values.
  Theorems about the model `PyTealV.Models.Constants.createConstantBlocks`, for ALL op lists.
-/
import PyTealV.Proofs.C12Lemmas
import PyTealV.Avm.Syntax
namespace PyTealV.Proofs.C12
open PyTealV PyTealV.Util PyTealV.Models.Constants

/-! ### Structure of the second loop -/

theorem rewriteAll_length (p : Plan) : ∀ (ops : List Comp) (ss : List Site), ss.length = ops.length →
    (rewriteAll p ops ss).length = ops.length
  | [], _, _ => by simp [rewriteAll]
  | _ :: cs, [], h => by simp at h
  | _ :: cs, _ :: ss, h => by
    simp only [rewriteAll, List.length_cons] at h ⊢
    rw [rewriteAll_length p cs ss (by omega)]

theorem classifyAll_length (sha : Bytes → Bytes) : ∀ (ops : List Comp) (ss : List Site),
    classifyAll sha ops = .ok ss → ss.length = ops.length
  | [], ss, h => by simp [classifyAll] at h; subst h; rfl
  | c :: cs, ss, h => by
    unfold classifyAll at h
    split at h
    · cases h
    · split at h
      · cases h
      · rename_i ss' h'
        cases h
        simp [classifyAll_length sha cs ss' h']

/-- position by position: the site is what `classify` says, the output is `rewriteOne` of it -/
theorem body_get (sha : Bytes → Bytes) (p : Plan) : ∀ (ops : List Comp) (ss : List Site),
    classifyAll sha ops = .ok ss → ∀ (i : Nat) (c : Comp), ops[i]? = some c →
    ∃ s, ss[i]? = some s ∧ classify sha c = .ok s ∧ (rewriteAll p ops ss)[i]? = some (rewriteOne p c s)
  | [], _, _, i, c, hc => by simp at hc
  | c0 :: cs, ss, h, i, c, hc => by
    unfold classifyAll at h
    split at h
    · cases h
    · rename_i s0 hs0
      split at h
      · cases h
      · rename_i ss' h'
        cases h
        cases i with
        | zero =>
          simp at hc; subst hc
          exact ⟨s0, by simp, hs0, by simp [rewriteAll]⟩
        | succ j =>
          simp at hc
          obtain ⟨s, h1, h2, h3⟩ := body_get sha p cs ss' h' j c hc
          exact ⟨s, by simpa using h1, h2, by simpa [rewriteAll] using h3⟩

theorem mem_intVals : ∀ {ss : List Site} {i : Nat} {v : IVal}, ss[i]? = some (.int v) → v ∈ intVals ss
  | [], i, v, h => by simp at h
  | s :: r, 0, v, h => by simp at h; subst h; simp [intVals]
  | s :: r, i + 1, v, h => by
    simp at h
    have := mem_intVals h
    cases s <;> simp [intVals, this]

theorem mem_byteVals : ∀ {ss : List Site} {i : Nat} {v : BVal}, ss[i]? = some (.byt v) → v ∈ byteVals ss
  | [], i, v, h => by simp at h
  | s :: r, 0, v, h => by simp at h; subst h; simp [byteVals]
  | s :: r, i + 1, v, h => by
    simp at h
    have := mem_byteVals h
    cases s <;> simp [byteVals, this]

/-! ### Which Python `str` values a byte constant can take -/

theorem map_ok {ε α β : Type} {f : α → β} {x : Except ε α} {v : β} (h : x.map f = .ok v) :
    ∃ y, x = .ok y ∧ v = f y := by
  cases x with
  | error e => simp [Except.map] at h
  | ok y => simp [Except.map] at h; exact ⟨y, rfl, h.symm⟩

theorem extractBytes_wf {args : List Arg} {v : BVal} (h : extractBytes args = .ok v) : BVal.wf v := by
  unfold extractBytes at h
  split at h
  · rename_i s
    simp only at h
    split at h
    · cases h; rename_i ht; exact Or.inl ht
    split at h
    · obtain ⟨y, _, rfl⟩ := map_ok h; trivial
    split at h
    · split at h
      · cases h
      · obtain ⟨y, _, rfl⟩ := map_ok h; trivial
    split at h
    · obtain ⟨y, _, rfl⟩ := map_ok h; trivial
    split at h
    · obtain ⟨y, _, rfl⟩ := map_ok h; trivial
    · cases h
  · cases h

theorem extractAddr_wf {sha : Bytes → Bytes} {args : List Arg} {v : BVal} (h : extractAddr sha args = .ok v) :
    BVal.wf v := by
  unfold extractAddr at h
  split at h
  · rename_i s
    split at h
    · cases h; rename_i ht; exact Or.inl ht
    · unfold decodeAddress at h
      simp only at h
      split at h
      · cases h; rename_i he
        right
        simpa [codes] using he
      split at h
      · cases h
      split at h
      · cases h
      split at h
      · cases h
      · split at h
        · cases h; trivial
        · cases h
  · cases h

theorem extractMethod_wf {sha : Bytes → Bytes} {args : List Arg} {v : BVal} (h : extractMethod sha args = .ok v) :
    BVal.wf v := by
  unfold extractMethod at h
  split at h
  · simp only at h
    split at h
    · cases h
    · split at h
      · cases h; trivial
      · cases h
  · cases h

theorem classify_byt_wf {sha : Bytes → Bytes} {c : Comp} {v : BVal} (h : classify sha c = .ok (.byt v)) :
    BVal.wf v := by
  unfold classify at h
  split at h
  · cases h
  · split at h
    · obtain ⟨y, _, e⟩ := map_ok h; cases e
    split at h
    · obtain ⟨y, hy, e⟩ := map_ok h; cases e; exact extractBytes_wf hy
    split at h
    · obtain ⟨y, hy, e⟩ := map_ok h; cases e; exact extractAddr_wf hy
    split at h
    · obtain ⟨y, hy, e⟩ := map_ok h; cases e; exact extractMethod_wf hy
    · cases h

theorem classify_raw_or_op {sha : Bytes → Bytes} {c : Comp} {s : Site} (h : classify sha c = .ok s) (hs : s ≠ .none) :
    ∃ name args, c = .op name args := by
  cases c with
  | raw t => simp [classify] at h; exact absurd h.symm hs
  | op n a => exact ⟨n, a, rfl⟩

theorem refOf_intRef (k : Nat) (args : List Arg) : refOf (intRef k args) = some (false, k) := by
  unfold intRef
  split
  · subst_vars; simp [refOf]
  split
  · subst_vars; simp [refOf]
  split
  · subst_vars; simp [refOf]
  split
  · subst_vars; simp [refOf]
  · have : ¬ ((k : Int) < 0) := by omega
    simp [refOf, this]

theorem refOf_byteRef (k : Nat) (args : List Arg) : refOf (byteRef k args) = some (true, k) := by
  unfold byteRef
  split
  · subst_vars; simp [refOf]
  split
  · subst_vars; simp [refOf]
  split
  · subst_vars; simp [refOf]
  split
  · subst_vars; simp [refOf]
  · have : ¬ ((k : Int) < 0) := by omega
    simp [refOf, this]

/-! ### Facts about the plan -/

/-- a byte value that occurs at some site and whose frequency is not 1 sits in `byteBlock` at the very index
    `sortedBytes.index` returns (entries with frequency > 1 are a prefix of the descending stable sort) -/
theorem byte_index_in_block (ss : List Site) (v : BVal) (hm : v ∈ byteVals ss)
    (h1 : getCount (mkPlan ss).byteFreqs v ≠ 1) :
    (mkPlan ss).byteBlock[idxOf v (mkPlan ss).sortedBytes]? = some v ∧
    idxOf v (mkPlan ss).sortedBytes < (mkPlan ss).byteBlock.length := by
  have hcnt : getCount (freqs (byteVals ss)) v = (byteVals ss).count v := getCount_freqs _ _
  have hpos : 0 < (byteVals ss).count v := List.count_pos_iff.mpr hm
  have hbf : (mkPlan ss).byteFreqs = freqs (byteVals ss) := rfl
  rw [hbf] at h1
  have hgt : 1 < getCount (freqs (byteVals ss)) v := by omega
  obtain ⟨c, hc⟩ := mem_keys_of_getCount_pos (d := freqs (byteVals ss)) (k := v) (by omega)
  have hkeys : v ∈ keys (sortDesc (freqs (byteVals ss))) :=
    List.mem_map.mpr ⟨(v, c), (mem_sortDesc _ _).mpr hc, rfl⟩
  have hall : ∀ c', (v, c') ∈ sortDesc (freqs (byteVals ss)) → 1 < c' := by
    intro c' h'
    have := getCount_of_mem (nodup_freqs (byteVals ss)) ((mem_sortDesc _ _).mp h')
    omega
  obtain ⟨e1, e2⟩ := idxOf_filter_desc v _ (desc_sortDesc _) hall hkeys
  have hsb : (mkPlan ss).sortedBytes = keys (sortDesc (freqs (byteVals ss))) := rfl
  have hbb : (mkPlan ss).byteBlock = keys ((sortDesc (freqs (byteVals ss))).filter (fun p => p.2 > 1)) := rfl
  rw [hsb, hbb, ← e1]
  exact ⟨idxOf_get e2, idxOf_lt e2⟩

theorem intBlockFrom_sublist : ∀ (l : List (IVal × Nat)) (i : Nat), (intBlockFrom i l).Sublist (keys l)
  | [], _ => by simp [intBlockFrom, keys]
  | (v, c) :: r, i => by
    unfold intBlockFrom
    split
    · exact (intBlockFrom_sublist r (i + 1)).cons_cons v
    · exact (intBlockFrom_sublist r (i + 1)).cons v

theorem mem_intBlockFrom : ∀ (l : List (IVal × Nat)) (i : Nat) (v : IVal), v ∈ intBlockFrom i l →
    ∃ c, 1 < c ∧ (v, c) ∈ l
  | [], _, _, h => by simp [intBlockFrom] at h
  | (v', c') :: r, i, v, h => by
    unfold intBlockFrom at h
    split at h
    · rename_i hc
      rcases List.mem_cons.mp h with e | e
      · subst e; exact ⟨c', hc.1, by simp⟩
      · obtain ⟨c, h1, h2⟩ := mem_intBlockFrom r (i + 1) v e
        exact ⟨c, h1, by simp [h2]⟩
    · obtain ⟨c, h1, h2⟩ := mem_intBlockFrom r (i + 1) v h
      exact ⟨c, h1, by simp [h2]⟩

/-- a constant-load site whose output refers to entry `k` of the int (`isB = false`) or byte block -/
def usesAt (sha : Bytes → Bytes) (isB : Bool) (k : Nat) (cd : Comp × Comp) : Bool :=
  (match classify sha cd.1 with | .ok .none => false | .ok _ => true | .error _ => false) &&
  decide (refOf cd.2 = some (isB, k))

theorem count_int_sites (sha : Bytes → Bytes) (p : Plan) (v : IVal) (hv : v ∈ p.intBlock) :
    ∀ (ops : List Comp) (ss : List Site), classifyAll sha ops = .ok ss →
    (intVals ss).count v ≤ ((ops.zip (rewriteAll p ops ss)).countP (usesAt sha false (idxOf v p.intBlock)))
  | [], ss, h => by simp [classifyAll] at h; subst h; simp [intVals]
  | c0 :: cs, ss, h => by
    unfold classifyAll at h
    split at h
    · cases h
    · rename_i s0 hs0
      split at h
      · cases h
      · rename_i ss' h'
        cases h
        have ih := count_int_sites sha p v hv cs ss' h'
        simp only [rewriteAll, List.zip_cons_cons, List.countP_cons]
        by_cases e : s0 = .int v
        · subst e
          obtain ⟨name, args, rfl⟩ := classify_raw_or_op hs0 (by simp)
          have : usesAt sha false (idxOf v p.intBlock) (Comp.op name args, rewriteOne p (Comp.op name args) (Site.int v)) = true := by
            simp [usesAt, hs0, rewriteOne, hv, refOf_intRef]
          simp only [intVals, List.count_cons_self, this, if_true]
          omega
        · have : (intVals (s0 :: ss')).count v = (intVals ss').count v := by
            cases s0 with
            | none => simp [intVals]
            | byt b => simp [intVals]
            | int v' =>
              have : v' ≠ v := fun e' => e (by rw [e'])
              simp [intVals, this]
          rw [this]; omega

theorem count_byte_sites (sha : Bytes → Bytes) (p : Plan) (v : BVal) (hv : getCount p.byteFreqs v ≠ 1) :
    ∀ (ops : List Comp) (ss : List Site), classifyAll sha ops = .ok ss →
    (byteVals ss).count v ≤ ((ops.zip (rewriteAll p ops ss)).countP (usesAt sha true (idxOf v p.sortedBytes)))
  | [], ss, h => by simp [classifyAll] at h; subst h; simp [byteVals]
  | c0 :: cs, ss, h => by
    unfold classifyAll at h
    split at h
    · cases h
    · rename_i s0 hs0
      split at h
      · cases h
      · rename_i ss' h'
        cases h
        have ih := count_byte_sites sha p v hv cs ss' h'
        simp only [rewriteAll, List.zip_cons_cons, List.countP_cons]
        by_cases e : s0 = .byt v
        · subst e
          obtain ⟨name, args, rfl⟩ := classify_raw_or_op hs0 (by simp)
          have : usesAt sha true (idxOf v p.sortedBytes) (Comp.op name args, rewriteOne p (Comp.op name args) (Site.byt v)) = true := by
            simp [usesAt, hs0, rewriteOne, hv, refOf_byteRef]
          simp only [byteVals, List.count_cons_self, this, if_true]
          omega
        · have : (byteVals (s0 :: ss')).count v = (byteVals ss').count v := by
            cases s0 with
            | none => simp [byteVals]
            | int b => simp [byteVals]
            | byt v' =>
              have : v' ≠ v := fun e' => e (by rw [e'])
              simp [byteVals, this]
          rw [this]; omega

/-! ### Property theorems -/

/-- **constants_sound.**  For every op list on which `createConstantBlocks` returns: at every
    position whose original component loads a constant `v` (int / byte / addr / method, number,
    bytes or template name), the component emitted at that position — `intc_k`, `intc k`,
    `pushint`, `bytec_k`, `bytec k` or `pushbytes`, decoded against the arguments of the emitted
    blocks — loads exactly `v`. -/
theorem constants_sound (sha : Bytes → Bytes) (ops : List Comp) (r : Result)
    (h : createConstantBlocks sha ops = .ok r) (i : Nat) (c : Comp) (v : Site)
    (hc : ops[i]? = some c) (hv : valueOf sha c = .ok v) (hne : v ≠ .none) :
    ∃ d, r.body[i]? = some d ∧ valueAt r.intBlock r.byteBlock d = some v := by
  unfold createConstantBlocks at h
  split at h
  · cases h
  · rename_i ss hss
    cases h
    obtain ⟨s, hs, hcs, hb⟩ := body_get sha (mkPlan ss) ops ss hss i c hc
    have : s = v := by
      unfold valueOf at hv; rw [hcs] at hv; cases hv; rfl
    subst this
    refine ⟨_, hb, ?_⟩
    obtain ⟨name, args, rfl⟩ := classify_raw_or_op hcs hne
    cases s with
    | none => exact absurd rfl hne
    | int iv =>
      simp only [rewriteOne, build]
      split
      · rename_i hin
        rw [valueAt_intRef, List.getElem?_map, idxOf_get hin]
        cases iv <;> rfl
      · cases iv <;> simp [valueAt, IVal.arg, argIVal]
    | byt bv =>
      have hwf := classify_byt_wf hcs
      simp only [rewriteOne, build]
      split
      · simp [valueAt, argBVal_encode bv hwf]
      · rename_i h1
        obtain ⟨e, _⟩ := byte_index_in_block ss bv (mem_byteVals hs) h1
        rw [valueAt_byteRef, List.getElem?_map, e]
        simp [argBVal_encode bv hwf]

/-- **index_in_block.**  Every block reference emitted at a constant site (`intc_k`, `intc k`,
    `bytec_k`, `bytec k`) points inside the block that was emitted. -/
theorem index_in_block (sha : Bytes → Bytes) (ops : List Comp) (r : Result)
    (h : createConstantBlocks sha ops = .ok r) (i : Nat) (c d : Comp) (v : Site)
    (hc : ops[i]? = some c) (hv : valueOf sha c = .ok v) (hne : v ≠ .none)
    (hd : r.body[i]? = some d) (isB : Bool) (k : Nat) (hk : refOf d = some (isB, k)) :
    k < (if isB then r.byteBlock.length else r.intBlock.length) := by
  unfold createConstantBlocks at h
  split at h
  · cases h
  · rename_i ss hss
    cases h
    obtain ⟨s, hs, hcs, hb⟩ := body_get sha (mkPlan ss) ops ss hss i c hc
    have : s = v := by
      unfold valueOf at hv; rw [hcs] at hv; cases hv; rfl
    subst this
    have hd' : d = rewriteOne (mkPlan ss) c s := by
      simp only [build] at hd; rw [hb] at hd; cases hd; rfl
    subst hd'
    obtain ⟨name, args, rfl⟩ := classify_raw_or_op hcs hne
    cases s with
    | none => exact absurd rfl hne
    | int iv =>
      simp only [rewriteOne] at hk
      split at hk
      · rename_i hin
        rw [refOf_intRef] at hk; cases hk
        simpa [build] using idxOf_lt hin
      · simp [refOf] at hk
    | byt bv =>
      simp only [rewriteOne] at hk
      split at hk
      · simp [refOf] at hk
      · rename_i h1
        rw [refOf_byteRef] at hk; cases hk
        simpa [build] using (byte_index_in_block ss bv (mem_byteVals hs) h1).2

theorem rewriteOne_none (p : Plan) (c : Comp) : rewriteOne p c .none = c := by
  cases c <;> rfl

/-- **nonconstant_ops_preserved.**  The output is the (at most two) block declarations followed by
    exactly one component per input component, in the same order; every component that is not a
    constant load (`int`/`byte`/`addr`/`method`) is passed through unchanged. -/
theorem nonconstant_ops_preserved (sha : Bytes → Bytes) (ops : List Comp) (r : Result)
    (h : createConstantBlocks sha ops = .ok r) :
    r.body.length = ops.length ∧
    (∀ (i : Nat) (c : Comp), ops[i]? = some c → valueOf sha c = .ok .none → r.body[i]? = some c) ∧
    (∃ blocks : List Comp, r.assembled = blocks ++ r.body ∧ blocks.length ≤ 2 ∧
      ∀ b ∈ blocks, b = .op "intcblock" r.intBlock ∨ b = .op "bytecblock" r.byteBlock) := by
  unfold createConstantBlocks at h
  split at h
  · cases h
  · rename_i ss hss
    cases h
    refine ⟨?_, ?_, ?_⟩
    · exact rewriteAll_length _ ops ss (classifyAll_length sha ops ss hss)
    · intro i c hc hv
      obtain ⟨s, _, hcs, hb⟩ := body_get sha (mkPlan ss) ops ss hss i c hc
      unfold valueOf at hv; rw [hcs] at hv; cases hv
      simpa [build, rewriteOne_none] using hb
    · refine ⟨_, rfl, ?_, ?_⟩
      · simp only [List.length_append]; split <;> split <;> simp
      · intro b hb
        simp only [List.mem_append] at hb
        rcases hb with hb | hb
        · split at hb
          · simp at hb
          · simp at hb; exact Or.inl hb
        · split at hb
          · simp at hb
          · simp at hb; exact Or.inr hb

/-- the rewritten constant sites keep the original arguments as a trailing `// …` comment -/
theorem site_comment (sha : Bytes → Bytes) (ops : List Comp) (r : Result)
    (h : createConstantBlocks sha ops = .ok r) (i : Nat) (name : String) (args : List Arg) (v : Site)
    (hc : ops[i]? = some (.op name args)) (hv : valueOf sha (.op name args) = .ok v) (hne : v ≠ .none) :
    ∃ name' pre, r.body[i]? = some (.op name' (pre ++ commentArgs args)) ∧ pre.length ≤ 1 := by
  unfold createConstantBlocks at h
  split at h
  · cases h
  · rename_i ss hss
    cases h
    obtain ⟨s, hs, hcs, hb⟩ := body_get sha (mkPlan ss) ops ss hss i _ hc
    have : s = v := by
      unfold valueOf at hv; rw [hcs] at hv; cases hv; rfl
    subst this
    simp only [build]
    rw [hb]
    cases s with
    | none => exact absurd rfl hne
    | int iv =>
      simp only [rewriteOne]
      split
      · unfold intRef
        split; · exact ⟨_, [], rfl, by simp⟩
        split; · exact ⟨_, [], rfl, by simp⟩
        split; · exact ⟨_, [], rfl, by simp⟩
        split; · exact ⟨_, [], rfl, by simp⟩
        exact ⟨_, [_], rfl, by simp⟩
      · exact ⟨_, [_], rfl, by simp⟩
    | byt bv =>
      simp only [rewriteOne]
      split
      · exact ⟨_, [_], rfl, by simp⟩
      · unfold byteRef
        split; · exact ⟨_, [], rfl, by simp⟩
        split; · exact ⟨_, [], rfl, by simp⟩
        split; · exact ⟨_, [], rfl, by simp⟩
        split; · exact ⟨_, [], rfl, by simp⟩
        exact ⟨_, [_], rfl, by simp⟩

/-- **blocks_only_if_used.**  A block is declared only when it is non-empty, and every entry of a
    declared block is referenced (by index) from at least two constant-load sites of the output. -/
theorem blocks_only_if_used (sha : Bytes → Bytes) (ops : List Comp) (r : Result)
    (h : createConstantBlocks sha ops = .ok r) :
    (Comp.op "intcblock" r.intBlock ∈ (r.assembled.take (r.assembled.length - r.body.length)) → r.intBlock ≠ []) ∧
    (Comp.op "bytecblock" r.byteBlock ∈ (r.assembled.take (r.assembled.length - r.body.length)) → r.byteBlock ≠ []) ∧
    (∀ k, k < r.intBlock.length → 2 ≤ (ops.zip r.body).countP (usesAt sha false k)) ∧
    (∀ k, k < r.byteBlock.length → 2 ≤ (ops.zip r.body).countP (usesAt sha true k)) := by
  have hpre : r.assembled.take (r.assembled.length - r.body.length) =
      (if r.intBlock.isEmpty then [] else [Comp.op "intcblock" r.intBlock]) ++
      (if r.byteBlock.isEmpty then [] else [Comp.op "bytecblock" r.byteBlock]) := by
    unfold Result.assembled
    simp only [List.length_append, Nat.add_sub_cancel]
    exact List.take_left' (by simp)
  rw [hpre]
  refine ⟨?_, ?_, ?_, ?_⟩
  · intro hm e
    simp [e] at hm
  · intro hm e
    simp [e] at hm
  · intro k hk
    unfold createConstantBlocks at h
    split at h
    · cases h
    · rename_i ss hss
      cases h
      simp only [build, List.length_map] at hk ⊢
      have hPib : (mkPlan ss).intBlock = intBlockFrom 0 (sortDesc (freqs (intVals ss))) := rfl
      obtain ⟨v, hvk⟩ : ∃ v, (mkPlan ss).intBlock[k]? = some v := ⟨(mkPlan ss).intBlock[k], by simp [hk]⟩
      have hmem : v ∈ (mkPlan ss).intBlock := List.mem_of_getElem? hvk
      obtain ⟨c, hc1, hc2⟩ := mem_intBlockFrom _ _ _ (hPib ▸ hmem)
      have hcnt := getCount_of_mem (nodup_freqs (intVals ss)) ((mem_sortDesc _ _).mp hc2)
      rw [getCount_freqs] at hcnt
      have hnd : (mkPlan ss).intBlock.Nodup :=
        (hPib ▸ intBlockFrom_sublist _ 0).nodup (nodup_keys_sortDesc _ (nodup_freqs _))
      have hidx := idxOf_of_get hnd hvk
      have := count_int_sites sha (mkPlan ss) v hmem ops ss hss
      rw [hidx] at this
      omega
  · intro k hk
    unfold createConstantBlocks at h
    split at h
    · cases h
    · rename_i ss hss
      cases h
      simp only [build, List.length_map] at hk ⊢
      have hPbb : (mkPlan ss).byteBlock = keys ((sortDesc (freqs (byteVals ss))).filter (fun p => p.2 > 1)) := rfl
      obtain ⟨v, hvk⟩ : ∃ v, (mkPlan ss).byteBlock[k]? = some v := ⟨(mkPlan ss).byteBlock[k], by simp [hk]⟩
      have hmem : v ∈ (mkPlan ss).byteBlock := List.mem_of_getElem? hvk
      rw [hPbb] at hmem
      obtain ⟨⟨v', c⟩, hf, hveq⟩ := List.mem_map.mp hmem
      simp only at hveq; subst hveq
      have hf' := List.mem_filter.mp hf
      have hc1 : 1 < c := by simpa using hf'.2
      have hcnt := getCount_of_mem (nodup_freqs (byteVals ss)) ((mem_sortDesc _ _).mp hf'.1)
      have hne1 : getCount (mkPlan ss).byteFreqs v' ≠ 1 := by
        show getCount (freqs (byteVals ss)) v' ≠ 1
        omega
      rw [getCount_freqs] at hcnt
      have hmv : v' ∈ byteVals ss := List.count_pos_iff.mp (by omega)
      have hnd : (mkPlan ss).byteBlock.Nodup := by
        rw [hPbb]
        exact ((List.filter_sublist).map _).nodup (nodup_keys_sortDesc _ (nodup_freqs _))
      obtain ⟨e1, _⟩ := byte_index_in_block ss v' hmv hne1
      have hidx : idxOf v' (mkPlan ss).sortedBytes = k := by
        have h1 := idxOf_of_get hnd e1
        have h2 := idxOf_of_get hnd hvk
        omega
      have := count_byte_sites sha (mkPlan ss) v' hne1 ops ss hss
      rw [hidx] at this
      omega

/-
  **index_fits** (full statement — FALSE of the unchanged code, see `index_fits_counterexample`):

    theorem index_fits (sha ops r) (h : createConstantBlocks sha ops = .ok r) (i c d v)
        (hc : ops[i]? = some c) (hv : valueOf sha c = .ok v) (hne : v ≠ .none)
        (hd : r.body[i]? = some d) (isB k) (hk : refOf d = some (isB, k)) : k < 256

  `intc`/`bytec` take a one-byte immediate; `createConstantBlocks` never checks that the index it
  emits fits.  What holds is the restriction to blocks of at most 256 entries.
-/

/-- **index_fits_partial.**  When neither emitted block has more than 256 entries, every block
    reference emitted at a constant site fits the one-byte immediate of `intc`/`bytec`. -/
theorem index_fits_partial (sha : Bytes → Bytes) (ops : List Comp) (r : Result)
    (h : createConstantBlocks sha ops = .ok r)
    (hib : r.intBlock.length ≤ 256) (hbb : r.byteBlock.length ≤ 256)
    (i : Nat) (c d : Comp) (v : Site)
    (hc : ops[i]? = some c) (hv : valueOf sha c = .ok v) (hne : v ≠ .none)
    (hd : r.body[i]? = some d) (isB : Bool) (k : Nat) (hk : refOf d = some (isB, k)) : k < 256 := by
  have := index_in_block sha ops r h i c d v hc hv hne hd isB k hk
  cases isB <;> simp at this <;> omega

theorem intBlockFrom_all : ∀ (vs : List IVal) (i : Nat), (∀ v ∈ vs, v.inBlockAnyway = true) →
    intBlockFrom i (vs.map (fun v => (v, 2))) = vs
  | [], _, _ => rfl
  | v :: r, i, h => by
    have hv := h v (by simp)
    simp [intBlockFrom, hv, intBlockFrom_all r (i + 1) (fun w hw => h w (by simp [hw]))]

def mkInt (n : Int) : Comp := .op "int" [.num n]

theorem classifyAll_ints (sha : Bytes → Bytes) : ∀ m : List Int,
    classifyAll sha (m.map mkInt) = .ok (m.map (fun n => Site.int (.num n)))
  | [] => rfl
  | n :: r => by
    simp [classifyAll, classifyAll_ints sha r, classify, mkInt, extractInt, Except.map]

theorem intVals_ints : ∀ m : List Int, intVals (m.map (fun n => Site.int (.num n))) = m.map IVal.num
  | [] => rfl
  | n :: r => by simp [intVals, intVals_ints r]

theorem rewriteAll_map (p : Plan) (f : Int → Comp) (g : Int → Site) : ∀ m : List Int,
    rewriteAll p (m.map f) (m.map g) = m.map (fun n => rewriteOne p (f n) (g n))
  | [] => rfl
  | n :: r => by simp [rewriteAll, rewriteAll_map p f g r]

/-- distinct integers ≥ 128, each loaded twice: the `j`-th one is loaded through index `j`, whatever `j` is -/
theorem doubled_ints (sha : Bytes → Bytes) (l : List Int) (hn : l.Nodup) (hbig : ∀ n ∈ l, 128 ≤ n) :
    ∃ r, createConstantBlocks sha ((l ++ l).map mkInt) = .ok r ∧
      ∀ (j : Nat) (n : Int), l[j]? = some n → r.body[j]? = some (intRef j [.num n]) := by
  refine ⟨_, by simp only [createConstantBlocks, classifyAll_ints]; rfl, ?_⟩
  intro j n hj
  have hvs : (l.map IVal.num).Nodup :=
    List.Pairwise.map IVal.num (fun a b (h : a ≠ b) => fun e => h (by cases e; rfl)) hn
  have hib : (mkPlan ((l ++ l).map (fun n => Site.int (.num n)))).intBlock = l.map IVal.num := by
    simp only [mkPlan]
    rw [intVals_ints, List.map_append]
    rw [freqs_doubled _ hvs, sortDesc_const 2 _ (by simp), intBlockFrom_all]
    intro v hv
    obtain ⟨n, hn', rfl⟩ := List.mem_map.mp hv
    simpa [IVal.inBlockAnyway] using hbig n hn'
  simp only [build, rewriteAll_map]
  rw [List.getElem?_map, List.getElem?_append_left (by
    have := (List.getElem?_eq_some_iff.mp hj).1; exact this), hj]
  simp only [Option.map_some, mkInt, rewriteOne, hib]
  have hmem : IVal.num n ∈ l.map IVal.num := List.mem_map.mpr ⟨n, List.mem_of_getElem? hj, rfl⟩
  have hidx : idxOf (IVal.num n) (l.map IVal.num) = j :=
    idxOf_of_get hvs (by rw [List.getElem?_map, hj]; rfl)
  simp [hmem, hidx]


/-- 257 distinct integers ≥ 128 (1000 … 1256) -/
def cexInts : List Int := (List.range 257).map (fun (i : Nat) => 1000 + (i : Int))

/-- the failing input: each of them loaded once, then each of them loaded again (514 `int` ops) -/
def cexOps : List Comp := (cexInts ++ cexInts).map mkInt

def noSha : Bytes → Bytes := fun _ => []

theorem range_ints_nodup (N : Nat) : ((List.range N).map (fun (i : Nat) => 1000 + (i : Int))).Nodup :=
  List.Pairwise.map _ (fun a b (h : a ≠ b) => by omega) List.nodup_range

/-- **index_fits_counterexample.**  On 257 distinct repeated integers the model (like the code)
    returns normally and emits `intc 256 // 1256` at a constant site: a block reference that does
    not fit the one-byte immediate.  (The harness replays this input on the real code.) -/
theorem index_fits_counterexample :
    ∃ (r : Result) (i : Nat) (c d : Comp) (v : Site) (isB : Bool) (k : Nat),
      createConstantBlocks noSha cexOps = .ok r ∧ cexOps[i]? = some c ∧ valueOf noSha c = .ok v ∧ v ≠ .none ∧
      r.body[i]? = some d ∧ d = .op "intc" [.num 256, .str "//", .num 1256] ∧
      refOf d = some (isB, k) ∧ ¬ k < 256 := by
  obtain ⟨r, hr, hb⟩ := doubled_ints noSha cexInts (range_ints_nodup 257)
    (by intro n hn; simp [cexInts] at hn; omega)
  have h256 : cexInts[256]? = some 1256 := by simp [cexInts]
  refine ⟨r, 256, mkInt 1256, .op "intc" [.num 256, .str "//", .num 1256], .int (.num 1256), false, 256,
    hr, ?_, ?_, by simp, ?_, rfl, by simp [refOf], by omega⟩
  · simp only [cexOps, List.getElem?_map]
    rw [List.getElem?_append_left (by simp [cexInts]), h256]; rfl
  · simp [valueOf, classify, mkInt, extractInt, Except.map]
  · rw [hb 256 1256 h256]; simp [intRef, commentArgs]

/-- the index is in fact unbounded: for every bound `N` some op list makes the model emit a block
    reference ≥ `N` -/
theorem index_unbounded (N : Nat) :
    ∃ (ops : List Comp) (r : Result) (i : Nat) (d : Comp) (k : Nat),
      createConstantBlocks noSha ops = .ok r ∧ r.body[i]? = some d ∧ refOf d = some (false, k) ∧ N ≤ k := by
  let l : List Int := (List.range (N + 1)).map (fun (i : Nat) => 1000 + (i : Int))
  obtain ⟨r, hr, hb⟩ := doubled_ints noSha l (range_ints_nodup (N + 1))
    (by intro n hn; simp [l] at hn; omega)
  have hN : l[N]? = some (1000 + (N : Int)) := by simp [l]
  exact ⟨_, r, N, _, N, hr, hb N _ hN, refOf_intRef _ _, Nat.le_refl _⟩


/-! ### Link to the independent TEAL grammar, non-vacuity -/

/-- **encode_grammar.**  The spelling `createConstantBlocks` gives a byte value in `bytecblock` /
    `pushbytes` (`"0x" + b.hex()`), read by the independent TEAL grammar `Avm.parseBytesLit`, is `b`. -/
theorem encode_grammar (b : Bytes) : Avm.parseBytesLit [(BVal.bytes b).encode] = some (b, []) := by
  unfold Avm.parseBytesLit
  simp [BVal.encode, unhex, hex, unhex_hex]

/-- a small mixed input: `"a"`, `0x61` and `base64(YQ==)` are one byte constant used three times;
    `1` and `pay` are one int constant used twice; `5` and `TMPL_X` are used once -/
def demoOps : List Comp :=
  [.op "byte" [.str "\"a\""], .op "int" [.num 1], .raw "l0:", .op "byte" [.str "0x61"], .op "int" [.str "pay"],
   .op "pop" [], .op "int" [.num 5], .op "byte" [.str "base64(YQ==)"], .op "int" [.str "TMPL_X"]]

def demoResult : Result :=
  { intBlock := [.num 1], byteBlock := [.str "0x61"],
    body := [.op "bytec_0" [.str "//", .str "\"a\""], .op "intc_0" [.str "//", .num 1], .raw "l0:",
             .op "bytec_0" [.str "//", .str "0x61"], .op "intc_0" [.str "//", .str "pay"], .op "pop" [],
             .op "pushint" [.num 5, .str "//", .num 5], .op "bytec_0" [.str "//", .str "base64(YQ==)"],
             .op "pushint" [.str "TMPL_X", .str "//", .str "TMPL_X"]] }

def okIs (x : Except Exc Result) (r : Result) : Bool :=
  match x with
  | .ok r' => decide (r' = r)
  | .error _ => false

theorem okIs_spec {x : Except Exc Result} {r : Result} (h : okIs x r = true) : x = .ok r := by
  cases x with
  | error e => simp [okIs] at h
  | ok r' => simp [okIs] at h; rw [h]

theorem demo_runs : createConstantBlocks noSha demoOps = .ok demoResult :=
  okIs_spec (by decide +kernel)

/-- non-vacuity: the hypotheses of `constants_sound` / `index_in_block` / `nonconstant_ops_preserved`
    are met by `demoOps` (a byte constant in three spellings, an enum, a template, a label) -/
example : ∃ d, demoResult.body[7]? = some d ∧
    valueAt demoResult.intBlock demoResult.byteBlock d = some (.byt (.bytes [97])) :=
  constants_sound noSha demoOps demoResult demo_runs 7 (.op "byte" [.str "base64(YQ==)"]) _ rfl
    (by rfl) (by simp)

end PyTealV.Proofs.C12
